// C07, matrix inversion part: inverse() / inverse(bool) / invert() / invert(bool) for Matrix22/33/44 and
// gjInverse() / gjInverse(bool) / gjInvert() / gjInvert(bool) for Matrix33/44, float and double.
//
// Alphabets
//   lattice : the C06 alphabets - integer lattices x power-of-two scalings 2^k (k graded, on both sides of
//             |det| = 1 and far enough out that determinant and cofactors underflow/overflow, which drives
//             the "singular" branch with non-zero cofactors); affine and non-affine last column; affine with
//             the last column perturbed by one ulp.
//   guard   : permuted diagonal matrices  M[i][p(i)] = d_i, d_i from a boundary alphabet G around min, 1, 1/min,
//             max - these put every cofactor slot (i,j) of every unrolled copy on both sides, to the ulp, of
//             "abs(r) >= 1" and of "mr > abs(s[i][j])" (for a diagonal matrix that is d vs numeric_limits::min).
// Oracle (differential; no expected values)
//   * f(false) and the in-place forms are bitwise equal to f();
//   * f(true) returns  => bitwise equal to f();   f(true) throws => typeid == std::invalid_argument and f()
//     returned exactly the identity;   f() returned the identity for a matrix that differs from the identity by
//     >= 1/4 in some entry (that is how the unchecked form reports "singular")  => f(true) throws;
//   * where the exact inverse is known (lattice: adjugate/determinant in __int128, scaled; permuted diagonal:
//     1/d_i) and every cofactor/determinant product is exactly representable:  a throw from a determinant-based
//     path requires det == 0 or max |exact inverse entry| >= max/4;  det != 0 and max |entry| <= max/8 => no
//     form throws;  det == 0 => the determinant-based path throws;  Gauss-Jordan must throw where a zero pivot
//     is provable in floating point (zero row, zero column, two identical rows).
//   * the "must fire" direction (audit2 C07 S1): det != 0 and an exact cofactor/determinant quotient formed by the
//     determinant-based path >= 2^(emax+1), i.e. beyond every finite number of the type ("the matrix cannot be
//     inverted", ImathMatrix.h on singExc; C06: "a determinant so small that dividing the cofactors by it would
//     overflow")  =>  the unchecked form reports failure (identity) and the checked form throws.  Alphabet `overflow`:
//     M = diag(2^r) L diag(2^c), L an integer lattice matrix, one row / one column / one row and one column (of the
//     block, for the affine family) scaled by 2^-b with b on both sides of the thresholds max/4 and 2^(emax+1); all
//     entries, cofactors and the determinant stay exactly representable (every term of a determinant of such a
//     matrix carries the same power of two).  Gauss-Jordan has no overflow guard and is not run on that alphabet.
#include "c07_common.hpp"
#include "c08_alpha.hpp" // c08::Site / C0X_FAIL
#include <ImathMatrix.h>

using namespace vf;
using namespace IMATH_NAMESPACE;

namespace c07 {
namespace {

template <class T, int N> struct Mat;
template <class T> struct Mat<T, 2> { typedef Matrix22<T> type; static constexpr bool gj = false; };
template <class T> struct Mat<T, 3> { typedef Matrix33<T> type; static constexpr bool gj = true; };
template <class T> struct Mat<T, 4> { typedef Matrix44<T> type; static constexpr bool gj = true; };

template <class M, int N> bool same_mat (const M& a, const M& b)
{
    for (int i = 0; i < N; ++i)
        for (int j = 0; j < N; ++j)
            if (!same_bits (a[i][j], b[i][j])) return false;
    return true;
}
template <class M, int N> bool is_identity (const M& a)
{
    for (int i = 0; i < N; ++i)
        for (int j = 0; j < N; ++j)
            if (!(a[i][j] == (i == j ? 1 : 0))) return false;
    return true;
}
template <class T, class M, int N> std::string show_mat (const M& a)
{
    Msg m;
    m << "Matrix" << N << N << "<" << tname<T> () << ">{";
    for (int i = 0; i < N; ++i)
        for (int j = 0; j < N; ++j) { if (i || j) m << ", "; m << a[i][j]; }
    m << "}";
    return m.str ();
}

struct Info
{
    bool        exact      = false; // exact inverse known and every intermediate product exactly representable
    bool        singular   = false; // exact determinant == 0 (only meaningful if exact)
    long double maxq       = 0;     // max |exact inverse entry| (if exact && !singular)
    bool        gj_provable = false; // zero row / zero column / two identical rows
    long double maxq_div   = -1;    // max |exact quotient| among the quotients the determinant-based path forms (affine: the block); < 0: same as maxq
};

struct ITally
{
    long long states = 0, transitions = 0;
    long long c_singular_exact = 0, c_nonsingular_exact = 0, c_affine = 0, c_general = 0, c_threw_det = 0, c_threw_gj = 0, c_gj_provable = 0,
              c_unchecked_identity_far = 0, c_guard_quotient_ge_quarter_max = 0, c_inexact = 0, c_must_fire = 0, c_must_fire_affine = 0, c_below_quarter_tiny_det = 0;
    void add (const ITally& o)
    {
        states += o.states; transitions += o.transitions; c_singular_exact += o.c_singular_exact; c_nonsingular_exact += o.c_nonsingular_exact;
        c_affine += o.c_affine; c_general += o.c_general; c_threw_det += o.c_threw_det; c_threw_gj += o.c_threw_gj; c_gj_provable += o.c_gj_provable;
        c_unchecked_identity_far += o.c_unchecked_identity_far; c_guard_quotient_ge_quarter_max += o.c_guard_quotient_ge_quarter_max; c_inexact += o.c_inexact;
        c_must_fire += o.c_must_fire; c_must_fire_affine += o.c_must_fire_affine; c_below_quarter_tiny_det += o.c_below_quarter_tiny_det;
    }
};

template <class T, int N> struct InvChecker
{
    typedef typename Mat<T, N>::type M;
    const std::string                pfx = std::string ("Matrix") + char ('0' + N) + char ('0' + N) + "<" + tname<T> () + ">::";
    const long double                TM  = (long double) tmax<T> ();
    const long double                HI  = ldexpl (1, std::numeric_limits<T>::max_exponent); // 2^(emax+1): beyond every finite T

    static bool affine (const M& m)
    {
        if (N == 2) return false;
        for (int i = 0; i < N - 1; ++i)
            if (m[i][N - 1] != 0) return false;
        return m[N - 1][N - 1] == 1;
    }

    // One family (value form `inv`, flag form `invb`, in-place `ip`, in-place flag `ipb`)
    template <class FInv, class FInvB, class FIp, class FIpB>
    void family (const char* nm, const char* ipnm, const M& m, const Info& info, bool det_based, bool far, ITally& t, FInv inv, FInvB invb, FIp ip, FIpB ipb,
                 long long& threw_counter) const
    {
        const std::string f = pfx + nm, fi = pfx + ipnm;
        const M           U = inv (m);
        const bool        U_id = is_identity<M, N> (U);
        if (U_id && far) ++t.c_unchecked_identity_far;
        // flag = false is the same function as the flag-less form
        {
            M F = invb (m, false);
            if (!same_mat<M, N> (F, U)) C0X_FAIL (f + "(false).bitwise-vs-" + nm + "()", (show_mat<T, M, N> (m)), (show_mat<T, M, N> (U)), (show_mat<T, M, N> (F)));
            M A = m; ip (A);
            if (!same_mat<M, N> (A, U)) C0X_FAIL (fi + "().bitwise-vs-" + nm + "()", (show_mat<T, M, N> (m)), (show_mat<T, M, N> (U)), (show_mat<T, M, N> (A)));
            M B = m; ipb (B, false);
            if (!same_mat<M, N> (B, U)) C0X_FAIL (fi + "(false).bitwise-vs-" + nm + "()", (show_mat<T, M, N> (m)), (show_mat<T, M, N> (U)), (show_mat<T, M, N> (B)));
            t.transitions += 3;
        }
        // checked value form
        M   C;
        int th = run_checked ([&] { C = invb (m, true); });
        ++t.transitions;
        if (th == NONE)
        {
            if (!same_mat<M, N> (C, U)) C0X_FAIL (f + "(true).bitwise-vs-" + nm + "()", (show_mat<T, M, N> (m)), (show_mat<T, M, N> (U)), (show_mat<T, M, N> (C)));
            else if (U_id && far)
                C0X_FAIL (f + "(true).no-throw-when-" + nm + "()-reports-singular", (show_mat<T, M, N> (m)), "std::invalid_argument", "returned the identity");
        }
        else
        {
            ++threw_counter;
            if (th != INVALID_ARGUMENT) C0X_FAIL (f + "(true).exception-type", (show_mat<T, M, N> (m)), "std::invalid_argument", thrown_name (th));
            if (!U_id) C0X_FAIL (f + "(true).throws-but-" + nm + "()-returns-a-result", (show_mat<T, M, N> (m)), (show_mat<T, M, N> (U)), thrown_name (th));
        }
        // checked in-place form: same outcome as the checked value form
        {
            M   A   = m;
            int th2 = run_checked ([&] { ipb (A, true); });
            ++t.transitions;
            if ((th2 == NONE) != (th == NONE))
                C0X_FAIL (fi + "(true).throw-iff-" + nm + "(true)-throws", (show_mat<T, M, N> (m)), thrown_name (th), thrown_name (th2));
            else if (th2 == NONE)
            {
                if (!same_mat<M, N> (A, U)) C0X_FAIL (fi + "(true).bitwise-vs-" + nm + "()", (show_mat<T, M, N> (m)), (show_mat<T, M, N> (U)), (show_mat<T, M, N> (A)));
            }
            else if (th2 != INVALID_ARGUMENT) C0X_FAIL (fi + "(true).exception-type", (show_mat<T, M, N> (m)), "std::invalid_argument", thrown_name (th2));
        }
        // relations that need the exact inverse
        if (info.exact)
        {
            if (th != NONE)
            {
                if (!(info.singular || info.maxq >= TM / 4))
                {
                    if (det_based)
                        C0X_FAIL (f + "(true).guard-fires-below-max/4", (show_mat<T, M, N> (m)), Msg () << "no exception: max |exact inverse entry| = " << info.maxq, thrown_name (th));
                    else
                        C0X_FAIL (f + "(true).throws-on-nonsingular", (show_mat<T, M, N> (m)), Msg () << "no exception: max |exact inverse entry| = " << info.maxq, thrown_name (th));
                }
            }
            else
            {
                if (info.singular && det_based)
                    C0X_FAIL (f + "(true).no-throw-on-exactly-singular", (show_mat<T, M, N> (m)), "std::invalid_argument (exact determinant is 0)", (show_mat<T, M, N> (C)));
            }
            if (!info.singular && info.maxq <= TM / 8 && th != NONE)
                C0X_FAIL (f + "(true).throws-on-well-conditioned", (show_mat<T, M, N> (m)), Msg () << "no exception: max |exact inverse entry| = " << info.maxq, thrown_name (th));
            // must fire: a quotient of the determinant-based path exceeds every finite number of the type
            const long double qd = info.maxq_div >= 0 ? info.maxq_div : info.maxq;
            if (det_based && !info.singular && qd >= HI)
            {
                if (!U_id)
                    C0X_FAIL (f + "().overflowing-quotient-not-reported-singular", (show_mat<T, M, N> (m)), Msg () << "identity: exact |cofactor/determinant| reaches " << qd, (show_mat<T, M, N> (U)));
                if (th == NONE)
                    C0X_FAIL (f + "(true).no-throw-on-overflowing-quotient", (show_mat<T, M, N> (m)), Msg () << "std::invalid_argument: exact |cofactor/determinant| reaches " << qd, (show_mat<T, M, N> (C)));
            }
        }
        if (!det_based && info.gj_provable && th == NONE)
            C0X_FAIL (f + "(true).no-throw-on-provable-zero-pivot", (show_mat<T, M, N> (m)), "std::invalid_argument (zero row / zero column / identical rows)", (show_mat<T, M, N> (C)));
    }

    template <int K = N> typename std::enable_if<(K >= 3)>::type gj_family (const M& m, const Info& info, bool far, ITally& t) const
    {
        family ("gjInverse", "gjInvert", m, info, false, far, t, [] (const M& a) { return a.gjInverse (); }, [] (const M& a, bool e) { return a.gjInverse (e); },
                [] (M& a) { a.gjInvert (); }, [] (M& a, bool e) { a.gjInvert (e); }, t.c_threw_gj);
    }
    template <int K = N> typename std::enable_if<(K < 3)>::type gj_family (const M&, const Info&, bool, ITally&) const {}

    void check (const M& m, const Info& info, ITally& t, bool run_gj = true) const
    {
        ++t.states;
        bool far = false;
        for (int i = 0; i < N; ++i)
            for (int j = 0; j < N; ++j)
                if (std::fabs (m[i][j] - (i == j ? T (1) : T (0))) >= T (0.25)) far = true;
        const bool aff = affine (m);
        if (aff) ++t.c_affine; else ++t.c_general;
        if (!info.exact) ++t.c_inexact;
        else if (info.singular) ++t.c_singular_exact;
        else
        {
            ++t.c_nonsingular_exact;
            if (info.maxq >= TM / 4) ++t.c_guard_quotient_ge_quarter_max;
            if (!(N == 4 && !aff) && (info.maxq_div >= 0 ? info.maxq_div : info.maxq) >= HI) { ++t.c_must_fire; if (aff) ++t.c_must_fire_affine; }
            if (info.maxq_div >= 0 && info.maxq < TM / 4) ++t.c_below_quarter_tiny_det;
        }
        if (info.gj_provable) ++t.c_gj_provable;
        // Matrix44::inverse on a non-affine matrix is documented to fall back to Gauss-Jordan: no overflow guard there
        const bool det_based = !(N == 4 && !aff);
        family ("inverse", "invert", m, info, det_based, far, t, [] (const M& a) { return a.inverse (); }, [] (const M& a, bool e) { return a.inverse (e); },
                [] (M& a) { a.invert (); }, [] (M& a, bool e) { a.invert (e); }, t.c_threw_det);
        if (run_gj) gj_family (m, info, far, t);
    }
};

// ---- exactness bookkeeping for the lattice: M = L * 2^k, L small integers -------------------------------
template <class T, int N> Info lattice_info (const int* L, int k)
{
    Info      inf;
    ex::i128  a[16], adj[16];
    for (int i = 0; i < N * N; ++i) a[i] = L[i];
    ex::i128 det = ex::det_exact (a, N);
    // exactly representable intermediates: integer (|.| < 2^10) x 2^(m k) for m = 1..N
    const int lo = c08::Lim<T>::emin_sub, hi = std::numeric_limits<T>::max_exponent - 12;
    bool      ok = true;
    for (int m = 1; m <= N; ++m)
        if (m * k < lo || m * k > hi) ok = false;
    if (-k < lo + 12 || -k > hi) ok = false; // the inverse entries ~ 2^-k
    inf.exact    = ok;
    inf.singular = (det == 0);
    if (ok && det != 0)
    {
        ex::adj_exact (a, N, adj);
        ex::i128 mx = 0;
        for (int i = 0; i < N * N; ++i) { ex::i128 v = adj[i] < 0 ? -adj[i] : adj[i]; if (v > mx) mx = v; }
        inf.maxq = ldexpl ((long double) mx / (long double) (det < 0 ? -det : det), -k);
    }
    // provable zero pivot
    for (int i = 0; i < N && !inf.gj_provable; ++i)
    {
        bool zr = true, zc = true;
        for (int j = 0; j < N; ++j) { if (L[i * N + j]) zr = false; if (L[j * N + i]) zc = false; }
        if (zr || zc) inf.gj_provable = true;
        for (int i2 = i + 1; i2 < N; ++i2)
        {
            bool eq = true;
            for (int j = 0; j < N; ++j) if (L[i * N + j] != L[i2 * N + j]) eq = false;
            if (eq) inf.gj_provable = true;
        }
    }
    return inf;
}

template <class T, int N> std::vector<int> scales (bool thorough)
{
    // graded; reaches the region where n*k leaves the exponent range (det/cofactors underflow or overflow)
    const int E = -std::numeric_limits<T>::min_exponent + 1; // 126 / 1022
    // quick: |det| >= 1 side, |det| < 1 side, determinant underflows while the cofactors survive (the "singular" branch
    // with non-zero cofactors), everything overflows
    std::vector<int> k = {0, -1, -(E / N) - 3, E / 2 + 3};
    if (thorough)
    {
        int more[] = {1, -2, 2, -13, 13, -(E / N) + 2, -(E / (N > 1 ? N - 1 : 1)) - 2, E / N + 2, -E + 3};
        k.insert (k.end (), more, more + sizeof more / sizeof more[0]);
    }
    std::sort (k.begin (), k.end ());
    k.erase (std::unique (k.begin (), k.end ()), k.end ());
    return k;
}

// all matrices with entries in {lo..hi} (x every scale); `fix_affine`: last column forced to (0,..,0,1) and the
// remaining N*(N-1) entries enumerated, plus the one-ulp perturbations of that column
template <class T, int N> bool run_lattice (const char* what, int lo, int hi, bool fix_affine, const std::vector<int>& ks, ITally& total, uint64_t& count)
{
    typedef typename Mat<T, N>::type M;
    InvChecker<T, N>                 ck;
    const unsigned                   base = (unsigned) (hi - lo + 1);
    const unsigned                   dim  = fix_affine ? N * (N - 1) : N * N;
    const uint64_t                   n    = ex::ipow (base, dim);
    std::mutex                       mu;
    std::atomic<uint64_t>            cnt (0);
    (void) what;
    bool ok = parallel_chunks (n, 4096, [&] (uint64_t b, uint64_t e, unsigned) {
        ITally   t;
        uint64_t c = 0;
        for (uint64_t idx = b; idx < e; ++idx)
        {
            int d[16], L[16];
            ex::decode (idx, base, dim, d, lo);
            if (!fix_affine) for (int i = 0; i < N * N; ++i) L[i] = d[i];
            else
            {
                int q = 0;
                for (int i = 0; i < N; ++i)
                    for (int j = 0; j < N; ++j) L[i * N + j] = (j == N - 1) ? (i == N - 1 ? 1 : 0) : d[q++];
            }
            for (int k : ks)
            {
                // affine family: scaling must not destroy the unit last column, so only the other columns are scaled
                // (M = L * diag(2^k,..,2^k,1)); the exact-inverse claims are then kept for k == 0 only
                M m;
                for (int i = 0; i < N; ++i)
                    for (int j = 0; j < N; ++j)
                        m[i][j] = (fix_affine && j == N - 1) ? T (L[i * N + j]) : std::ldexp (T (L[i * N + j]), k);
                Info inf = lattice_info<T, N> (L, k);
                if (fix_affine && k != 0)
                {   // M = L * diag(2^k,..,2^k,1): det = det(L) 2^((N-1)k); singularity and provable pivots are those of L; magnitude claim dropped
                    inf.exact = false;
                }
                ck.check (m, inf, t);
                ++c;
                if (fix_affine && k == 0)
                {   // one-ulp perturbations of the affine column: same matrix through the general path (differential only)
                    Info none; none.gj_provable = false;
                    for (int v = 0; v < 4; ++v)
                    {
                        M p = m;
                        if (v == 0) p[N - 1][N - 1] = up (T (1));
                        else if (v == 1) p[N - 1][N - 1] = down (T (1));
                        else if (v == 2) p[0][N - 1] = tden<T> ();
                        else p[N - 2][N - 1] = -teps<T> ();
                        ck.check (p, none, t);
                        ++c;
                    }
                }
            }
        }
        cnt += c;
        std::lock_guard<std::mutex> g (mu);
        total.add (t);
    });
    count = cnt.load ();
    return ok;
}

// ---- guard alphabet: permuted diagonal ------------------------------------------------------------------
template <class T> std::vector<T> alpha_g (bool small, bool medium = false)
{
    const int D = std::numeric_limits<T>::digits, E = -std::numeric_limits<T>::min_exponent + 1;
    std::vector<T> g = {T (0), down (tmin<T> ()), tmin<T> (), up (tmin<T> ()), tmin<T> () / 2,
                        down (T (1)), T (1), T (2), std::ldexp (T (1), E), std::ldexp (T (1), E + 1)};
    if (!small && !medium) { g.push_back (tden<T> ()); g.push_back (T (2) * tmin<T> ()); g.push_back (up (T (1))); g.push_back (tmax<T> ()); }
    if (medium)
    {
        std::vector<T> more = {tden<T> (), T (2) * tmin<T> (), up (T (1)), tmax<T> (), T (1.5), std::ldexp (T (1), -std::numeric_limits<T>::digits), std::ldexp (T (1), E - 1), up (std::ldexp (T (1), E))};
        g.insert (g.end (), more.begin (), more.end ());
    }
    else if (!small)
    {
        std::vector<T> more = {std::ldexp (T (1), -1), std::ldexp (T (1), -D), std::ldexp (T (1), -64), std::ldexp (T (1), -E / 2), T (1.5), T (3),
                               std::ldexp (T (1), D), std::ldexp (T (1), 64), std::ldexp (T (1), E / 2), std::ldexp (T (1), E - 1), down (std::ldexp (T (1), E)),
                               up (std::ldexp (T (1), E)), tmax<T> () / 2};
        g.insert (g.end (), more.begin (), more.end ());
    }
    std::sort (g.begin (), g.end ());
    g.erase (std::unique (g.begin (), g.end ()), g.end ());
    return g;
}

template <class T, int N> Info diag_info (const T* d)
{
    Info inf;
    int  nonpow2 = 0;
    bool zero    = false;
    for (int i = 0; i < N; ++i)
    {
        if (d[i] == 0) zero = true;
        else if (!is_pow2_or_zero (d[i])) ++nonpow2;
    }
    inf.singular    = zero;
    inf.gj_provable = zero; // zero row and zero column
    // every product of a subset of the non-zero entries must be exactly representable (at most one entry has a
    // non-trivial mantissa, so the long double product is exact and the round trip through T decides)
    bool ok = nonpow2 <= 1;
    for (unsigned mask = 1; ok && mask < (1u << N); ++mask)
    {
        long double p = 1;
        for (int i = 0; i < N; ++i)
            if (((mask >> i) & 1) && d[i] != 0) p *= (long double) d[i];
        T r = (T) p;
        if (!std::isfinite (r) || (long double) r != p || r == 0) ok = false;
    }
    inf.exact = ok;
    if (ok && !zero)
    {
        long double mq = 0;
        for (int i = 0; i < N; ++i) mq = std::max (mq, 1 / fabsl ((long double) d[i]));
        inf.maxq = mq;
    }
    return inf;
}

template <class T, int N> bool run_guard (const std::vector<T>& G, const std::vector<unsigned>& signmasks, ITally& total, uint64_t& count)
{
    typedef typename Mat<T, N>::type M;
    InvChecker<T, N>                 ck;
    // permutations of N
    std::vector<std::vector<int>> perms;
    {
        std::vector<int> p (N);
        for (int i = 0; i < N; ++i) p[i] = i;
        do perms.push_back (p); while (std::next_permutation (p.begin (), p.end ()));
    }
    const uint64_t        n = ex::ipow (G.size (), N);
    std::mutex            mu;
    std::atomic<uint64_t> cnt (0);
    bool ok = parallel_chunks (n, 256, [&] (uint64_t b, uint64_t e, unsigned) {
        ITally   t;
        uint64_t c = 0;
        for (uint64_t idx = b; idx < e; ++idx)
        {
            int dg[4];
            ex::decode (idx, (unsigned) G.size (), N, dg);
            for (unsigned sm : signmasks)
            {
                T d[4];
                for (int i = 0; i < N; ++i) d[i] = ((sm >> i) & 1) ? -G[dg[i]] : G[dg[i]];
                Info inf = diag_info<T, N> (d);
                for (auto& p : perms)
                {
                    M m;
                    for (int i = 0; i < N; ++i)
                        for (int j = 0; j < N; ++j) m[i][j] = (p[i] == j) ? d[i] : T (0);
                    ck.check (m, inf, t);
                    ++c;
                }
            }
        }
        cnt += c;
        std::lock_guard<std::mutex> g (mu);
        total.add (t);
    });
    count = cnt.load ();
    return ok;
}

// ---- overflow alphabet: M = diag(2^re) L diag(2^ce), non-zero determinant, quotients on both sides of max ----------
// `aff`: L has the unit last column and only its (N-1)x(N-1) block is scaled (the affine fast path).  Families on the
// n x n (block): fam < n: column fam scaled by 2^-b; fam < 2n: row fam-n; else row f/n by 2^-(b/2) and column f%n by
// 2^-(b-b/2) (isolates one quotient).  Only the determinant-based family is run (Gauss-Jordan has no overflow guard).
template <class T, int N> bool run_overflow (int lo, int hi, bool aff, const int* transl, const std::vector<int>& bs, ITally& total, uint64_t& count)
{
    typedef typename Mat<T, N>::type M;
    InvChecker<T, N>                 ck;
    const int                        n    = aff ? N - 1 : N;
    const unsigned                   base = (unsigned) (hi - lo + 1);
    const uint64_t                   nl   = ex::ipow (base, n * n);
    const int                        nfam = 2 * n + n * n;
    const int                        elo = c08::Lim<T>::emin_sub, ehi = std::numeric_limits<T>::max_exponent - 12;
    std::mutex                       mu;
    std::atomic<uint64_t>            cnt (0);
    bool ok = parallel_chunks (nl, 64, [&] (uint64_t b0, uint64_t e0, unsigned) {
        ITally   t;
        uint64_t c = 0;
        for (uint64_t idx = b0; idx < e0; ++idx)
        {
            int d[16], L[16];
            ex::decode (idx, base, n * n, d, lo);
            for (int i = 0; i < N; ++i)
                for (int j = 0; j < N; ++j)
                    L[i * N + j] = (i < n && j < n) ? d[i * n + j] : (j == N - 1 ? (i == N - 1 ? 1 : 0) : transl[j]);
            ex::i128 a[16], adj[16];
            for (int i = 0; i < N * N; ++i) a[i] = L[i];
            const ex::i128 det = ex::det_exact (a, N);
            if (det == 0) continue;
            ex::adj_exact (a, N, adj);
            const long double ad = (long double) (det < 0 ? -det : det);
            for (int fam = 0; fam < nfam; ++fam)
                for (int b : bs)
                {
                    int re[4] = {0, 0, 0, 0}, ce[4] = {0, 0, 0, 0};
                    if (fam < n) ce[fam] = -b;
                    else if (fam < 2 * n) re[fam - n] = -b;
                    else { int f = fam - 2 * n; re[f / n] = -(b / 2); ce[f % n] = -(b - b / 2); }
                    int Rs = 0, Cs = 0;
                    for (int i = 0; i < N; ++i) { Rs += re[i]; Cs += ce[i]; }
                    Info inf;
                    inf.exact = Rs + Cs >= elo && Rs + Cs <= ehi;
                    M m;
                    for (int i = 0; i < N; ++i)
                        for (int j = 0; j < N; ++j)
                        {
                            const int e = re[i] + ce[j], cf = Rs + Cs - re[j] - ce[i];
                            if (e < elo || e > ehi || cf < elo || cf > ehi) inf.exact = false;
                            m[i][j] = (T) std::ldexp ((double) L[i * N + j], e);
                        }
                    // the quotients the determinant-based path forms: all of them, or those of the block on the affine fast path
                    // (a lattice matrix with a unit last column whose last row and column are not scaled takes it as well)
                    const int   nb   = InvChecker<T, N>::affine (m) ? N - 1 : N;
                    long double qall = 0, qdiv = 0;
                    for (int i = 0; i < N; ++i)
                        for (int j = 0; j < N; ++j)
                        {
                            ex::i128    v = adj[i * N + j] < 0 ? -adj[i * N + j] : adj[i * N + j];
                            long double q = ldexpl ((long double) v / ad, -ce[i] - re[j]);
                            if (q > qall) qall = q;
                            if (i < nb && j < nb && q > qdiv) qdiv = q;
                        }
                    inf.singular = false;
                    inf.maxq     = qall;
                    inf.maxq_div = qdiv;
                    ck.check (m, inf, t, false);
                    ++c;
                }
        }
        cnt += c;
        std::lock_guard<std::mutex> g (mu);
        total.add (t);
    });
    count = cnt.load ();
    return ok;
}

void publish_overflow (const char* dim, const ITally& t, bool has_affine)
{
    R ().add ("states", t.states);
    R ().add ("evaluations", t.states);
    R ().add ("transitions", t.transitions);
    std::string d = std::string ("inverse.") + dim + ".";
    R ().cls (d + "nonzero-det.exact-quotient>=2^(emax+1)(must-report-singular)", t.c_must_fire);
    if (has_affine) R ().cls (d + "nonzero-det.exact-quotient>=2^(emax+1).affine-fast-path", t.c_must_fire_affine);
    R ().cls (d + "nonzero-det.tiny-determinant.all-exact-quotients<max/4(must-not-throw)", t.c_below_quarter_tiny_det);
    R ().cls (d + "checked-inverse-threw", t.c_threw_det);
}

void publish (const char* dim, const ITally& t)
{
    R ().add ("states", t.states);
    R ().add ("evaluations", t.states);
    R ().add ("transitions", t.transitions);
    std::string d = std::string ("inverse.") + dim + ".";
    R ().cls (d + "exactly-singular", t.c_singular_exact);
    R ().cls (d + "nonsingular.generic", t.c_nonsingular_exact);
    R ().cls (d + "intermediates-underflow-or-overflow", t.c_inexact);
    if (std::string (dim) != "2x2") { R ().cls (d + "affine-fast-path", t.c_affine); R ().cls (d + "gauss-jordan-threw", t.c_threw_gj); R ().cls (d + "provable-zero-pivot", t.c_gj_provable); }
    R ().cls (d + "general-path", t.c_general);
    R ().cls (d + "checked-inverse-threw", t.c_threw_det);
    R ().cls (d + "unchecked-returned-identity-for-non-identity", t.c_unchecked_identity_far);
}

template <class T> void stage_for_type (bool th)
{
    const std::string tn = tname<T> ();
    const char*       sg = th ? "all 2^N" : "4";
    (void) sg;
    // ---------------- lattices
    if (R ().stage ("inverse.lattice.2x2." + tn))
    {
        ITally t; uint64_t c = 0;
        bool ok = run_lattice<T, 2> ("2x2", -3, 3, false, scales<T, 2> (th), t, c);
        publish ("2x2", t);
        if (ok) R ().stage_done ("all 7^4 matrices over L(3) x " + std::to_string (scales<T, 2> (th).size ()) + " scales 2^k = " + std::to_string (c) + " matrices, 8 forms each");
        else R ().stage_partial (std::to_string (c) + " matrices");
    }
    if (R ().stage ("inverse.lattice.3x3." + tn))
    {
        ITally t; uint64_t c = 0, c2 = 0;
        // thorough: the C06 lattice {0,+-1,+-2}^9; quick: its sub-lattice {-1,0,1,2}^9 (4^9) - the affine family is complete in both
        bool ok = run_lattice<T, 3> ("3x3", th ? -2 : -1, 2, false, scales<T, 3> (th), t, c);
        ok = run_lattice<T, 3> ("3x3 affine", -2, 2, true, scales<T, 3> (th), t, c2) && ok;
        publish ("3x3", t);
        if (ok) R ().stage_done (std::string (th ? "all 5^9 matrices over {0,+-1,+-2} x " : "all 4^9 matrices over {-1,0,1,2} x ") + std::to_string (scales<T, 3> (th).size ()) +
                                 " scales; all 5^6 affine ones over {0,+-1,+-2} x scales + one-ulp perturbations of the affine column = " + std::to_string (c + c2) + " matrices, 16 forms each");
        else R ().stage_partial (std::to_string (c + c2) + " matrices");
    }
    if (R ().stage ("inverse.lattice.4x4." + tn))
    {
        ITally t; uint64_t c = 0, c2 = 0, c3 = 0;
        bool ok = run_lattice<T, 4> ("4x4 0/1", 0, 1, false, scales<T, 4> (th), t, c);
        if (th && std::is_same<T, float>::value)
        {   // the complete 3^16 sweep (unscaled; float only - the entries and every intermediate are small integers, exact in both types)
            ok = run_lattice<T, 4> ("4x4 -1/0/1", -1, 1, false, std::vector<int>{0}, t, c3) && ok;
        }
        ok = run_lattice<T, 4> ("4x4 affine", th ? -1 : 0, 1, true, scales<T, 4> (th), t, c2) && ok;
        publish ("4x4", t);
        std::string w = "all 2^16 0/1 matrices x scales" + std::string (th ? (std::is_same<T, float>::value ? "; all 3^16 {0,+-1} matrices unscaled; all 3^12 affine {0,+-1}" : "; all 3^12 affine {0,+-1}") : "; all 2^12 affine 0/1") +
                        " x scales + one-ulp perturbations = " + std::to_string (c + c2 + c3) + " matrices, 16 forms each";
        if (ok) R ().stage_done (w);
        else R ().stage_partial (w);
    }
    // ---------------- overflowing quotients with a non-zero determinant (must fire)
    {
        const int G = std::numeric_limits<T>::max_exponent - 2; // the library's threshold 1/min = 2^G
        std::vector<int> bs;
        if (th) for (int b = G - 6; b <= G + 8; ++b) bs.push_back (b);
        else bs = {G - 6, G - 1, G, G + 1, G + 2, G + 3, G + 8};
        static const int T0[4] = {0, 0, 0, 0}, T1[4] = {1, -1, 1, 0};
        if (R ().stage ("inverse.overflow.2x2." + tn))
        {
            ITally t; uint64_t c = 0;
            bool ok = run_overflow<T, 2> (-3, 3, false, T0, bs, t, c);
            publish_overflow ("2x2", t, false);
            std::string w = "every non-singular L(3) 2x2 x 8 scaling families x " + std::to_string (bs.size ()) + " exponents b around 2^" + std::to_string (G) + " = " + std::to_string (c) + " matrices, 4 determinant-based forms each";
            if (ok) R ().stage_done (w); else R ().stage_partial (w);
        }
        if (R ().stage ("inverse.overflow.3x3." + tn))
        {
            ITally t; uint64_t c = 0, c2 = 0;
            bool ok = run_overflow<T, 3> (-1, 1, false, T0, bs, t, c);
            ok = run_overflow<T, 3> (-2, 2, true, T1, bs, t, c2) && ok;
            publish_overflow ("3x3", t, true);
            std::string w = "every non-singular {0,+-1} 3x3 x 15 families and every affine 3x3 (block L(2), translation (1,-1)) x 8 families x " + std::to_string (bs.size ()) + " exponents = " + std::to_string (c + c2) + " matrices";
            if (ok) R ().stage_done (w); else R ().stage_partial (w);
        }
        if (R ().stage ("inverse.overflow.4x4." + tn))
        {
            ITally t; uint64_t c = 0;
            bool ok = run_overflow<T, 4> (-1, 1, true, T1, bs, t, c);
            publish_overflow ("4x4", t, true);
            std::string w = "every affine 4x4 with a non-singular {0,+-1} 3x3 block, translation (1,-1,1) x 15 families x " + std::to_string (bs.size ()) + " exponents = " + std::to_string (c) + " matrices";
            if (ok) R ().stage_done (w); else R ().stage_partial (w);
        }
    }
    // ---------------- guard thresholds
    if (R ().stage ("inverse.guard.2x2." + tn))
    {
        ITally t; uint64_t c = 0;
        bool ok = run_guard<T, 2> (alpha_g<T> (false), c08::all_signs (2), t, c);
        publish ("2x2", t);
        if (ok) R ().stage_done ("permuted diagonal, d_i in G (" + std::to_string (alpha_g<T> (false).size ()) + " values) x all signs x 2 permutations = " + std::to_string (c));
        else R ().stage_partial (std::to_string (c));
    }
    if (R ().stage ("inverse.guard.3x3." + tn))
    {
        ITally t; uint64_t c = 0;
        bool ok = run_guard<T, 3> (alpha_g<T> (false), th ? c08::all_signs (3) : std::vector<unsigned>{0u, 1u, 6u}, t, c);
        publish ("3x3", t);
        if (ok) R ().stage_done ("permuted diagonal, d_i in G (" + std::to_string (alpha_g<T> (false).size ()) + " values)^3 x sign patterns x 6 permutations = " + std::to_string (c));
        else R ().stage_partial (std::to_string (c));
    }
    if (R ().stage ("inverse.guard.4x4." + tn))
    {
        ITally t; uint64_t c = 0;
        const std::vector<T> G4 = th ? alpha_g<T> (true, true) : alpha_g<T> (true);
        bool ok = run_guard<T, 4> (G4, th ? std::vector<unsigned>{0u, 2u} : std::vector<unsigned>{2u}, t, c);
        publish ("4x4", t);
        if (ok) R ().stage_done ("permuted diagonal, d_i in G (" + std::to_string (G4.size ()) + " values)^4 x sign patterns x 24 permutations = " + std::to_string (c));
        else R ().stage_partial (std::to_string (c));
    }
}

} // namespace

void stage_inverse ()
{
    const bool th = R ().thorough ();
    stage_for_type<float> (th);
    stage_for_type<double> (th);
    {
        Matrix22<float> m (std::numeric_limits<float>::min (), 0, 0, 1);
        int             th1 = run_checked ([&] { (void) m.inverse (true); });
        m[0][0] = up (std::numeric_limits<float>::min ());
        int th2 = run_checked ([&] { (void) m.inverse (true); });
        R ().sample (std::string ("Matrix22f diag(min,1).inverse(true): ") + thrown_name (th1) + "; diag(min+ulp,1).inverse(true): " + thrown_name (th2));
    }
}

} // namespace c07
