// C01 — second build variant of half.h: IMATH_HALF_ENABLE_FP_EXCEPTIONS (half.h: "an implementation wishing to
// receive FE_OVERFLOW and FE_UNDERFLOW floating point exceptions when converting float to half by the bit-shift
// algorithm can define the preprocessor symbol IMATH_HALF_ENABLE_FP_EXCEPTIONS prior to including half.h").
// The macro adds code to imath_float_to_half (an early return for zero, two feraiseexcept calls) that no other
// configuration compiles. The *bits* returned must still be the binary16 value nearest to the input (the property
// statement quantifies over bit patterns, not over build options), through the C function, the C++ constructor and
// operator=(float).
//
// The variant lives in its own translation unit and in its own inline namespace name: half::half(float) is an
// inline function with external linkage, so two TUs that compile it with different bodies of the (static inline)
// imath_float_to_half would otherwise be folded into one by the linker (at -O0 visibly so).
//
// Flags (documentation-level oracle, narrow sites "...fpexc.FE_*"): FE_OVERFLOW is raised when a finite input
// becomes an infinity and FE_UNDERFLOW when a non-zero input is flushed to zero (what the documentation promises the
// user "receives"); neither is raised for +-0, for infinities and NaNs, or for a finite input whose result is a
// normal half (an exact or merely inexact conversion is neither an overflow nor an underflow). Inputs whose result is
// a *subnormal* half are left undecided for FE_UNDERFLOW (IEEE would signal it when inexact; the documentation does
// not say), FE_OVERFLOW must still be clear there.
//
// quick   : the boundary subset c01_boundary.hpp (every rounding boundary +-2 ulps, every exponent x boundary
//           significands, every literal threshold +-3), three routes, flags decided per input;
// thorough: the same, then all 2^32 bit patterns through the C function and the C++ constructor, flags decided per input.
#include <ImathConfig.h>
#undef IMATH_INTERNAL_NAMESPACE
#define IMATH_INTERNAL_NAMESPACE Imath_verif_c01_fpexc
#define IMATH_HALF_ENABLE_FP_EXCEPTIONS
#include <half.h>

#include "../engine/halfref.hpp"
#include "../engine/report.hpp"
#include "c01_boundary.hpp"
#include <cfenv>
#include <xmmintrin.h>

#ifndef IMATH_HALF_ENABLE_FP_EXCEPTIONS
#    error "variant macro lost"
#endif

using namespace vf;
typedef Imath_verif_c01_fpexc::half fhalf;

static std::string hx (uint32_t v, int w) { char b[16]; snprintf (b, sizeof b, "0x%0*x", w, v); return b; }

// cheap exact replacements for feclearexcept(FE_ALL_EXCEPT) / fetestexcept: glibc's feraiseexcept sets FE_OVERFLOW /
// FE_UNDERFLOW in the x87 status word (fldenv); fetestexcept reads x87 | MXCSR. fnclex + MXCSR mask clears both.
static inline void clear_flags ()
{
    __asm__ __volatile__ ("fnclex");
    _mm_setcsr (_mm_getcsr () & ~0x3fu);
}
static inline int test_flags () { return fetestexcept (FE_OVERFLOW | FE_UNDERFLOW); }

__attribute__ ((noinline)) static uint16_t conv_c (float f) { return imath_float_to_half (f); }
__attribute__ ((noinline)) static uint16_t conv_ctor (float f) { return fhalf (f).bits (); }
__attribute__ ((noinline)) static uint16_t conv_assign (float f) { fhalf h; h.setBits (0x7e55); h = f; return h.bits (); }

struct Tally
{
    long long n = 0, zero = 0, flushed = 0, overflowed = 0, sub = 0, normal = 0, infnan = 0, bad[3] = {0, 0, 0};
    long long flagbad[3][4] = {{0, 0, 0, 0}, {0, 0, 0, 0}, {0, 0, 0, 0}}; // per chunk: R().fail for the first 4, fail_n for the rest
};
static const char* FLAGSITE[4] = {".fpexc.FE_OVERFLOW-not-raised-on-finite-to-infinity", ".fpexc.FE_OVERFLOW-raised-without-overflow",
                                  ".fpexc.FE_UNDERFLOW-not-raised-on-flush-to-zero", ".fpexc.FE_UNDERFLOW-raised-without-underflow"};
static const char* FLAGWANT[4] = {"FE_OVERFLOW set", "FE_OVERFLOW clear", "FE_UNDERFLOW set", "FE_UNDERFLOW clear"};

static const char* ROUTE[3] = {"imath_float_to_half", "half::half(float)", "half::operator=(float)"};

static inline void one_input (uint32_t u, Tally& t, int nroutes)
{
    const float    f   = href::bitsf (u);
    const uint16_t ref = href::f2h_ref (u);
    const uint32_t ab  = u & 0x7fffffffu;
    // expected flags by the definition (predicates on the input): 1 must be raised, 0 must be clear, -1 undecided
    int want_ovf, want_unf;
    if (ab >= 0x7f800000u) { want_ovf = 0; want_unf = 0; ++t.infnan; }
    else if (ab == 0) { want_ovf = 0; want_unf = 0; ++t.zero; }
    else if ((ref & 0x7fff) == 0x7c00) { want_ovf = 1; want_unf = 0; ++t.overflowed; }      // finite -> infinity
    else if ((ref & 0x7fff) == 0) { want_ovf = 0; want_unf = 1; ++t.flushed; }               // non-zero -> zero
    else if ((ref & 0x7c00) == 0) { want_ovf = 0; want_unf = -1; ++t.sub; }                  // subnormal result
    else { want_ovf = 0; want_unf = 0; ++t.normal; }
    ++t.n;
    for (int r = 0; r < nroutes; ++r)
    {
        clear_flags ();
        uint16_t got = r == 0 ? conv_c (f) : r == 1 ? conv_ctor (f) : conv_assign (f);
        int      fl  = test_flags ();
        if (fl) clear_flags ();
        if (got != ref)
        {
            if (++t.bad[r] <= 8) R ().fail (std::string (ROUTE[r]) + ".fpexc-build", hx (u, 8), hx (ref, 4), hx (got, 4));
        }
        const bool ovf = fl & FE_OVERFLOW, unf = fl & FE_UNDERFLOW;
        const bool wrong[4] = {want_ovf == 1 && !ovf, want_ovf == 0 && ovf, want_unf == 1 && !unf, want_unf == 0 && unf};
        for (int k = 0; k < 4; ++k)
            if (wrong[k] && ++t.flagbad[r][k] <= 4) R ().fail (std::string (ROUTE[r]) + FLAGSITE[k], hx (u, 8), FLAGWANT[k], (k & 1) ? "set" : "clear");
    }
}

void c01_fpexc_stage ()
{
    std::mutex mu;
    Tally      total;
    auto merge = [&] (const Tally& t) {
        std::lock_guard<std::mutex> g (mu);
        total.n += t.n; total.zero += t.zero; total.flushed += t.flushed; total.overflowed += t.overflowed; total.sub += t.sub;
        total.normal += t.normal; total.infnan += t.infnan;
        for (int r = 0; r < 3; ++r) total.bad[r] += t.bad[r];
    };
    auto flush_flags = [] (Tally& t) {
        for (int r = 0; r < 3; ++r)
        {
            if (t.bad[r] > 8) R ().fail_n (std::string (ROUTE[r]) + ".fpexc-build", t.bad[r] - 8);
            for (int k = 0; k < 4; ++k)
                if (t.flagbad[r][k] > 4) R ().fail_n (std::string (ROUTE[r]) + FLAGSITE[k], t.flagbad[r][k] - 4);
        }
    };
    // boundary subset, all three routes (both tiers)
    const std::vector<uint32_t> in = c01b::boundary_floats ();
    bool complete = parallel_chunks (in.size (), 1ull << 14, [&] (uint64_t lo, uint64_t hi, unsigned) {
        Tally t;
        for (uint64_t i = lo; i < hi; ++i) one_input (in[(size_t) i], t, 3);
        clear_flags ();
        flush_flags (t);
        merge (t);
    });
    long long   transitions = (long long) in.size () * 3 * 2; // bits and flags
    std::string bound = std::to_string (in.size ()) + " boundary float patterns (every half value and midpoint +-2 ulps, every exponent x boundary significands, every literal threshold +-3, both signs) x {C function, C++ constructor, operator=(float)}";
    if (R ().thorough () && complete)
    {
        // all 2^32, the C function and the C++ constructor (operator=(float) forwards to the constructor and is swept over all
        // 2^32 in the default build; each feraiseexcept costs ~80 ns and 3.6e9 inputs raise)
        complete = parallel_chunks (1ull << 32, 1ull << 20, [&] (uint64_t lo, uint64_t hi, unsigned) {
            Tally t;
            for (uint64_t i = lo; i < hi; ++i) one_input ((uint32_t) i, t, 2);
            clear_flags ();
            flush_flags (t);
            merge (t);
        });
        transitions += (1ll << 32) * 2 * 2;
        bound += "; all 2^32 float patterns x {C function, C++ constructor}";
    }
    for (int r = 0; r < 3; ++r)
        if (total.bad[r]) R ().add (std::string ("mismatching_inputs: ") + ROUTE[r] + ".fpexc-build", total.bad[r]);
    R ().add ("states", total.n);
    R ().add ("transitions", transitions);
    R ().add ("evaluations", total.n);
    R ().cls ("fpexc.input-zero(early-return-branch)", total.zero);
    R ().cls ("fpexc.flushed-to-zero(FE_UNDERFLOW-branch)", total.flushed);
    R ().cls ("fpexc.finite-to-infinity(FE_OVERFLOW-branch)", total.overflowed);
    R ().cls ("fpexc.subnormal-result(FE_UNDERFLOW-undecided)", total.sub);
    R ().cls ("fpexc.inf-or-nan-input", total.infnan);
    R ().cls ("fpexc.normal-result.generic", total.normal);
    {
        clear_flags ();
        uint16_t a = conv_c (href::bitsf (0x80000000u)); int fa = test_flags (); clear_flags ();
        uint16_t b = conv_c (href::bitsf (0x477ff000u)); int fb = test_flags (); clear_flags ();
        R ().sample ("fpexc build: -0.0f -> " + hx (a, 4) + " flags " + std::to_string (fa) + "; 65520.0f -> " + hx (b, 4) + " FE_OVERFLOW " + (fb & FE_OVERFLOW ? "set" : "clear"));
    }
    if (complete) R ().stage_done (bound + " — compiled with IMATH_HALF_ENABLE_FP_EXCEPTIONS: bits vs definition model, FE_OVERFLOW / FE_UNDERFLOW per input");
    else R ().stage_partial (std::to_string (total.n) + " inputs of: " + bound);
}
