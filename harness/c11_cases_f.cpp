// C11 — float instantiation of the per-case checks (separate TU so both precisions compile in parallel)
#include "c11_cases.hpp"
namespace c11 { void stage_cases_float () { run_cases<float> (); } }
