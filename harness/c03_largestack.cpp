// C03 — halfFunction.h compiled with IMATH_HAVE_LARGE_STACK (config option IMATH_ENABLE_LARGE_STACK): the lookup table
// is an in-object array instead of a heap block, the destructor and the deleted copy/move members disappear. The same
// tables as the default build must come out. The class template is renamed for this TU so that the program does not
// contain two different definitions of ::halfFunction<T>; class half is untouched.
#include <ImathConfig.h>
#ifdef IMATH_HAVE_LARGE_STACK
#    error "the default configuration is expected not to define IMATH_HAVE_LARGE_STACK (c03.cpp covers that side)"
#endif
#define IMATH_HAVE_LARGE_STACK
#define halfFunction halfFunction_c03_largestack
#include <half.h>
#include <halfFunction.h>

#define HF_TAG "[IMATH_HAVE_LARGE_STACK]"
#include "c03_halffunction.hpp"

void c03_halffunction_largestack ()
{
    // the variant really is the in-object table: 65536 entries inside the object, no pointer (checked at run time so that a
    // change of the member is reported as a violation, not as a build failure; the stage is not run on an object that is
    // too small to hold the table)
    const size_t sf = sizeof (halfFunction<float>), sd = sizeof (halfFunction<double>), sh = sizeof (halfFunction<hf::half_t>), su = sizeof (halfFunction<uint32_t>);
    if (sf != 65536 * sizeof (float) || sd != 65536 * sizeof (double) || sh != 65536 * 2 || su != 65536 * 4)
    {
        vf::R ().fail ("halfFunction[IMATH_HAVE_LARGE_STACK].object-is-the-65536-entry-table", "sizeof(halfFunction<float|double|half|uint32_t>)", "262144 524288 131072 262144",
                       std::to_string (sf) + " " + std::to_string (sd) + " " + std::to_string (sh) + " " + std::to_string (su));
        if (sf < 65536 * sizeof (float) || sd < 65536 * sizeof (double) || sh < 65536 * 2 || su < 65536 * 4) { vf::R ().stage_done ("not run: object smaller than the table"); return; }
    }
    hf::stage ();
}
