// C15 — line, plane, sphere, triangle primitives satisfy their geometric definitions.
// This TU: main(), Line3 (point and line forms), closestPoints, nearly-parallel / parallel handling,
// and the ImathVecAlgo / ImathLineAlgo vector identities.  Planes: c15_b.cpp.  Sphere, triangle: c15_c.cpp.
#include "c15.hpp"

namespace c15 {
using namespace vf;

// ------------------------------------------------------------------------------------------------
// Line3::set / operator() / closestPointTo(point) / distanceTo(point)
// Space: every line through p0 in L(2)^3 with direction v in the 170-element direction alphabet
//        x every point q in L(2)^3.
// Oracle: closest point = p0 + ((q-p0).v / v.v) v  and  distance^2 = |q-p0|^2 - ((q-p0).v)^2 / v.v,
//         integer numerators over the common integer denominator v.v (one rounding to long double).
// Tolerance 16 eps S per component with S = |p0|_1 + |q|_1 + 1 >= every intermediate magnitude:
//   dir carries <= 1 eps relative error (correctly rounded sqrt of an exact integer, one division),
//   the 3-term dot product <= 3 eps |w||dir|, the scaling and the final add <= 2 eps S; the sum is
//   below 8 eps S, so 16 eps S leaves a factor two and is five orders below any O(1) formula error.
template <class T> static void line_point ()
{
    const LD   e = ex::eps<T> ();
    const auto P = lattice (2);
    const auto D = directions ();
    std::string st = std::string ("line-point.") + tname<T> ();
    if (!R ().stage (st)) return;
    std::atomic<ll> on (0), gen (0), cases (0);
    bool ok = parallel_chunks (P.size () * D.size (), 64, [&] (uint64_t lo, uint64_t hi, unsigned) {
        ll l_on = 0, l_gen = 0;
        for (uint64_t i = lo; i < hi; ++i)
        {
            I3 p0 = P[i / D.size ()], v = D[i % D.size ()];
            Line3<T> l (toV<T> (p0), toV<T> (p0 + v));
            std::string in0 = std::string ("T=") + tname<T> () + " Line3(p0=" + s (p0) + ", p1=p0+" + s (v) + ")";
            ll DD = dot (v, v);
            LD vl = sqrtl ((LD) DD);
            if (!(l.pos == toV<T> (p0))) R ().fail ("Line3::set.pos", in0, s (p0), s (l.pos));
            if (maxdiff (l.dir, toL (v) * (1 / vl)) > 4 * e) R ().fail ("Line3::set.dir-normalised", in0, s (toL (v) * (1 / vl)), s (l.dir));
            static const double ts[] = {-2, 0, 0.5, 3};
            for (double t : ts)
            {
                L3 want = toL (l.pos) + toL (l.dir) * (LD) t;
                if (maxdiff (l ((T) t), want) > 2 * e * (linf (toL (l.pos)) + fabsl ((LD) t))) R ().fail ("Line3::operator()", in0 + " t=" + fmt (t), s (want), s (l ((T) t)));
            }
            if (!ex::same (l ((T) 0).x, l.pos.x) || !(l ((T) 0) == l.pos)) R ().fail ("Line3::operator().t=0", in0, s (l.pos), s (l ((T) 0)));
            for (const I3& q : P)
            {
                I3 w = q - p0;
                ll n = dot (w, v);
                L3 C = {(LD) (p0.x * DD + n * v.x) / DD, (LD) (p0.y * DD + n * v.y) / DD, (LD) (p0.z * DD + n * v.z) / DD};
                ll d2n = dot (w, w) * DD - n * n; // >= 0 (Cauchy-Schwarz), distance^2 = d2n / DD
                LD dist = sqrtl ((LD) d2n / DD);
                LD tol  = 16 * e * (LD) (l1 (p0) + l1 (q) + 1);
                Vec3<T> g = l.closestPointTo (toV<T> (q));
                if (!(maxdiff (g, C) <= tol)) R ().fail ("Line3::closestPointTo(point)", in0 + " q=" + s (q), s (C), s (g));
                T gd = l.distanceTo (toV<T> (q));
                if (!(fabsl ((LD) gd - dist) <= tol)) R ().fail ("Line3::distanceTo(point)", in0 + " q=" + s (q), s (dist), fmt (gd));
                (d2n == 0 ? l_on : l_gen)++;
            }
        }
        on += l_on; gen += l_gen; cases += (ll) (hi - lo);
    });
    R ().add ("states", cases.load () * (ll) P.size ());
    R ().add ("evaluations", cases.load () * (ll) P.size ());
    R ().add ("transitions", cases.load () * (ll) (P.size () * 2 + 7));
    R ().cls ("line-point.point-on-line", on);
    R ().cls ("line-point.generic", gen);
    if (ok) R ().stage_done ("all " + std::to_string (P.size () * D.size ()) + " lattice lines x all 125 points of L(2)^3, exact rational oracle");
    else R ().stage_partial (std::to_string (cases.load ()) + " lines");
}

// ------------------------------------------------------------------------------------------------
// distanceTo(Line3): decision shared by the lattice and the nearly-parallel stages.
// D = true distance, sn = sin(angle between the directions), perp = directions exactly perpendicular.
// The un-normalised-cross-product defect returns D*sn; a failure with exactly that signature on a
// non-perpendicular pair is the narrow site, anything else is a different breakage.
static void judge_line_distance (LD got, LD D, LD sn, bool perp, LD tol, const std::string& in)
{
    if (std::isfinite ((double) got) && fabsl (got - D) <= tol) return;
    if (!perp && std::isfinite ((double) got) && fabsl (got - D * sn) <= tol)
        R ().fail ("Line3::distanceTo(Line3).non-perpendicular", in, s (D), s (got) + " (= D*sin(angle): cross product not normalised)");
    else if (perp) R ().fail ("Line3::distanceTo(Line3).perpendicular", in, s (D), s (got));
    else R ().fail ("Line3::distanceTo(Line3).accuracy", in, s (D), s (got));
}

// is point a (library value) on the stored line l ?  residual of a-pos orthogonal to dir, in long double
template <class T> static bool on_line (const Vec3<T>& a, const Line3<T>& l)
{
    if (!finite3 (a)) return false;
    L3 r = toL (a) - toL (l.pos), d = toL (l.dir);
    L3 o = r - d * (dot (r, d) / dot (d, d));
    // a = pos + dir*t evaluated in T: <= 1 eps |dir t| + 1 eps |a| per component
    return linf (o) <= 8 * ex::eps<T> () * (l1 (toL (a)) + l1 (toL (l.pos)));
}

// ------------------------------------------------------------------------------------------------
// Line / line: all ordered pairs  (p1 in P1) x (v1 in directions) x (p2 in P2) x (v2 in directions).
// Integer data: c = v1 x v2, w = p2 - p1;  c != 0:  D = |c.w| / |c|,
//   foot on line 1 = p1 + ((w x v2).c / c.c) v1,  foot on line 2 = p2 + ((w x v1).c / c.c) v2;
//   c == 0 (parallel / antiparallel): D = |w x v1| / |v1|.
// Tolerance 32 eps S / sin^3(angle), S = |p1|_1 + |p2|_1 + 1:  a = cos is computed to 3 eps, so
//   denom = a^2 - 1 = -sin^2 has relative error <= 7 eps / sin^2; num = c - a f has absolute error
//   <= 8 eps |w|; the parameter num/denom (|.| <= |w| / sin) therefore errs by at most
//   8 eps |w| / sin^2 + 7 eps |w| / sin^3 <= 15 eps S / sin^3.  On the lattice alphabet sin^2 >= 0.04.
template <class T> static void line_line ()
{
    const LD   e = ex::eps<T> ();
    const bool th = R ().thorough ();
    const auto D = directions ();
    std::vector<I3> P1 = th ? lattice (1) : std::vector<I3>{{0, 0, 0}, {1, 2, -1}, {-2, 0, 1}};
    std::vector<I3> P2 = th ? lattice (2) : lattice (1);
    std::string st = std::string ("line-line.") + tname<T> ();
    if (!R ().stage (st)) return;
    const uint64_t n1 = P1.size () * D.size (), n2 = P2.size () * D.size ();
    std::atomic<ll> c_skew (0), c_isect (0), c_par (0), c_perp (0), c_cpfalse (0), c_guard (0), c_partrue (0), cases (0);
    std::mutex mm; double worst = 0;
    bool ok = parallel_chunks (n1, 4, [&] (uint64_t lo, uint64_t hi, unsigned) {
        ll k_skew = 0, k_isect = 0, k_par = 0, k_perp = 0, k_cpf = 0, k_guard = 0, k_partrue = 0;
        double lw = 0;
        for (uint64_t i = lo; i < hi; ++i)
        {
            I3 p1 = P1[i / D.size ()], v1 = D[i % D.size ()];
            Line3<T> l1_ (toV<T> (p1), toV<T> (p1 + v1));
            for (uint64_t j = 0; j < n2; ++j)
            {
                I3 p2 = P2[j / D.size ()], v2 = D[j % D.size ()];
                Line3<T> l2_ (toV<T> (p2), toV<T> (p2 + v2));
                I3 c = cross (v1, v2), w = p2 - p1;
                ll cc = dot (c, c), a1 = dot (v1, v1), a2 = dot (v2, v2);
                LD S = (LD) (l1 (p1) + l1 (p2) + 1);
                auto in = [&] () { return std::string ("T=") + tname<T> () + " line1=Line3(" + s (p1) + ", +" + s (v1) + ") line2=Line3(" + s (p2) + ", +" + s (v2) + ")"; };
                if (cc != 0)
                {
                    LD sin2 = (LD) cc / ((LD) a1 * a2), sn = sqrtl (sin2);
                    LD tol = 32 * e * S / (sin2 * sn);
                    LD Dd = fabsl ((LD) dot (c, w)) / sqrtl ((LD) cc);
                    ll ns = dot (cross (w, v2), c), nt = dot (cross (w, v1), c);
                    L3 C1 = {(LD) (p1.x * cc + ns * v1.x) / cc, (LD) (p1.y * cc + ns * v1.y) / cc, (LD) (p1.z * cc + ns * v1.z) / cc};
                    L3 C2 = {(LD) (p2.x * cc + nt * v2.x) / cc, (LD) (p2.y * cc + nt * v2.y) / cc, (LD) (p2.z * cc + nt * v2.z) / cc};
                    bool perp = dot (v1, v2) == 0;
                    (dot (c, w) == 0 ? k_isect : k_skew)++;
                    if (perp) ++k_perp;
                    Vec3<T> g1 = l1_.closestPointTo (l2_), g2 = l2_.closestPointTo (l1_);
                    LD d1 = maxdiff (g1, C1), d2 = maxdiff (g2, C2);
                    if (!(d1 <= tol)) R ().fail ("Line3::closestPointTo(Line3)", in (), s (C1), s (g1));
                    if (!(d2 <= tol)) R ().fail ("Line3::closestPointTo(Line3)", in () + " [line2.closestPointTo(line1)]", s (C2), s (g2));
                    lw = std::max (lw, (double) (std::max (d1, d2) / tol));
                    Vec3<T> q1 ((T) 77), q2 ((T) 77);
                    if (!closestPoints (l1_, l2_, q1, q2)) R ().fail ("closestPoints.false-on-non-parallel", in (), "true", "false");
                    else
                    {
                        if (!(maxdiff (q1, C1) <= tol)) R ().fail ("closestPoints.point1", in (), s (C1), s (q1));
                        if (!(maxdiff (q2, C2) <= tol)) R ().fail ("closestPoints.point2", in (), s (C2), s (q2));
                        L3 sg = toL (q1) - toL (q2);
                        if (!(fabsl (len (sg) - Dd) <= 2 * tol)) R ().fail ("closestPoints.separation", in (), s (Dd), s (len (sg)));
                        // segment perpendicular to both directions: |sg . dir| <= |error of sg| = 2 tol (+ tiny dir error)
                        if (!(fabsl (dot (sg, toL (l1_.dir))) <= 4 * tol) || !(fabsl (dot (sg, toL (l2_.dir))) <= 4 * tol))
                            R ().fail ("closestPoints.perpendicular", in (), "0", s (dot (sg, toL (l1_.dir))) + " / " + s (dot (sg, toL (l2_.dir))));
                    }
                    judge_line_distance ((LD) l1_.distanceTo (l2_), Dd, sn, perp, tol, in ());
                    judge_line_distance ((LD) l2_.distanceTo (l1_), Dd, sn, perp, tol, in () + " [line2.distanceTo(line1)]");
                }
                else
                {
                    ++k_par;
                    I3 wx = cross (w, v1);
                    LD Dd = sqrtl ((LD) dot (wx, wx) / a1);
                    LD tol = 32 * e * S;
                    // closestPointTo(line): any point of line 1 is a closest point; must be finite and on the line
                    Vec3<T> g1 = l1_.closestPointTo (l2_);
                    if (!on_line (g1, l1_)) R ().fail ("Line3::closestPointTo(Line3).parallel", in (), "a finite point of line1", s (g1));
                    if (g1 == l1_.pos) ++k_guard;
                    Vec3<T> q1 ((T) 77), q2 ((T) 77);
                    if (closestPoints (l1_, l2_, q1, q2))
                    {   // "reported or handled": if not reported, the outputs must be finite points of the two lines
                        // (and two points of the lines can never be closer than the lines are)
                        ++k_partrue;
                        if (!on_line (q1, l1_) || !on_line (q2, l2_)) R ().fail ("closestPoints.parallel-not-on-lines", in (), "finite points on the lines", s (q1) + " " + s (q2));
                        else if (!(len (toL (q1) - toL (q2)) >= Dd - 8 * e * (l1 (toL (q1)) + l1 (toL (q2)) + 1)))
                            R ().fail ("closestPoints.parallel-separation", in (), ">= " + s (Dd), s (len (toL (q1) - toL (q2))));
                    }
                    else ++k_cpf;
                    judge_line_distance ((LD) l1_.distanceTo (l2_), Dd, 0, false, tol, in ());
                    judge_line_distance ((LD) l2_.distanceTo (l1_), Dd, 0, false, tol, in () + " [line2.distanceTo(line1)]");
                }
            }
        }
        c_skew += k_skew; c_isect += k_isect; c_par += k_par; c_perp += k_perp; c_cpfalse += k_cpf; c_guard += k_guard; c_partrue += k_partrue;
        cases += (ll) ((hi - lo) * n2);
        std::lock_guard<std::mutex> g (mm); worst = std::max (worst, lw);
    });
    R ().add ("states", cases); R ().add ("evaluations", cases); R ().add ("transitions", cases.load () * 7);
    R ().cls ("line-line.skew", c_skew); R ().cls ("line-line.intersecting", c_isect); R ().cls ("line-line.parallel", c_par);
    R ().cls ("line-line.perpendicular", c_perp); R ().cls ("closestPoints.returned-false", c_cpfalse);
    R ().cls ("closestPointTo(Line3).guard-returned-pos", c_guard);
    R ().add (std::string ("parallel_pairs_closestPoints_returned_true.") + tname<T> (), c_partrue);
    R ().note_max (std::string ("worst closestPointTo(Line3) error / tolerance, ") + tname<T> (), worst);
    if (ok) R ().stage_done ("all " + std::to_string (n1) + " x " + std::to_string (n2) + " ordered lattice line pairs, exact rational oracle");
    else R ().stage_partial (std::to_string (cases.load ()) + " pairs");
}

// ------------------------------------------------------------------------------------------------
// Nearly parallel pairs: line2 direction = +-(v + 10^-j u), u perpendicular to v, j = 1..16 and exactly parallel.
// The data are no longer rational in a useful way; the oracle is long double on the stored operands.
// Only what stays meaningful under ill-conditioning is demanded: nothing is NaN/inf; reported points lie
// on their lines; two points of the lines are never closer than the lines; distanceTo within the
// condition-scaled bound (same formula as above).
template <class T> static void line_nearly_parallel ()
{
    const LD e = ex::eps<T> ();
    std::string st = std::string ("line-nearly-parallel.") + tname<T> ();
    if (!R ().stage (st)) return;
    const I3 bv[] = {{1, 0, 0}, {3, 4, 0}, {1, 2, 2}, {2, 3, 6}, {1, 2, 3}, {0, -4, 3}, {-2, 1, 2}};
    const I3 P1[] = {{0, 0, 0}, {1, 2, -1}};
    const auto P2 = lattice (1);
    ll cases = 0, k_false = 0, k_true = 0, k_guard = 0, k_exact = 0;
    for (const I3& v : bv)
        for (int ui = 0; ui < 2; ++ui)
        {
            I3 ax = std::llabs (v.x) <= std::llabs (v.y) && std::llabs (v.x) <= std::llabs (v.z) ? I3{1, 0, 0} : (std::llabs (v.y) <= std::llabs (v.z) ? I3{0, 1, 0} : I3{0, 0, 1});
            I3 u  = cross (v, ax);
            if (ui) u = cross (v, u);
            for (int j = 1; j <= 17; ++j)
                for (int sg = -1; sg <= 1; sg += 2)
                    for (const I3& p1 : P1)
                        for (const I3& p2 : P2)
                        {
                            T h = j <= 16 ? (T) std::pow (10.0, -j) : (T) 0;
                            Vec3<T> dv = (toV<T> (v) + toV<T> (u) * h) * (T) sg;
                            Line3<T> a (toV<T> (p1), toV<T> (p1 + v)), b (toV<T> (p2), toV<T> (p2) + dv);
                            std::string in = std::string ("T=") + tname<T> () + " line1=Line3(" + s (p1) + ", +" + s (v) + ") line2=Line3(" + s (p2) + ", +" + s (dv) + ") [j=" + std::to_string (j) + "]";
                            ++cases;
                            L3 d1 = toL (a.dir), d2 = toL (b.dir), w = toL (b.pos) - toL (a.pos), c = cross (d1, d2);
                            LD cl = len (c);
                            if (cl == 0) ++k_exact;
                            Vec3<T> g = a.closestPointTo (b);
                            if (!on_line (g, a)) R ().fail ("Line3::closestPointTo(Line3).nearly-parallel", in, "a finite point of line1", s (g));
                            if (g == a.pos) ++k_guard;
                            T dl = a.distanceTo (b);
                            if (!std::isfinite (dl)) R ().fail ("Line3::distanceTo(Line3).non-finite", in, "finite", fmt (dl));
                            LD Dd = -1;
                            if (cl > ldexpl (1, -40)) Dd = fabsl (dot (c, w)) / cl;
                            else if (cl == 0) { L3 wx = cross (w, d1); Dd = len (wx) / len (d1); }
                            if (Dd >= 0 && std::isfinite (dl))
                            {
                                LD sn = cl / (len (d1) * len (d2));
                                LD tol = sn > 0 ? 32 * e * (l1 (toL (a.pos)) + l1 (toL (b.pos)) + 1) / (sn * sn * sn) + Dd * 1e-6L : 32 * e * (LD) (l1 (p1) + l1 (p2) + 1);
                                judge_line_distance ((LD) dl, Dd, sn, false, tol, in);
                            }
                            Vec3<T> q1 ((T) 77), q2 ((T) 77);
                            if (closestPoints (a, b, q1, q2))
                            {
                                ++k_true;
                                if (!on_line (q1, a) || !on_line (q2, b)) R ().fail ("closestPoints.nearly-parallel-not-on-lines", in, "finite points on the lines", s (q1) + " " + s (q2));
                                else if (Dd >= 0 && !(len (toL (q1) - toL (q2)) >= Dd * (1 - 1e-6L) - 8 * e * (l1 (toL (q1)) + l1 (toL (q2)) + 1)))
                                    R ().fail ("closestPoints.nearly-parallel-separation", in, ">= " + s (Dd), s (len (toL (q1) - toL (q2))));
                            }
                            else ++k_false;
                        }
        }
    R ().add ("states", cases); R ().add ("evaluations", cases); R ().add ("transitions", cases * 3);
    R ().cls ("line-line.nearly-parallel", cases - k_exact); R ().cls ("line-line.exactly-parallel-stored-dirs", k_exact);
    R ().cls ("closestPoints.returned-false", k_false); R ().cls ("closestPoints.returned-true-nearly-parallel", k_true);
    R ().cls ("closestPointTo(Line3).guard-returned-pos", k_guard);
    R ().stage_done (std::to_string (cases) + " pairs: 7 base directions x 2 perpendiculars x 10^-j (j=1..16, and 0) x both senses x 2 x 27 origins");
}

// Nearly parallel lines WITHOUT cancellation: line1 along a coordinate axis e_i, line2 along e_i + 2^-k e_j (stored
// directly in the public `dir` member; it is a unit vector to rounding for every k >= 12/27). The cross product of the
// two directions is then exactly 2^-k e_l (one non-zero product per component, nothing cancels), so the common
// perpendicular is the axis e_l and the distance between the lines is exactly |(p2 - p1) . e_l|, whatever k is — also
// for k so large that the SQUARE of the cross product underflows. 8 eps (|offset| + 1): one rounding each in the cross
// product, its length, the dot product and the quotient.
template <class T> static void line_nearly_parallel_axis ()
{
    const LD e = ex::eps<T> ();
    std::string st = std::string ("line-nearly-parallel-axis.") + tname<T> ();
    if (!R ().stage (st)) return;
    const bool dbl = std::numeric_limits<T>::digits > 30;
    const int  KS[6] = {dbl ? 30 : 14, dbl ? 100 : 40, dbl ? 300 : 60, dbl ? 540 : 70, dbl ? 600 : 100, dbl ? 1000 : 120};
    const auto P = lattice (2);
    ll cases = 0;
    for (int i = 0; i < 3; ++i)
        for (int jj = 1; jj <= 2; ++jj)
        {
            int j = (i + jj) % 3, l = 3 - i - j;
            for (int k : KS)
                for (int sg = -1; sg <= 1; sg += 2)
                    for (const I3& p2 : P)
                    {
                        Line3<T> a, b;
                        a.pos = Vec3<T> (0, 0, 0); a.dir = Vec3<T> (0, 0, 0); a.dir[i] = 1;
                        b.pos = toV<T> (p2); b.dir = a.dir; b.dir[j] = (T) std::ldexp ((double) sg, -k);
                        const int off[3] = {(int) p2.x, (int) p2.y, (int) p2.z};
                        LD want = std::abs (off[l]);
                        T  d1 = a.distanceTo (b), d2 = b.distanceTo (a);
                        ++cases;
                        std::string in = std::string ("T=") + tname<T> () + " line1: pos (0,0,0) dir e" + std::to_string (i) + "; line2: pos " + s (p2) + " dir e" + std::to_string (i) + (sg > 0 ? " + " : " - ") + "2^-" + std::to_string (k) + " e" + std::to_string (j);
                        if (!(fabsl ((LD) d1 - want) <= 8 * e * (want + 1))) R ().fail ("Line3::distanceTo(Line3).nearly-parallel-without-cancellation", in, s (want), fmt (d1));
                        if (!(fabsl ((LD) d2 - want) <= 8 * e * (want + 1))) R ().fail ("Line3::distanceTo(Line3).nearly-parallel-without-cancellation", in + " (reversed)", s (want), fmt (d2));
                    }
        }
    R ().add ("states", cases); R ().add ("evaluations", cases); R ().add ("transitions", cases * 2);
    R ().cls ("line-line.nearly-parallel-axis-aligned(cross product 2^-k)", cases);
    R ().stage_done (std::to_string (cases) + " pairs: 3 axes x 2 perturbation axes x 6 exponents (down to where the squared cross product underflows) x 2 signs x 125 origins");
}

void run_lines ()
{
    line_point<float> (); line_point<double> ();
    line_line<float> (); line_line<double> ();
    line_nearly_parallel<float> (); line_nearly_parallel<double> ();
    line_nearly_parallel_axis<float> (); line_nearly_parallel_axis<double> ();
}

// ------------------------------------------------------------------------------------------------
// ImathVecAlgo: project / orthogonal / reflect on Vec2, Vec3 (L(2)^n) and Vec4 (L(1)^4); closestVertex.
// Oracle: project(s,t) = (s.t / s.s) s, orthogonal = t - project, reflect(s,t) = 2 (s.t / t.t) t - s, with
// integer numerators over an integer denominator.  Tolerance 8 eps (|.|_1 + 1): normalized() 1 eps,
// dot 3-4 eps, product 1 eps, subtraction 1 eps (twice for reflect).
template <class V> static void vecalgo (int k, const char* vn)
{
    typedef typename V::BaseType T;
    const LD e = ex::eps<T> ();
    const unsigned n = V::dimensions (), b = 2 * k + 1;
    std::string st = std::string ("vecalgo.") + vn;
    if (!R ().stage (st)) return;
    uint64_t N = ex::ipow (b, n);
    ll cases = 0, par = 0, orth = 0, gen = 0, scaled = 0;
    for (uint64_t i = 0; i < N; ++i)
        for (uint64_t j = 0; j < N; ++j)
        {
            int si[4], ti[4];
            ex::decode (i, b, n, si, -k); ex::decode (j, b, n, ti, -k);
            ll ss = 0, stt = 0, tt = 0, s1 = 0, t1 = 0;
            V sv, tv;
            for (unsigned c = 0; c < n; ++c) { ss += si[c] * si[c]; stt += si[c] * ti[c]; tt += ti[c] * ti[c]; s1 += std::abs (si[c]); t1 += std::abs (ti[c]); sv[c] = (T) si[c]; tv[c] = (T) ti[c]; }
            if (ss == 0) continue;
            ++cases;
            std::string in = std::string (vn) + " s=" + std::to_string (i) + " t=" + std::to_string (j) + " (base-" + std::to_string (b) + " digits, offset -" + std::to_string (k) + ")";
            LD tol = 8 * e * (LD) (t1 + 1), osd = 0, len2 = 0;
            // project / orthogonal do not depend on the magnitude of s, reflect(s,t) not on that of t: repeat with the
            // "onto" vector scaled by powers of two down to where its squared length underflows to zero / is subnormal
            // and up to where it is huge (exact scalings; the expected values are unchanged)
            {
                const bool dbl = std::numeric_limits<T>::digits > 30;
                const int  SC[3] = {dbl ? -540 : -70, dbl ? -600 : -100, dbl ? 500 : 60};
                for (int q = 0; q < 3; ++q)
                {
                    V ss2, ts2;
                    for (unsigned c = 0; c < n; ++c) { ss2[c] = (T) std::ldexp ((double) si[c], SC[q]); ts2[c] = (T) std::ldexp ((double) ti[c], SC[q]); }
                    V p2 = project (ss2, tv), o2 = orthogonal (ss2, tv);
                    for (unsigned c = 0; c < n; ++c)
                    {
                        LD wp = (LD) (stt * si[c]) / ss;
                        if (!(fabsl ((LD) p2[c] - wp) <= tol)) { R ().fail (std::string ("project.scaled-s.") + vn, in + " s*2^" + std::to_string (SC[q]), s (wp), fmt (p2[c])); break; }
                        if (!(fabsl ((LD) o2[c] - (ti[c] - wp)) <= tol)) { R ().fail (std::string ("orthogonal.scaled-s.") + vn, in + " s*2^" + std::to_string (SC[q]), s (ti[c] - wp), fmt (o2[c])); break; }
                    }
                    if (tt != 0)
                    {
                        V r2 = reflect (sv, ts2);
                        LD tolr2 = 8 * e * (LD) (s1 + 1);
                        for (unsigned c = 0; c < n; ++c)
                        {
                            LD wr = (LD) (2 * stt * ti[c]) / tt - si[c];
                            if (!(fabsl ((LD) r2[c] - wr) <= tolr2)) { R ().fail (std::string ("reflect.scaled-t.") + vn, in + " t*2^" + std::to_string (SC[q]), s (wr), fmt (r2[c])); break; }
                        }
                    }
                    ++scaled;
                }
            }
            V p = project (sv, tv), o = orthogonal (sv, tv);
            for (unsigned c = 0; c < n; ++c)
            {
                LD wp = (LD) (stt * si[c]) / ss;
                if (!(fabsl ((LD) p[c] - wp) <= tol)) R ().fail (std::string ("project.") + vn, in, s (wp), fmt (p[c]));
                if (!(fabsl ((LD) o[c] - (ti[c] - wp)) <= tol)) R ().fail (std::string ("orthogonal.") + vn, in, s (ti[c] - wp), fmt (o[c]));
                osd += (LD) o[c] * si[c];
            }
            if (!(fabsl (osd) <= tol * s1)) R ().fail (std::string ("orthogonal.perpendicular-to-s.") + vn, in, "0", s (osd));
            // count classes on the input
            if (stt == 0) ++orth; else if (stt * stt == ss * tt) ++par; else ++gen;
            if (tt == 0) continue;
            V r = reflect (sv, tv), rr = reflect (r, tv);
            LD tolr = 8 * e * (LD) (s1 + 1);
            for (unsigned c = 0; c < n; ++c)
            {
                LD wr = (LD) (2 * stt * ti[c]) / tt - si[c];
                if (!(fabsl ((LD) r[c] - wr) <= tolr)) R ().fail (std::string ("reflect.") + vn, in, s (wr), fmt (r[c]));
                if (!(fabsl ((LD) rr[c] - si[c]) <= 2 * tolr)) R ().fail (std::string ("reflect.involution.") + vn, in, std::to_string (si[c]), fmt (rr[c]));
                len2 += (LD) r[c] * r[c];
            }
            if (!(fabsl (sqrtl (len2) - sqrtl ((LD) ss)) <= 2 * tolr)) R ().fail (std::string ("reflect.length.") + vn, in, s (sqrtl ((LD) ss)), s (sqrtl (len2)));
        }
    R ().add ("states", cases); R ().add ("evaluations", cases); R ().add ("transitions", cases * 4);
    R ().cls ("vecalgo.t-orthogonal-to-s", orth); R ().cls ("vecalgo.t-parallel-to-s", par); R ().cls ("vecalgo.generic", gen);
    R ().cls ("vecalgo.onto-vector-scaled-2^k(squares underflow / huge)", scaled);
    R ().stage_done ("all ordered pairs (s != 0, t) of L(" + std::to_string (k) + ")^" + std::to_string (n));
}

// closestVertex (point form, exact: integer arithmetic is exact in T too) and (line form);
// rotatePoint identities.
template <class T> static void closest_vertex_rotate ()
{
    const LD e = ex::eps<T> ();
    std::string st = std::string ("closestVertex-rotatePoint.") + tname<T> ();
    if (!R ().stage (st)) return;
    const auto V1 = lattice (1), P = lattice (2);
    const auto DS = directions_small ();
    std::atomic<ll> cases (0), ties (0), uniq (0), lcases (0);
    bool ok = parallel_chunks (V1.size () * V1.size (), 8, [&] (uint64_t lo, uint64_t hi, unsigned) {
        ll k_t = 0, k_u = 0, k_c = 0, k_l = 0;
        for (uint64_t i = lo; i < hi; ++i)
        {
            I3 v0 = V1[i / V1.size ()], v1 = V1[i % V1.size ()];
            for (const I3& v2 : V1)
            {
                const I3 vs[3] = {v0, v1, v2};
                for (const I3& p : P)
                {
                    ll d[3], m;
                    for (int k = 0; k < 3; ++k) d[k] = dot (vs[k] - p, vs[k] - p);
                    m = std::min (d[0], std::min (d[1], d[2]));
                    Vec3<T> g = closestVertex (toV<T> (v0), toV<T> (v1), toV<T> (v2), toV<T> (p));
                    bool hit = false;
                    for (int k = 0; k < 3; ++k) if (g == toV<T> (vs[k]) && d[k] == m) hit = true;
                    if (!hit) R ().fail ("closestVertex(point)", std::string ("T=") + tname<T> () + " v0=" + s (v0) + " v1=" + s (v1) + " v2=" + s (v2) + " p=" + s (p), "a vertex at squared distance " + std::to_string (m), s (g));
                    ((d[0] == m) + (d[1] == m) + (d[2] == m) > 1 ? k_t : k_u)++;
                    ++k_c;
                }
                // line form: lines through 3 origins with the small direction alphabet; distance^2 to the line is
                // (|w|^2 v.v - (w.v)^2) / v.v, compared as integers; the returned vertex must be minimal up to the
                // rounding of length2 (<= 48 eps S^2, 64 used; distinct lattice values differ by >= 1/49)
                static const I3 LP[] = {{0, 0, 0}, {1, -2, 2}, {-1, 1, 0}};
                for (const I3& p0 : LP)
                    for (const I3& v : DS)
                    {
                        Line3<T> l (toV<T> (p0), toV<T> (p0 + v));
                        ll DD = dot (v, v), d[3], m;
                        for (int k = 0; k < 3; ++k) { I3 w = vs[k] - p0; ll n = dot (w, v); d[k] = dot (w, w) * DD - n * n; }
                        m = std::min (d[0], std::min (d[1], d[2]));
                        Vec3<T> g = closestVertex (toV<T> (v0), toV<T> (v1), toV<T> (v2), l);
                        bool hit = false;
                        LD S = (LD) (l1 (p0) + 4);
                        for (int k = 0; k < 3; ++k) if (g == toV<T> (vs[k]) && (LD) (d[k] - m) / DD <= 64 * e * S * S) hit = true;
                        if (!hit) R ().fail ("closestVertex(line)", std::string ("T=") + tname<T> () + " v0=" + s (v0) + " v1=" + s (v1) + " v2=" + s (v2) + " Line3(" + s (p0) + ", +" + s (v) + ")", "a vertex at minimal distance", s (g));
                        ++k_l;
                    }
            }
        }
        ties += k_t; uniq += k_u; cases += k_c; lcases += k_l;
    });
    R ().add ("states", cases + lcases); R ().add ("evaluations", cases + lcases); R ().add ("transitions", cases + lcases);
    R ().cls ("closestVertex.tie", ties); R ().cls ("closestVertex.unique-minimum", uniq);

    // rotatePoint(p, l, angle): r keeps the distance to the axis and the axial coordinate, and the turn
    // angle is `angle` (Rodrigues about the ideal axis; the sense of rotation is not documented, so either
    // sense is accepted but it must be the same one for every input).  Tolerance 16 eps S.
    ll rc = 0, onaxis = 0, left = 0, right = 0;
    static const I3 LP[] = {{0, 0, 0}, {1, -2, 2}};
    for (const I3& p0 : LP)
        for (const I3& v : DS)
            for (const I3& p : P)
                for (int ai = -12; ai <= 12; ++ai)
                    for (int fam = 0; fam < 2; ++fam)
                    {
                        if (fam == 1 && (ai % 2 == 0 || std::abs (ai) > 8)) continue; // odd multiples of pi/4
                        T ang = fam == 0 ? (T) (ai * 3.14159265358979323846264338327950288L / 6) : (T) (ai * 3.14159265358979323846264338327950288L / 4);
                        Line3<T> l (toV<T> (p0), toV<T> (p0 + v));
                        Vec3<T> r = rotatePoint (toV<T> (p), l, ang);
                        ll DD = dot (v, v); I3 w = p - p0; ll n = dot (w, v);
                        L3 q = {(LD) (p0.x * DD + n * v.x) / DD, (LD) (p0.y * DD + n * v.y) / DD, (LD) (p0.z * DD + n * v.z) / DD};
                        L3 x = toL (p) - q, a = toL (v) * (1 / sqrtl ((LD) DD)), y = cross (x, a);
                        LD cs = cosl ((LD) ang), sn = sinl ((LD) ang);
                        L3 rl = q + x * cs + y * sn, rr = q + x * cs - y * sn;
                        LD tol = 16 * e * (LD) (l1 (p) + l1 (p0) + 1);
                        bool ml = finite3 (r) && maxdiff (r, rl) <= tol, mr = finite3 (r) && maxdiff (r, rr) <= tol;
                        std::string in = std::string ("T=") + tname<T> () + " p=" + s (p) + " Line3(" + s (p0) + ", +" + s (v) + ") angle=" + fmt (ang);
                        if (!ml && !mr) R ().fail ("rotatePoint", in, s (rl) + " or " + s (rr), s (r));
                        else if (ml && !mr) ++left; else if (mr && !ml) ++right;
                        if (dot (x, x) == 0) ++onaxis;
                        ++rc;
                    }
    if (left && right) R ().fail ("rotatePoint.sense-inconsistent", std::string ("T=") + tname<T> (), "one sense of rotation for all inputs", std::to_string (left) + " cases only x%dir-handed, " + std::to_string (right) + " only dir%x-handed");
    R ().add ("states", rc); R ().add ("evaluations", rc); R ().add ("transitions", rc);
    R ().cls ("rotatePoint.point-on-axis", onaxis); R ().cls ("rotatePoint.sense-determined", left + right);
    R ().note (std::string ("rotatePoint sense, ") + tname<T> (), left ? "r = q + x cos + (x % dir) sin (as in the source comment)" : "r = q + x cos + (dir % x) sin");
    if (ok) R ().stage_done ("closestVertex: all 27^3 vertex triples x 125 points and x 39 lines; rotatePoint: 26 lines x 125 points x 33 angles");
    else R ().stage_partial ("deadline");
}

void run_vecalgo ()
{
    vecalgo<V2f> (2, "V2f"); vecalgo<V2d> (2, "V2d");
    vecalgo<V3f> (2, "V3f"); vecalgo<V3d> (2, "V3d");
    vecalgo<V4f> (1, "V4f"); vecalgo<V4d> (1, "V4d");
    closest_vertex_rotate<float> (); closest_vertex_rotate<double> ();
}
} // namespace c15

int main (int argc, char** argv)
{
    vf::R ().property = "C15";
    vf::R ().parse (argc, argv);
    vf::R ().assume ("long double has a 64-bit significand (x86-64): every rational oracle value is rounded once, to 2^-64 relative");
    c15::run_lines ();
    c15::run_vecalgo ();
    c15::run_planes ();
    c15::run_sphere ();
    c15::run_triangle ();
    c15::run_scale ();
    c15::run_graded ();
    c15::run_farsphere ();
    c15::run_affine ();
    c15::run_cvertex ();
    c15::run_dirty ();
    return vf::R ().finish ();
}
