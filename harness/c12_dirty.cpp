// C12, stage "factor-outputs-into-dirty-objects".
//
// Every factorisation entry point delivers its factors through caller-supplied objects: extractScaling(M, s), extractScalingAndShear(M, s, h),
// extractAndRemoveScalingAndShear(M, s, h), extractSHRT(M, s, h, r, t [, rOrder]) / (..., Euler& r, ...), their Matrix33 versions,
// jacobiSVD(A, U, S, V), jacobiEigenSolver(A, S, V). The property ("recompose to their input with structured factors") speaks about the
// factors these calls LEAVE in s, h, r, t, U, S, V; the callers' objects are in general re-used. The other stages hand in freshly
// constructed ones. Here each call is made with the outputs
//     * value-initialised (zero vectors, identity matrices),
//     * holding a distinct prime 100+p_k in EVERY slot, * the sign-alternating primes in reverse order, * a quiet NaN in EVERY slot,
// and -- whenever the function reports success (the bool ones; jacobiSVD / jacobiEigenSolver always) -- every output slot must be
// BITWISE what the first call left, and the returned bool must be the same. Oracle: the documented outputs are functions of the input
// matrix (and exc / rOrder / tol) alone; a deterministic sequence of IEEE operations on the same operands gives the same bits, so one
// differing bit is a dependence on the previous contents (an accumulation into V, a slot of h or t left unwritten, `s.z *= ...`). No
// tolerance. For the Euler& overload the Euler's ORDER is an input and is kept; its three angles are the pre-filled output. The in/out
// matrix of extractAndRemoveScalingAndShear and of jacobiEigenSolver (documented: A is destroyed) is an input, handed in identically.
//
// Sites: "<function><T>.result-depends-on-previous-contents" (one per entry point and element type).
#include "c12.hpp"
#include <limits>

namespace c12 {
namespace {
using vf::R;
struct Tally { long long st = 0, tr = 0, fill[3] = {0, 0, 0}, ok = 0, refused = 0, d3 = 0, d2 = 0, svd = 0, eig = 0, order = 0; };
template <class S> struct SN;
template <> struct SN<float>  { static const char* n () { return "float"; } };
template <> struct SN<double> { static const char* n () { return "double"; } };
const char* FILLN[3] = {"every slot a distinct prime 100+p_k", "every slot -+(100+p_k), reversed", "every slot NaN"};

template <class O, class E> void dirty (O& o, int kind)
{
    E*        p = reinterpret_cast<E*> (&o);
    const int N = (int) (sizeof (O) / sizeof (E));
    for (int i = 0; i < N; ++i)
        p[i] = kind == 0 ? (E) (100 + ex::PRIMES[i]) : kind == 1 ? (E) (((i & 1) ? 1 : -1) * (100 + ex::PRIMES[N - 1 - i])) : std::numeric_limits<E>::quiet_NaN ();
}
template <class O, class E> int diff (const O& a, const O& b)
{
    const E * p = reinterpret_cast<const E*> (&a), *q = reinterpret_cast<const E*> (&b);
    const int N = (int) (sizeof (O) / sizeof (E));
    for (int i = 0; i < N; ++i) if (!ex::same (p[i], q[i])) return i;
    return -1;
}
template <class O, class E> std::string show (const O& a)
{
    const E*  p = reinterpret_cast<const E*> (&a);
    const int N = (int) (sizeof (O) / sizeof (E));
    std::string s;
    for (int i = 0; i < N; ++i) s += (i ? " " : "") + vf::fmt (p[i]);
    return s;
}

// O: a standard-layout bundle of the outputs (all members of element type E); apply(O&) -> bool "reported success"
template <class O, class E, class Apply, class Desc> void run (Tally& tl, const std::string& fn, Apply apply, Desc desc)
{
    O    ref = O ();
    bool rok = apply (ref);
    ++tl.st; ++tl.tr;
    if (rok) ++tl.ok; else ++tl.refused;
    const std::string site = fn + "<" + SN<E>::n () + ">.result-depends-on-previous-contents";
    for (int k = 0; k < 3; ++k)
    {
        O d;
        dirty<O, E> (d, k);
        bool dok = apply (d);
        ++tl.tr; ++tl.fill[k];
        if (dok != rok) { R ().fail (site, desc () + "; outputs previously: " + FILLN[k], std::string ("returns ") + (rok ? "true" : "false") + " as with value-initialised outputs", dok ? "true" : "false"); continue; }
        if (!rok) continue; // nothing promised about the outputs
        int at = diff<O, E> (d, ref);
        if (at >= 0)
            R ().fail (site, desc () + "; outputs previously: " + FILLN[k] + "; first differing output slot " + std::to_string (at) + " (slots in argument order)",
                       "what the same call leaves in value-initialised outputs: " + show<O, E> (ref), show<O, E> (d));
    }
}

template <class T> struct O_s { Vec3<T> s; };
template <class T> struct O_sh { Vec3<T> s, h; };
template <class T> struct O_shrt { Vec3<T> s, h, r, t; };
template <class T> struct P_s { Vec2<T> s; };
template <class T> struct P_sh { Vec2<T> s; T h; };
template <class T> struct P_shrt { Vec2<T> s; T h, r; Vec2<T> t; };
template <class T> struct O_svd3 { Matrix33<T> U; Vec3<T> S; Matrix33<T> V; };
template <class T> struct O_svd4 { Matrix44<T> U; Vec4<T> S; Matrix44<T> V; };
template <class T> struct O_eig3 { Vec3<T> S; Matrix33<T> V; };
template <class T> struct O_eig4 { Vec4<T> S; Matrix44<T> V; };

template <class M, class T, int N> std::string mstr (const M& m)
{
    std::string s = "[";
    for (int i = 0; i < N; ++i) for (int j = 0; j < N; ++j) s += ((i || j) ? " " : "") + vf::fmt (m.x[i][j]);
    return s + "]";
}

template <class T> void shrt (Tally& tl)
{
    const T sc[5][3] = {{1, 1, 1}, {2, 3, 5}, {-2, 3, (T) 0.5}, {0, 1, 1}, {(T) 0.25, -1, -7}};
    const T sh[2][3] = {{0, 0, 0}, {(T) 0.5, (T) -0.25, (T) 0.125}};
    const T ro[4][3] = {{0, 0, 0}, {(T) 0.3, (T) -0.5, (T) 0.7}, {(T) 0.1, (T) 1.5707963267948966, (T) -0.2}, {3, -2, 1}};
    const T tr[2][3] = {{0, 0, 0}, {3, -5, 7}};
    for (int a = 0; a < 5; ++a) for (int b = 0; b < 2; ++b) for (int c = 0; c < 4; ++c) for (int d = 0; d < 2; ++d)
    {
        Matrix44<T> m;
        m.translate (Vec3<T> (tr[d][0], tr[d][1], tr[d][2]));
        m.rotate (Vec3<T> (ro[c][0], ro[c][1], ro[c][2]));
        m.shear (Vec3<T> (sh[b][0], sh[b][1], sh[b][2]));
        m.scale (Vec3<T> (sc[a][0], sc[a][1], sc[a][2]));
        auto D = [&] (const char* f) { return [=] () { return std::string (f) + " M = " + mstr<Matrix44<T>, T, 4> (m); }; };
        ++tl.d3;
        run<O_s<T>, T> (tl, "extractScaling(Matrix44)", [&] (O_s<T>& o) { return extractScaling (m, o.s, false); }, D ("extractScaling(M, s, false)"));
        run<O_sh<T>, T> (tl, "extractScalingAndShear(Matrix44)", [&] (O_sh<T>& o) { return extractScalingAndShear (m, o.s, o.h, false); }, D ("extractScalingAndShear(M, s, h, false)"));
        run<O_sh<T>, T> (tl, "extractAndRemoveScalingAndShear(Matrix44)", [&] (O_sh<T>& o) { Matrix44<T> c2 = m; return extractAndRemoveScalingAndShear (c2, o.s, o.h, false); }, D ("extractAndRemoveScalingAndShear(copy of M, s, h, false)"));
        run<O_shrt<T>, T> (tl, "extractSHRT(Matrix44,Vec3 r)", [&] (O_shrt<T>& o) { return extractSHRT (m, o.s, o.h, o.r, o.t, false); }, D ("extractSHRT(M, s, h, r, t, false)"));
        static const typename Euler<T>::Order ords[4] = {Euler<T>::XYZ, Euler<T>::ZYX, Euler<T>::XYX, Euler<T>::YXZr};
        for (int oi = 0; oi < 4; ++oi)
        {
            const typename Euler<T>::Order ord = ords[oi];
            ++tl.order;
            run<O_shrt<T>, T> (tl, "extractSHRT(Matrix44,Vec3 r,rOrder)", [&] (O_shrt<T>& o) { return extractSHRT (m, o.s, o.h, o.r, o.t, false, ord); },
                               [=] () { return "extractSHRT(M, s, h, r, t, false, rOrder #" + std::to_string (oi) + " of {XYZ,ZYX,XYX,YXZr}) M = " + mstr<Matrix44<T>, T, 4> (m); });
            run<O_shrt<T>, T> (tl, "extractSHRT(Matrix44,Euler r)", [&] (O_shrt<T>& o) {
                                   Euler<T> e (ord);
                                   e.x = o.r.x; e.y = o.r.y; e.z = o.r.z; // the angles are the output, the order is an input
                                   bool ok = extractSHRT (m, o.s, o.h, e, o.t, false);
                                   o.r.x = e.x; o.r.y = e.y; o.r.z = e.z;
                                   return ok && e.order () == ord;
                               },
                               [=] () { return "extractSHRT(M, s, h, Euler r of order #" + std::to_string (oi) + " of {XYZ,ZYX,XYX,YXZr}, t, false) M = " + mstr<Matrix44<T>, T, 4> (m); });
        }
        // 2-D
        Matrix33<T> n;
        n.translate (Vec2<T> (tr[d][0], tr[d][1]));
        n.rotate (ro[c][0]);
        n.shear (sh[b][0]);
        n.scale (Vec2<T> (sc[a][0], sc[a][1]));
        auto E = [&] (const char* f) { return [=] () { return std::string (f) + " M = " + mstr<Matrix33<T>, T, 3> (n); }; };
        ++tl.d2;
        run<P_s<T>, T> (tl, "extractScaling(Matrix33)", [&] (P_s<T>& o) { return extractScaling (n, o.s, false); }, E ("extractScaling(M, s, false)"));
        run<P_sh<T>, T> (tl, "extractScalingAndShear(Matrix33)", [&] (P_sh<T>& o) { return extractScalingAndShear (n, o.s, o.h, false); }, E ("extractScalingAndShear(M, s, h, false)"));
        run<P_sh<T>, T> (tl, "extractAndRemoveScalingAndShear(Matrix33)", [&] (P_sh<T>& o) { Matrix33<T> c2 = n; return extractAndRemoveScalingAndShear (c2, o.s, o.h, false); }, E ("extractAndRemoveScalingAndShear(copy of M, s, h, false)"));
        run<P_shrt<T>, T> (tl, "extractSHRT(Matrix33)", [&] (P_shrt<T>& o) { return extractSHRT (n, o.s, o.h, o.r, o.t, false); }, E ("extractSHRT(M, s, h, r, t, false)"));
    }
}

template <class T> void jacobi (Tally& tl)
{
    // 3x3: all matrices over {-1,0,2}^9 (SVD); symmetric ones over {-1,0,1,2}^6 (eigen)
    for (int i = 0; i < 19683; ++i)
    {
        int e[9];
        ex::decode ((uint64_t) i, 3, 9, e, -1);
        Matrix33<T> A;
        for (int k = 0; k < 9; ++k) A.x[k / 3][k % 3] = (T) (e[k] == 1 ? 2 : e[k]);
        ++tl.svd;
        for (int fp = 0; fp < 2; ++fp)
            run<O_svd3<T>, T> (tl, "jacobiSVD(Matrix33)", [&] (O_svd3<T>& o) { jacobiSVD (A, o.U, o.S, o.V, std::numeric_limits<T>::epsilon (), fp != 0); return true; },
                               [=] () { return std::string ("jacobiSVD(A, U, S, V, eps, forcePositiveDeterminant=") + (fp ? "true" : "false") + ") A = " + mstr<Matrix33<T>, T, 3> (A); });
    }
    for (int i = 0; i < 4096; ++i)
    {
        int e[6];
        ex::decode ((uint64_t) i, 4, 6, e, -1);
        Matrix33<T> A;
        int         k = 0;
        for (int r = 0; r < 3; ++r) for (int c = r; c < 3; ++c) { A.x[r][c] = A.x[c][r] = (T) e[k]; ++k; }
        ++tl.eig;
        run<O_eig3<T>, T> (tl, "jacobiEigenSolver(Matrix33)", [&] (O_eig3<T>& o) { Matrix33<T> c2 = A; jacobiEigenSolver (c2, o.S, o.V); return true; },
                           [=] () { return "jacobiEigenSolver(copy of A, S, V) A = " + mstr<Matrix33<T>, T, 3> (A); });
    }
    // 4x4: rows 0..2 over {0,1}^12, last row generic (SVD); symmetric over {-1,0,1}^8 with two fixed off-diagonal entries (eigen)
    for (int i = 0; i < 4096; ++i)
    {
        Matrix44<T> A;
        for (int k = 0; k < 12; ++k) A.x[k / 4][k % 4] = (T) ((i >> k) & 1);
        A.x[3][0] = 1; A.x[3][1] = -2; A.x[3][2] = 3; A.x[3][3] = 5;
        ++tl.svd;
        run<O_svd4<T>, T> (tl, "jacobiSVD(Matrix44)", [&] (O_svd4<T>& o) { jacobiSVD (A, o.U, o.S, o.V, std::numeric_limits<T>::epsilon (), (i & 1) != 0); return true; },
                           [=] () { return std::string ("jacobiSVD(A, U, S, V, eps, forcePositiveDeterminant=") + ((i & 1) ? "true" : "false") + ") A = " + mstr<Matrix44<T>, T, 4> (A); });
    }
    for (int i = 0; i < 6561; ++i)
    {
        int e[8];
        ex::decode ((uint64_t) i, 3, 8, e, -1);
        Matrix44<T> A;
        int         k = 0;
        for (int r = 0; r < 4; ++r)
            for (int c = r; c < 4; ++c)
            {
                T v;
                if (r == 0 && c == 3) v = 2; else if (r == 1 && c == 2) v = -1; else { v = (T) e[k]; ++k; }
                A.x[r][c] = A.x[c][r] = v;
            }
        ++tl.eig;
        run<O_eig4<T>, T> (tl, "jacobiEigenSolver(Matrix44)", [&] (O_eig4<T>& o) { Matrix44<T> c2 = A; jacobiEigenSolver (c2, o.S, o.V); return true; },
                           [=] () { return "jacobiEigenSolver(copy of A, S, V) A = " + mstr<Matrix44<T>, T, 4> (A); });
    }
}
} // namespace

void stage_dirty ()
{
    if (!R ().stage ("factor-outputs-into-dirty-objects")) return;
    Tally tl;
    shrt<float> (tl); shrt<double> (tl);
    jacobi<float> (tl); jacobi<double> (tl);
    R ().add ("states", tl.st); R ().add ("transitions", tl.tr); R ().add ("evaluations", tl.st);
    R ().cls ("dirty-outputs.previous-contents-distinct-primes", tl.fill[0]);
    R ().cls ("dirty-outputs.previous-contents-sign-flipped-reversed-primes", tl.fill[1]);
    R ().cls ("dirty-outputs.previous-contents-NaN", tl.fill[2]);
    R ().cls ("dirty-outputs.function-reports-success", tl.ok);
    R ().cls ("dirty-outputs.function-refuses(zero scale)-outputs-not-judged", tl.refused);
    R ().cls ("dirty-outputs.3-D-factorisations", tl.d3);
    R ().cls ("dirty-outputs.2-D-factorisations", tl.d2);
    R ().cls ("dirty-outputs.non-default-rotation-order", tl.order);
    R ().cls ("dirty-outputs.jacobiSVD", tl.svd);
    R ().cls ("dirty-outputs.jacobiEigenSolver", tl.eig);
    R ().sample ("Vec3f s,h,r,t all NaN; extractSHRT(S(2,3,5) H(.5,-.25,.125) R(.3,-.5,.7) T(3,-5,7), s,h,r,t,false): all 12 slots bitwise as with fresh outputs");
    R ().stage_done ("80 composed affine matrices (5 scales incl. reflection and zero, 2 shears, 4 rotations incl. gimbal lock, 2 translations) in 3-D and 2-D through extractScaling / extractScalingAndShear / "
                     "extractAndRemoveScalingAndShear / extractSHRT (Vec3 r; rOrder and Euler& in 4 orders; Matrix33 forms), jacobiSVD on all {-1,0,2}^9 3x3 (both forcePositiveDeterminant) and 4096 4x4 0/1 matrices, "
                     "jacobiEigenSolver on all 4096 symmetric {-1,0,1,2} 3x3 and 6561 symmetric {-1,0,1} 4x4: outputs value-initialised vs pre-filled with primes / sign-flipped primes / NaN in every slot, bitwise equal "
                     "whenever success is reported; float and double");
}
} // namespace c12
