// C14 — stage "guard": the overflow guards |face - origin| < TMAX*|dir| and dir > 1 AT their boundary, with direction
// components that are not powers of two.
//
// Numbers: box coordinates are integers k in units U = ulp(max) = 2^(emax+1-p) (max = (2^p-1) U), the origin is 0,
// direction components are integers m in units V = 2^-p. Every difference face - origin is exact. The oracle is the
// exact slab test of c14.hpp over __int128 (|k| < 2^p, |m| <= 3*2^(p-1): cross products < 2^(2p+2) <= 2^108).
//   directions per axis : 0, +-3/4, +-(1 - 2^-p), +-1, +-(1 + 2^(1-p)), thorough also +-3/2
//   big face values  X  : E-1, E, E+1 for E = fl(max*3/4);  max-2U, max-U (= fl(max*(1-2^-p))), max   (quick: E, E+1, max-U, max)
//                         (so for v in {3/4, 1-2^-p, 1} the guard operands |face| and fl(max*v) are equal / 1 ulp apart)
//   per-axis (min,max)  : (Q,X) (-X,-Q) (X,max) (-max,-X) for the six X, (-Q,Q), (Q,-Q) inverted; Q = 2^(p-3) U;
//                         thorough also (-Q,X) (-X,Q) (0,X) (-X,X)
// Regime (predicate on the input, exact): a parameter |face|/|dir| beyond max on some / on every axis with a
// non-zero direction component -> the case is judged under the ".some-t-overflows" / ".every-t-overflows" sites of
// c14.hpp (same mechanism as on the denormal-direction alphabet: a quotient that is not a finite number of T);
// otherwise every parameter is a finite number and the case is judged under "<entry point>.<relation>.guard-boundary".
// Checked domain: parameters of different axes can differ by less than an ulp here (e.g. E/(3/4) and max/1). A case
// whose exact truth value (line or ray) differs from that of the problem in which every parameter is replaced by its
// correctly rounded value fl(face/dir) (+-inf beyond max) is outside the checked domain: counted, not judged.
#pragma once
#include "c14.hpp"
#include "c14_lat.hpp"

namespace c14 {

typedef __int128 I128;

template <class T> bool run_guard (bool thorough)
{
    typedef std::numeric_limits<T> L;
    const int  p = L::digits;
    const I128 KMAX = ((I128) 1 << p) - 1, ONE = (I128) 1 << p, Q = (I128) 1 << (p - 3);
    const long double U = ldexpl (1, L::max_exponent - p), V = ldexpl (1, -p);
    // E = fl(max * 3/4) in units of U: round-to-nearest-even of KMAX*3/4 (the product lies in max's binade)
    I128 E; { I128 num = KMAX * 3, q = num / 4, r = num % 4; E = q + ((r > 2 || (r == 2 && (q & 1))) ? 1 : 0); }
    if ((T) ((long double) E * U) != L::max () * (T) 0.75) abort (); // the alphabet is what its description says
    const std::vector<I128> X = thorough ? std::vector<I128>{E - 1, E, E + 1, KMAX - 2, KMAX - 1, KMAX} : std::vector<I128>{E, E + 1, KMAX - 1, KMAX};
    std::vector<std::pair<I128, I128>> AX = {{-Q, Q}, {Q, -Q}};
    for (I128 x : X)
    {
        AX.push_back ({Q, x}); AX.push_back ({-x, -Q}); AX.push_back ({x, KMAX}); AX.push_back ({-KMAX, -x});
        if (thorough) { AX.push_back ({-Q, x}); AX.push_back ({-x, Q}); AX.push_back ({0, x}); AX.push_back ({-x, x}); }
    }
    std::vector<I128> D = {0};
    for (I128 m : {3 * (ONE / 4), ONE - 1, ONE, ONE + 2}) { D.push_back (m); D.push_back (-m); }
    if (thorough) { D.push_back (3 * (ONE / 2)); D.push_back (-3 * (ONE / 2)); }
    const uint64_t NA = AX.size (), NB = NA * NA * NA, NDC = D.size (), ND = NDC * NDC * NDC;
    Tally total; std::mutex mu;
    std::atomic<long long> n_eq (0), n_below (0), n_above (0), n_out (0), n_some (0), n_every (0), n_gt1 (0);
    bool ok = vf::parallel_chunks (NB, 8, [&] (uint64_t lo, uint64_t hi, unsigned) {
        Tally tl; long long l_eq = 0, l_below = 0, l_above = 0, l_out = 0, l_some = 0, l_every = 0, l_gt1 = 0;
        const I128 p0[3] = {0, 0, 0};
        for (uint64_t bi = lo; bi < hi; ++bi)
        {
            I128 mn[3], mx[3]; uint64_t x = bi; bool empty = false;
            for (int i = 0; i < 3; ++i) { auto& a = AX[x % NA]; x /= NA; mn[i] = a.first; mx[i] = a.second; empty = empty || mx[i] < mn[i]; }
            for (uint64_t di = 0; di < ND; ++di)
            {
                int dc[3]; ex::decode (di, (unsigned) NDC, 3, dc);
                if (!dc[0] && !dc[1] && !dc[2]) continue;
                const I128 d[3] = {D[dc[0]], D[dc[1]], D[dc[2]]};
                CaseOpt opt; opt.cls = ".guard-boundary"; opt.cscale = U; opt.dscale = V; opt.regime = 0;
                bool eq = false, below = false, above = false, gt1 = false;
                if (!empty)
                {
                    // regime and guard classes: exact integer predicates on the input
                    int nover = 0, naxes = 0; bool parmiss = false;
                    T tlo = -L::infinity (), thi = L::infinity (); // the correctly-rounded-parameters problem
                    for (int i = 0; i < 3; ++i)
                    {
                        if (d[i] == 0) { parmiss = parmiss || 0 < mn[i] || 0 > mx[i]; continue; }
                        ++naxes;
                        const I128 ad = d[i] < 0 ? -d[i] : d[i];
                        bool over = false;
                        for (I128 f : {mn[i], mx[i]})
                        {
                            const I128 af = f < 0 ? -f : f;
                            if (af * ONE > KMAX * ad) over = true; // |f| U / (|d| V) > max
                            if (ad > ONE) { if (af >= KMAX - 2) gt1 = true; continue; }
                            // fl(max*|dir|) in units of U: |dir| in {3/4, 1-2^-p, 1} -> E, KMAX-1, KMAX
                            const I128 g = ad == ONE ? KMAX : (ad == ONE - 1 ? KMAX - 1 : E);
                            if (af == g) eq = true; else if (af == g - 1) below = true; else if (af == g + 1) above = true;
                        }
                        if (over) ++nover;
                        const T td = conv<T> (d[i], V);
                        T a = conv<T> (mn[i], U) / td, b = conv<T> (mx[i], U) / td; // correctly rounded, +-inf beyond max
                        if (a > b) std::swap (a, b);
                        if (a > tlo) tlo = a;
                        if (b < thi) thi = b;
                    }
                    opt.regime = nover == 0 ? 0 : (nover == naxes ? 3 : 2);
                    const Truth<I128> tr = slab<I128> (mn, mx, p0, d);
                    const bool rline = !parmiss && tlo <= thi, rray = rline && thi >= 0;
                    if (rline != tr.line || rray != tr.ray)
                    {   // outside the domain of the exact oracle; the documented-fallback model has its own domain test (c14.hpp)
                        ++l_out;
                        if (opt.regime >= 2) { opt.fallback_only = true; one_case<T, I128> (mn, mx, p0, d, tl, opt); }
                        continue;
                    }
                    if (opt.regime == 2) ++l_some;
                    if (opt.regime == 3) ++l_every;
                }
                one_case<T, I128> (mn, mx, p0, d, tl, opt);
                if (eq) ++l_eq;
                if (below) ++l_below;
                if (above) ++l_above;
                if (gt1) ++l_gt1;
            }
        }
        n_eq += l_eq; n_below += l_below; n_above += l_above; n_out += l_out; n_some += l_some; n_every += l_every; n_gt1 += l_gt1;
        std::lock_guard<std::mutex> g (mu); total += tl;
    });
    publish (total, "guard.");
    vf::R ().cls ("guard.operands-equal(|face-origin| == fl(max*|dir|), |dir| <= 1)", n_eq.load ());
    vf::R ().cls ("guard.operands-one-ulp-apart(|face-origin| below fl(max*|dir|))", n_below.load ());
    vf::R ().cls ("guard.operands-one-ulp-apart(|face-origin| above fl(max*|dir|))", n_above.load ());
    vf::R ().cls ("guard.|dir|-just-above-1-with-face-at-max(short-circuit branch)", n_gt1.load ());
    vf::R ().cls ("guard.some-t-exceeds-max", n_some.load ());
    vf::R ().cls ("guard.every-t-exceeds-max", n_every.load ());
    vf::R ().add ("guard_cases_outside_domain(truth rests on a sub-ulp difference of parameters)", n_out.load ());
    vf::R ().cls ("guard.overflow-regime.judged-against-documented-fallback", total.fb_judged);
    vf::R ().add ("guard_overflow_cases_outside_fallback_model_domain(sub-ulp difference of parameters)", total.fb_excluded);
    vf::R ().note_max (std::string ("worst guard-alphabet point error / (eps*M), ") + tname<T> (), total.worst);
    return ok;
}

} // namespace c14
