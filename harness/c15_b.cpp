// C15 (part b) — Plane3: constructions, distanceTo, reflectPoint / reflectVector, line intersection,
// operator-, plane x Matrix44.
#include "c15.hpp"

namespace c15 {
using namespace vf;

// ------------------------------------------------------------------------------------------------
// Three-point planes: all ordered lattice triples (a,b,c), non-collinear, x test points q.
// Integer data: N = (b-a) x (c-a);  normal = N/|N|, distance = N.a/|N|, signed distance of q = N.(q-a)/|N|,
// reflectPoint(q) = q - 2 (N.(q-a)/N.N) N,  reflectVector(v) = 2 (N.v/N.N) N - v   (the documented formula:
// the component along the normal is kept, the in-plane component negated; see DESIGN.md §3 note).
// Tolerances: normal 4 eps per component (exact integer cross product, correctly rounded sqrt, one
// division); everything else 16 eps S, S = |a|_1 + |q|_1 + 1 (normal 1 eps, two 3-term dot products
// <= 3 eps S each, one product, one add => < 8 eps S); compositions (involution, negated distance) 32 eps S.
template <class T> static void plane_3pt ()
{
    const LD   e  = ex::eps<T> ();
    const bool th = R ().thorough ();
    const auto A = lattice (1);
    const auto B = th ? lattice (2) : lattice (1);
    std::vector<I3> Q;
    if (th) Q = lattice (2);
    else for (ll x : {-2, 0, 1}) for (ll y : {-2, 0, 1}) for (ll z : {-2, 0, 1}) Q.push_back ({x, y, z});
    std::string st = std::string ("plane-3pt.") + tname<T> ();
    if (!R ().stage (st)) return;
    std::atomic<ll> planes (0), coll (0), onp (0), pos (0), neg (0);
    bool ok = parallel_chunks (A.size () * B.size (), 4, [&] (uint64_t lo, uint64_t hi, unsigned) {
        ll k_pl = 0, k_co = 0, k_on = 0, k_pos = 0, k_neg = 0;
        for (uint64_t i = lo; i < hi; ++i)
        {
            I3 a = A[i / B.size ()], b = B[i % B.size ()];
            for (const I3& c : B)
            {
                I3 N = cross (b - a, c - a);
                ll NN = dot (N, N);
                if (NN == 0) { ++k_co; continue; }
                ++k_pl;
                LD nl = sqrtl ((LD) NN);
                Plane3<T> pl (toV<T> (a), toV<T> (b), toV<T> (c));
                std::string in0 = std::string ("T=") + tname<T> () + " Plane3(" + s (a) + "," + s (b) + "," + s (c) + ")";
                if (!(maxdiff (pl.normal, toL (N) * (1 / nl)) <= 4 * e)) R ().fail ("Plane3::set(3 points).normal", in0, s (toL (N) * (1 / nl)), s (pl.normal));
                if (!(fabsl ((LD) pl.distance - (LD) dot (N, a) / nl) <= 8 * e * (LD) (l1 (a) + 1))) R ().fail ("Plane3::set(3 points).distance", in0, s ((LD) dot (N, a) / nl), fmt (pl.distance));
                for (const I3* p : {(const I3*) &a, (const I3*) &b, &c})
                    if (!(fabsl ((LD) pl.distanceTo (toV<T> (*p))) <= 16 * e * (LD) (l1 (a) + l1 (*p) + 1)))
                        R ().fail ("Plane3::distanceTo.defining-point", in0 + " p=" + s (*p), "0", fmt (pl.distanceTo (toV<T> (*p))));
                for (const I3& q : Q)
                {
                    ll  nq = dot (N, q - a);
                    LD  S = (LD) (l1 (a) + l1 (q) + 1), tol = 16 * e * S, sd = (LD) nq / nl;
                    std::string in = in0 + " q=" + s (q);
                    Vec3<T> qv = toV<T> (q);
                    (nq == 0 ? k_on : (nq > 0 ? k_pos : k_neg))++;
                    T gd = pl.distanceTo (qv);
                    if (!(fabsl ((LD) gd - sd) <= tol)) R ().fail ("Plane3::distanceTo", in, s (sd), fmt (gd));
                    L3 wr = {q.x - (LD) (2 * nq * N.x) / NN, q.y - (LD) (2 * nq * N.y) / NN, q.z - (LD) (2 * nq * N.z) / NN};
                    Vec3<T> r = pl.reflectPoint (qv);
                    if (!(maxdiff (r, wr) <= tol)) R ().fail ("Plane3::reflectPoint", in, s (wr), s (r));
                    if (!(maxdiff (pl.reflectPoint (r), toL (q)) <= 2 * tol)) R ().fail ("Plane3::reflectPoint.involution", in, s (q), s (pl.reflectPoint (r)));
                    if (!(fabsl ((LD) pl.distanceTo (r) + sd) <= 2 * tol)) R ().fail ("Plane3::reflectPoint.negates-distance", in, s (-sd), fmt (pl.distanceTo (r)));
                    ll  nv = dot (N, q);
                    LD  tv = 16 * e * (LD) (l1 (q) + 1);
                    L3 wv = {(LD) (2 * nv * N.x) / NN - q.x, (LD) (2 * nv * N.y) / NN - q.y, (LD) (2 * nv * N.z) / NN - q.z};
                    Vec3<T> rv = pl.reflectVector (qv);
                    if (!(maxdiff (rv, wv) <= tv)) R ().fail ("Plane3::reflectVector", in, s (wv), s (rv));
                    if (!(maxdiff (pl.reflectVector (rv), toL (q)) <= 2 * tv)) R ().fail ("Plane3::reflectVector.involution", in, s (q), s (pl.reflectVector (rv)));
                    if (!(fabsl (len (toL (rv)) - sqrtl ((LD) dot (q, q))) <= 2 * tv)) R ().fail ("Plane3::reflectVector.length", in, s (sqrtl ((LD) dot (q, q))), s (len (toL (rv))));
                }
            }
        }
        planes += k_pl; coll += k_co; onp += k_on; pos += k_pos; neg += k_neg;
    });
    ll n = planes.load () * (ll) Q.size ();
    R ().add ("states", n); R ().add ("evaluations", n); R ().add ("transitions", n * 8 + planes.load () * 5);
    R ().add ("collinear_triples_skipped", coll);
    R ().cls ("plane.point-on-plane", onp); R ().cls ("plane.point-positive-side", pos); R ().cls ("plane.point-negative-side", neg);
    if (ok) R ().stage_done (std::to_string (planes.load ()) + " non-collinear ordered lattice triples x " + std::to_string (Q.size ()) + " points, exact rational oracle");
    else R ().stage_partial (std::to_string (planes.load ()) + " planes");
}

// ------------------------------------------------------------------------------------------------
// point+normal, normal+distance, operator-  (p in L(2)^3, n in the direction alphabet)
template <class T> static void plane_ctor ()
{
    const LD e = ex::eps<T> ();
    std::string st = std::string ("plane-ctor.") + tname<T> ();
    if (!R ().stage (st)) return;
    const auto P = lattice (2);
    const auto D = directions ();
    ll cases = 0, axis = 0, gen = 0;
    for (const I3& n : D)
    {
        LD nl = sqrtl ((LD) dot (n, n));
        L3 nh = toL (n) * (1 / nl);
        for (const I3& p : P)
        {
            Plane3<T> pl (toV<T> (p), toV<T> (n));
            std::string in = std::string ("T=") + tname<T> () + " Plane3(point=" + s (p) + ", normal=" + s (n) + ")";
            if (!(maxdiff (pl.normal, nh) <= 4 * e)) R ().fail ("Plane3::set(point,normal).normal", in, s (nh), s (pl.normal));
            if (!(fabsl ((LD) pl.distance - (LD) dot (n, p) / nl) <= 8 * e * (LD) (l1 (p) + 1))) R ().fail ("Plane3::set(point,normal).distance", in, s ((LD) dot (n, p) / nl), fmt (pl.distance));
            if (!(fabsl ((LD) pl.distanceTo (toV<T> (p))) <= 16 * e * (LD) (l1 (p) + 1))) R ().fail ("Plane3::distanceTo.defining-point", in, "0", fmt (pl.distanceTo (toV<T> (p))));
            ++cases; (l1 (n) == 1 ? axis : gen)++;
        }
        static const double ds[] = {-3, -0.5, 0, 0.25, 2, 7};
        for (double d : ds)
        {
            Plane3<T> pl (toV<T> (n), (T) d);
            std::string in = std::string ("T=") + tname<T> () + " Plane3(normal=" + s (n) + ", distance=" + fmt (d) + ")";
            if (!(maxdiff (pl.normal, nh) <= 4 * e)) R ().fail ("Plane3::set(normal,distance).normal", in, s (nh), s (pl.normal));
            if (!ex::same (pl.distance, (T) d)) R ().fail ("Plane3::set(normal,distance).distance", in, fmt ((T) d), fmt (pl.distance));
            // the defining point d*normal: |n.(d n) - d| <= |d| (|n|^2 - 1) + rounding <= 16 eps (|d|+1)
            if (!(fabsl ((LD) pl.distanceTo (pl.normal * (T) d)) <= 16 * e * (fabsl ((LD) d) + 1))) R ().fail ("Plane3::distanceTo.defining-point", in, "0", fmt (pl.distanceTo (pl.normal * (T) d)));
            Plane3<T> m = -pl;
            if (!(maxdiff (m.normal, nh * -1) <= 4 * e) || !ex::same (m.distance, (T) -d)) R ().fail ("Plane3::operator-", in, s (nh * -1) + " " + fmt ((T) -d), s (m.normal) + " " + fmt (m.distance));
            // same point set, opposite half space
            Vec3<T> q = toV<T> (I3{1, -2, 2});
            if (!(fabsl ((LD) m.distanceTo (q) + (LD) pl.distanceTo (q)) <= 16 * e * 8)) R ().fail ("Plane3::operator-.distance-negated", in, fmt (-pl.distanceTo (q)), fmt (m.distanceTo (q)));
            ++cases;
        }
    }
    R ().add ("states", cases); R ().add ("evaluations", cases); R ().add ("transitions", cases * 3);
    R ().cls ("plane.axis-aligned-normal", axis); R ().cls ("plane.oblique-normal", gen);
    R ().stage_done ("170 normals x (125 points + 6 distances)");
}

// ------------------------------------------------------------------------------------------------
// Line / plane intersection.  Plane (pp, nn), line (p0, v), integers.  nv = nn.v != 0:
//   X = p0 + (nn.(pp-p0)/nv) v, parameter t = (nn.(pp-p0)/nv) |v|.  kappa = |nn||v|/|nv| = 1/|cos|.
// Tolerance 32 eps S kappa^2, S = |pp|_1 + |p0|_1 + 1: d = n.dir has absolute error <= 4 eps (relative
// 4 eps kappa); the numerator n.pos - distance has absolute error <= 8 eps S and magnitude <= 2 S; so
// t = -num/d errs by <= 8 eps S kappa + 2 S kappa * 4 eps kappa <= 16 eps S kappa^2, the point by one more eps.
// nv == 0 (line parallel to or inside the plane): the return value is not constrained (a rounded dot
// product need not be exactly zero); what came back is only counted.
template <class T> static void plane_line ()
{
    const LD   e  = ex::eps<T> ();
    const bool th = R ().thorough ();
    std::string st = std::string ("plane-line.") + tname<T> ();
    if (!R ().stage (st)) return;
    const auto D  = directions ();
    const auto DS = directions_small ();
    std::vector<I3> PP = th ? lattice (1) : std::vector<I3>{{0, 0, 0}, {1, -2, 2}, {-1, 0, 2}};
    std::vector<I3> P0 = th ? lattice (2) : lattice (1);
    std::atomic<ll> hit (0), par (0), parfalse (0);
    bool ok = parallel_chunks (PP.size () * D.size (), 4, [&] (uint64_t lo, uint64_t hi, unsigned) {
        ll k_hit = 0, k_par = 0, k_pf = 0;
        for (uint64_t i = lo; i < hi; ++i)
        {
            I3 pp = PP[i / D.size ()], nn = D[i % D.size ()];
            Plane3<T> pl (toV<T> (pp), toV<T> (nn));
            for (const I3& p0 : P0)
                for (const I3& v : DS)
                {
                    Line3<T> l (toV<T> (p0), toV<T> (p0 + v));
                    ll nv = dot (nn, v), num = dot (nn, pp - p0);
                    Vec3<T> X ((T) 77); T t = 77;
                    bool r1 = pl.intersect (l, X), r2 = pl.intersectT (l, t);
                    auto in = [&] () { return std::string ("T=") + tname<T> () + " Plane3(point=" + s (pp) + ", normal=" + s (nn) + ") Line3(" + s (p0) + ", +" + s (v) + ")"; };
                    if (r1 != r2) R ().fail ("Plane3::intersect-vs-intersectT", in (), fmt (r2), fmt (r1));
                    if (nv == 0) { ++k_par; if (!r1) ++k_pf; continue; }
                    ++k_hit;
                    LD vl = sqrtl ((LD) dot (v, v)), k2 = (LD) dot (nn, nn) * dot (v, v) / ((LD) nv * nv);
                    LD tol = 32 * e * (LD) (l1 (pp) + l1 (p0) + 1) * k2;
                    L3 wX = {(LD) (p0.x * nv + num * v.x) / nv, (LD) (p0.y * nv + num * v.y) / nv, (LD) (p0.z * nv + num * v.z) / nv};
                    if (!r1) R ().fail ("Plane3::intersect.false-on-crossing-line", in (), "true", "false");
                    else if (!(maxdiff (X, wX) <= tol)) R ().fail ("Plane3::intersect.point", in (), s (wX), s (X));
                    if (!r2) R ().fail ("Plane3::intersectT.false-on-crossing-line", in (), "true", "false");
                    else if (!(fabsl ((LD) t - (LD) num / nv * vl) <= tol)) R ().fail ("Plane3::intersectT.parameter", in (), s ((LD) num / nv * vl), fmt (t));
                }
        }
        hit += k_hit; par += k_par; parfalse += k_pf;
    });
    ll n = hit + par;
    R ().add ("states", n); R ().add ("evaluations", n); R ().add ("transitions", n * 2);
    R ().cls ("plane-line.crossing", hit); R ().cls ("plane-line.parallel-or-contained", par);
    R ().add (std::string ("plane_line_parallel_reported_false.") + tname<T> (), parfalse);
    if (ok) R ().stage_done (std::to_string (PP.size () * D.size ()) + " planes x " + std::to_string (P0.size () * DS.size ()) + " lines, exact rational oracle");
    else R ().stage_partial ("deadline");
}

// ------------------------------------------------------------------------------------------------
// plane x Matrix44.  M = diag(sx,sy,sz) . R . translate(tr): 24 cube rotations, dyadic scales, lattice
// translations - every entry exact in T.  For the plane through pp with normal nn, and x on it, x.M lies on
// the image plane, whose normal is proportional to (nn_i / s_i) R and for which the signed distance of y.M
// equals nn.(y-pp) / |(nn_i/s_i)|  (det > 0).
//   contains: |P'.distanceTo(a_i M)| <= tol for pp and two further lattice points of the plane
//   side (det > 0 only): P'.distanceTo((pp +- nn) M) has the sign +-, whenever the true value exceeds tol
//   (reflections, det < 0: only "contains" is claimed by the property).
// Tolerance 64 eps kappa S'^2 with S' = 1 + max |a_i M|_1 and kappa = (smax/smin)^2: operator* rebuilds
// the plane from three transformed points; their coordinates carry <= 4 eps S' rounding, the two spanning
// vectors have length >= smin*0.8, the angle between them is distorted by at most smax/smin, so the unit
// normal errs by <= 16 eps S' kappa and a point at distance <= S' from the anchor by S' times that,
// plus 8 eps S' for the offset and the final dot product.
template <class T> static void plane_matrix ()
{
    const LD e = ex::eps<T> ();
    std::string st = std::string ("plane-matrix.") + tname<T> ();
    if (!R ().stage (st)) return;
    const auto D = directions ();
    const auto rots = ex::cube_rotations ();
    const I3 PP[] = {{0, 0, 0}, {1, -2, 2}, {-1, 0, 2}};
    const I3 TR[] = {{0, 0, 0}, {1, -2, 3}};
    const double SC[][3] = {{1, 1, 1}, {2, 2, 2}, {0.5, 0.5, 0.5}, {1, 2, 4}, {2, 0.5, 1}, {-1, 1, 1}, {1, -2, 1}, {-1, -1, -1}};
    std::atomic<ll> cases (0), refl (0), aniso (0), axisn (0), sidechk (0), proj (0), sideproj (0);
    std::mutex mm; double worst = 0;
    bool ok = parallel_chunks (D.size () * 3, 2, [&] (uint64_t lo, uint64_t hi, unsigned) {
        ll k_c = 0, k_r = 0, k_a = 0, k_ax = 0, k_s = 0, k_pj = 0, k_sp = 0; double lw = 0;
        for (uint64_t i = lo; i < hi; ++i)
        {
            I3 pp = PP[i / D.size ()], nn = D[i % D.size ()];
            Plane3<T> pl (toV<T> (pp), toV<T> (nn));
            // two independent lattice vectors in the plane: nn x e_i, nn x e_j with k = argmax |nn_k| the third axis
            int k = std::llabs (nn.x) >= std::llabs (nn.y) && std::llabs (nn.x) >= std::llabs (nn.z) ? 0 : (std::llabs (nn.y) >= std::llabs (nn.z) ? 1 : 2);
            const I3 ax[3] = {{1, 0, 0}, {0, 1, 0}, {0, 0, 1}};
            I3 u1 = cross (nn, ax[(k + 1) % 3]), u2 = cross (nn, ax[(k + 2) % 3]);
            const I3 pts[5] = {pp, pp + u1, pp + u2, pp + nn, pp - nn};
            for (auto& rm : rots)
                for (const I3& tr : TR)
                    for (auto& sc : SC)
                    for (int pj = 0; pj < 3; ++pj)
                    {
                        // pj > 0: a PROJECTIVE matrix — last column (p, 1) with |p_i| <= 1/64, so that the homogeneous
                        // coordinate w = x.p + 1 stays in [1/2, 3/2] on every point used (|x_i| <= 10). The image of
                        // the plane is still a plane and must contain the (divided) images of its points.
                        static const double PJ[3][3] = {{0, 0, 0}, {1.0 / 64, 0, -1.0 / 64}, {0, -1.0 / 128, 1.0 / 64}};
                        const double* pc = PJ[pj];
                        Matrix44<T> M;
                        for (int r = 0; r < 3; ++r) for (int c = 0; c < 3; ++c) M[r][c] = (T) (sc[r] * rm[r * 3 + c]);
                        M[3][0] = (T) tr.x; M[3][1] = (T) tr.y; M[3][2] = (T) tr.z;
                        for (int r = 0; r < 3; ++r) M[r][3] = (T) pc[r];
                        bool reflection = sc[0] * sc[1] * sc[2] < 0;
                        LD smax = std::max (std::fabs (sc[0]), std::max (std::fabs (sc[1]), std::fabs (sc[2]))), smin = std::min (std::fabs (sc[0]), std::min (std::fabs (sc[1]), std::fabs (sc[2])));
                        Plane3<T> q = pl * M;
                        L3 im[5]; LD S = 0;
                        for (int a = 0; a < 5; ++a)
                        {
                            LD x[3] = {(LD) pts[a].x * sc[0], (LD) pts[a].y * sc[1], (LD) pts[a].z * sc[2]}, y[3];
                            for (int c = 0; c < 3; ++c) y[c] = x[0] * rm[c] + x[1] * rm[3 + c] + x[2] * rm[6 + c];
                            LD w = 1 + (LD) pts[a].x * pc[0] + (LD) pts[a].y * pc[1] + (LD) pts[a].z * pc[2];
                            im[a] = {(y[0] + tr.x) / w, (y[1] + tr.y) / w, (y[2] + tr.z) / w};
                            if (a < 3) S = std::max (S, l1 (im[a]));
                        }
                        S += 1;
                        LD tol = 64 * e * (smax / smin) * (smax / smin) * S * S;
                        if (pj) tol *= 16; // w in [1/2,3/2]: one more rounding per coordinate and a local distortion of at most (wmax/wmin)^2 = 9
                        auto in = [&] () {
                            std::string m;
                            for (int r = 0; r < 4; ++r) for (int c = 0; c < 3; ++c) m += fmt ((double) M[r][c]).substr (0, fmt ((double) M[r][c]).find ('[')) + (c == 2 ? (r == 3 ? "" : " / ") : " ");
                            return std::string ("T=") + tname<T> () + " Plane3(point=" + s (pp) + ", normal=" + s (nn) + ") * M(rows 0..3, cols 0..2 = " + m + "; last column = (" + std::to_string (pc[0]) + "," + std::to_string (pc[1]) + "," + std::to_string (pc[2]) + ",1))";
                        };
                        L3 qn = toL (q.normal);
                        if (!(fabsl (dot (qn, qn) - 1) <= 8 * e)) R ().fail ("Plane3*Matrix44.unit-normal", in (), "1", s (dot (qn, qn)));
                        for (int a = 0; a < 3; ++a)
                        {
                            LD dd = dot (qn, im[a]) - (LD) q.distance;
                            lw = std::max (lw, (double) (fabsl (dd) / tol));
                            if (!(fabsl (dd) <= tol)) R ().fail (reflection ? "Plane3*Matrix44.contains-transformed-points.reflection" : "Plane3*Matrix44.contains-transformed-points", in () + " point " + s (pts[a]), "0", s (dd));
                        }
                        if (pj) ++k_pj;
                        if (!reflection && !pj)
                        {
                            LD nl = sqrtl ((LD) (nn.x * nn.x) / (sc[0] * sc[0]) + (LD) (nn.y * nn.y) / (sc[1] * sc[1]) + (LD) (nn.z * nn.z) / (sc[2] * sc[2]));
                            LD td = (LD) dot (nn, nn) / nl; // true distance of (pp+nn).M from the image plane
                            if (td > 2 * tol)
                            {
                                ++k_s;
                                LD dp = dot (qn, im[3]) - (LD) q.distance, dm = dot (qn, im[4]) - (LD) q.distance;
                                if (!(dp > 0) || !(dm < 0)) R ().fail ("Plane3*Matrix44.side-preserved", in (), "+" + s (td) + " / -" + s (td), s (dp) + " / " + s (dm));
                            }
                        }
                        if (!reflection && pj)
                        {
                            // Projective M with det(M) > 0 and homogeneous coordinate w > 0 on every point involved (the
                            // library's three plane points have |x_i| <= |d| + 1.2 <= 6, so w >= 1 - 12/64): the orientation
                            // of a point quadruple is multiplied by det(M) / (w0 w1 w2 w3) > 0, hence the side is kept.
                            // True off-plane distance of the image of pp +- nn: from the plane through the three exact images.
                            LD m4[4][4];
                            for (int r = 0; r < 4; ++r) for (int c = 0; c < 4; ++c) m4[r][c] = (LD) M[r][c];
                            LD det = 0;
                            {
                                static const int PM[24][4] = {{0,1,2,3},{0,1,3,2},{0,2,1,3},{0,2,3,1},{0,3,1,2},{0,3,2,1},{1,0,2,3},{1,0,3,2},{1,2,0,3},{1,2,3,0},{1,3,0,2},{1,3,2,0},
                                                              {2,0,1,3},{2,0,3,1},{2,1,0,3},{2,1,3,0},{2,3,0,1},{2,3,1,0},{3,0,1,2},{3,0,2,1},{3,1,0,2},{3,1,2,0},{3,2,0,1},{3,2,1,0}};
                                for (auto& pm : PM)
                                {
                                    int inv = 0; for (int a = 0; a < 4; ++a) for (int b = a + 1; b < 4; ++b) if (pm[a] > pm[b]) ++inv;
                                    det += ((inv & 1) ? -1 : 1) * m4[0][pm[0]] * m4[1][pm[1]] * m4[2][pm[2]] * m4[3][pm[3]];
                                }
                            }
                            L3 Nn = cross (im[1] - im[0], im[2] - im[0]);
                            LD tp = fabsl (dot (Nn, im[3] - im[0])) / len (Nn), tm = fabsl (dot (Nn, im[4] - im[0])) / len (Nn);
                            if (det > 0 && std::min (tp, tm) > 2 * tol)
                            {
                                ++k_sp;
                                LD dp = dot (qn, im[3]) - (LD) q.distance, dm = dot (qn, im[4]) - (LD) q.distance;
                                if (!(dp > 0) || !(dm < 0)) R ().fail ("Plane3*Matrix44.side-preserved.projective", in (), "+" + s (tp) + " / -" + s (tm), s (dp) + " / " + s (dm));
                            }
                        }
                        ++k_c; if (reflection) ++k_r; if (smax != smin) ++k_a; if (l1 (nn) == 1) ++k_ax;
                    }
        }
        cases += k_c; refl += k_r; aniso += k_a; axisn += k_ax; sidechk += k_s; proj += k_pj; sideproj += k_sp;
        std::lock_guard<std::mutex> g (mm); worst = std::max (worst, lw);
    });
    R ().add ("states", cases); R ().add ("evaluations", cases); R ().add ("transitions", cases.load () * 5);
    R ().cls ("plane-matrix.reflection", refl); R ().cls ("plane-matrix.non-uniform-scale", aniso);
    R ().cls ("plane-matrix.axis-aligned-normal", axisn); R ().cls ("plane-matrix.side-checked", sidechk);
    R ().cls ("plane-matrix.projective-last-column", proj); R ().cls ("plane-matrix.side-checked.projective(det>0,w>0)", sideproj);
    R ().note_max (std::string ("worst plane*M containment residual / tolerance, ") + tname<T> (), worst);
    if (ok) R ().stage_done ("510 planes x 24 rotations x 2 translations x 8 scales (3 of them reflections)");
    else R ().stage_partial ("deadline");
}

void run_planes ()
{
    plane_3pt<float> (); plane_3pt<double> ();
    plane_ctor<float> (); plane_ctor<double> ();
    plane_line<float> (); plane_line<double> ();
    plane_matrix<float> (); plane_matrix<double> ();
}
} // namespace c15
