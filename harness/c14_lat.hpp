// C14 — integer lattice alphabets, exact integer oracle.
#pragma once
#include "c14.hpp"

namespace c14 {

static void publish (const Tally& t, const char* prefix)
{
    auto& R = vf::R ();
    std::string p = prefix;
    R.add ("states", t.cases); R.add ("evaluations", t.cases); R.add ("transitions", t.trans);
    R.cls (p + "box.inverted(empty)", t.empty); R.cls (p + "box.flat", t.flat); R.cls (p + "ray.origin-inside", t.inside);
    R.cls (p + "ray.hit-from-outside", t.hit_outside); R.cls (p + "ray.box-behind-origin(line hits, ray misses)", t.behind);
    R.cls (p + "miss.generic", t.miss); R.cls (p + "graze(single contact point)", t.graze); R.cls (p + "direction.axis-parallel(zero component)", t.axis_par);
}

template <class T> bool run_lattice (bool thorough)
{
    const int K = thorough ? 5 : 4;          // box coordinates {0..K-1}, every (min,max) incl. flat and inverted
    const int OLO = thorough ? -2 : -1, ON = thorough ? 9 : 6; // origins {-1..4}^3 / {-2..6}^3
    const int DR = 3;                        // directions {-3..3}^3 \ 0, unnormalised (a component +-3 makes t = k/3 inexact: rounding is exercised)
    const uint64_t NB = ex::ipow ((uint64_t) K * K, 3), NO = ex::ipow (ON, 3), ND = ex::ipow (2 * DR + 1, 3);
    Tally total; std::mutex mu;
    bool ok = vf::parallel_chunks (NB, 4, [&] (uint64_t lo, uint64_t hi, unsigned) {
        Tally tl;
        for (uint64_t bi = lo; bi < hi; ++bi)
        {
            long long mn[3], mx[3]; uint64_t x = bi;
            for (int i = 0; i < 3; ++i) { int dgt = (int) (x % (K * K)); x /= K * K; mn[i] = dgt % K; mx[i] = dgt / K; }
            for (uint64_t oi = 0; oi < NO; ++oi)
            {
                int oc[3]; ex::decode (oi, ON, 3, oc, OLO);
                long long p[3] = {oc[0], oc[1], oc[2]};
                for (uint64_t di = 0; di < ND; ++di)
                {
                    int dc[3]; ex::decode (di, 2 * DR + 1, 3, dc, -DR);
                    if (!dc[0] && !dc[1] && !dc[2]) continue; // zero direction: outside the property's domain
                    long long d[3] = {dc[0], dc[1], dc[2]};
                    one_case<T, long long> (mn, mx, p, d, tl);
                }
            }
        }
        std::lock_guard<std::mutex> g (mu); total += tl;
    });
    publish (total, "lattice.");
    vf::R ().note_max (std::string ("worst lattice point error / (eps*M), ") + tname<T> (), total.worst);
    return ok;
}

// ---- elongated boxes ------------------------------------------------------------------------------------------
// Box coordinates from {0,1,12} (every (min,max) per axis: cubes, slabs 12x1x1, plates, flat and inverted), origins
// {-1,1,6,11,13}^3, the same unnormalised directions: a ray can hit such a box while travelling AWAY from its centre
// (or from its bounding sphere's centre), which a near-cubic lattice box never shows.
template <class T> bool run_elongated (bool)
{
    static const long long C[3] = {0, 1, 12}, O[5] = {-1, 1, 6, 11, 13};
    const int DR = 3;
    const uint64_t NB = 729, NO = 125, ND = ex::ipow (2 * DR + 1, 3);
    Tally total; std::mutex mu;
    bool ok = vf::parallel_chunks (NB, 2, [&] (uint64_t lo, uint64_t hi, unsigned) {
        Tally tl;
        for (uint64_t bi = lo; bi < hi; ++bi)
        {
            long long mn[3], mx[3]; uint64_t x = bi;
            for (int i = 0; i < 3; ++i) { int dgt = (int) (x % 9); x /= 9; mn[i] = C[dgt % 3]; mx[i] = C[dgt / 3]; }
            for (uint64_t oi = 0; oi < NO; ++oi)
            {
                int oc[3]; ex::decode (oi, 5, 3, oc, 0);
                long long p[3] = {O[oc[0]], O[oc[1]], O[oc[2]]};
                for (uint64_t di = 0; di < ND; ++di)
                {
                    int dc[3]; ex::decode (di, 2 * DR + 1, 3, dc, -DR);
                    if (!dc[0] && !dc[1] && !dc[2]) continue;
                    long long d[3] = {dc[0], dc[1], dc[2]};
                    one_case<T, long long> (mn, mx, p, d, tl);
                }
            }
        }
        std::lock_guard<std::mutex> g (mu); total += tl;
    });
    publish (total, "elongated.");
    return ok;
}

// ---- rounding at the box boundary ---------------------------------------------------------------------------
// The clamps in the implementation matter only when fl(p + fl(D/d)*e) falls outside [min,max] although the exact
// value is ON the boundary. Small integers for which that happens (found by search, stated here as the alphabet):
//   float : D=1, d=7,  e=21  ->  fl(fl(1/7)*21)  = 3 + 2^-22   (exact 3)
//   double: D=5, d=29, e=87  ->  fl(fl(5/29)*87) = 15 + 2^-49  (exact 15)
// Alphabet: direction components {0,+-d,+-e}; box (min,max) per axis over {0,D,P} (P = D*e/d) incl. flat/inverted;
// origins {-D,0,D,P,P+D}^3. Same exact integer oracle, same checks.
template <class T> bool run_rounding (bool)
{
    const bool f = sizeof (T) == 4;
    const long long Dq = f ? 1 : 5, dd = f ? 7 : 29, ee = f ? 21 : 87, P = Dq * ee / dd;
    const long long BC[3] = {0, Dq, P}, OC[5] = {-Dq, 0, Dq, P, P + Dq}, DC[5] = {0, dd, -dd, ee, -ee};
    Tally total; std::mutex mu; std::atomic<long long> outward (0);
    bool ok = vf::parallel_chunks (729, 1, [&] (uint64_t lo, uint64_t hi, unsigned) {
        Tally tl; long long l_out = 0;
        for (uint64_t bi = lo; bi < hi; ++bi)
        {
            long long mn[3], mx[3]; uint64_t x = bi;
            for (int i = 0; i < 3; ++i) { int g = (int) (x % 9); x /= 9; mn[i] = BC[g % 3]; mx[i] = BC[g / 3]; }
            for (int oi = 0; oi < 125; ++oi)
            {
                int oc[3]; ex::decode (oi, 5, 3, oc);
                long long p[3] = {OC[oc[0]], OC[oc[1]], OC[oc[2]]};
                for (int di = 1; di < 125; ++di)
                {
                    int dc[3]; ex::decode (di, 5, 3, dc);
                    long long d[3] = {DC[dc[0]], DC[dc[1]], DC[dc[2]]};
                    one_case<T, long long> (mn, mx, p, d, tl);
                    // class: the straightforward evaluation of the exact entry point leaves the box by rounding
                    Truth<long long> tr = slab<long long> (mn, mx, p, d);
                    if (tr.line)
                    {
                        T t = (T) tr.tin.n / (T) tr.tin.d;
                        for (int i = 0; i < 3; ++i) { T xi = (T) p[i] + t * (T) d[i]; if (xi < (T) mn[i] || xi > (T) mx[i]) { ++l_out; break; } }
                    }
                }
            }
        }
        outward += l_out;
        std::lock_guard<std::mutex> g (mu); total += tl;
    });
    publish (total, "rounding.");
    vf::R ().cls ("rounding.entry-point-evaluates-outside-the-box(clamp needed)", outward.load ());
    vf::R ().note_max (std::string ("worst rounding-alphabet point error / (eps*M), ") + tname<T> (), total.worst);
    return ok;
}

} // namespace c14
