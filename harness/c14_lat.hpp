// C14 — integer lattice alphabets, exact integer oracle.
#pragma once
#include "c14.hpp"

namespace c14 {

static void publish (const Tally& t, const char* prefix)
{
    auto& R = vf::R ();
    std::string p = prefix;
    R.add ("states", t.cases); R.add ("evaluations", t.cases); R.add ("transitions", t.trans);
    R.cls (p + "box.inverted(empty)", t.empty); R.cls (p + "box.flat", t.flat); R.cls (p + "ray.origin-inside", t.inside);
    R.cls (p + "ray.hit-from-outside", t.hit_outside); R.cls (p + "ray.box-behind-origin(line hits, ray misses)", t.behind);
    R.cls (p + "miss.generic", t.miss); R.cls (p + "graze(single contact point)", t.graze); R.cls (p + "direction.axis-parallel(zero component)", t.axis_par);
}

template <class T> bool run_lattice (bool thorough)
{
    const int K = thorough ? 5 : 4;          // box coordinates {0..K-1}, every (min,max) incl. flat and inverted
    const int OLO = thorough ? -2 : -1, ON = thorough ? 9 : 6; // origins {-1..4}^3 / {-2..6}^3
    const int DR = thorough ? 3 : 2;         // directions {-DR..DR}^3 \ 0, unnormalised
    const uint64_t NB = ex::ipow ((uint64_t) K * K, 3), NO = ex::ipow (ON, 3), ND = ex::ipow (2 * DR + 1, 3);
    Tally total; std::mutex mu;
    bool ok = vf::parallel_chunks (NB, 4, [&] (uint64_t lo, uint64_t hi, unsigned) {
        Tally tl;
        for (uint64_t bi = lo; bi < hi; ++bi)
        {
            long long mn[3], mx[3]; uint64_t x = bi;
            for (int i = 0; i < 3; ++i) { int dgt = (int) (x % (K * K)); x /= K * K; mn[i] = dgt % K; mx[i] = dgt / K; }
            for (uint64_t oi = 0; oi < NO; ++oi)
            {
                int oc[3]; ex::decode (oi, ON, 3, oc, OLO);
                long long p[3] = {oc[0], oc[1], oc[2]};
                for (uint64_t di = 0; di < ND; ++di)
                {
                    int dc[3]; ex::decode (di, 2 * DR + 1, 3, dc, -DR);
                    if (!dc[0] && !dc[1] && !dc[2]) continue; // zero direction: outside the property's domain
                    long long d[3] = {dc[0], dc[1], dc[2]};
                    one_case<T, long long> (mn, mx, p, d, tl);
                }
            }
        }
        std::lock_guard<std::mutex> g (mu); total += tl;
    });
    publish (total, "lattice.");
    vf::R ().note_max (std::string ("worst lattice point error / (eps*M), ") + tname<T> (), total.worst);
    return ok;
}

} // namespace c14
