// C07, matrix-decomposition part (ImathMatrixAlgo.h): every function with an `exc` flag, exc = true against
// exc = false, for the 4x4 (3-D) and the 3x3 (2-D) families, float and double:
//   extractScaling, sansScaling, removeScaling, extractScalingAndShear, sansScalingAndShear (both overloads),
//   removeScalingAndShear, extractAndRemoveScalingAndShear, extractSHRT (all overloads), checkForZeroScaleInRow.
//
// Alphabets (the C12 ones; the matrices are built by the harness, the convention used to build them is irrelevant
// to a differential oracle):
//   (A) M = S*H*R (+ translation row) evaluated in long double: s per axis in {0, 1e-30, 2^-10, 1, -1, 3, ...}
//       (zero scale, graded conditioning, reflections), shear triples, rotations (k*pi/6)^3, two translations;
//   (B) every 3x3 linear block over {0,+-1,+-2}^9 (zero rows, exactly parallel rows, rank 0..3);
//   (C) permuted diagonal blocks over the boundary alphabet around min / 1 / max (row/maxVal underflows to 0);
//   (D) checkForZeroScaleInRow directly on the guard alphabet  scl = a, row[i] = b in B(a), every slot.
// Oracle (differential):
//   exc=true returns  => same return value, outputs bitwise equal to exc=false (NaN matches NaN);
//   exc=true throws   => typeid == std::domain_error and exc=false reports failure (returns false; for the
//                        functions without a bool, the reference extractAndRemoveScalingAndShear(.., false) does);
//   exc=false reports failure => exc=true throws; and the documented failure outputs hold ("m is unchanged",
//                        "returns m");
//   well-conditioned (A with every |s_i| in [2^-10, 2^10]) => nothing throws, everything returns true;
//   a zero row in the linear block => exc=true throws;
//   the flag-less spelling f(..) (declared `bool exc = true`) behaves exactly as f(.., true): same outcome class
//   (returns / throws the same exception type), same return value, outputs bitwise equal (audit2 C07 S3).
#include "c07_common.hpp"
#include "c08_alpha.hpp" // c08::Site / C0X_FAIL
#include <ImathMatrixAlgo.h>

using namespace vf;
using namespace IMATH_NAMESPACE;

namespace c07 {
namespace {

template <class T> struct Flat
{
    T   v[64];
    int n = 0;
    void push (T x) { v[n++] = x; }
    void push (const Vec2<T>& a) { push (a.x); push (a.y); }
    void push (const Vec3<T>& a) { push (a.x); push (a.y); push (a.z); }
    void push (const Matrix33<T>& m) { for (int i = 0; i < 3; ++i) for (int j = 0; j < 3; ++j) push (m[i][j]); }
    void push (const Matrix44<T>& m) { for (int i = 0; i < 4; ++i) for (int j = 0; j < 4; ++j) push (m[i][j]); }
    bool eq (const Flat& o) const
    {
        if (n != o.n) return false;
        for (int i = 0; i < n; ++i)
            if (!same_bits (v[i], o.v[i])) return false;
        return true;
    }
    std::string str () const
    {
        Msg m;
        m << "[";
        for (int i = 0; i < n; ++i) { if (i) m << ", "; m << v[i]; }
        m << "]";
        return m.str ();
    }
};

struct ATally
{
    long long states = 0, transitions = 0, threw = 0, returned = 0, c_default_spelling = 0, c_default_threw = 0, c_zero_row = 0, c_well = 0, c_reflection = 0, c_failure_no_zero_row = 0, c_generic = 0;
    void add (const ATally& o)
    {
        states += o.states; transitions += o.transitions; threw += o.threw; returned += o.returned; c_zero_row += o.c_zero_row; c_well += o.c_well;
        c_reflection += o.c_reflection; c_failure_no_zero_row += o.c_failure_no_zero_row; c_generic += o.c_generic;
        c_default_spelling += o.c_default_spelling; c_default_threw += o.c_default_threw;
    }
};

struct MInfo
{
    bool well = false, zero_row = false, ref_failed = false;
};

// One function of the family.  ID makes the static sites distinct per function; NAME is constant per ID.
// run(exc, out) performs the call, appends every output to `out` and returns the bool result (true for the
// functions that return no bool).  `fail_out`: the documented output when exc=false reports failure (or null).
template <int ID, class T, class In, class Run>
void exc_pair (const std::string& name, const In& in, const Run& run, bool has_bool, const MInfo& mi, const Flat<T>* fail_out, ATally& t)
{
    Flat<T> uo, co;
    bool    ub = false, cb = true;
    // exc = false must never throw (the flag has to be threaded through every nested call)
    int thu = run_checked ([&] { ub = run (false, uo); });
    t.transitions += 2;
    if (thu != NONE)
    {
        C0X_FAIL (name + ".exc=false-throws", in (), "no exception", thrown_name (thu));
        return;
    }
    int th = run_checked ([&] { cb = run (true, co); });
    const bool failure_u = has_bool ? !ub : mi.ref_failed;
    if (th == NONE)
    {
        ++t.returned;
        if (has_bool && cb != ub) C0X_FAIL (name + ".return-value-vs-exc=false", in (), ub ? "true" : "false", cb ? "true" : "false");
        if (failure_u) C0X_FAIL (name + ".no-throw-when-exc=false-reports-failure", in (), "std::domain_error", "returned");
        else if (!uo.eq (co)) C0X_FAIL (name + ".bitwise-vs-exc=false", in (), uo.str (), co.str ());
    }
    else
    {
        ++t.threw;
        if (th != DOMAIN_ERROR) C0X_FAIL (name + ".exception-type", in (), "std::domain_error", thrown_name (th));
        if (!failure_u) C0X_FAIL (name + ".throws-but-exc=false-succeeds", in (), uo.str (), thrown_name (th));
    }
    if (failure_u && has_bool && fail_out && !uo.eq (*fail_out)) C0X_FAIL (name + ".exc=false-failure-leaves-documented-output", in (), fail_out->str (), uo.str ());
    if (!has_bool && mi.ref_failed && fail_out && !uo.eq (*fail_out)) C0X_FAIL (name + ".exc=false-failure-returns-input", in (), fail_out->str (), uo.str ());
    if (mi.well && (th != NONE || failure_u)) C0X_FAIL (name + ".fails-on-well-conditioned", in (), "success", th != NONE ? thrown_name (th) : "false");
    if (mi.zero_row && th == NONE) C0X_FAIL (name + ".no-throw-on-zero-row", in (), "std::domain_error", "returned");
}

// The flag-less spelling against exc = true.  rund(out) calls the function WITHOUT the exc argument.
template <int ID, class T, class In, class RunD, class Run>
void default_pair (const std::string& name, const In& in, const RunD& rund, const Run& run, ATally& t)
{
    Flat<T> d, c;
    bool    db = true, cb = true;
    int     thd = run_checked ([&] { db = rund (d); });
    int     thc = run_checked ([&] { cb = run (true, c); });
    t.transitions += 2;
    ++t.c_default_spelling;
    if (thd != NONE) ++t.c_default_threw;
    if (thd != thc) C0X_FAIL (name + ".default-flag-vs-exc=true.outcome", in (), thrown_name (thc), thrown_name (thd));
    else if (thd == NONE && (db != cb || !d.eq (c))) C0X_FAIL (name + ".default-flag-vs-exc=true.bitwise", in (), (cb ? "true " : "false ") + c.str (), (db ? "true " : "false ") + d.str ());
}

template <class T> std::string show44 (const Matrix44<T>& m)
{
    Flat<T> f; f.push (m);
    return std::string ("Matrix44<") + tname<T> () + ">" + f.str ();
}
template <class T> std::string show33 (const Matrix33<T>& m)
{
    Flat<T> f; f.push (m);
    return std::string ("Matrix33<") + tname<T> () + ">" + f.str ();
}

// ---------------------------------------------------------------------------------------------- 3-D
template <class T> void check44 (const Matrix44<T>& M, MInfo mi, ATally& t)
{
    typedef Matrix44<T> M44;
    typedef Vec3<T>     V3;
    ++t.states;
    const std::string P = std::string ("<") + tname<T> () + ">";
    {
        M44 c (M); V3 s (0), h (0);
        // the reference classification itself is an exc=false call: it must not throw either
        int thr = run_checked ([&] { mi.ref_failed = !extractAndRemoveScalingAndShear (c, s, h, false); });
        if (thr != NONE)
        {
            C0X_FAIL ("extractAndRemoveScalingAndShear(Matrix44" + P + ").exc=false-throws", show44 (M), "no exception", thrown_name (thr));
            mi.ref_failed = true;
        }
    }
    // zero row of the linear block
    for (int i = 0; i < 3; ++i)
        if (M[i][0] == 0 && M[i][1] == 0 && M[i][2] == 0) mi.zero_row = true;
    if (mi.zero_row) ++t.c_zero_row;
    else if (mi.ref_failed) ++t.c_failure_no_zero_row;
    else if (mi.well) ++t.c_well;
    else ++t.c_generic;
    {
        long double d = (long double) M[0][0] * ((long double) M[1][1] * M[2][2] - (long double) M[1][2] * M[2][1]) -
                        (long double) M[0][1] * ((long double) M[1][0] * M[2][2] - (long double) M[1][2] * M[2][0]) +
                        (long double) M[0][2] * ((long double) M[1][0] * M[2][1] - (long double) M[1][1] * M[2][0]);
        if (d < 0) ++t.c_reflection;
    }
    auto    in = [&] () { return show44 (M); };
    Flat<T> same_m; same_m.push (M);

    exc_pair<1, T> ("extractScaling(Matrix44" + P + ")", in, [&] (bool e, Flat<T>& o) { V3 s (0); bool r = extractScaling (M, s, e); o.push (s); return r; }, true, mi, nullptr, t);
    exc_pair<2, T> ("sansScaling(Matrix44" + P + ")", in, [&] (bool e, Flat<T>& o) { o.push (sansScaling (M, e)); return true; }, false, mi, &same_m, t);
    exc_pair<3, T> ("removeScaling(Matrix44" + P + ")", in, [&] (bool e, Flat<T>& o) { M44 c (M); bool r = removeScaling (c, e); o.push (c); return r; }, true, mi, &same_m, t);
    exc_pair<4, T> ("extractScalingAndShear(Matrix44" + P + ")", in,
                    [&] (bool e, Flat<T>& o) { V3 s (0), h (0); bool r = extractScalingAndShear (M, s, h, e); o.push (s); o.push (h); return r; }, true, mi, nullptr, t);
    exc_pair<5, T> ("sansScalingAndShear(Matrix44" + P + ")", in, [&] (bool e, Flat<T>& o) { o.push (sansScalingAndShear (M, e)); return true; }, false, mi, &same_m, t);
    // in/out overload: `result` is decomposed in place, `mat` is what it becomes when it is degenerate
    exc_pair<6, T> ("sansScalingAndShear(Matrix44" + P + "& result, mat)", in,
                    [&] (bool e, Flat<T>& o) { M44 res (M); M44 other (M); other[3][0] = T (7); sansScalingAndShear (res, other, e); o.push (res); return true; }, false, mi,
                    nullptr, t);
    exc_pair<7, T> ("removeScalingAndShear(Matrix44" + P + ")", in, [&] (bool e, Flat<T>& o) { M44 c (M); bool r = removeScalingAndShear (c, e); o.push (c); return r; }, true, mi, &same_m, t);
    {
        Flat<T> fo; fo.push (M);
        exc_pair<8, T> ("extractAndRemoveScalingAndShear(Matrix44" + P + ")", in,
                        [&] (bool e, Flat<T>& o) {
                            M44 c (M); V3 s (0), h (0);
                            bool r = extractAndRemoveScalingAndShear (c, s, h, e);
                            o.push (c);
                            if (r) { o.push (s); o.push (h); } // (s,h) are documented invalid on failure
                            return r;
                        },
                        true, mi, &fo, t);
    }
    exc_pair<9, T> ("extractSHRT(Matrix44" + P + ",s,h,r,t,exc,ZYX)", in,
                    [&] (bool e, Flat<T>& o) { V3 s (0), h (0), r (0), tr (0); bool ok = extractSHRT (M, s, h, r, tr, e, Euler<T>::ZYX); o.push (s); o.push (h); o.push (r); o.push (tr); return ok; },
                    true, mi, nullptr, t);
    exc_pair<10, T> ("extractSHRT(Matrix44" + P + ",s,h,r,t,exc,XYX)", in,
                     [&] (bool e, Flat<T>& o) { V3 s (0), h (0), r (0), tr (0); bool ok = extractSHRT (M, s, h, r, tr, e, Euler<T>::XYX); o.push (s); o.push (h); o.push (r); o.push (tr); return ok; },
                     true, mi, nullptr, t);
    exc_pair<11, T> ("extractSHRT(Matrix44" + P + ",s,h,r,t,exc)", in,
                     [&] (bool e, Flat<T>& o) { V3 s (0), h (0), r (0), tr (0); bool ok = extractSHRT (M, s, h, r, tr, e); o.push (s); o.push (h); o.push (r); o.push (tr); return ok; }, true,
                     mi, nullptr, t);
    exc_pair<12, T> ("extractSHRT(Matrix44" + P + ",s,h,Euler&,t,exc)", in,
                     [&] (bool e, Flat<T>& o) {
                         V3 s (0), h (0), tr (0);
                         Euler<T> r (T (0), T (0), T (0), Euler<T>::YZX);
                         bool ok = extractSHRT (M, s, h, r, tr, e);
                         o.push (s); o.push (h); o.push (V3 (r.x, r.y, r.z)); o.push (tr);
                         return ok;
                     },
                     true, mi, nullptr, t);
    // flag-less spellings (default argument)
    default_pair<1, T> ("extractScaling(Matrix44" + P + ")", in, [&] (Flat<T>& o) { V3 s (0); bool r = extractScaling (M, s); o.push (s); return r; },
                        [&] (bool e, Flat<T>& o) { V3 s (0); bool r = extractScaling (M, s, e); o.push (s); return r; }, t);
    default_pair<2, T> ("sansScaling(Matrix44" + P + ")", in, [&] (Flat<T>& o) { o.push (sansScaling (M)); return true; }, [&] (bool e, Flat<T>& o) { o.push (sansScaling (M, e)); return true; }, t);
    default_pair<3, T> ("removeScaling(Matrix44" + P + ")", in, [&] (Flat<T>& o) { M44 c (M); bool r = removeScaling (c); o.push (c); return r; },
                        [&] (bool e, Flat<T>& o) { M44 c (M); bool r = removeScaling (c, e); o.push (c); return r; }, t);
    default_pair<4, T> ("extractScalingAndShear(Matrix44" + P + ")", in, [&] (Flat<T>& o) { V3 s (0), h (0); bool r = extractScalingAndShear (M, s, h); o.push (s); o.push (h); return r; },
                        [&] (bool e, Flat<T>& o) { V3 s (0), h (0); bool r = extractScalingAndShear (M, s, h, e); o.push (s); o.push (h); return r; }, t);
    default_pair<5, T> ("sansScalingAndShear(Matrix44" + P + ")", in, [&] (Flat<T>& o) { o.push (sansScalingAndShear (M)); return true; },
                        [&] (bool e, Flat<T>& o) { o.push (sansScalingAndShear (M, e)); return true; }, t);
    default_pair<6, T> ("sansScalingAndShear(Matrix44" + P + "& result, mat)", in,
                        [&] (Flat<T>& o) { M44 res (M); M44 other (M); other[3][0] = T (7); sansScalingAndShear (res, other); o.push (res); return true; },
                        [&] (bool e, Flat<T>& o) { M44 res (M); M44 other (M); other[3][0] = T (7); sansScalingAndShear (res, other, e); o.push (res); return true; }, t);
    default_pair<7, T> ("removeScalingAndShear(Matrix44" + P + ")", in, [&] (Flat<T>& o) { M44 c (M); bool r = removeScalingAndShear (c); o.push (c); return r; },
                        [&] (bool e, Flat<T>& o) { M44 c (M); bool r = removeScalingAndShear (c, e); o.push (c); return r; }, t);
    default_pair<8, T> ("extractAndRemoveScalingAndShear(Matrix44" + P + ")", in,
                        [&] (Flat<T>& o) { M44 c (M); V3 s (0), h (0); bool r = extractAndRemoveScalingAndShear (c, s, h); o.push (c); if (r) { o.push (s); o.push (h); } return r; },
                        [&] (bool e, Flat<T>& o) { M44 c (M); V3 s (0), h (0); bool r = extractAndRemoveScalingAndShear (c, s, h, e); o.push (c); if (r) { o.push (s); o.push (h); } return r; }, t);
    default_pair<11, T> ("extractSHRT(Matrix44" + P + ",s,h,r,t)", in,
                         [&] (Flat<T>& o) { V3 s (0), h (0), r (0), tr (0); bool ok = extractSHRT (M, s, h, r, tr); o.push (s); o.push (h); o.push (r); o.push (tr); return ok; },
                         [&] (bool e, Flat<T>& o) { V3 s (0), h (0), r (0), tr (0); bool ok = extractSHRT (M, s, h, r, tr, e); o.push (s); o.push (h); o.push (r); o.push (tr); return ok; }, t);
    default_pair<12, T> ("extractSHRT(Matrix44" + P + ",s,h,Euler&,t)", in,
                         [&] (Flat<T>& o) { V3 s (0), h (0), tr (0); Euler<T> r (T (0), T (0), T (0), Euler<T>::YZX); bool ok = extractSHRT (M, s, h, r, tr); o.push (s); o.push (h); o.push (V3 (r.x, r.y, r.z)); o.push (tr); return ok; },
                         [&] (bool e, Flat<T>& o) { V3 s (0), h (0), tr (0); Euler<T> r (T (0), T (0), T (0), Euler<T>::YZX); bool ok = extractSHRT (M, s, h, r, tr, e); o.push (s); o.push (h); o.push (V3 (r.x, r.y, r.z)); o.push (tr); return ok; }, t);
}

// ---------------------------------------------------------------------------------------------- 2-D
template <class T> void check33 (const Matrix33<T>& M, MInfo mi, ATally& t)
{
    typedef Matrix33<T> M33;
    typedef Vec2<T>     V2;
    ++t.states;
    const std::string P = std::string ("<") + tname<T> () + ">";
    {
        M33 c (M); V2 s (0); T h = 0;
        int thr = run_checked ([&] { mi.ref_failed = !extractAndRemoveScalingAndShear (c, s, h, false); });
        if (thr != NONE)
        {
            C0X_FAIL ("extractAndRemoveScalingAndShear(Matrix33" + P + ").exc=false-throws", show33 (M), "no exception", thrown_name (thr));
            mi.ref_failed = true;
        }
    }
    for (int i = 0; i < 2; ++i)
        if (M[i][0] == 0 && M[i][1] == 0) mi.zero_row = true;
    if (mi.zero_row) ++t.c_zero_row;
    else if (mi.ref_failed) ++t.c_failure_no_zero_row;
    else if (mi.well) ++t.c_well;
    else ++t.c_generic;
    if ((long double) M[0][0] * M[1][1] - (long double) M[0][1] * M[1][0] < 0) ++t.c_reflection;
    auto    in = [&] () { return show33 (M); };
    Flat<T> same_m; same_m.push (M);

    exc_pair<21, T> ("extractScaling(Matrix33" + P + ")", in, [&] (bool e, Flat<T>& o) { V2 s (0); bool r = extractScaling (M, s, e); o.push (s); return r; }, true, mi, nullptr, t);
    exc_pair<22, T> ("sansScaling(Matrix33" + P + ")", in, [&] (bool e, Flat<T>& o) { o.push (sansScaling (M, e)); return true; }, false, mi, &same_m, t);
    exc_pair<23, T> ("removeScaling(Matrix33" + P + ")", in, [&] (bool e, Flat<T>& o) { M33 c (M); bool r = removeScaling (c, e); o.push (c); return r; }, true, mi, &same_m, t);
    exc_pair<24, T> ("extractScalingAndShear(Matrix33" + P + ")", in,
                     [&] (bool e, Flat<T>& o) { V2 s (0); T h = 0; bool r = extractScalingAndShear (M, s, h, e); o.push (s); o.push (h); return r; }, true, mi, nullptr, t);
    exc_pair<25, T> ("sansScalingAndShear(Matrix33" + P + ")", in, [&] (bool e, Flat<T>& o) { o.push (sansScalingAndShear (M, e)); return true; }, false, mi, &same_m, t);
    exc_pair<27, T> ("removeScalingAndShear(Matrix33" + P + ")", in, [&] (bool e, Flat<T>& o) { M33 c (M); bool r = removeScalingAndShear (c, e); o.push (c); return r; }, true, mi, &same_m, t);
    {
        Flat<T> fo; fo.push (M);
        exc_pair<28, T> ("extractAndRemoveScalingAndShear(Matrix33" + P + ")", in,
                         [&] (bool e, Flat<T>& o) {
                             M33 c (M); V2 s (0); T h = 0;
                             bool r = extractAndRemoveScalingAndShear (c, s, h, e);
                             o.push (c);
                             if (r) { o.push (s); o.push (h); }
                             return r;
                         },
                         true, mi, &fo, t);
    }
    exc_pair<30, T> ("extractSHRT(Matrix33" + P + ")", in,
                     [&] (bool e, Flat<T>& o) { V2 s (0), tr (0); T h = 0, r = 0; bool ok = extractSHRT (M, s, h, r, tr, e); o.push (s); o.push (h); o.push (r); o.push (tr); return ok; }, true,
                     mi, nullptr, t);
    // flag-less spellings (default argument)
    default_pair<21, T> ("extractScaling(Matrix33" + P + ")", in, [&] (Flat<T>& o) { V2 s (0); bool r = extractScaling (M, s); o.push (s); return r; },
                         [&] (bool e, Flat<T>& o) { V2 s (0); bool r = extractScaling (M, s, e); o.push (s); return r; }, t);
    default_pair<22, T> ("sansScaling(Matrix33" + P + ")", in, [&] (Flat<T>& o) { o.push (sansScaling (M)); return true; }, [&] (bool e, Flat<T>& o) { o.push (sansScaling (M, e)); return true; }, t);
    default_pair<23, T> ("removeScaling(Matrix33" + P + ")", in, [&] (Flat<T>& o) { M33 c (M); bool r = removeScaling (c); o.push (c); return r; },
                         [&] (bool e, Flat<T>& o) { M33 c (M); bool r = removeScaling (c, e); o.push (c); return r; }, t);
    default_pair<24, T> ("extractScalingAndShear(Matrix33" + P + ")", in, [&] (Flat<T>& o) { V2 s (0); T h = 0; bool r = extractScalingAndShear (M, s, h); o.push (s); o.push (h); return r; },
                         [&] (bool e, Flat<T>& o) { V2 s (0); T h = 0; bool r = extractScalingAndShear (M, s, h, e); o.push (s); o.push (h); return r; }, t);
    default_pair<25, T> ("sansScalingAndShear(Matrix33" + P + ")", in, [&] (Flat<T>& o) { o.push (sansScalingAndShear (M)); return true; },
                         [&] (bool e, Flat<T>& o) { o.push (sansScalingAndShear (M, e)); return true; }, t);
    default_pair<27, T> ("removeScalingAndShear(Matrix33" + P + ")", in, [&] (Flat<T>& o) { M33 c (M); bool r = removeScalingAndShear (c); o.push (c); return r; },
                         [&] (bool e, Flat<T>& o) { M33 c (M); bool r = removeScalingAndShear (c, e); o.push (c); return r; }, t);
    default_pair<28, T> ("extractAndRemoveScalingAndShear(Matrix33" + P + ")", in,
                         [&] (Flat<T>& o) { M33 c (M); V2 s (0); T h = 0; bool r = extractAndRemoveScalingAndShear (c, s, h); o.push (c); if (r) { o.push (s); o.push (h); } return r; },
                         [&] (bool e, Flat<T>& o) { M33 c (M); V2 s (0); T h = 0; bool r = extractAndRemoveScalingAndShear (c, s, h, e); o.push (c); if (r) { o.push (s); o.push (h); } return r; }, t);
    default_pair<30, T> ("extractSHRT(Matrix33" + P + ")", in,
                         [&] (Flat<T>& o) { V2 s (0), tr (0); T h = 0, r = 0; bool ok = extractSHRT (M, s, h, r, tr); o.push (s); o.push (h); o.push (r); o.push (tr); return ok; },
                         [&] (bool e, Flat<T>& o) { V2 s (0), tr (0); T h = 0, r = 0; bool ok = extractSHRT (M, s, h, r, tr, e); o.push (s); o.push (h); o.push (r); o.push (tr); return ok; }, t);
}

// ---------------------------------------------------------------------------------------------- builders
struct Shear3 { int xy, xz, yz; };

template <class T> Matrix44<T> build44 (const long double s[3], const long double h[3], const int rk[3], const long double tr[3])
{
    const long double PI6 = 3.14159265358979323846264338327950288L / 6;
    long double       R[3][3];
    {
        long double a = rk[0] * PI6, b = rk[1] * PI6, c = rk[2] * PI6;
        long double ca = cosl (a), sa = sinl (a), cb = cosl (b), sb = sinl (b), cc = cosl (c), sc = sinl (c);
        long double Rx[3][3] = {{1, 0, 0}, {0, ca, sa}, {0, -sa, ca}}, Ry[3][3] = {{cb, 0, -sb}, {0, 1, 0}, {sb, 0, cb}}, Rz[3][3] = {{cc, sc, 0}, {-sc, cc, 0}, {0, 0, 1}};
        long double X[3][3];
        for (int i = 0; i < 3; ++i) for (int j = 0; j < 3; ++j) { X[i][j] = 0; for (int k = 0; k < 3; ++k) X[i][j] += Rx[i][k] * Ry[k][j]; }
        for (int i = 0; i < 3; ++i) for (int j = 0; j < 3; ++j) { R[i][j] = 0; for (int k = 0; k < 3; ++k) R[i][j] += X[i][k] * Rz[k][j]; }
    }
    long double H[3][3] = {{1, 0, 0}, {h[0], 1, 0}, {h[1], h[2], 1}};
    Matrix44<T> M;
    for (int i = 0; i < 3; ++i)
        for (int j = 0; j < 3; ++j)
        {
            long double v = 0;
            for (int k = 0; k < 3; ++k) v += H[i][k] * R[k][j];
            M[i][j] = (T) (s[i] * v);
        }
    for (int j = 0; j < 3; ++j) M[3][j] = (T) tr[j];
    return M;
}
template <class T> Matrix33<T> build33 (const long double s[2], long double h, int rk, const long double tr[2])
{
    const long double PI6 = 3.14159265358979323846264338327950288L / 6;
    long double       c = cosl (rk * PI6), sn = sinl (rk * PI6);
    long double       R[2][2] = {{c, sn}, {-sn, c}}, H[2][2] = {{1, 0}, {h, 1}};
    Matrix33<T>       M;
    for (int i = 0; i < 2; ++i)
        for (int j = 0; j < 2; ++j) M[i][j] = (T) (s[i] * (H[i][0] * R[0][j] + H[i][1] * R[1][j]));
    M[2][0] = (T) tr[0]; M[2][1] = (T) tr[1];
    return M;
}

void publish (const char* dim, const ATally& t)
{
    R ().add ("states", t.states);
    R ().add ("evaluations", t.states);
    R ().add ("transitions", t.transitions);
    std::string d = std::string ("decomposition.") + dim + ".";
    R ().cls (d + "zero-row(must throw)", t.c_zero_row);
    R ().cls (d + "failure-reported-without-zero-row(parallel rows / underflowing scale)", t.c_failure_no_zero_row);
    R ().cls (d + "well-conditioned(must not throw)", t.c_well);
    R ().cls (d + "reflection(det<0)", t.c_reflection);
    R ().cls (d + "other.generic", t.c_generic);
    R ().cls (d + "exc=true-threw", t.threw);
    R ().cls (d + "flag-less-spelling(default exc).returned-or-threw.generic", t.c_default_spelling);
    R ().cls (d + "flag-less-spelling(default exc).threw", t.c_default_threw);
}

template <class T> void algo_stages (bool th)
{
    const std::string tn = tname<T> ();
    // (A) S*H*R*T
    if (R ().stage ("decomposition.SHRT.4x4." + tn))
    {
        std::vector<long double> SV = {0.0L, 1e-30L, ldexpl (1, -10), 1.0L, -1.0L, 3.0L};
        if (th) { SV.push_back (-ldexpl (1, -3)); SV.push_back (ldexpl (1, 10)); }
        std::vector<std::vector<long double>> HV = {{0, 0, 0}, {1, 0, -1}, {0.5L, -1, 1}};
        if (th)
        {   // zero, the six unit axis shears, three generic triples
            HV = {{0, 0, 0}, {1, 0, 0}, {-1, 0, 0}, {0, 1, 0}, {0, -1, 0}, {0, 0, 1}, {0, 0, -1}, {1, 0, -1}, {0.5L, -1, 1}, {1, 1, 1}};
        }
        std::vector<int> RV = th ? std::vector<int>{0, 1, 3, 4, 6, 8, 11} : std::vector<int>{0, 1, 3, 8};
        const long double TV[2][3] = {{0, 0, 0}, {1, -2, 3}};
        const uint64_t ns = SV.size (), nh = HV.size (), nr = RV.size ();
        const uint64_t n = ns * ns * ns * nh * nr * nr * nr * 2;
        std::mutex mu; ATally total;
        bool ok = parallel_chunks (n, 64, [&] (uint64_t lo, uint64_t hi, unsigned) {
            ATally t;
            for (uint64_t idx = lo; idx < hi; ++idx)
            {
                uint64_t k = idx;
                int ti = (int) (k % 2); k /= 2;
                int rk[3]; for (int i = 0; i < 3; ++i) { rk[i] = RV[k % nr]; k /= nr; }
                const std::vector<long double>& h = HV[k % nh]; k /= nh;
                long double s[3]; for (int i = 0; i < 3; ++i) { s[i] = SV[k % ns]; k /= ns; }
                long double hh[3] = {h[0], h[1], h[2]};
                Matrix44<T> M = build44<T> (s, hh, rk, TV[ti]);
                MInfo mi;
                mi.well = true;
                for (int i = 0; i < 3; ++i) if (!(fabsl (s[i]) >= ldexpl (1, -10) && fabsl (s[i]) <= ldexpl (1, 10))) mi.well = false;
                check44<T> (M, mi, t);
            }
            std::lock_guard<std::mutex> g (mu); total.add (t);
        });
        publish ("4x4", total);
        std::string w = "M = S*H*R + translation: " + std::to_string (ns) + "^3 scales x " + std::to_string (nh) + " shears x " + std::to_string (nr) + "^3 rotations (multiples of pi/6) x 2 translations = " +
                        std::to_string (n) + " matrices, 12 functions x {exc=false, exc=true}";
        if (ok) R ().stage_done (w); else R ().stage_partial (w);
    }
    if (R ().stage ("decomposition.SHRT.3x3." + tn))
    {
        std::vector<long double> SV = {0.0L, 1e-30L, ldexpl (1, -10), 1.0L, -1.0L, 3.0L, -ldexpl (1, -3), ldexpl (1, 10)};
        std::vector<long double> HV = {0, 1, -0.5L, 3};
        const long double TV[2][2] = {{0, 0}, {1, -2}};
        ATally t;
        for (long double sx : SV) for (long double sy : SV) for (long double h : HV) for (int rk = 0; rk < 12; ++rk) for (int ti = 0; ti < 2; ++ti)
        {
            long double s[2] = {sx, sy};
            Matrix33<T> M = build33<T> (s, h, rk, TV[ti]);
            MInfo mi; mi.well = true;
            for (int i = 0; i < 2; ++i) if (!(fabsl (s[i]) >= ldexpl (1, -10) && fabsl (s[i]) <= ldexpl (1, 10))) mi.well = false;
            check33<T> (M, mi, t);
        }
        publish ("3x3", t);
        R ().stage_done ("M = S*H*R + translation (2-D): 8^2 scales x 4 shears x 12 rotations x 2 translations = " + std::to_string (t.states) + " matrices, 8 functions x {exc=false, exc=true}");
    }
    // (B) lattices
    if (R ().stage ("decomposition.lattice.4x4." + tn))
    {
        // quick: {-1,0,1,2}^9 ; thorough: {-2,..,2}^9
        const unsigned base = th ? 5 : 4;
        const int      off  = th ? -2 : -1;
        const uint64_t n = ex::ipow (base, 9);
        std::mutex mu; ATally total;
        bool ok = parallel_chunks (n, 512, [&] (uint64_t lo, uint64_t hi, unsigned) {
            ATally t;
            for (uint64_t idx = lo; idx < hi; ++idx)
            {
                int d[9]; ex::decode (idx, base, 9, d, off);
                Matrix44<T> M;
                for (int i = 0; i < 3; ++i) for (int j = 0; j < 3; ++j) M[i][j] = T (d[i * 3 + j]);
                M[3][0] = 1; M[3][1] = -2; M[3][2] = 3;
                check44<T> (M, MInfo (), t);
            }
            std::lock_guard<std::mutex> g (mu); total.add (t);
        });
        publish ("4x4", total);
        if (ok) R ().stage_done (std::string (th ? "all 5^9 linear blocks over {0,+-1,+-2}: " : "all 4^9 linear blocks over {-1,0,1,2}: ") + std::to_string (total.states) + " matrices");
        else R ().stage_partial (std::to_string (total.states) + " matrices");
    }
    if (R ().stage ("decomposition.lattice.3x3." + tn))
    {
        ATally t;
        for (uint64_t idx = 0; idx < ex::ipow (7, 4); ++idx)
        {
            int d[4]; ex::decode (idx, 7, 4, d, -3);
            Matrix33<T> M;
            M[0][0] = T (d[0]); M[0][1] = T (d[1]); M[1][0] = T (d[2]); M[1][1] = T (d[3]); M[2][0] = 1; M[2][1] = -2;
            check33<T> (M, MInfo (), t);
        }
        publish ("3x3", t);
        R ().stage_done ("all 7^4 linear blocks over L(3): " + std::to_string (t.states) + " matrices");
    }
    // (C) permuted diagonal blocks over the boundary alphabet
    if (R ().stage ("decomposition.boundary." + tn))
    {
        const int E = -std::numeric_limits<T>::min_exponent + 1;
        std::vector<T> G = {T (0), tden<T> (), tmin<T> (), std::ldexp (T (1), -E / 2 - 14), std::ldexp (T (1), -std::numeric_limits<T>::digits), down (T (1)), T (1), T (3),
                            std::ldexp (T (1), E / 2 + 14), std::ldexp (T (1), E - 2), tmax<T> () / 2, tmax<T> ()};
        std::vector<T> Gs = signed_all (G);
        const uint64_t ng = Gs.size ();
        static const int PERM[6][3] = {{0, 1, 2}, {0, 2, 1}, {1, 0, 2}, {1, 2, 0}, {2, 0, 1}, {2, 1, 0}};
        std::mutex mu; ATally total, total2;
        bool ok = parallel_chunks (ng * ng * ng, 64, [&] (uint64_t lo, uint64_t hi, unsigned) {
            ATally t, t2;
            for (uint64_t idx = lo; idx < hi; ++idx)
            {
                T d[3] = {Gs[idx % ng], Gs[(idx / ng) % ng], Gs[idx / ng / ng]};
                for (auto& p : PERM)
                {
                    Matrix44<T> M;
                    for (int i = 0; i < 3; ++i) for (int j = 0; j < 3; ++j) M[i][j] = (p[i] == j) ? d[i] : T (0);
                    M[3][0] = 1; M[3][1] = -2; M[3][2] = 3;
                    check44<T> (M, MInfo (), t);
                }
                if (idx / ng / ng == 0)
                    for (int sw = 0; sw < 2; ++sw)
                    {
                        Matrix33<T> M;
                        M[0][0] = sw ? T (0) : d[0]; M[0][1] = sw ? d[0] : T (0); M[1][0] = sw ? d[1] : T (0); M[1][1] = sw ? T (0) : d[1]; M[2][0] = 1; M[2][1] = -2;
                        check33<T> (M, MInfo (), t2);
                    }
            }
            std::lock_guard<std::mutex> g (mu); total.add (t); total2.add (t2);
        });
        publish ("4x4", total); publish ("3x3", total2);
        std::string w = "permuted diagonal linear blocks, d_i in signed boundary alphabet (" + std::to_string (ng) + " values): " + std::to_string (total.states) + " 4x4 and " +
                        std::to_string (total2.states) + " 3x3 matrices";
        if (ok) R ().stage_done (w); else R ().stage_partial (w);
    }
    // (D) checkForZeroScaleInRow on the guard alphabet
    if (R ().stage ("decomposition.checkForZeroScaleInRow." + tn))
    {
        long long cases = 0, fired = 0, at = 0, above = 0, below = 0, zero_scl = 0;
        const long double TM = (long double) tmax<T> ();
        const std::string n3 = std::string ("checkForZeroScaleInRow(") + tname<T> () + ",Vec3)", n2 = std::string ("checkForZeroScaleInRow(") + tname<T> () + ",Vec2)";
        for (T a : signed_all (alpha_a<T> ()))
        {
            std::vector<T> B = signed_all (alpha_b<T> (std::fabs (a)));
            const T filler[3] = {T (0), tmin<T> (), (std::fabs (a) >= T (1)) ? T (1) : T (0)};
            for (T b : B)
                for (int slot = 0; slot < 3; ++slot)
                    for (T fl : filler)
                        for (int dim = 2; dim <= 3; ++dim)
                        {
                            if (dim == 2 && slot == 2) continue;
                            T row[3] = {fl, fl, fl};
                            row[slot] = b;
                            ++cases;
                            long double qmax = 0;
                            bool        zz = false, ovf = false;
                            for (int i = 0; i < dim; ++i)
                            {
                                long double q = (a == 0) ? INFINITY : fabsl ((long double) row[i] / (long double) a);
                                if (q > qmax) qmax = q;
                                if (a == 0 && row[i] == 0) zz = true;
                                T tq = row[i] / a;
                                if (!std::isfinite (tq)) ovf = true; // includes 0/0: the guard uses >=, so 0 >= max*0 fires
                            }
                            (void) zz;
                            if (a == 0) ++zero_scl;
                            else if (std::fabs (a) < 1) { if (qmax == TM) ++at; else if (qmax > TM) ++above; else if (qmax >= TM / 4) ++below; }
                            bool ub, cb = true;
                            int  th;
                            auto in = [&] () -> std::string { return Msg () << "scl=" << a << " row=(" << row[0] << ", " << row[1] << (dim == 3 ? ", " : "") << (dim == 3 ? fmt (row[2]) : std::string ()) << ")"; };
                            if (dim == 3)
                            {
                                Vec3<T> r (row[0], row[1], row[2]);
                                ub = checkForZeroScaleInRow (a, r, false);
                                th = run_checked ([&] { cb = checkForZeroScaleInRow (a, r, true); });
                            }
                            else
                            {
                                Vec2<T> r (row[0], row[1]);
                                ub = checkForZeroScaleInRow (a, r, false);
                                th = run_checked ([&] { cb = checkForZeroScaleInRow (a, r, true); });
                            }
                            const std::string& nm = dim == 3 ? n3 : n2;
                            if (th != NONE) ++fired;
                            {   // flag-less spelling == exc = true
                                bool db = true;
                                int  thd = dim == 3 ? run_checked ([&] { db = checkForZeroScaleInRow (a, Vec3<T> (row[0], row[1], row[2])); })
                                                    : run_checked ([&] { db = checkForZeroScaleInRow (a, Vec2<T> (row[0], row[1])); });
                                if (thd != th || (thd == NONE && db != cb))
                                    C0X_FAIL (std::string ("checkForZeroScaleInRow<") + tname<T> () + ">.default-flag-vs-exc=true", nm + " " + in (), thrown_name (th), thrown_name (thd));
                            }
                            // the sites below are shared by the Vec2 and Vec3 overloads of one type; the input string tells them apart
                            if (th == NONE)
                            {
                                if (!cb) C0X_FAIL (std::string ("checkForZeroScaleInRow<") + tname<T> () + ">.exc=true-returns-false", nm + " " + in (), "true or std::domain_error", "false");
                                if (!ub) C0X_FAIL (std::string ("checkForZeroScaleInRow<") + tname<T> () + ">.no-throw-when-exc=false-returns-false", nm + " " + in (), "std::domain_error", "returned true");
                                if (ovf) C0X_FAIL (std::string ("checkForZeroScaleInRow<") + tname<T> () + ">.overflowing-quotient-not-guarded", nm + " " + in (), "std::domain_error / false", "true");
                            }
                            else
                            {
                                if (th != DOMAIN_ERROR) C0X_FAIL (std::string ("checkForZeroScaleInRow<") + tname<T> () + ">.exception-type", nm + " " + in (), "std::domain_error", thrown_name (th));
                                if (ub) C0X_FAIL (std::string ("checkForZeroScaleInRow<") + tname<T> () + ">.throws-but-exc=false-returns-true", nm + " " + in (), "true", thrown_name (th));
                                if (!(a == 0 || qmax >= TM / 4))
                                    C0X_FAIL (std::string ("checkForZeroScaleInRow<") + tname<T> () + ">.guard-fires-below-max/4", nm + " " + in (), Msg () << "true: largest |row_i/scl| = " << qmax, thrown_name (th));
                            }
                        }
        }
        R ().add ("states", cases); R ().add ("evaluations", cases); R ().add ("transitions", 2 * cases);
        R ().cls ("checkForZeroScaleInRow.fired", fired);
        R ().cls ("checkForZeroScaleInRow.scl=0", zero_scl);
        R ().cls ("checkForZeroScaleInRow.quotient==max", at);
        R ().cls ("checkForZeroScaleInRow.quotient>max", above);
        R ().cls ("checkForZeroScaleInRow.quotient-in-[max/4,max)", below);
        R ().stage_done ("scl in A (both signs) x row[slot] in B(scl) (both signs) x 3 slots x 3 fillers x {Vec2, Vec3} = " + std::to_string (cases) + " calls x {exc=false, exc=true}");
    }
}

} // namespace

void stage_decomposition ()
{
    const bool th = R ().thorough ();
    algo_stages<float> (th);
    algo_stages<double> (th);
}

} // namespace c07
