// C14 float instantiations of the post-audit stages
#include "c14_max.hpp"
namespace c14 { template bool run_maxface<float> (bool); template bool run_signed<float> (bool); template bool run_negzero<float> (bool); }
