// C09, stages "frames-scaled" and "nextframe-general" (audit2 S1, S4, S5).
//
// frames-scaled: the frame builders are handed DIRECTION arguments; the frame they document depends on the
//   directions only, not on the magnitudes. Every operand is a lattice direction times 2^k (an exact
//   scaling), each operand scaled independently, k from
//        float  {-80,-60,-45,-25, 0, 25, 45, 60, 70}      double {-600,-500,-340,-180, 0, 180, 340, 500, 520}
//   and the checks are the ones of stage "frames" with the same a-priori tolerances (a power-of-two scaling
//   that neither overflows nor underflows changes no rounding, so the error analysis of c09_frames.cpp
//   carries over unchanged). Input classes, decided by a predicate on the exponents only:
//     * in-range: the operands and the intermediate vectors the documented construction needs
//       (up x target of magnitude 2^(a+b), target x (up x target) of magnitude 2^(2a+b)) all have exponents e with
//       2e+8 <= max_exponent (their squared length is finite) and e >= min_exponent-1 (normal)
//     * intermediate-product-overflows / -underflows: otherwise. The statement of C09 excludes only zero and
//       nearly parallel directions, so the documented frame is demanded there too, under a site of its own
//       (one site per function, base type and class; the violated relation is named in `expected`).
//     * operand-subnormal (seed C09-v1; alignZAxisWithTargetDir and rotationMatrixWithUpDir only): a non-zero operand times 2^k
//       with k in float {-130,-149} / double {-1030,-1074}, i.e. its LARGEST component is a subnormal number (each operand
//       independently, against every exponent of the other operands). "Whenever their direction arguments are neither zero nor
//       nearly parallel": a subnormal vector is not zero, and a lattice direction times 2^k is still exactly that direction
//       (components +-2^k, 0), so the documented frame with the unchanged tolerances is demanded (the reciprocal 2^-k of
//       such a magnitude is not representable: a construction that forms it breaks down exactly here).
//     * firstFrame additionally: operand-beyond-sqrt(max) (k = 70 / 520): Vec3::length() itself overflows, the
//       root cause of the recorded C10 finding `*.float-operand-scaled-1e20`.
//   Also here (S4): exactly parallel NON-lattice pairs target = v*2^k, up = m*v (m in {2,3,5,7,-1,-2,-3,-5},
//   v generic small integer vectors): the cross product is exactly zero although no component is 0 or +-1,
//   so the degeneracy fall-backs are reached with generic operands; the result must still be a frame with
//   row 2 = target^ ("additionally return a valid orthonormal frame when ... the two are exactly parallel").
//   All products that occur are integers below 2^24 times a power of two, hence exact.
//
// nextframe-general: nextFrame with a previous frame Mi that is NOT the output of firstFrame: the 24 lattice
//   rotations as axes, origin o = pi or o = pi + (2,-1,3), previous/new tangents over all ordered pairs of lattice
//   directions (so Mi's x axis is in general not ti). Documented ("See Graphics Gems I": the previous frame is
//   carried along by the rigid motion that takes pi to pj and rotates ti^ onto tj^ about ti x tj):
//        axes  = (axes of Mi) * Rod(ti x tj, angle(ti,tj)),    origin = (o - pi) * Rod + pj,
//   Rod written out from Rodrigues' formula in long double with cos/sin taken from the integer dot and cross
//   products. Exactly parallel tangents: pure translation by pj - pi. Exactly opposite tangents: no rotation is
//   singled out by the documentation; only orthonormality and the origin of the translated frame are demanded.
//   Tolerance for the rotated axes, a priori (eps of T, r = angle(ti,tj)): the angle is acos of a dot product of two
//   rounded unit vectors (<= 5 eps/sin r + 2 eps), the axis ti^ x tj^ has direction error <= 15 eps/sin r, which moves
//   the entries of a Rodrigues matrix by at most (sin r + 2(1-cos r)) times that = 15 eps (1 + 2 tan(r/2)),
//   setAxisAngle itself 11 eps, the three matrix products with pure translations are exact on the 3x3 block:
//   bound (48 + 8/sin r + 16 (1 + 2 tan(r/2))) eps.
#include "c09_common.hpp"
#include <array>
#include <map>

namespace c09 {
namespace {
using vf::R;

template <class T> struct Lim
{
    static int hi () { return std::numeric_limits<T>::max_exponent / 2 - 4; } // float 60, double 508
    static int lo () { return std::numeric_limits<T>::min_exponent - 1; }     // float -126, double -1022
    // with_subnormal (seed C09-v1): two exponents below min_exponent - 1, so that the LARGEST component of the scaled lattice
    // direction (+-1 * 2^k) is itself a subnormal number: one inside the subnormal range (float 2^-130, double 2^-1030) and
    // denorm_min (float 2^-149, double 2^-1074). A lattice direction has components in {-1,0,1}, so the scaled operand is
    // still exactly that direction. Only alignZAxisWithTargetDir / rotationMatrixWithUpDir take them (see the header).
    static std::vector<int> ks (bool with_beyond, bool with_subnormal = false)
    {
        const bool dbl = std::numeric_limits<T>::digits > 30;
        std::vector<int> v;
        if (with_subnormal) { v.push_back (dbl ? -1074 : -149); v.push_back (dbl ? -1030 : -130); }
        for (int k : (dbl ? std::vector<int>{-600, -500, -340, -180, 0, 180, 340, 500} : std::vector<int>{-80, -60, -45, -25, 0, 25, 45, 60})) v.push_back (k);
        if (with_beyond) v.push_back (dbl ? 520 : 70);
        return v;
    }
    static bool subnormal_exp (int k) { return k < lo (); }
};
enum Cls { IN = 0, OVER = 1, UNDER = 2, SUBN = 3 };
template <class T> inline Cls cls_of (std::initializer_list<int> exps)
{
    Cls c = IN;
    for (int e : exps)
    {
        if (e > Lim<T>::hi ()) return OVER;
        if (e < Lim<T>::lo ()) c = UNDER;
    }
    return c;
}
inline const char* cls_sfx (Cls c) { return c == OVER ? ".intermediate-product-overflows" : c == UNDER ? ".intermediate-product-underflows" : c == SUBN ? ".operand-subnormal" : ""; }

// Failure formatting is expensive and the out-of-range classes fail by the million on a tree without the repair:
// after the first 16 failures reported by a thread at a site the strings are left empty (R().fail keeps only the first 4 per
// site; the count stays exact).
inline bool verbose_fail (const std::string& site)
{
    static thread_local std::map<std::string, int> n;
    return ++n[site] <= 16;
}

struct Tally
{
    long long states = 0, trans = 0;
    long long al[4] = {0, 0, 0, 0}, al_deg = 0, ud[4] = {0, 0, 0, 0}, al_sub_target = 0, al_sub_up = 0, ud_sub[3] = {0, 0, 0}, clf = 0, ff_in = 0, ff_beyond = 0, ff_col = 0, nf = 0, par_nonlattice = 0, par_second = 0;
    long long g_rot = 0, g_par = 0, g_anti = 0, g_off = 0, g_xaxis_not_ti = 0;
    double w_axes = 0;
    void merge (const Tally& o)
    {
        states += o.states; trans += o.trans;
        for (int i = 0; i < 4; ++i) { al[i] += o.al[i]; ud[i] += o.ud[i]; }
        for (int i = 0; i < 3; ++i) ud_sub[i] += o.ud_sub[i];
        al_sub_target += o.al_sub_target; al_sub_up += o.al_sub_up;
        al_deg += o.al_deg; clf += o.clf; ff_in += o.ff_in; ff_beyond += o.ff_beyond; ff_col += o.ff_col; nf += o.nf; par_nonlattice += o.par_nonlattice; par_second += o.par_second;
        g_rot += o.g_rot; g_par += o.g_par; g_anti += o.g_anti; g_off += o.g_off; g_xaxis_not_ti += o.g_xaxis_not_ti;
        if (o.w_axes > w_axes) w_axes = o.w_axes;
    }
};

inline bool iszero (const long long* v) { return v[0] == 0 && v[1] == 0 && v[2] == 0; }
inline void icross (const long long* a, const long long* b, long long* r)
{
    r[0] = a[1] * b[2] - a[2] * b[1]; r[1] = a[2] * b[0] - a[0] * b[2]; r[2] = a[0] * b[1] - a[1] * b[0];
}
inline long long idot (const long long* a, const long long* b) { return a[0] * b[0] + a[1] * b[1] + a[2] * b[2]; }
inline void lat (int idx, long long* v)
{
    int t[3];
    ex::decode ((uint64_t) idx, 3, 3, t, -1);
    v[0] = t[0]; v[1] = t[1]; v[2] = t[2];
}
inline std::string l3 (const long long* v) { return "(" + std::to_string (v[0]) + "," + std::to_string (v[1]) + "," + std::to_string (v[2]) + ")"; }
inline std::string sc (const long long* v, int k) { return l3 (v) + (k ? "*2^" + std::to_string (k) : ""); }
template <class T> inline Vec3<T> mkv (const long long* v, int k) { return Vec3<T> ((T) ldexpl ((LD) v[0], k), (T) ldexpl ((LD) v[1], k), (T) ldexpl ((LD) v[2], k)); }
template <class T> inline LD rowdiff (const Matrix44<T>& m, int r, const long long* v)
{
    LD a[3] = {(LD) v[0], (LD) v[1], (LD) v[2]}, u[3];
    unit3 (a, u);
    LD w = 0;
    for (int j = 0; j < 3; ++j) w = std::max (w, fabsl ((LD) m.x[r][j] - u[j]));
    return w == w ? w : 1e30L;
}
template <class T> inline LD carrydiff (const Matrix44<T>& m, const long long* v, const long long* w)
{
    LD a[3] = {(LD) v[0], (LD) v[1], (LD) v[2]}, b[3] = {(LD) w[0], (LD) w[1], (LD) w[2]}, ua[3], ub[3];
    unit3 (a, ua); unit3 (b, ub);
    LD d = 0;
    for (int j = 0; j < 3; ++j)
    {
        LD s = ua[0] * (LD) m.x[0][j] + ua[1] * (LD) m.x[1][j] + ua[2] * (LD) m.x[2][j];
        d    = std::max (d, fabsl (s - ub[j]));
    }
    return d == d ? d : 1e30L;
}
template <class T> Matrix44<T> dirty44 ()
{
    Matrix44<T> m;
    for (int i = 0; i < 4; ++i)
        for (int j = 0; j < 4; ++j) m.x[i][j] = (T) (100 + ex::PRIMES[i * 4 + j]);
    return m;
}

// exponents of the vectors the documented construction of alignZAxisWithTargetDir(target*2^a, up*2^b) needs
// (t, u integer directions; zero operands are replaced by unit vectors, exactly parallel ones by target x e)
template <class T> Cls align_class (const long long* t, const long long* u, int a, int b, bool* degenerate)
{
    const long long Z[3] = {0, 0, 1}, Y[3] = {0, 1, 0};
    const long long* te = t; const long long* ue = u;
    int ea = a, eb = b;
    bool deg = false;
    if (iszero (t)) { te = Z; ea = 0; deg = true; }
    if (iszero (u)) { ue = Y; eb = 0; deg = true; }
    long long c[3];
    icross (ue, te, c);
    if (iszero (c)) { eb = ea; deg = true; } // up := target x e_x (or e_z): magnitude of target
    if (degenerate) *degenerate = deg;
    return cls_of<T> ({ea, eb, ea + eb, 2 * ea + eb});
}

// ---- alignZAxisWithTargetDir with scaled operands (all 27^2 direction pairs x all pairs of exponents) ----------------------
template <class T> void align_scaled (Tally& tl)
{
    const LD   e  = EPS<T> ();
    const auto ks = Lim<T>::ks (true, true);
    const std::string sOut[4] = {"", site<T> ("alignZAxisWithTargetDir", std::string ("documented-frame.operand-scaled-2^k") + cls_sfx (OVER)),
                                 site<T> ("alignZAxisWithTargetDir", std::string ("documented-frame.operand-scaled-2^k") + cls_sfx (UNDER)),
                                 site<T> ("alignZAxisWithTargetDir", std::string ("documented-frame.operand-scaled-2^k") + cls_sfx (SUBN))};
    for (int ti = 0; ti < 27; ++ti)
        for (int ui = 0; ui < 27; ++ui)
        {
            long long t[3], u[3], c[3], y[3];
            lat (ti, t); lat (ui, u);
            icross (u, t, c);
            const bool nondeg = !iszero (t) && !iszero (u) && !iszero (c);
            icross (t, c, y);
            for (int a : ks)
                for (int b : ks)
                {
                    if (a == 0 && b == 0) continue; // stage "frames"
                    bool deg;
                    Cls  k = align_class<T> (t, u, a, b, &deg);
                    // a non-zero operand whose largest component is a subnormal number: a class of its own (predicate on
                    // the operand alone), whatever the other operand is
                    const bool subT = !iszero (t) && Lim<T>::subnormal_exp (a), subU = !iszero (u) && Lim<T>::subnormal_exp (b);
                    if (subT || subU) k = SUBN;
                    if (subT) ++tl.al_sub_target;
                    if (subU) ++tl.al_sub_up;
                    ++tl.states; ++tl.al[k];
                    if (deg) ++tl.al_deg;
                    Matrix44<T> M = dirty44<T> ();
                    alignZAxisWithTargetDir (M, mkv<T> (t, a), mkv<T> (u, b));
                    ++tl.trans;
                    auto desc = [&] () { return "target=" + sc (t, a) + " up=" + sc (u, b); };
                    auto fail = [&] (const char* rel, const char* exp, const std::string& d = std::string ()) {
                        const bool v = verbose_fail (k == IN ? std::string (rel) : sOut[k]);
                        if (k == IN) R ().fail (site<T> ("alignZAxisWithTargetDir", std::string (rel) + ".operand-scaled-2^k"), v ? desc () : std::string (), exp, v ? d + " " + mat_str (M.x) : std::string ());
                        else R ().fail (sOut[k], v ? desc () : std::string (), v ? std::string (rel) + ": " + exp : std::string (), v ? d + " " + mat_str (M.x) : std::string ());
                    };
                    std::string d = frame_defect (M, 8 * e);
                    if (!d.empty ()) fail ("orthonormal-right-handed", "orthonormal, det +1 to 8 eps", d);
                    if (!(M.x[3][0] == 0 && M.x[3][1] == 0 && M.x[3][2] == 0)) fail ("no-translation", "row 3 = (0,0,0,1)");
                    if (!iszero (t) && !(rowdiff (M, 2, t) <= 4 * e)) fail ("z-row=target^", "row 2 = target/|target| to 4 eps");
                    if (nondeg)
                    {
                        if (!(rowdiff (M, 0, c) <= 4 * e)) fail ("x-row=(up x target)^", "to 4 eps");
                        if (!(rowdiff (M, 1, y) <= 4 * e)) fail ("y-row=(target x (up x target))^", "to 4 eps");
                    }
                }
        }
}

// ---- S4: exactly parallel non-lattice pairs ------------------------------------------------------------------------------
template <class T> void parallel_nonlattice (Tally& tl)
{
    const LD        e       = EPS<T> ();
    const long long V[8][3] = {{1, 2, 3}, {2, 3, 5}, {-7, 11, -13}, {3, 0, -4}, {0, 5, 12}, {6, 0, 0}, {0, 0, -9}, {5, -12, 0}};
    const int       MS[8]   = {2, 3, 5, 7, -1, -2, -3, -5};
    for (auto& v : V)
        for (int m : MS)
            for (int kt : {-10, 0, 10})
                for (int ku : {-10, 0, 10})
                {
                    long long u[3] = {m * v[0], m * v[1], m * v[2]}, c[3];
                    icross (u, v, c);
                    if (!iszero (c)) { R ().fail ("harness.parallel-nonlattice", l3 (v)); continue; }
                    ++tl.states; ++tl.par_nonlattice;
                    if (v[1] == 0 && v[2] == 0) ++tl.par_second; // target x (1,0,0) vanishes too
                    Matrix44<T> M = dirty44<T> ();
                    alignZAxisWithTargetDir (M, mkv<T> (v, kt), mkv<T> (u, ku));
                    ++tl.trans;
                    const std::string in = "target=" + sc (v, kt) + " up=" + std::to_string (m) + "*" + sc (v, ku);
                    std::string d = frame_defect (M, 8 * e);
                    if (!d.empty ()) R ().fail (site<T> ("alignZAxisWithTargetDir", "orthonormal-right-handed.up-exactly-parallel-non-lattice"), in, "orthonormal, det +1 to 8 eps", d + " " + mat_str (M.x));
                    if (!(rowdiff (M, 2, v) <= 4 * e)) R ().fail (site<T> ("alignZAxisWithTargetDir", "z-row=target^.up-exactly-parallel-non-lattice"), in, "row 2 = target^ to 4 eps", mat_str (M.x));
                    // the same degenerate (to, up) through rotationMatrixWithUpDir, from a generic direction
                    const long long F[3] = {1, -1, 1};
                    Matrix44<T> W = rotationMatrixWithUpDir (mkv<T> (F, 0), mkv<T> (v, kt), mkv<T> (u, ku));
                    ++tl.trans;
                    d = frame_defect (W, 32 * e);
                    if (!d.empty ()) R ().fail (site<T> ("rotationMatrixWithUpDir", "orthonormal-right-handed.up-exactly-parallel-non-lattice"), "from=(1,-1,1) to/" + in, "orthonormal, det +1 to 32 eps", d + " " + mat_str (W.x));
                    if (!(carrydiff (W, F, v) <= 16 * e)) R ().fail (site<T> ("rotationMatrixWithUpDir", "from^*M=to^.up-exactly-parallel-non-lattice"), "from=(1,-1,1) to/" + in, "to 16 eps", mat_str (W.x));
                }
}

// ---- rotationMatrixWithUpDir with scaled operands ----------------------------------------------------------------------
template <class T> void updir_scaled (Tally& total, bool thorough)
{
    const LD   e  = EPS<T> ();
    const auto ks = Lim<T>::ks (true, true);
    // exponent triples (kf, kt, ku): thorough all 11^3; quick all-equal and one operand scaled
    std::vector<std::array<int, 3>> combos;
    for (int a : ks)
        for (int b : ks)
            for (int c : ks)
            {
                if (a == 0 && b == 0 && c == 0) continue;
                int nz = (a != 0) + (b != 0) + (c != 0);
                bool eq = (a == b && b == c);
                if (thorough || eq || nz == 1) combos.push_back ({{a, b, c}});
            }
    const std::string sOut[4] = {"", site<T> ("rotationMatrixWithUpDir", std::string ("documented-frame.operand-scaled-2^k") + cls_sfx (OVER)),
                                 site<T> ("rotationMatrixWithUpDir", std::string ("documented-frame.operand-scaled-2^k") + cls_sfx (UNDER)),
                                 site<T> ("rotationMatrixWithUpDir", std::string ("documented-frame.operand-scaled-2^k") + cls_sfx (SUBN))};
    const uint64_t ND = 27 * 27 * 27, N = ND * combos.size ();
    std::mutex     mu;
    const long long UP0[3] = {0, 1, 0};
    bool complete = vf::parallel_chunks (N, ND, [&] (uint64_t lo, uint64_t hi, unsigned) {
        Tally tl;
        for (uint64_t idx = lo; idx < hi; ++idx)
        {
            const auto& kc = combos[idx / ND];
            uint64_t    di = idx % ND;
            long long   f[3], t[3], u[3], cf[3], ct[3], yf[3], yt[3];
            lat ((int) (di % 27), f); lat ((int) ((di / 27) % 27), t); lat ((int) (di / 729), u);
            icross (UP0, f, cf);
            icross (u, t, ct);
            Cls k = IN;
            if (!iszero (f))
            {
                Cls k1 = align_class<T> (f, UP0, kc[0], 0, nullptr), k2 = align_class<T> (t, u, kc[1], kc[2], nullptr);
                k = (k1 == OVER || k2 == OVER) ? OVER : (k1 == UNDER || k2 == UNDER) ? UNDER : IN;
            }
            {
                // subnormal largest component of a non-zero operand (from / to / up independently): own class
                const bool sf = !iszero (f) && Lim<T>::subnormal_exp (kc[0]), st = !iszero (f) && !iszero (t) && Lim<T>::subnormal_exp (kc[1]),
                           su = !iszero (f) && !iszero (u) && Lim<T>::subnormal_exp (kc[2]);
                if (sf || st || su) k = SUBN;
                if (sf) ++tl.ud_sub[0];
                if (st) ++tl.ud_sub[1];
                if (su) ++tl.ud_sub[2];
            }
            ++tl.states; ++tl.ud[k];
            Matrix44<T> M = rotationMatrixWithUpDir (mkv<T> (f, kc[0]), mkv<T> (t, kc[1]), mkv<T> (u, kc[2]));
            ++tl.trans;
            auto desc = [&] () { return "from=" + sc (f, kc[0]) + " to=" + sc (t, kc[1]) + " up=" + sc (u, kc[2]); };
            auto fail = [&] (const char* rel, const char* exp, const std::string& d = std::string ()) {
                const bool v = verbose_fail (k == IN ? std::string (rel) : sOut[k]);
                if (k == IN) R ().fail (site<T> ("rotationMatrixWithUpDir", std::string (rel) + ".operand-scaled-2^k"), v ? desc () : std::string (), exp, v ? d + " " + mat_str (M.x) : std::string ());
                else R ().fail (sOut[k], v ? desc () : std::string (), v ? std::string (rel) + ": " + exp : std::string (), v ? d + " " + mat_str (M.x) : std::string ());
            };
            std::string d = frame_defect (M, 32 * e);
            if (!d.empty ()) fail ("orthonormal-right-handed", "orthonormal, det +1 to 32 eps", d);
            if (!(M.x[3][0] == 0 && M.x[3][1] == 0 && M.x[3][2] == 0)) fail ("no-translation", "row 3 = (0,0,0,1)");
            if (!iszero (f) && !iszero (t))
            {
                if (!(carrydiff (M, f, t) <= 16 * e)) fail ("from^*M=to^", "to 16 eps");
                bool to_degenerate = iszero (u) || iszero (ct);
                if (!iszero (cf) && !to_degenerate)
                {
                    icross (f, cf, yf);
                    icross (t, ct, yt);
                    if (!(carrydiff (M, yf, yt) <= 16 * e)) fail ("up-of-from-frame-carried-to-up-of-to-frame", "to 16 eps");
                }
            }
        }
        std::lock_guard<std::mutex> g (mu);
        total.merge (tl);
    });
    if (!complete) R ().note ("frames-scaled.updir", "cut short by the deadline");
}

// ---- computeLocalFrame with scaled xDir / normal -----------------------------------------------------------------------------
template <class T> void local_frame_scaled (Tally& tl)
{
    const LD   e  = EPS<T> ();
    const auto ks = Lim<T>::ks (false);
    const long long P[3][3] = {{0, 0, 0}, {3, -5, 7}, {-3, 5, 0}};
    for (int xi = 0; xi < 27; ++xi)
        for (int ni = 0; ni < 27; ++ni)
        {
            long long xx[3], nn[3], c[3], z[3];
            lat (xi, xx); lat (ni, nn);
            icross (nn, xx, c);
            if (iszero (xx) || iszero (nn) || iszero (c)) continue; // zero / parallel: outside the property
            LD sinphi = sqrtl ((LD) idot (c, c) / (LD) (idot (xx, xx) * idot (nn, nn)));
            icross (xx, c, z);
            for (int a : ks)
                for (int b : ks)
                {
                    if (a == 0 && b == 0) continue;
                    for (auto& p : P)
                    {
                        ++tl.states; ++tl.clf;
                        Matrix44<T> M = computeLocalFrame (mkv<T> (p, 0), mkv<T> (xx, a), mkv<T> (nn, b));
                        ++tl.trans;
                        auto desc = [&] () { return "p=" + l3 (p) + " xDir=" + sc (xx, a) + " normal=" + sc (nn, b); };
                        std::string d = frame_defect (M, 16 * e / sinphi);
                        if (!d.empty ()) R ().fail (site<T> ("computeLocalFrame", "orthonormal-direct.operand-scaled-2^k"), desc (), "to 16 eps/sin(angle(xDir,normal))", d + " " + mat_str (M.x));
                        if (!(M.x[3][0] == (T) p[0] && M.x[3][1] == (T) p[1] && M.x[3][2] == (T) p[2])) R ().fail (site<T> ("computeLocalFrame", "origin=p.operand-scaled-2^k"), desc (), l3 (p), mat_str (M.x));
                        if (!(rowdiff (M, 0, xx) <= 4 * e)) R ().fail (site<T> ("computeLocalFrame", "x-row=xDir^.operand-scaled-2^k"), desc (), "to 4 eps", mat_str (M.x));
                        if (!(rowdiff (M, 1, c) <= 8 * e / sinphi)) R ().fail (site<T> ("computeLocalFrame", "y-row=(normal x xDir)^.operand-scaled-2^k"), desc (), "to 8 eps/sin", mat_str (M.x));
                        if (!(rowdiff (M, 2, z) <= 16 * e / sinphi)) R ().fail (site<T> ("computeLocalFrame", "z-row=(x x y)^.operand-scaled-2^k"), desc (), "to 16 eps/sin", mat_str (M.x));
                    }
                }
        }
}

// ---- firstFrame / nextFrame with scaled operands ---------------------------------------------------------------------------------
template <class T> void first_frame_case (Tally& tl, const long long* a, int ka, const long long* b, int kb, const long long* c, int kc, bool beyond)
{
    // pi = a*2^ka, pj = b*2^kb, pk = c*2^kc with either ka == kb == kc or a == 0, so that pj - pi and pk - pi are
    // lattice directions times a power of two
    const LD e = EPS<T> ();
    long long t[3], d[3], n[3], bn[3];
    int       kt, kd;
    if (iszero (a)) { for (int i = 0; i < 3; ++i) { t[i] = b[i]; d[i] = c[i]; } kt = kb; kd = kc; }
    else { for (int i = 0; i < 3; ++i) { t[i] = b[i] - a[i]; d[i] = c[i] - a[i]; } kt = kd = ka; }
    (void) kt; (void) kd;
    if (iszero (t)) return; // pi == pj: documented to throw
    icross (t, d, n);
    const bool collinear = iszero (n);
    ++tl.states;
    (beyond ? tl.ff_beyond : tl.ff_in)++;
    if (collinear) ++tl.ff_col;
    Vec3<T>     pa = mkv<T> (a, ka), pb = mkv<T> (b, kb), pc = mkv<T> (c, kc);
    Matrix44<T> M  = firstFrame (pa, pb, pc);
    ++tl.trans;
    auto desc = [&] () { return "pi=" + sc (a, ka) + " pj=" + sc (b, kb) + " pk=" + sc (c, kc); };
    static const std::string sBeyond = site<T> ("firstFrame", "documented-frame.operand-beyond-sqrt(max)");
    auto fail = [&] (const char* rel, const char* exp, const std::string& d = std::string ()) {
        const bool v = verbose_fail (!beyond ? std::string (rel) : sBeyond);
        if (!beyond) R ().fail (site<T> ("firstFrame", std::string (rel) + ".operand-scaled-2^k"), v ? desc () : std::string (), exp, v ? d + " " + mat_str (M.x) : std::string ());
        else R ().fail (sBeyond, v ? desc () : std::string (), v ? std::string (rel) + ": " + exp : std::string (), v ? d + " " + mat_str (M.x) : std::string ());
    };
    if (!(M.x[3][0] == pa.x && M.x[3][1] == pa.y && M.x[3][2] == pa.z)) fail ("origin=pi", "the scaled point pi");
    if (!(rowdiff (M, 0, t) <= 4 * e)) fail ("x-row=(pj-pi)^", "to 4 eps");
    if (collinear)
    {
        // only the 3x3 block and the fourth column: the origin is a scaled point
        Matrix44<T> A (M);
        A.x[3][0] = A.x[3][1] = A.x[3][2] = 0;
        std::string df = frame_defect (A, 16 * e);
        if (!df.empty ()) fail ("collinear-points.still-orthonormal-frame", "orthonormal right-handed to 16 eps (arbitrary twist)", df);
        return;
    }
    LD sinphi = sqrtl ((LD) idot (n, n) / (LD) (idot (t, t) * idot (d, d)));
    std::string df = frame_defect (M, 16 * e / sinphi);
    if (!df.empty ()) fail ("orthonormal-right-handed", "to 16 eps/sin(angle)", df);
    if (!(rowdiff (M, 1, n) <= 8 * e / sinphi)) fail ("y-row=((pj-pi) x (pk-pi))^", "to 8 eps/sin");
    icross (t, n, bn);
    if (!(rowdiff (M, 2, bn) <= 16 * e / sinphi)) fail ("z-row=x x y", "to 16 eps/sin");
}

template <class T> void curve_scaled (Tally& total, bool thorough)
{
    const LD   e    = EPS<T> ();
    const auto ksB  = Lim<T>::ks (true);
    const auto ks   = Lim<T>::ks (false);
    const int  kbey = ksB.back ();
    Tally      tl;
    // (i) the whole point triple scaled by one power of two: all L(1)^3 triples
    for (int k : ksB)
    {
        if (k == 0) continue;
        for (int ai = 0; ai < 27; ++ai)
            for (int bi = 0; bi < 27; ++bi)
                for (int ci = 0; ci < 27; ++ci)
                {
                    long long a[3], b[3], c[3];
                    lat (ai, a); lat (bi, b); lat (ci, c);
                    first_frame_case<T> (tl, a, k, b, k, c, k, k == kbey);
                }
    }
    // (ii) pi = 0, pj and pk scaled independently
    const long long O[3] = {0, 0, 0};
    for (int kb : ksB)
        for (int kc : ksB)
        {
            if (kb == 0 && kc == 0) continue;
            for (int bi = 0; bi < 27; ++bi)
                for (int ci = 0; ci < 27; ++ci)
                {
                    long long b[3], c[3];
                    lat (bi, b); lat (ci, c);
                    first_frame_case<T> (tl, O, 0, b, kb, c, kc, kb == kbey || kc == kbey);
                }
        }
    total.merge (tl);
    // nextFrame: Mi = firstFrame of an unscaled non-collinear lattice triple, ti = (pj-pi)*2^ki, tj = lattice*2^kj
    const uint64_t NP = 27, N = NP * NP * NP;
    const unsigned stride = thorough ? 7 : 29;
    std::mutex mu;
    bool complete = vf::parallel_chunks (N, NP * NP, [&] (uint64_t lo, uint64_t hi, unsigned) {
        Tally t2;
        for (uint64_t idx = lo; idx < hi; ++idx)
        {
            if (idx % stride != 3) continue;
            long long a[3], b[3], c[3], t[3], d[3], n[3];
            lat ((int) (idx % NP), a); lat ((int) ((idx / NP) % NP), b); lat ((int) (idx / (NP * NP)), c);
            for (int i = 0; i < 3; ++i) { t[i] = b[i] - a[i]; d[i] = c[i] - a[i]; }
            icross (t, d, n);
            if (iszero (t) || iszero (n)) continue;
            LD sinphi = sqrtl ((LD) idot (n, n) / (LD) (idot (t, t) * idot (d, d)));
            Vec3<T>     pa = mkv<T> (a, 0), pb = mkv<T> (b, 0), pc = mkv<T> (c, 0);
            Matrix44<T> M  = firstFrame (pa, pb, pc);
            const LD pmag = fabsl ((LD) a[0]) + fabsl ((LD) a[1]) + fabsl ((LD) a[2]) + fabsl ((LD) b[0]) + fabsl ((LD) b[1]) + fabsl ((LD) b[2]) + 1;
            for (int ki : ks)
                for (int kj : ks)
                {
                    if (ki == 0 && kj == 0) continue;
                    if (!thorough && !(ki == kj || ki == 0 || kj == 0)) continue;
                    for (int ji = 0; ji < 27; ++ji)
                    {
                        long long tj[3], ax[3];
                        lat (ji, tj);
                        if (iszero (tj)) continue;
                        icross (t, tj, ax);
                        ++t2.states; ++t2.nf;
                        Vec3<T> tiv = mkv<T> (t, ki), tjv = mkv<T> (tj, kj);
                        Matrix44<T> M1 = nextFrame (M, pa, pb, tiv, tjv);
                        ++t2.trans;
                        auto d2 = [&] () { return "pi=" + l3 (a) + " pj=" + l3 (b) + " pk=" + l3 (c) + " [Mi=firstFrame(pi,pj,pk)] ti=" + sc (t, ki) + " tj=" + sc (tj, kj); };
                        std::string df = frame_defect (M1, 128 * e / sinphi);
                        if (!df.empty ()) R ().fail (site<T> ("nextFrame", "orthonormal-right-handed.tangent-scaled-2^k"), d2 (), "to 128 eps/sin", df + " " + mat_str (M1.x));
                        LD od = std::max (fabsl ((LD) M1.x[3][0] - b[0]), std::max (fabsl ((LD) M1.x[3][1] - b[1]), fabsl ((LD) M1.x[3][2] - b[2])));
                        if (!(od <= 16 * e * pmag)) R ().fail (site<T> ("nextFrame", "origin=pj.tangent-scaled-2^k"), d2 (), l3 (b) + " to 16 eps*(|pi|+|pj|+1)", mat_str (M1.x));
                        if (!iszero (ax))
                        {
                            LD sinr = sqrtl ((LD) idot (ax, ax) / (LD) (idot (t, t) * idot (tj, tj)));
                            LD dx   = rowdiff (M1, 0, tj);
                            if (!(dx <= (32 + 8 / sinr) * e)) R ().fail (site<T> ("nextFrame", "x-row=tj^.tangent-scaled-2^k"), d2 (), "to (32+8/sin r) eps", vf::fmt (dx) + " " + mat_str (M1.x));
                        }
                    }
                }
        }
        std::lock_guard<std::mutex> g (mu);
        total.merge (t2);
    });
    if (!complete) R ().note ("frames-scaled.nextFrame", "cut short by the deadline");
}

// ---- S5: nextFrame from a general previous frame --------------------------------------------------------------------------------
template <class T> void next_general (Tally& total, bool thorough)
{
    const LD   e    = EPS<T> ();
    const auto rots = ex::cube_rotations ();
    std::vector<std::array<long long, 3>> pts;
    if (thorough)
        for (int i = 0; i < 27; ++i) { long long p[3]; lat (i, p); pts.push_back ({{p[0], p[1], p[2]}}); }
    else
        pts = {{{0, 0, 0}}, {{1, -1, 0}}, {{-1, 1, 1}}};
    const long long OFF[2][3] = {{0, 0, 0}, {2, -1, 3}};
    const uint64_t NR = rots.size (), NPT = pts.size (), N = NR * NPT * NPT;
    std::mutex mu;
    bool complete = vf::parallel_chunks (N, NPT, [&] (uint64_t lo, uint64_t hi, unsigned) {
        Tally tl;
        for (uint64_t idx = lo; idx < hi; ++idx)
        {
            const auto& r  = rots[idx % NR];
            const auto& pi = pts[(idx / NR) % NPT];
            const auto& pj = pts[idx / (NR * NPT)];
            for (int oi = 0; oi < 2; ++oi)
            {
                long long o[3] = {pi[0] + OFF[oi][0], pi[1] + OFF[oi][1], pi[2] + OFF[oi][2]};
                Matrix44<T> Mi;
                for (int i = 0; i < 3; ++i)
                    for (int j = 0; j < 3; ++j) Mi.x[i][j] = (T) r[i * 3 + j];
                Mi.x[3][0] = (T) o[0]; Mi.x[3][1] = (T) o[1]; Mi.x[3][2] = (T) o[2];
                const LD pmag = fabsl ((LD) pi[0]) + fabsl ((LD) pi[1]) + fabsl ((LD) pi[2]) + fabsl ((LD) pj[0]) + fabsl ((LD) pj[1]) + fabsl ((LD) pj[2]) + 1 +
                                fabsl ((LD) o[0]) + fabsl ((LD) o[1]) + fabsl ((LD) o[2]);
                for (int ii = 0; ii < 27; ++ii)
                    for (int ji = 0; ji < 27; ++ji)
                    {
                        long long ti[3], tj[3], ax[3];
                        lat (ii, ti); lat (ji, tj);
                        if (iszero (ti) || iszero (tj)) continue;
                        icross (ti, tj, ax);
                        const long long dt = idot (ti, tj);
                        const bool par = iszero (ax);
                        ++tl.states;
                        if (par) { (dt > 0 ? tl.g_par : tl.g_anti)++; } else ++tl.g_rot;
                        if (oi) ++tl.g_off;
                        // is Mi's x axis along ti? (it is for frames produced by firstFrame)
                        {
                            long long x0[3] = {r[0], r[1], r[2]}, cx[3];
                            icross (x0, ti, cx);
                            if (!iszero (cx) || idot (x0, ti) < 0) ++tl.g_xaxis_not_ti;
                        }
                        Vec3<T> piv ((T) pi[0], (T) pi[1], (T) pi[2]), pjv ((T) pj[0], (T) pj[1], (T) pj[2]);
                        Vec3<T> tiv ((T) ti[0], (T) ti[1], (T) ti[2]), tjv ((T) tj[0], (T) tj[1], (T) tj[2]);
                        Matrix44<T> M1 = nextFrame (Mi, piv, pjv, tiv, tjv);
                        ++tl.trans;
                        auto desc = [&] () {
                            std::string s = "Mi=[rows";
                            for (int i = 0; i < 3; ++i) { long long rw[3] = {r[i * 3], r[i * 3 + 1], r[i * 3 + 2]}; s += " " + l3 (rw); }
                            return s + " origin " + l3 (o) + "] pi=" + l3 (pi.data ()) + " pj=" + l3 (pj.data ()) + " ti=" + l3 (ti) + " tj=" + l3 (tj);
                        };
                        // Rodrigues matrix (row i = image of e_i), identity for parallel tangents
                        LD Rm[3][3] = {{1, 0, 0}, {0, 1, 0}, {0, 0, 1}}, tolR = 4 * e;
                        if (!par)
                        {
                            LD nt = sqrtl ((LD) (idot (ti, ti) * idot (tj, tj)));
                            LD c = (LD) dt / nt, s = sqrtl ((LD) idot (ax, ax)) / nt;
                            LD a3[3] = {(LD) ax[0], (LD) ax[1], (LD) ax[2]}, u[3];
                            unit3 (a3, u);
                            for (int i = 0; i < 3; ++i)
                            {
                                LD ei[3] = {0, 0, 0}, uxe[3];
                                ei[i]    = 1;
                                cross3 (u, ei, uxe);
                                for (int j = 0; j < 3; ++j) Rm[i][j] = (i == j ? c : 0) + uxe[j] * s + u[j] * u[i] * (1 - c);
                            }
                            LD tanh2 = s / (1 + c); // tan(r/2)
                            tolR     = (48 + 8 / s + 16 * (1 + 2 * tanh2)) * e;
                        }
                        LD wdef;
                        Matrix44<T> A (M1);
                        A.x[3][0] = A.x[3][1] = A.x[3][2] = 0;
                        std::string df = frame_defect (A, 128 * e, &wdef);
                        if (!df.empty ()) R ().fail (site<T> ("nextFrame", "orthonormal-right-handed[Mi=lattice-rotation]"), desc (), "to 128 eps", df + " " + mat_str (M1.x));
                        LD ovec[3] = {(LD) (o[0] - pi[0]), (LD) (o[1] - pi[1]), (LD) (o[2] - pi[2])}, eo[3];
                        const bool anti = par && dt < 0;
                        LD wa = 0;
                        if (!anti)
                        {
                            for (int i = 0; i < 3; ++i)
                                for (int j = 0; j < 3; ++j)
                                {
                                    LD ex_ = 0;
                                    for (int k = 0; k < 3; ++k) ex_ += (LD) r[i * 3 + k] * Rm[k][j];
                                    wa = std::max (wa, fabsl ((LD) M1.x[i][j] - ex_));
                                }
                            if (!par && (double) (wa / tolR) > tl.w_axes) tl.w_axes = (double) (wa / tolR);
                            if (!(wa <= tolR))
                                R ().fail (site<T> ("nextFrame", par ? "parallel-tangents.axes-unchanged[Mi=lattice-rotation]" : "axes=Mi-axes-rotated-about-ti-x-tj[Mi=lattice-rotation]"), desc (),
                                           "axes of Mi times Rodrigues(ti x tj, angle(ti,tj)) to " + vf::fmt (tolR), vf::fmt (wa) + " " + mat_str (M1.x));
                        }
                        // origin: (o - pi) * R + pj   (R = identity for parallel and for opposite tangents: pure translation)
                        LD od = 0, omag = fabsl (ovec[0]) + fabsl (ovec[1]) + fabsl (ovec[2]);
                        for (int j = 0; j < 3; ++j)
                        {
                            eo[j] = ovec[0] * Rm[0][j] + ovec[1] * Rm[1][j] + ovec[2] * Rm[2][j] + (LD) pj[j];
                            od    = std::max (od, fabsl ((LD) M1.x[3][j] - eo[j]));
                        }
                        if (!(od <= omag * tolR + 16 * e * pmag))
                            R ().fail (site<T> ("nextFrame", oi ? "origin=(o-pi)*R+pj[Mi-origin-off-pi]" : "origin=pj[Mi=lattice-rotation]"), desc (), ld3 (eo), mat_str (M1.x));
                        if (!(M1.x[0][3] == 0 && M1.x[1][3] == 0 && M1.x[2][3] == 0 && M1.x[3][3] == 1))
                            R ().fail (site<T> ("nextFrame", "fourth-column[Mi=lattice-rotation]"), desc (), "(0,0,0,1)", mat_str (M1.x));
                    }
            }
        }
        std::lock_guard<std::mutex> g (mu);
        total.merge (tl);
    });
    if (!complete) R ().note ("nextframe-general", "cut short by the deadline");
}

} // namespace

void run_frames_scaled ()
{
    const bool th = R ().thorough ();
    if (R ().stage ("frames-scaled"))
    {
        Tally tl;
        align_scaled<float> (tl);  align_scaled<double> (tl);
        parallel_nonlattice<float> (tl);  parallel_nonlattice<double> (tl);
        local_frame_scaled<float> (tl);  local_frame_scaled<double> (tl);
        updir_scaled<float> (tl, th);
        bool cut = R ().out_of_time ();
        updir_scaled<double> (tl, th);
        cut = cut || R ().out_of_time ();
        curve_scaled<float> (tl, th);
        cut = cut || R ().out_of_time ();
        curve_scaled<double> (tl, th);
        cut = cut || R ().out_of_time ();
        R ().add ("states", tl.states); R ().add ("transitions", tl.trans); R ().add ("evaluations", tl.states);
        R ().cls ("scaled.alignZAxis.in-range", tl.al[IN]);
        R ().cls ("scaled.alignZAxis.intermediate-product-overflows", tl.al[OVER]);
        R ().cls ("scaled.alignZAxis.intermediate-product-underflows", tl.al[UNDER]);
        R ().cls ("scaled.alignZAxis.zero-or-exactly-parallel", tl.al_deg);
        R ().cls ("scaled.alignZAxis.operand-subnormal", tl.al[SUBN]);
        R ().cls ("scaled.alignZAxis.targetDir-subnormal", tl.al_sub_target);
        R ().cls ("scaled.alignZAxis.upDir-subnormal", tl.al_sub_up);
        R ().cls ("scaled.rotationMatrixWithUpDir.operand-subnormal", tl.ud[SUBN]);
        R ().cls ("scaled.rotationMatrixWithUpDir.fromDir-subnormal", tl.ud_sub[0]);
        R ().cls ("scaled.rotationMatrixWithUpDir.toDir-subnormal", tl.ud_sub[1]);
        R ().cls ("scaled.rotationMatrixWithUpDir.upDir-subnormal", tl.ud_sub[2]);
        R ().cls ("scaled.rotationMatrixWithUpDir.in-range", tl.ud[IN]);
        R ().cls ("scaled.rotationMatrixWithUpDir.intermediate-product-overflows", tl.ud[OVER]);
        R ().cls ("scaled.rotationMatrixWithUpDir.intermediate-product-underflows", tl.ud[UNDER]);
        R ().cls ("scaled.computeLocalFrame", tl.clf);
        R ().cls ("scaled.firstFrame.in-range", tl.ff_in);
        R ().cls ("scaled.firstFrame.operand-beyond-sqrt(max)", tl.ff_beyond);
        R ().cls ("scaled.firstFrame.collinear", tl.ff_col);
        R ().cls ("scaled.nextFrame", tl.nf);
        R ().cls ("alignZAxis.exactly-parallel-non-lattice", tl.par_nonlattice);
        R ().cls ("alignZAxis.exactly-parallel-non-lattice.second-fallback", tl.par_second);
        R ().sample ("alignZAxisWithTargetDir(target=(1,0,0)*2^45, up=(0,1,0)*2^45) float: up x target = 2^90 is finite, target x (up x target) = 2^135 is not");
        R ().sample ("alignZAxisWithTargetDir(target=(1,2,3), up=(3,6,9)): cross product exactly 0 with no 0/+-1 component");
        R ().sample ("alignZAxisWithTargetDir(target=(1,-1,0)*2^-149, up=(0,1,0)) float: the largest component of target is denorm_min; 2^149 is not a float");
        const std::string bound = std::string ("operands = lattice directions x 2^k, k in float {-80,-60,-45,-25,0,25,45,60,70} / double {-600,-500,-340,-180,0,180,340,500,520}, for alignZAxisWithTargetDir and "
                                               "rotationMatrixWithUpDir also the subnormal magnitudes float {-149,-130} / double {-1074,-1030}: alignZAxisWithTargetDir 27^2 x 11^2; "
                                               "rotationMatrixWithUpDir 27^3 x ") + (th ? "11^3" : "(all-equal + one-operand)") + " exponent triples; computeLocalFrame (xDir,normal) x 8^2 x 3 origins; "
                                  "firstFrame L(1)^3 triples x 9 common exponents and pi=0 x 9^2; nextFrame on every " + (th ? "7th" : "29th") +
                                  " triple x 26 tangents x exponent pairs; exactly parallel non-lattice (target,up) 8 x 8 x 3^2; float and double";
        if (cut) R ().stage_partial (bound); else R ().stage_done (bound);
    }
    if (R ().stage ("nextframe-general"))
    {
        Tally tl;
        next_general<float> (tl, th);
        bool cut = R ().out_of_time ();
        next_general<double> (tl, th);
        cut = cut || R ().out_of_time ();
        R ().add ("states", tl.states); R ().add ("transitions", tl.trans); R ().add ("evaluations", tl.states);
        R ().cls ("nextFrame-general.rotating", tl.g_rot);
        R ().cls ("nextFrame-general.tangents-parallel", tl.g_par);
        R ().cls ("nextFrame-general.tangents-antiparallel", tl.g_anti);
        R ().cls ("nextFrame-general.Mi-origin-off-pi", tl.g_off);
        R ().cls ("nextFrame-general.Mi-x-axis-not-along-ti", tl.g_xaxis_not_ti);
        R ().note_max ("nextFrame[Mi=lattice-rotation]: worst axes error / a-priori bound (48 + 8/sin r + 16(1+2tan(r/2))) eps", tl.w_axes);
        R ().sample ("nextFrame(Mi=[rows (0,1,0) (-1,0,0) (0,0,1) origin pi+(2,-1,3)], pi, pj, ti=(1,1,0), tj=(0,1,1)): axes = Mi axes * Rod((1,1,0)x(0,1,1), 60 deg), origin = (2,-1,3)*Rod + pj");
        const std::string bound = std::string ("nextFrame on 24 lattice rotations x 2 origins (pi, pi+(2,-1,3)) x ") + (th ? "27^2" : "3^2") + " (pi,pj) x 26^2 (ti,tj); float and double";
        if (cut) R ().stage_partial (bound); else R ().stage_done (bound);
    }
}

} // namespace c09
