// C14 double instantiation of the guard-boundary stage
#include "c14_guard.hpp"
namespace c14 { template bool run_guard<double> (bool); }
