// C09, stage "set-on-dirty-object" (seeds C10-v2, C11-v1).
//
// "setTranslation, setScale, setShear (all overloads), setRotation, setEulerAngles and setAxisAngle BUILD matrices that send a
// row-vector point p to ...": a set* builder (and makeIdentity, setValue, setTheMatrix, and alignZAxisWithTargetDir, which
// writes its result into a caller-supplied matrix) documents the matrix it leaves as a function of its ARGUMENTS alone
// ("Set matrix to rotation by XYZ euler angles", "Set matrix to translation by given vector", ...). The object the builder is
// called on is, in general, not a fresh identity: matrices are re-used (m.setTranslation(t); ...; m.setAxisAngle(a, r)). A
// builder that writes only the slots that differ from the identity, or that reads a slot before writing it, passes every
// test that starts from `Matrix44<T> m;`.
//
// Every builder of Matrix22 / Matrix33 / Matrix44 (float and double; the templated argument type S equal to T and equal to the
// other base type) is therefore run, for every argument of its alphabet, on
//     * a fresh (default-constructed = identity) object,
//     * an object holding a distinct prime (100 + p_k) in EVERY slot,
//     * an object holding the same primes with alternating signs and the slots transposed (so that no slot agrees with the
//       first fill),
//     * an object holding a quiet NaN in EVERY slot (a slot that is read, e.g. `x[3][0] *= 0`, stays NaN),
// and the three re-used objects must end BITWISE equal to the fresh one in all N x N slots. Oracle: the statement itself -- the
// result is determined by the arguments; the same function with the same arguments is a deterministic sequence of IEEE
// operations (g++ -O2 on x86-64 SSE2, no contraction), so any difference of a single bit is a dependence on the previous
// contents. No tolerance is involved. That the fresh result IS the documented matrix is the business of stages set-action /
// rotations; this stage only removes their (and every caller's) assumption "the object was an identity".
//
// Sites: "<Class><T>::<builder>[(overload)].result-depends-on-previous-contents".
// Classes (predicates on the input): previous contents primes / sign-flipped transposed primes / NaN; argument base type
// differs from the matrix base type; per matrix size.
#include "c09_common.hpp"

namespace c09 {
namespace {
using vf::R;

struct Tally
{
    long long states = 0, trans = 0;
    long long fill[3] = {0, 0, 0}, mixed = 0, size[3] = {0, 0, 0}, rot_builders = 0, frame_builder = 0;
};

template <class S> struct SN;
template <> struct SN<float>  { static const char* n () { return "float"; } };
template <> struct SN<double> { static const char* n () { return "double"; } };

template <class M> struct Dim;
template <class T> struct Dim<Matrix22<T>> { enum { N = 2 }; static const char* cls () { return "Matrix22"; } };
template <class T> struct Dim<Matrix33<T>> { enum { N = 3 }; static const char* cls () { return "Matrix33"; } };
template <class T> struct Dim<Matrix44<T>> { enum { N = 4 }; static const char* cls () { return "Matrix44"; } };

static const char* FILLN[3] = {"every slot a distinct prime 100+p_k", "every slot -+(100+p_k), transposed", "every slot NaN"};

template <class M, class T> inline void fill (M& m, int kind)
{
    const int N = Dim<M>::N;
    for (int i = 0; i < N; ++i)
        for (int j = 0; j < N; ++j)
        {
            if (kind == 0) m.x[i][j] = (T) (100 + ex::PRIMES[i * 4 + j]);
            else if (kind == 1) m.x[i][j] = (T) ((((i + j) & 1) ? 1 : -1) * (100 + ex::PRIMES[j * 4 + i]));
            else m.x[i][j] = std::numeric_limits<T>::quiet_NaN ();
        }
}

// `apply (M&)` runs the builder; `desc ()` describes the arguments
template <class T, class M, class Apply, class Desc> inline void run (Tally& tl, const std::string& st, bool mixed, Apply apply, Desc desc)
{
    const int N = Dim<M>::N;
    M         fresh;
    apply (fresh);
    ++tl.states; ++tl.trans;
    ++tl.size[N - 2];
    if (mixed) ++tl.mixed;
    for (int kind = 0; kind < 3; ++kind)
    {
        M d;
        fill<M, T> (d, kind);
        apply (d);
        ++tl.trans; ++tl.fill[kind];
        bool ok = true;
        int  bi = 0, bj = 0;
        for (int i = 0; i < N && ok; ++i)
            for (int j = 0; j < N; ++j)
                if (!ex::same (d.x[i][j], fresh.x[i][j])) { ok = false; bi = i; bj = j; break; }
        if (!ok)
            R ().fail (st, desc () + "; previous contents: " + FILLN[kind] + "; first differing slot [" + std::to_string (bi) + "][" + std::to_string (bj) + "]",
                       "the matrix the same call leaves in a fresh object: " + mat_str (fresh.x), mat_str (d.x));
    }
}

template <class T, class S> inline std::string dsite (const char* cls, const std::string& builder)
{
    std::string a = std::is_same<T, S>::value ? std::string () : std::string ("[arg ") + SN<S>::n () + "]";
    return site<T> (cls, builder + a + ".result-depends-on-previous-contents");
}

// argument alphabets: every component from {-p, 0, +p/8} with a different prime p per slot (zero and non-zero, both signs,
// non-integer), all combinations
template <class S> inline S comp (int l, int slot)
{
    static const int P[6] = {3, 5, 7, 11, 13, 17};
    return l < 0 ? (S) -P[slot] : l == 0 ? (S) 0 : (S) (P[slot] / (S) 8);
}

template <class T, class S> void builders22 (Tally& tl)
{
    typedef Matrix22<T> M;
    const bool mx = !std::is_same<T, S>::value;
    const auto angs = angle_set<S> ();
    if (!mx) run<T, M> (tl, dsite<T, T> ("Matrix22", "makeIdentity"), false, [] (M& m) { m.makeIdentity (); }, [] () { return std::string ("makeIdentity()"); });
    for (auto& g : angs) run<T, M> (tl, dsite<T, S> ("Matrix22", "setRotation"), mx, [&] (M& m) { m.setRotation (g.a); }, [&] () { return "setRotation(" + g.name + ")"; });
    if (!mx)
        for (int l = -1; l <= 1; ++l)
        {
            T s = comp<T> (l, 0);
            run<T, M> (tl, dsite<T, T> ("Matrix22", "setScale(T)"), false, [&] (M& m) { m.setScale (s); }, [&] () { return "setScale(" + vf::fmt (s) + ")"; });
        }
    for (int i = 0; i < 9; ++i)
    {
        int l[2];
        ex::decode ((uint64_t) i, 3, 2, l, -1);
        Vec2<S> v (comp<S> (l[0], 0), comp<S> (l[1], 1));
        run<T, M> (tl, dsite<T, S> ("Matrix22", "setScale(Vec2)"), mx, [&] (M& m) { m.setScale (v); }, [&] () { return "setScale((" + vf::fmt (v.x) + "," + vf::fmt (v.y) + "))"; });
    }
    // setValue / setTheMatrix from a generic matrix
    {
        Matrix22<S> src;
        for (int i = 0; i < 2; ++i) for (int j = 0; j < 2; ++j) src.x[i][j] = (S) (ex::PRIMES[20 + i * 2 + j] / (S) 4);
        run<T, M> (tl, dsite<T, S> ("Matrix22", "setValue"), mx, [&] (M& m) { m.setValue (src); }, [] () { return std::string ("setValue(generic)"); });
        run<T, M> (tl, dsite<T, S> ("Matrix22", "setTheMatrix"), mx, [&] (M& m) { m.setTheMatrix (src); }, [] () { return std::string ("setTheMatrix(generic)"); });
    }
}

template <class T, class S> void builders33 (Tally& tl)
{
    typedef Matrix33<T> M;
    const bool mx = !std::is_same<T, S>::value;
    const auto angs = angle_set<S> ();
    if (!mx) run<T, M> (tl, dsite<T, T> ("Matrix33", "makeIdentity"), false, [] (M& m) { m.makeIdentity (); }, [] () { return std::string ("makeIdentity()"); });
    for (auto& g : angs) run<T, M> (tl, dsite<T, S> ("Matrix33", "setRotation"), mx, [&] (M& m) { m.setRotation (g.a); }, [&] () { return "setRotation(" + g.name + ")"; });
    for (int l = -1; l <= 1; ++l)
    {
        if (!mx)
        {
            T s = comp<T> (l, 0);
            run<T, M> (tl, dsite<T, T> ("Matrix33", "setScale(T)"), false, [&] (M& m) { m.setScale (s); }, [&] () { return "setScale(" + vf::fmt (s) + ")"; });
        }
        S h = comp<S> (l, 1);
        run<T, M> (tl, dsite<T, S> ("Matrix33", "setShear(S)"), mx, [&] (M& m) { m.setShear (h); }, [&] () { return "setShear(" + vf::fmt (h) + ")"; });
    }
    for (int i = 0; i < 9; ++i)
    {
        int l[2];
        ex::decode ((uint64_t) i, 3, 2, l, -1);
        Vec2<S> v (comp<S> (l[0], 0), comp<S> (l[1], 1));
        auto vs = [&] () { return "((" + vf::fmt (v.x) + "," + vf::fmt (v.y) + "))"; };
        run<T, M> (tl, dsite<T, S> ("Matrix33", "setScale(Vec2)"), mx, [&] (M& m) { m.setScale (v); }, [&] () { return "setScale" + vs (); });
        run<T, M> (tl, dsite<T, S> ("Matrix33", "setTranslation"), mx, [&] (M& m) { m.setTranslation (v); }, [&] () { return "setTranslation" + vs (); });
        run<T, M> (tl, dsite<T, S> ("Matrix33", "setShear(Vec2)"), mx, [&] (M& m) { m.setShear (v); }, [&] () { return "setShear" + vs (); });
    }
    {
        Matrix33<S> src;
        for (int i = 0; i < 3; ++i) for (int j = 0; j < 3; ++j) src.x[i][j] = (S) (ex::PRIMES[20 + i * 3 + j] / (S) 4);
        run<T, M> (tl, dsite<T, S> ("Matrix33", "setValue"), mx, [&] (M& m) { m.setValue (src); }, [] () { return std::string ("setValue(generic)"); });
        run<T, M> (tl, dsite<T, S> ("Matrix33", "setTheMatrix"), mx, [&] (M& m) { m.setTheMatrix (src); }, [] () { return std::string ("setTheMatrix(generic)"); });
    }
}

template <class T, class S> void builders44 (Tally& tl)
{
    typedef Matrix44<T> M;
    const bool mx = !std::is_same<T, S>::value;
    if (!mx) run<T, M> (tl, dsite<T, T> ("Matrix44", "makeIdentity"), false, [] (M& m) { m.makeIdentity (); }, [] () { return std::string ("makeIdentity()"); });
    if (!mx)
        for (int l = -1; l <= 1; ++l)
        {
            T s = comp<T> (l, 0);
            run<T, M> (tl, dsite<T, T> ("Matrix44", "setScale(T)"), false, [&] (M& m) { m.setScale (s); }, [&] () { return "setScale(" + vf::fmt (s) + ")"; });
        }
    for (int i = 0; i < 27; ++i)
    {
        int l[3];
        ex::decode ((uint64_t) i, 3, 3, l, -1);
        Vec3<S> v (comp<S> (l[0], 0), comp<S> (l[1], 1), comp<S> (l[2], 2));
        auto vs = [&] () { return "(" + v3 (v) + ")"; };
        run<T, M> (tl, dsite<T, S> ("Matrix44", "setScale(Vec3)"), mx, [&] (M& m) { m.setScale (v); }, [&] () { return "setScale" + vs (); });
        run<T, M> (tl, dsite<T, S> ("Matrix44", "setTranslation"), mx, [&] (M& m) { m.setTranslation (v); }, [&] () { return "setTranslation" + vs (); });
        run<T, M> (tl, dsite<T, S> ("Matrix44", "setShear(Vec3)"), mx, [&] (M& m) { m.setShear (v); }, [&] () { return "setShear" + vs (); });
    }
    for (int i = 0; i < 729; ++i)
    {
        int l[6];
        ex::decode ((uint64_t) i, 3, 6, l, -1);
        Shear6<S> h (comp<S> (l[0], 0), comp<S> (l[1], 1), comp<S> (l[2], 2), comp<S> (l[3], 3), comp<S> (l[4], 4), comp<S> (l[5], 5));
        run<T, M> (tl, dsite<T, S> ("Matrix44", "setShear(Shear6)"), mx, [&] (M& m) { m.setShear (h); },
                   [&] () { return "setShear(Shear6(" + vf::fmt (h.xy) + "," + vf::fmt (h.xz) + "," + vf::fmt (h.yz) + "," + vf::fmt (h.yx) + "," + vf::fmt (h.zx) + "," + vf::fmt (h.zy) + "))"; });
    }
    {
        Matrix44<S> src;
        for (int i = 0; i < 4; ++i) for (int j = 0; j < 4; ++j) src.x[i][j] = (S) (ex::PRIMES[20 + i * 4 + j] / (S) 4);
        run<T, M> (tl, dsite<T, S> ("Matrix44", "setValue"), mx, [&] (M& m) { m.setValue (src); }, [] () { return std::string ("setValue(generic)"); });
        run<T, M> (tl, dsite<T, S> ("Matrix44", "setTheMatrix"), mx, [&] (M& m) { m.setTheMatrix (src); }, [] () { return std::string ("setTheMatrix(generic)"); });
    }
    // rotation builders: 127 angles x (26 lattice axes + generic / non-unit / zero axis); Euler triples over (k*pi/12)^3, |k| <= 12
    // step 3, plus the tiny family on one slot
    const auto angs = angle_set<S> ();
    std::vector<Vec3<S>> axes;
    for (int i = 0; i < 27; ++i)
    {
        int a[3];
        ex::decode ((uint64_t) i, 3, 3, a, -1);
        axes.push_back (Vec3<S> ((S) a[0], (S) a[1], (S) a[2])); // the zero axis included: whatever it gives, it must not depend on the object
    }
    axes.push_back (Vec3<S> ((S) 2, (S) 3, (S) 5));
    axes.push_back (Vec3<S> ((S) -7, (S) 11, (S) -13));
    axes.push_back (Vec3<S> ((S) 0.125, (S) 0, (S) -0.375));
    for (auto& ax : axes)
        for (auto& g : angs)
        {
            ++tl.rot_builders;
            run<T, M> (tl, dsite<T, S> ("Matrix44", "setAxisAngle"), mx, [&] (M& m) { m.setAxisAngle (ax, g.a); }, [&] () { return "setAxisAngle(" + v3 (ax) + ", " + g.name + ")"; });
        }
    std::vector<const Ang<S>*> sel;
    for (auto& g : angs)
        if ((!g.tiny && g.k % 3 == 0 && g.k >= -12 && g.k <= 12) || (g.tiny && (g.name.find ("1e-1=") != std::string::npos || g.name.find ("1e-8=") != std::string::npos || g.name.find ("1e-15=") != std::string::npos)))
            sel.push_back (&g);
    for (auto* gx : sel)
        for (auto* gy : sel)
            for (auto* gz : sel)
            {
                ++tl.rot_builders;
                Vec3<S> r (gx->a, gy->a, gz->a);
                run<T, M> (tl, dsite<T, S> ("Matrix44", "setEulerAngles"), mx, [&] (M& m) { m.setEulerAngles (r); }, [&] () { return "setEulerAngles((" + gx->name + ", " + gy->name + ", " + gz->name + "))"; });
            }
}

// alignZAxisWithTargetDir writes its result into the caller's matrix: all lattice (target, up) pairs, zero and parallel included
template <class T> void frame_builder (Tally& tl)
{
    typedef Matrix44<T> M;
    for (int ti = 0; ti < 27; ++ti)
        for (int ui = 0; ui < 27; ++ui)
        {
            int t[3], u[3];
            ex::decode ((uint64_t) ti, 3, 3, t, -1);
            ex::decode ((uint64_t) ui, 3, 3, u, -1);
            Vec3<T> tv ((T) t[0], (T) t[1], (T) t[2]), uv ((T) u[0], (T) u[1], (T) u[2]);
            ++tl.frame_builder;
            run<T, M> (tl, site<T> ("alignZAxisWithTargetDir", "result-depends-on-previous-contents"), false, [&] (M& m) { alignZAxisWithTargetDir (m, tv, uv); },
                       [&] () { return "alignZAxisWithTargetDir(result, " + i3 (t) + ", " + i3 (u) + ")"; });
        }
}

} // namespace

void run_dirty ()
{
    if (!R ().stage ("set-on-dirty-object")) return;
    Tally tl;
    builders22<float, float> (tl);  builders22<double, double> (tl);  builders22<float, double> (tl);  builders22<double, float> (tl);
    builders33<float, float> (tl);  builders33<double, double> (tl);  builders33<float, double> (tl);  builders33<double, float> (tl);
    builders44<float, float> (tl);  builders44<double, double> (tl);  builders44<float, double> (tl);  builders44<double, float> (tl);
    frame_builder<float> (tl);  frame_builder<double> (tl);
    R ().add ("states", tl.states); R ().add ("transitions", tl.trans); R ().add ("evaluations", tl.states);
    R ().cls ("dirty-object.previous-contents-distinct-primes", tl.fill[0]);
    R ().cls ("dirty-object.previous-contents-sign-flipped-transposed-primes", tl.fill[1]);
    R ().cls ("dirty-object.previous-contents-NaN", tl.fill[2]);
    R ().cls ("dirty-object.argument-base-type-differs-from-matrix", tl.mixed);
    R ().cls ("dirty-object.Matrix22", tl.size[0]);
    R ().cls ("dirty-object.Matrix33", tl.size[1]);
    R ().cls ("dirty-object.Matrix44", tl.size[2]);
    R ().cls ("dirty-object.rotation-builders(setAxisAngle,setEulerAngles)", tl.rot_builders);
    R ().cls ("dirty-object.alignZAxisWithTargetDir-result-argument", tl.frame_builder);
    R ().sample ("Matrix44 m = [every slot a distinct prime]; m.setAxisAngle((1,-1,0), 5*pi/12) must be bitwise the matrix Matrix44().setAxisAngle(...) gives (a surviving translation row m[3][0..2] shows here)");
    R ().sample ("Matrix44 m = [every slot NaN]; m.setEulerAngles((pi/4,0,-pi/2)): fourth row and column must be (0,0,0,1), not NaN");
    R ().stage_done ("every set* builder of Matrix22/33/44 (makeIdentity, setRotation x 127 angles, setScale(T) / (Vec) / setTranslation / setShear(S) / (Vec) over {-p,0,p/8}^n, setShear(Shear6) x 3^6, "
                     "setValue, setTheMatrix, setAxisAngle x 30 axes x 127 angles, setEulerAngles x 15^3 angle triples) and alignZAxisWithTargetDir x 27^2 direction pairs, each on a fresh object and on objects "
                     "pre-filled with primes / sign-flipped transposed primes / NaN in every slot: bitwise equal results; T, S in {float,double}^2");
}

} // namespace c09
