// C04 — aggregates are component-wise. Driver, input alphabets (kept out of the template TUs so that no
// operand is a compile-time constant where the operators are applied) and the oracle self-check.
// See c04.hpp for the machinery and the oracle.
#include "c04.hpp"

namespace c04 {

thread_local sigjmp_buf* g_trap = nullptr;
static void on_sigfpe (int sig)
{
    if (g_trap) siglongjmp (*g_trap, 1); // synchronous trap raised by this thread inside a guarded operator call
    signal (sig, SIG_DFL);
    raise (sig);
}

// ---------------------------------------------------------------------------------------------
// alphabets
// ---------------------------------------------------------------------------------------------
static half hbits (uint16_t b) { half h; h.setBits (b); return h; }

template <class T> static std::vector<T> make_B_float ()
{
    typedef std::numeric_limits<T> L;
    T one = T (1);
    return {T (0), -T (0), L::denorm_min (), -L::denorm_min (), L::min (), -L::min (), one, -one,
            std::nextafter (one, T (0)), std::nextafter (one, T (2)), L::max (), -L::max (), L::infinity (), -L::infinity (), L::quiet_NaN ()};
}
template <class T> static std::vector<T> make_B_int ()
{
    typedef std::numeric_limits<T> L;
    if (!std::is_signed<T>::value) return {T (0), T (1), T (2), T (L::max () / 2), T (L::max () / 2 + 1), T (L::max () - 1), L::max ()};
    return {T (0), T (1), T (-1), T (2), T (-2), L::min (), T (L::min () + 1), T (L::max () - 1), L::max ()};
}
template <class T> struct AlphaDef
{
    static std::vector<T> B () { return make_B_int<T> (); }
    static std::vector<T> S ()
    {
        typedef std::numeric_limits<T> L;
        if (!std::is_signed<T>::value) return {T (0), T (1), T (2), T (L::max () / 2 + 1), L::max ()};
        return {T (0), T (1), T (-1), L::min (), L::max ()};
    }
};
template <> struct AlphaDef<float>
{
    static std::vector<float> B () { return make_B_float<float> (); }
    static std::vector<float> S () { return {0.0f, -0.0f, 1.0f, std::numeric_limits<float>::infinity (), std::numeric_limits<float>::quiet_NaN ()}; }
};
template <> struct AlphaDef<double>
{
    static std::vector<double> B () { return make_B_float<double> (); }
    static std::vector<double> S () { return {0.0, -0.0, 1.0, std::numeric_limits<double>::infinity (), std::numeric_limits<double>::quiet_NaN ()}; }
};
template <> struct AlphaDef<half>
{
    // +-0, +-denorm_min, +-min, +-1, 1-ulp, 1+ulp, +-max, +-inf, quiet NaN
    static std::vector<half> B ()
    {
        return {hbits (0x0000), hbits (0x8000), hbits (0x0001), hbits (0x8001), hbits (0x0400), hbits (0x8400), hbits (0x3c00), hbits (0xbc00),
                hbits (0x3bff), hbits (0x3c01), hbits (0x7bff), hbits (0xfbff), hbits (0x7c00), hbits (0xfc00), hbits (0x7e00)};
    }
    static std::vector<half> S () { return {hbits (0x0000), hbits (0x8000), hbits (0x3c00), hbits (0x7c00), hbits (0x7e00)}; }
};
template <class T> const std::vector<T>& alphaB ()
{
    static const std::vector<T> v = AlphaDef<T>::B ();
    return v;
}
template <class T> const std::vector<T>& alphaS ()
{
    static const std::vector<T> v = AlphaDef<T>::S ();
    return v;
}

// generic tuples.
//  g = 0: a_i = p_i,        b_i = p_{n+i}                 (distinct primes)
//  g = 1: a_i = -p_{n+i},   b_i = p_i                     (negated / for unsigned char: wrapped)
//  g = 2: floating: a_i = p_i / 8, b_i = -p_{n+i} / 32    (dyadic fractions)
//         integral: a_i = large, b_i = small prime        (distinct non-zero integer quotients)
template <class T, bool F = is_flt<T>::value> struct Gen
{
    static T big (int i)
    {
        static const int big_u8[4] = {251, 199, 157, 113}, big_any[4] = {30011, 20011, 10007, 5003};
        return T (sizeof (T) == 1 ? big_u8[i] : big_any[i]);
    }
    static void tuple (int g, int n, T* a, T* b)
    {
        if (n > 4) abort ();
        for (int i = 0; i < n; ++i)
        {
            int p = ex::PRIMES[i], q = ex::PRIMES[n + i];
            if (g == 0) { a[i] = T (p); b[i] = T (q); }
            else if (g == 1) { a[i] = T (-q); b[i] = T (p); }
            else { a[i] = big (i); b[i] = T (p); }
        }
    }
    static T scalar (int g, int n) { return g == 0 ? T (ex::PRIMES[2 * n]) : g == 1 ? T (-ex::PRIMES[2 * n + 1]) : T (3); }
};
template <class T> struct Gen<T, true>
{
    static void tuple (int g, int n, T* a, T* b)
    {
        if (2 * n + 2 > (int) (sizeof ex::PRIMES / sizeof ex::PRIMES[0])) abort ();
        for (int i = 0; i < n; ++i)
        {
            float p = (float) ex::PRIMES[i], q = (float) ex::PRIMES[n + i];
            if (g == 0) { a[i] = T (p); b[i] = T (q); }
            else if (g == 1) { a[i] = T (-q); b[i] = T (p); }
            else { a[i] = T (p / 8); b[i] = T (-q / 32); }
        }
    }
    static T scalar (int g, int n)
    {
        float p = (float) ex::PRIMES[2 * n], q = (float) ex::PRIMES[2 * n + 1];
        return g == 0 ? T (p) : g == 1 ? T (-q) : T (p / 16);
    }
};
template <class T> void generic_tuple (int g, int n, T* a, T* b) { Gen<T>::tuple (g, n, a, b); }
template <class T> T    generic_scalar (int g, int n) { return Gen<T>::scalar (g, n); }

// source values for element-type conversions (filtered per destination type by conv_ok)
template <class S, bool F = is_flt<S>::value> struct ConvSrc
{
    static std::vector<S> make ()
    {
        std::vector<S>  out;
        const long long c[] = {0, 1, -1, 2, -2, 3, -7, 127, 128, -128, -129, 255, 256, 257, 2047, 2048, 2049, 4097, 32767, 32768, -32768, -32769, 65504, 65519, 65520,
                               65535, 65536, 16777216LL, 16777217LL, -16777217LL, 2147483647LL, -2147483647LL - 1, 2147483648LL, 4294967295LL, 4294967296LL + 5,
                               9007199254740993LL, -9007199254740993LL, 9223372036854775807LL, -9223372036854775807LL - 1};
        for (long long v : c)
            if (v >= (long long) std::numeric_limits<S>::min () && v <= (long long) std::numeric_limits<S>::max ()) out.push_back (S (v));
        return out;
    }
};
static void from_double (double v, float& o) { o = (float) v; }
static void from_double (double v, double& o) { o = v; }
static void from_double (double v, half& o) { o = half ((float) v); }
template <class S> struct ConvSrc<S, true>
{
    static std::vector<S> make ()
    {
        std::vector<S> out = alphaB<S> ();
        const double   c[] = {1.5, -1.5, 2.75, -2.75, 0.5, -0.5, 0.999, -0.999, 7, -7, 127.5, 128, -128.5, -129, 255.5, 255.999, 256, 2047, 2049, 4097,
                              32767.9, 32768, -32768.9, -32769, 65504, 65519.996, 65520, 1e6, -1e6, 1e-8, -1e-8, 5.9e-8, 6.1e-5, 16777217.0, 2147483647.0, 2147483648.0,
                              -2147483648.0, -2147483904.0, 4294967296.0, 9.2e18, 9223372036854775808.0, -9223372036854775808.0, 1e20, 3.4e38, 3.5e38, 1e300, -1e300, 1e-300,
                              0.1, 1.0 / 3};
        for (double v : c)
        {
            if (!std::is_same<S, double>::value && std::fabs (v) > 3.4e38) continue; // would not be a valid source literal for this S
            if (std::is_same<S, half>::value && std::fabs (v) >= 65520) continue;
            S s;
            from_double (v, s);
            out.push_back (s);
        }
        return out;
    }
};
template <class S> const std::vector<S>& conv_sources ()
{
    static const std::vector<S> v = ConvSrc<S>::make ();
    return v;
}

#define C04_INST(T)                                                                                \
    template const std::vector<T>& alphaB<T> ();                                                   \
    template const std::vector<T>& alphaS<T> ();                                                   \
    template void                  generic_tuple<T> (int, int, T*, T*);                            \
    template T                     generic_scalar<T> (int, int);                                   \
    template const std::vector<T>& conv_sources<T> ();
C04_ALL_ELEMS (C04_INST)
#undef C04_INST

// ---------------------------------------------------------------------------------------------
// oracle self-check: the generic tuples really discriminate every wrong pairing of slots.
// For each operator, each result slot k and each wrong pair (i,j) != (k,k) there is a generic tuple
// on which  op(a_i, b_j)  differs (bitwise) from  op(a_k, b_k); same for aggregate-scalar operators.
// ---------------------------------------------------------------------------------------------
template <class T> static void selfcheck (int n, long long& checks)
{
    std::vector<T> a (NGENERIC * n), b (NGENERIC * n);
    for (int g = 0; g < NGENERIC; ++g) generic_tuple<T> (g, n, &a[g * n], &b[g * n]);
    const Op2<T> ops[4] = {Orc<T>::o_add (), Orc<T>::o_sub (), Orc<T>::o_mul (), Orc<T>::o_div ()};
    const char*  nm[4]  = {"+", "-", "*", "/"};
    for (int o = 0; o < 4; ++o)
        for (int k = 0; k < n; ++k)
        {
            for (int i = 0; i < n; ++i)
                for (int j = 0; j < n; ++j)
                {
                    if (i == k && j == k) continue;
                    bool seen = false;
                    for (int g = 0; g < NGENERIC && !seen; ++g)
                    {
                        T ai = a[g * n + i], bj = b[g * n + j], ak = a[g * n + k], bk = b[g * n + k];
                        if (!ops[o].ok (ai, bj) || !ops[o].ok (ak, bk)) continue;
                        seen = !el_same (ops[o].eval (ai, bj), ops[o].eval (ak, bk));
                    }
                    ++checks;
                    if (!seen)
                        R ().fail ("oracle.selfcheck.generic-tuples-discriminate", std::string ("T=") + ElName<T>::s () + " N=" + std::to_string (n) + " op " + nm[o] +
                                                                                          " slot " + std::to_string (k) + " vs (a" + std::to_string (i) + ",b" + std::to_string (j) + ")");
                }
            for (int i = 0; i < n; ++i)
            {   // aggregate (op) scalar and scalar * aggregate
                if (i == k) continue;
                bool seen = false;
                for (int g = 0; g < NGENERIC && !seen; ++g)
                {
                    T s = generic_scalar<T> (g, n), ai = a[g * n + i], ak = a[g * n + k];
                    if (!ops[o].ok (ai, s) || !ops[o].ok (ak, s)) continue;
                    seen = !el_same (ops[o].eval (ai, s), ops[o].eval (ak, s));
                }
                ++checks;
                if (!seen)
                    R ().fail ("oracle.selfcheck.generic-tuples-discriminate", std::string ("T=") + ElName<T>::s () + " N=" + std::to_string (n) + " op " + nm[o] +
                                                                                      " scalar, slot " + std::to_string (k) + " vs a" + std::to_string (i));
            }
        }
    // all components of a generic tuple are distinct (unary operators, accessors, conversions, printing)
    for (int g = 0; g < NGENERIC; ++g)
        for (int i = 0; i < n; ++i)
            for (int j = 0; j < n; ++j)
            {
                ++checks;
                if ((i != j && el_same (a[g * n + i], a[g * n + j])) || el_same (a[g * n + i], b[g * n + j]))
                    R ().fail ("oracle.selfcheck.generic-tuples-distinct", std::string ("T=") + ElName<T>::s () + " N=" + std::to_string (n) + " g=" + std::to_string (g));
            }
}

} // namespace c04

using namespace c04;

void c04_alias_stage ();
void c04_consteval_stage ();
void c04_interop_traits_stage ();

int main (int argc, char** argv)
{
    R ().property = "C04";
    R ().parse (argc, argv);
    R ().assume ("x86-64 SSE2 arithmetic without excess precision or contraction (-O2, ISO mode): a scalar operation of type T has one result");
    R ().assume ("element types are those the headers provide typedefs for: Vec2/3/4 {short,int,int64_t,half,float,double}, Color3/4 {half,float,unsigned char}, Shear6/Quat/Matrix22/33/44 {float,double}");
    R ().assume ("integer operand combinations whose scalar operation is undefined in C++ (signed overflow, division by zero, MIN/-1) are excluded; narrowing to short / unsigned char is modular (GCC)");
    R ().assume ("float -> narrower float conversions follow IEC 60559 (overflow gives infinity)");

    struct sigaction sa;
    memset (&sa, 0, sizeof sa);
    sa.sa_handler = on_sigfpe;
    sa.sa_flags   = SA_NODEFER; // the handler leaves by siglongjmp; SIGFPE must stay deliverable
    sigaction (SIGFPE, &sa, nullptr);

    Jobs jobs;
    register_m44 (jobs); register_m22m33 (jobs); register_shearquat (jobs);
    register_vec2i (jobs); register_vec2f (jobs); register_vec3i (jobs); register_vec3f (jobs); register_vec4i (jobs); register_vec4f (jobs);
    register_color3 (jobs); register_color4 (jobs);
    register_conv_vec2 (jobs); register_conv_vec3 (jobs); register_conv_vec4 (jobs); register_conv_misc (jobs);
    register_stream (jobs);

    if (R ().stage ("oracle-selfcheck"))
    {
        long long checks = 0;
        for (int n : {2, 3, 4}) { selfcheck<short> (n, checks); selfcheck<int> (n, checks); selfcheck<int64_t> (n, checks); selfcheck<half> (n, checks); }
        for (int n : {3, 4}) selfcheck<uchar> (n, checks);
        for (int n : {2, 3, 4, 6, 9, 16}) { selfcheck<float> (n, checks); selfcheck<double> (n, checks); }
        R ().add ("oracle_selfcheck_cases", checks);
        R ().stage_done ("every wrong (i,j) slot pairing of every operator is distinguished by a generic tuple, for every (element type, slot count) used");
    }

    auto run_stage = [&] (const char* st, const std::vector<int>& classes, const std::string& bound) {
        if (!R ().stage (st)) return;
        for (int k : classes) R ().cls (cls_name (k), 0);
        std::vector<const Job*> sel;
        for (const Job& j : jobs)
            if (std::string (j.stage) == st) sel.push_back (&j);
        bool complete = vf::parallel_chunks (sel.size (), 1, [&] (uint64_t lo, uint64_t hi, unsigned) {
            for (uint64_t i = lo; i < hi; ++i) sel[i]->fn ();
        });
        if (complete) R ().stage_done (bound + " (" + std::to_string (sel.size ()) + " jobs)");
        else R ().stage_partial ("deadline reached before all " + std::to_string (sel.size ()) + " jobs ran");
    };

    const bool th = R ().thorough ();
    run_stage (ST_ARITH,
               th ? std::vector<int>{K_GENERIC, K_SINGLE, K_PAIR, K_ALLSLOTS, K_NAN, K_INF, K_NEGZERO, K_DENORM, K_EXTREME, K_WRAP, K_FDIV0}
                  : std::vector<int>{K_GENERIC, K_SINGLE, K_PAIR, K_NAN, K_INF, K_NEGZERO, K_DENORM, K_EXTREME, K_WRAP, K_FDIV0},
               th ? "every (class template, element type, operator, spelling) x {3 generic tuples; each slot x B(T)^2; each slot pair x B(T)^4; N<=4: all slots x S(T)^2N}"
                  : "every (class template, element type, operator, spelling) x {3 generic tuples; each slot x B(T)^2; each slot pair x S(T)^4}");
    run_stage (ST_EQ, std::vector<int>{K_EQ_ULP, K_EQ_SIGNEDZERO, K_EQ_NAN, K_EQ_HETERO, K_EQ_HETERO_UNREP, K_APX_AT, K_APX_ABOVE, K_APX_BELOW, K_APX_TWO,
                                       K_APX_FRACTIONAL, K_APX_NEGTOL, K_APX_NAN, K_APX_INF},
               "==, != (same and mixed element types, incl. one component not representable in the other element type), equalWithAbsError/RelError: each slot perturbed alone by 1 ulp / "
               "to threshold-1ulp, threshold, threshold+1ulp on 3 generic tuples (primes, negated primes, dyadic fractions); negative tolerance; NaN / +-inf in one slot of one or both operands; "
               "each slot x B(T)^2");
    run_stage (ST_LAYOUT, std::vector<int>{K_LAY_ADDR, K_LAY_RW, K_CONV_NARROW, K_CONV_TRUNC, K_CONV_WIDEN, K_CONV_SPECIAL, K_IOP_NAMED, K_IOP_SUBSCRIPT, K_IOP_CARRAY, K_IOP_DSUB,
                                           K_IOP_BOTH, K_IOP_SUBREF},
               "sizeof, member/operator[]/getValue address identities, read/write through every accessor, N-ary/copy/broadcast constructors, every ordered pair of element types x "
               "{generic; each slot x every admissible source value}, foreign named-member / subscript / C-array / double-subscript types");
    run_stage (ST_STREAM, std::vector<int>{K_STR_DEFAULT, K_STR_FIXED, K_STR_PREC3, K_STR_SCI, K_STR_SHOWPOS, K_STR_LEFT, K_STR_RIGHT, K_STR_UPPER, K_STR_HEXFLOAT, K_STR_HEXINT,
                                           K_STR_OCTINT, K_STR_SHOWBASE, K_STR_NEGZERO, K_STR_INF, K_STR_NAN, K_STR_DENORM},
               "operator<< of every (class template, non-character element type), tokenised: 5 stream states x 5 generic tuples x 4 magnitudes; the flag product {6 floatfield/precision "
               "states | dec,hex,oct x showbase} x {unset,left,right} x showpos x uppercase (72 states) x 2 generic tuples x 3 magnitudes; every slot x {-0, +-inf, NaN, +-denorm_min} under all "
               "76 states (fill ' ', no std::internal, no caller setw)");
    c04_alias_stage ();
    c04_consteval_stage ();
    c04_interop_traits_stage ();

    R ().sample ("Vec4<int> a=[2 3 5 7] b=[11 13 17 19]: a/b, a/=b compared slot by slot with int division");
    R ().sample ("Color4<half> a=[2 3 5 NaN] s=-0: a*s, a*=s, s*a compared with half(float(a_i)*float(s))");
    R ().sample ("Matrix33<double> slot x[2][1]=inf, s=0: m*s -> NaN only in that slot");
    R ().sample ("Shear6<float> (2 3 5 7 11 13) printed under std::fixed: 6 tokens expected");
    return R ().finish ();
}
