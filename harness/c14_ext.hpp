// C14 — extreme power-of-two alphabet: direction components in {0, +-denorm_min, +-min, +-2^-100, +-1, +-2^100, +-max};
// boxes and origins c*s with small integers c and one common power-of-two scale s per case. long double oracle
// (exact on this alphabet, see c14.hpp).
#pragma once
#include "c14.hpp"
#include "c14_lat.hpp"

namespace c14 {

template <class T> bool run_extreme (bool thorough)
{
    typedef std::numeric_limits<T> L;
    const long double dv[7] = {0, (long double) L::denorm_min (), (long double) L::min (), ldexpl (1, -100), 1, ldexpl (1, 100), (long double) L::max ()};
    std::vector<long double> D; // 13 direction components
    for (int i = 0; i < 7; ++i) { D.push_back (dv[i]); if (i) D.push_back (-dv[i]); }
    const long double S[5] = {(long double) L::min (), ldexpl (1, -100), 1, ldexpl (1, 100), ldexpl (1, L::max_exponent - 5)};
    // per-axis (min,max) multiples of s: quick (0,1) (1,1)flat (0,2) (1,0)inverted; thorough every pair over {0,1,2}
    std::vector<std::pair<int, int>> AX;
    if (thorough) { for (int a = 0; a < 3; ++a) for (int b = 0; b < 3; ++b) AX.push_back ({a, b}); }
    else AX = {{0, 1}, {1, 1}, {0, 2}, {1, 0}};
    std::vector<int> OC = thorough ? std::vector<int>{-1, 0, 1, 2, 3} : std::vector<int>{-1, 0, 1, 3};
    const uint64_t NA = AX.size (), NB = NA * NA * NA, NO = ex::ipow (OC.size (), 3), ND = ex::ipow (D.size (), 3);
    Tally total; std::mutex mu;
    bool ok = vf::parallel_chunks (5 * NB, 1, [&] (uint64_t lo, uint64_t hi, unsigned) {
        Tally tl;
        for (uint64_t k = lo; k < hi; ++k)
        {
            const long double s = S[k / NB];
            uint64_t x = k % NB;
            long double mn[3], mx[3];
            for (int i = 0; i < 3; ++i) { auto& a = AX[x % NA]; x /= NA; mn[i] = a.first * s; mx[i] = a.second * s; }
            for (uint64_t oi = 0; oi < NO; ++oi)
            {
                int oc[3]; ex::decode (oi, (unsigned) OC.size (), 3, oc);
                long double p[3] = {OC[oc[0]] * s, OC[oc[1]] * s, OC[oc[2]] * s};
                for (uint64_t di = 0; di < ND; ++di)
                {
                    int dc[3]; ex::decode (di, (unsigned) D.size (), 3, dc);
                    if (!dc[0] && !dc[1] && !dc[2]) continue;
                    long double d[3] = {D[dc[0]], D[dc[1]], D[dc[2]]};
                    one_case<T, long double> (mn, mx, p, d, tl);
                }
            }
        }
        std::lock_guard<std::mutex> g (mu); total += tl;
    });
    publish (total, "extreme.");
    vf::R ().add ("extreme_cases_outside_domain(t underflows)", total.excluded);
    vf::R ().cls ("extreme.t-underflows-on-non-binding-axis(judged)", total.nbu);
    vf::R ().cls ("extreme.t-underflows.exact-hit(one-sided truth check)", total.uhit);
    vf::R ().cls ("extreme.t-underflows.exact-hit.reported-points-judged", total.upts);
    vf::R ().cls ("extreme.t-underflows.first-contact-parameter-rounds-to-zero(origin outside)", total.uzero);
    vf::R ().cls ("extreme.some-t-exceeds-max(overflow guard regime)", total.overflow);
    vf::R ().cls ("extreme.every-t-exceeds-max", total.alloverflow);
    vf::R ().cls ("extreme.overflow-regime.judged-against-documented-fallback", total.fb_judged);
    vf::R ().add ("extreme_overflow_cases_outside_fallback_model_domain(sub-ulp difference of parameters)", total.fb_excluded);
    vf::R ().note_max (std::string ("worst extreme-alphabet point error / (eps*M + denorm_min), ") + tname<T> (), total.worst);
    return ok;
}

} // namespace c14
