// C17 — shared declarations of the stage families (one TU each, see c17.cpp for the driver).
#pragma once
#include "../engine/exact.hpp"
#include "../engine/report.hpp"
#include <ImathNamespace.h>

namespace IM = IMATH_NAMESPACE;

void c17_scalar_stages (); // c17_scalar.cpp : abs sign cmp cmpt iszero equal clamp lerp ulerp lerpfactor equalWith*Error sinx_over_x
void c17_roots_stages ();  // c17_roots.cpp  : solveLinear/Quadratic/NormalizedCubic/Cubic
void c17_color_stages ();  // c17_color.cpp  : rgb2hsv hsv2rgb rgb2packed packed2rgb

// c17_ub.cpp (the only TU built with -fsanitize=signed-integer-overflow,integer-divide-by-zero; see there)
namespace c17ub {
enum { ADD = 1, SUB = 2, MUL = 4, NEG = 8, DIVREM = 16 };
unsigned take ();                        // returns and clears the kinds of signed overflow seen on this thread since the last take()
int      call (int which, int x, int y); // 0 divs, 1 mods, 2 divp, 3 modp — the instrumented library code
int      probe (int kind, int a, int b); // 0 a+b, 1 a-b, 2 a*b, 3 -a, 4 a/b — instrumentation self-check
} // namespace c17ub

namespace c17 {
inline std::string hx32 (uint32_t v) { char b[16]; snprintf (b, sizeof b, "0x%08x", v); return b; }
inline std::string hx64 (uint64_t v) { char b[24]; snprintf (b, sizeof b, "0x%016llx", (unsigned long long) v); return b; }
} // namespace c17
