// C10, stage "slerp": slerp, slerpShortestArc, squad, spline (keys and tangent continuity).
//
// Enumerated: q1, q2 over the binary tetrahedral group (24) and the normalised lattice quaternions of L(1)^4 \ 0
// (80; thorough: L(2)^4 \ 0, 624), all ordered pairs except q2 == -q1 exactly (excluded by slerp's documentation);
// the nearly antipodal family q2 = normalised(-q1 + 10^-j e), j = 1..15; t in {-1/4, 0, 1/8, ..., 1, 5/4}.
// Keys for squad/spline: all 4-tuples of the group (keys at t = 0, 1), and all 5-tuples over a 10-element key set
// for the tangent-continuity check.
// Added (audit2 S1): the nearly EQUAL family q2 = normalised(q1 + 10^-j e), j = 1..15 (4-D angles from 0.1 down to
// below one ulp, i.e. on both sides of sinx_over_x's switch at x^2 < eps), and the small parameters
// t, 1-t in {2^-30, 2^-20, 2^-12, 2^-8} on every pair, so that t*a and (1-t)*a straddle sqrt(eps) for generic a as well;
// sites carry the suffixes ".nearly-equal" / ".tiny-t". Same reference, same tolerances (kappa = 1 for a <= pi/2).
// Added (audit2 S5): squad and spline at interior t against their documentation: squad(q1,qa,qb,q2,t) =
// slerp(slerp(q1,q2,t), slerp(qa,qb,t), 2t(1-t)), spline(q0..q3,t) = squad(q1, intermediate(q0,q1,q2), intermediate(q1,q2,q3), q2, t),
// intermediate(q0,q1,q2) = q1 exp(-(log(q1^-1 q2) + log(q1^-1 q0))/4), all evaluated in long double (function interior()).
//
// Reference (long double, from the definition): a = angle between q1 and q2 as 4-D vectors,
//   slerp(q1,q2,t) = ( sin((1-t)a) q1 + sin(t a) q2 ) / sin a , normalised.
// Conditioning: for a > pi/2 the two weights are O(1/sin a) and cancel, so the result inherits an error
// kappa = 1/sin a times the rounding of the weights (this is why slerp excludes q2 = -q1); kappa = 1 for a <= pi/2.
// Tolerances, a priori: the angle comes out of atan2 with absolute error <= 2 eps, each weight sin(s a)/sin(a)
// then has absolute error <= 2 eps kappa (+ 2 eps relative from sin and the divisions), the two products and the
// sum give <= 8 eps kappa, normalisation 2.25 eps: bound 32 eps kappa per component; 64 eps kappa on the 4-D angles
// (an error d of the result moves 2 atan2(|q1-r|,|q1+r|) by at most |d|_2 <= 2 |d|_max). The endpoints t = 0, 1 are
// demanded to 8 eps without kappa ("equals its endpoints": one weight is exactly 1 and the other exactly 0 times a
// finite number). slerpShortestArc works on an arc of at most pi/2, so kappa = 1.
#include "c10_common.hpp"

namespace c10 {
namespace {
using vf::R;

struct Tally
{
    long long near_eq = 0, a_lt_sqrt_eps = 0, a_sqrt_eps_to_003 = 0, ta_lt_sqrt_eps = 0, tiny_t = 0, interior = 0, interior_skipped = 0;
    double    w_interior = 0;
    long long states = 0, trans = 0, a_small = 0, a_gt90 = 0, a_near_pi = 0, equal = 0, t_outside = 0, t_end = 0, t_inner = 0, short_flip = 0, short_keep = 0,
              short_orth = 0, keys = 0, tangent = 0, tangent_skipped = 0;
    double w_slerp = 0, w_angle = 0, w_short = 0, w_keys = 0, w_tan_ratio = 0, w_tan_conv = 0;
    void   merge (const Tally& o)
    {
        states += o.states; trans += o.trans; a_small += o.a_small; a_gt90 += o.a_gt90; a_near_pi += o.a_near_pi; equal += o.equal; t_outside += o.t_outside;
        t_end += o.t_end; t_inner += o.t_inner; short_flip += o.short_flip; short_keep += o.short_keep; short_orth += o.short_orth; keys += o.keys;
        tangent += o.tangent; tangent_skipped += o.tangent_skipped;
        near_eq += o.near_eq; a_lt_sqrt_eps += o.a_lt_sqrt_eps; a_sqrt_eps_to_003 += o.a_sqrt_eps_to_003; ta_lt_sqrt_eps += o.ta_lt_sqrt_eps; tiny_t += o.tiny_t;
        interior += o.interior; interior_skipped += o.interior_skipped; w_interior = std::max (w_interior, o.w_interior);
        w_slerp = std::max (w_slerp, o.w_slerp); w_angle = std::max (w_angle, o.w_angle); w_short = std::max (w_short, o.w_short);
        w_keys = std::max (w_keys, o.w_keys); w_tan_ratio = std::max (w_tan_ratio, o.w_tan_ratio); w_tan_conv = std::max (w_tan_conv, o.w_tan_conv);
    }
};
inline void mx (double& a, LD v) { if ((double) v > a) a = (double) v; }

const LD PI = acosl (-1.0L);
inline LD fold (LD x) { x = fabsl (x); while (x > 2 * PI) x -= 2 * PI; return x <= PI ? x : 2 * PI - x; }
inline LD kappa (LD a) { return a <= PI / 2 ? 1 : 1 / sinl (a); }

Q slerp_ref (const Q& q1, const Q& q2, LD t)
{
    LD a = qangle (q1, q2);
    if (a == 0) return qunit (q1);
    LD s = sinl (a);
    return qunit (qadd (qscale (q1, sinl ((1 - t) * a) / s), qscale (q2, sinl (t * a) / s)));
}

template <class T> struct Qin
{
    Quat<T>     q;
    int         c[4]; // integer direction: q is (up to rounding) c/|c|
    std::string name;
};

template <class T> std::vector<Qin<T>> quat_set (bool thorough)
{
    std::vector<Qin<T>> v;
    for (auto& g : tetra_group ())
    {
        Qin<T> e;
        e.q = fromG2<T> (g);
        for (int k = 0; k < 4; ++k) e.c[k] = g.c[k];
        e.name = "group" + i4 (g.c) + "/2";
        v.push_back (e);
    }
    for (auto& g : lattice4 (thorough ? 2 : 1))
    {
        Qin<T> e;
        e.q = Quat<T> ((T) g.c[0], (T) g.c[1], (T) g.c[2], (T) g.c[3]).normalized ();
        for (int k = 0; k < 4; ++k) e.c[k] = g.c[k];
        e.name = "normalized" + i4 (g.c);
        v.push_back (e);
    }
    return v;
}

static const LD TS[11] = {-0.25L, 0, 0.125L, 0.25L, 0.375L, 0.5L, 0.625L, 0.75L, 0.875L, 1, 1.25L};
// small parameters (exact in float): t and 1-t
static const LD TSMALL[8] = {ldexpl (1, -30), ldexpl (1, -20), ldexpl (1, -12), ldexpl (1, -8), 1 - ldexpl (1, -8), 1 - ldexpl (1, -12), 1 - ldexpl (1, -20), 1 - ldexpl (1, -24)};

template <class T> void check_slerp (Tally& tl, const Quat<T>& q1, const Quat<T>& q2, const std::string& in, long long idot, bool idot_known, const char* sfx = "", bool small_t = false)
{
    const LD e  = EPS<T> ();
    const Q  r1 = toQ (q1), r2 = toQ (q2);
    const LD a  = qangle (r1, r2), kp = kappa (a);
    ++tl.states;
    if (a == 0) ++tl.equal; else if (a < 1e-3L) ++tl.a_small;
    if (a > PI / 2) ++tl.a_gt90;
    if (a > PI - 1e-3L) ++tl.a_near_pi;
    const LD rte = sqrtl (e); // sinx_over_x switches at x^2 < eps
    if (a > 0 && a < rte) ++tl.a_lt_sqrt_eps; else if (a >= rte && a < 0.03L) ++tl.a_sqrt_eps_to_003;
    const int nt = small_t ? 8 : 11;
    const std::string sx = small_t ? std::string (sfx) + ".tiny-t" : std::string (sfx);
    for (int ti = 0; ti < nt; ++ti)
    {
        const LD t = small_t ? TSMALL[ti] : TS[ti];
        if (small_t) ++tl.tiny_t;
        if (a >= rte && (fabsl (t) * a < rte || fabsl (1 - t) * a < rte) && t != 0 && t != 1) ++tl.ta_lt_sqrt_eps;
        (t < 0 || t > 1 ? tl.t_outside : (t == 0 || t == 1) ? tl.t_end : tl.t_inner)++;
        Quat<T> s  = slerp (q1, q2, (T) t);
        Q       sr = toQ (s), er = slerp_ref (r1, r2, t);
        ++tl.trans;
        auto desc = [&] () { return in + " t=" + vf::fmt ((double) t) + " [4-D angle " + vf::fmt ((double) a) + "]"; };
        if (!qfinite (sr)) { R ().fail (site<T> ("slerp", "finite" + sx), desc (), qs (er), qs (s)); continue; }
        LD nd = fabsl (qnorm (sr) - 1);
        if (!(nd <= 4 * e)) R ().fail (site<T> ("slerp", "unit" + sx), desc (), "|q| = 1 to 4 eps", qs (s));
        LD d = qmaxdiff (sr, er);
        mx (tl.w_slerp, d / (e * kp));
        if (!(d <= 32 * e * kp)) R ().fail (site<T> ("slerp", "=sin((1-t)a)q1+sin(ta)q2)/sin(a)" + sx), desc (), qs (er) + " to 32 eps*kappa, kappa=" + vf::fmt ((double) kp), qs (s));
        if (t == 0 && !(qmaxdiff (sr, qunit (r1)) <= 8 * e)) R ().fail (site<T> ("slerp", "t=0-gives-q1" + sx), desc (), qs (r1) + " to 8 eps", qs (s));
        if (t == 1 && !(qmaxdiff (sr, qunit (r2)) <= 8 * e)) R ().fail (site<T> ("slerp", "t=1-gives-q2" + sx), desc (), qs (r2) + " to 8 eps", qs (s));
        // the 4-D angle advances linearly in t
        LD a1 = qangle (r1, sr), a2 = qangle (r2, sr);
        LD d1 = fabsl (a1 - fold (t * a)), d2 = fabsl (a2 - fold ((1 - t) * a));
        mx (tl.w_angle, std::max (d1, d2) / (e * kp));
        if (!(d1 <= 64 * e * kp && d2 <= 64 * e * kp))
            R ().fail (site<T> ("slerp", "4-D-angle-linear-in-t" + sx), desc (), "angle(q1,r)=" + vf::fmt (fold (t * a)) + " angle(q2,r)=" + vf::fmt (fold ((1 - t) * a)) + " to 64 eps*kappa",
                       vf::fmt (a1) + ", " + vf::fmt (a2));
        // slerpShortestArc: never the long way round: for t in [0,1] the result stays within 90 degrees of q1,
        // and it is the slerp towards whichever of +-q2 is closer to q1
        if (t >= 0 && t <= 1)
        {
            Quat<T> h  = slerpShortestArc (q1, q2, (T) t);
            Q       hr = toQ (h);
            ++tl.trans;
            LD dt = qdot (r1, r2);
            Q  ep = slerp_ref (r1, r2, t), em = slerp_ref (r1, qscale (r2, -1), t);
            LD dp = qmaxdiff (hr, ep), dm = qmaxdiff (hr, em);
            bool ambiguous = idot_known ? (idot == 0) : (fabsl (dt) <= 8 * e);
            if (t == 0.5L) { if (ambiguous) ++tl.short_orth; else if (dt < 0) ++tl.short_flip; else ++tl.short_keep; }
            LD dd = ambiguous ? std::min (dp, dm) : (dt < 0 ? dm : dp);
            mx (tl.w_short, dd / e);
            if (!qfinite (hr) || !(qdot (r1, hr) >= -32 * e))
                R ().fail (site<T> ("slerpShortestArc", "within-90-degrees-of-q1" + sx), desc (), "q1.result >= 0", qs (h) + " dot=" + vf::fmt (qdot (r1, hr)));
            if (!(dd <= 32 * e)) R ().fail (site<T> ("slerpShortestArc", "=slerp-towards-nearer-of-+-q2" + sx), desc (), qs (dt < 0 ? em : ep) + " to 32 eps", qs (h));
        }
    }
}

template <class T> void pairs (Tally& total, bool thorough)
{
    const auto   S = quat_set<T> (thorough);
    const size_t n = S.size ();
    std::mutex   mu;
    vf::parallel_chunks (n, 4, [&] (uint64_t lo, uint64_t hi, unsigned) {
        Tally tl;
        for (uint64_t a = lo; a < hi; ++a)
            for (size_t b = 0; b < n; ++b)
            {
                const int *c1 = S[a].c, *c2 = S[b].c;
                long long dot = 0, n1 = 0, n2 = 0;
                for (int k = 0; k < 4; ++k) { dot += c1[k] * c2[k]; n1 += c1[k] * c1[k]; n2 += c2[k] * c2[k]; }
                if (dot < 0 && dot * dot == n1 * n2) continue; // q2 == -q1 (as directions): excluded by the documentation of slerp
                check_slerp<T> (tl, S[a].q, S[b].q, "q1=" + S[a].name + " q2=" + S[b].name, dot, true);
                check_slerp<T> (tl, S[a].q, S[b].q, "q1=" + S[a].name + " q2=" + S[b].name, dot, true, "", true);
            }
        std::lock_guard<std::mutex> g (mu);
        total.merge (tl);
    });
    // nearly antipodal: q2 = normalised(-q1 + 10^-j e)
    Tally tl;
    const int E[3][4] = {{0, 1, 0, 0}, {1, -1, 1, 0}, {0, 0, 1, 2}};
    for (size_t a = 0; a < n; a += (thorough ? 1 : 3))
        for (int ei = 0; ei < 3; ++ei)
            for (int j = 1; j <= 15; ++j)
            {
                T d = (T) powl (10.0L, -j);
                const Quat<T>& q1 = S[a].q;
                Quat<T> raw (-q1.r + d * (T) E[ei][0], -q1.v.x + d * (T) E[ei][1], -q1.v.y + d * (T) E[ei][2], -q1.v.z + d * (T) E[ei][3]);
                Quat<T> q2 = raw.normalized ();
                if (q2.r == -q1.r && q2.v.x == -q1.v.x && q2.v.y == -q1.v.y && q2.v.z == -q1.v.z) continue; // rounded to exactly -q1
                Q s = qadd (toQ (q1), toQ (q2));
                if (qnorm (s) == 0) continue;
                check_slerp<T> (tl, q1, q2, "q1=" + S[a].name + " q2=normalized(-q1+1e-" + std::to_string (j) + "*" + i4 (E[ei]) + ")=" + qs (q2), 0, false);
            }
    // nearly equal: q2 = normalised(q1 + 10^-j e): 4-D angle ~ 10^-j |e_perp|, down to below one ulp (then q2 == q1, class slerp.q1=q2)
    for (size_t a = 0; a < n; a += (thorough ? 1 : 3))
        for (int ei = 0; ei < 3; ++ei)
            for (int j = 1; j <= 15; ++j)
            {
                T d = (T) powl (10.0L, -j);
                const Quat<T>& q1 = S[a].q;
                Quat<T> raw (q1.r + d * (T) E[ei][0], q1.v.x + d * (T) E[ei][1], q1.v.y + d * (T) E[ei][2], q1.v.z + d * (T) E[ei][3]);
                Quat<T> q2 = raw.normalized ();
                ++tl.near_eq;
                const std::string in = "q1=" + S[a].name + " q2=normalized(q1+1e-" + std::to_string (j) + "*" + i4 (E[ei]) + ")=" + qs (q2);
                check_slerp<T> (tl, q1, q2, in, 1, true, ".nearly-equal");
                check_slerp<T> (tl, q1, q2, in, 1, true, ".nearly-equal", true);
                check_slerp<T> (tl, q2, q1, in + " [swapped]", 1, true, ".nearly-equal");
            }
    total.merge (tl);
}

// ---- squad / spline keys ----------------------------------------------------------------------------------------------
template <class T> void keys (Tally& total)
{
    const auto     G = tetra_group ();
    const uint64_t n = G.size (), N = n * n * n * n;
    const LD       e = EPS<T> ();
    std::mutex     mu;
    vf::parallel_chunks (N, n * n * n, [&] (uint64_t lo, uint64_t hi, unsigned) {
        Tally tl;
        for (uint64_t idx = lo; idx < hi; ++idx)
        {
            int k[4];
            ex::decode (idx, (unsigned) n, 4, k);
            // consecutive keys must not be exactly antipodal (slerp's precondition)
            bool ok = true;
            for (int i = 0; i < 3; ++i)
            {
                bool anti = true;
                for (int c = 0; c < 4; ++c) anti = anti && G[k[i]].c[c] == -G[k[i + 1]].c[c];
                ok = ok && !anti;
            }
            if (!ok) continue;
            ++tl.states; ++tl.keys;
            Quat<T> q[4];
            for (int i = 0; i < 4; ++i) q[i] = fromG2<T> (G[k[i]]);
            auto desc = [&] () { return "keys " + qs (q[0]) + " " + qs (q[1]) + " " + qs (q[2]) + " " + qs (q[3]); };
            Quat<T> s0 = spline (q[0], q[1], q[2], q[3], (T) 0), s1 = spline (q[0], q[1], q[2], q[3], (T) 1);
            // squad with the four quaternions used as (q1, qa, qb, q2)
            Quat<T> u0 = squad (q[0], q[1], q[2], q[3], (T) 0), u1 = squad (q[0], q[1], q[2], q[3], (T) 1);
            tl.trans += 4;
            LD d0 = qmaxdiff (toQ (s0), toQ (q[1])), d1 = qmaxdiff (toQ (s1), toQ (q[2]));
            LD c0 = qmaxdiff (toQ (u0), toQ (q[0])), c1 = qmaxdiff (toQ (u1), toQ (q[3]));
            mx (tl.w_keys, std::max (std::max (d0, d1), std::max (c0, c1)) / e);
            if (!(d0 <= 16 * e)) R ().fail (site<T> ("spline", "t=0-passes-through-q1"), desc (), qs (q[1]) + " to 16 eps", qs (s0));
            if (!(d1 <= 16 * e)) R ().fail (site<T> ("spline", "t=1-passes-through-q2"), desc (), qs (q[2]) + " to 16 eps", qs (s1));
            if (!(c0 <= 16 * e)) R ().fail (site<T> ("squad", "t=0-passes-through-q1"), desc (), qs (q[0]) + " to 16 eps", qs (u0));
            if (!(c1 <= 16 * e)) R ().fail (site<T> ("squad", "t=1-passes-through-q2"), desc (), qs (q[3]) + " to 16 eps", qs (u1));
        }
        std::lock_guard<std::mutex> g (mu);
        total.merge (tl);
    });
}

// ---- squad / spline / intermediate at interior parameters against their documentation (audit2 S5) -----------------------------
// Reference in long double. log of a unit quaternion (w, v) = (0, v/|v| * atan2(|v|, w)); exp of a pure quaternion (0, u) =
// (cos|u|, u sin|u|/|u|). Tolerances, a priori (eps of T; kappa_i = 1/sin of the arc of the i-th slerp when it exceeds pi/2):
//   intermediate: the two products 8 eps each, log: d(theta/sin theta) = d(w) (sin th - th cos th)/sin^3 th <= 6.7 d(w) for
//     th <= 3pi/4 (keys further apart are skipped: log is excluded near w = -1 by the property), d(w) ~ 4 eps plus the norm
//     defect of the product (cond <= 5.7, c10_unit.cpp) -> <= 30 eps per log, (sum)/4 -> 15 eps, exp 4 eps, product 8, normalise 3:
//     bound 48 eps.
//   squad with given corner quaternions: r1, r2 within 32 eps kappa_1,2 (bound of check_slerp), the outer slerp 32 eps kappa_3 and it
//     propagates the errors of r1, r2 with a factor <= kappa_3: <= kappa_3 (32 + 32 kappa_1 + 32 kappa_2) <= 96 kappa_max^2: bound 128 eps kappa_max^2.
//   spline: qa, qb carry 48 eps each into r2: r2 within (32 + 2*48) kappa_2 eps: <= kappa_3 (32 + 32 kappa_1 + 128 kappa_2) <= 192 kappa_max^2:
//     bound 256 eps kappa_max^2. Tuples with kappa_max > 4 are skipped (counted).
inline Q qinv (const Q& a) { return qscale (qconj (a), 1 / qdot (a, a)); }
inline Q qlog_ref (const Q& a)
{
    LD vl = sqrtl (a.x * a.x + a.y * a.y + a.z * a.z);
    if (vl == 0) return Q{0, 0, 0, 0};
    LD th = atan2l (vl, a.w), k = th / vl;
    return Q{0, a.x * k, a.y * k, a.z * k};
}
inline Q qexp_ref (const Q& a)
{
    LD th = sqrtl (a.x * a.x + a.y * a.y + a.z * a.z);
    LD k  = th > 0 ? sinl (th) / th : 1;
    return Q{cosl (th), a.x * k, a.y * k, a.z * k};
}
inline Q intermediate_ref (const Q& q0, const Q& q1, const Q& q2)
{
    Q i1 = qinv (q1);
    Q l  = qadd (qlog_ref (qmul (i1, q2)), qlog_ref (qmul (i1, q0)));
    return qunit (qmul (q1, qexp_ref (qscale (l, -0.25L))));
}

template <class T> void interior (Tally& total)
{
    const LD  e = EPS<T> ();
    const int KI[10][4] = {{2, 0, 0, 0}, {1, 1, 1, 1}, {1, 1, -1, -1}, {0, 2, 0, 0}, {1, -1, 1, -1}, {2, 1, 0, 0}, {2, 0, 1, 1}, {1, 2, -1, 0}, {2, -1, 0, 1}, {1, 0, 0, 2}};
    std::vector<Quat<T>> K;
    for (auto& c : KI) K.push_back (Quat<T> ((T) c[0], (T) c[1], (T) c[2], (T) c[3]).normalized ());
    const uint64_t n = K.size (), N = n * n * n * n;
    const LD       TI[5] = {0.125L, 0.25L, 0.5L, 0.75L, 0.875L};
    std::mutex     mu;
    vf::parallel_chunks (N, n * n, [&] (uint64_t lo, uint64_t hi, unsigned) {
        Tally tl;
        for (uint64_t idx = lo; idx < hi; ++idx)
        {
            int k[4];
            ex::decode (idx, (unsigned) n, 4, k);
            const Quat<T>&q0 = K[k[0]], &q1 = K[k[1]], &q2 = K[k[2]], &q3 = K[k[3]];
            const Q r0 = toQ (q0), r1 = toQ (q1), r2 = toQ (q2), r3 = toQ (q3);
            auto desc = [&] () { return "keys " + qs (q0) + " " + qs (q1) + " " + qs (q2) + " " + qs (q3); };
            // (a) squad with the four keys as the quadrangle (q1, qa, qb, q2) := (q0, q1, q2, q3): needs only the slerp preconditions
            {
                LD a12 = qangle (r0, r3), aab = qangle (r1, r2);
                bool ok = a12 < PI - 0.25L && aab < PI - 0.25L;
                for (int ti = 0; ti < 5 && ok; ++ti)
                {
                    LD t = TI[ti];
                    Q  s1 = slerp_ref (r0, r3, t), s2 = slerp_ref (r1, r2, t);
                    LD a3 = qangle (s1, s2), km = std::max (std::max (kappa (a12), kappa (aab)), kappa (a3));
                    if (km > 4) { ++tl.interior_skipped; continue; }
                    Q ref = slerp_ref (s1, s2, 2 * t * (1 - t));
                    Quat<T> g = squad (q0, q1, q2, q3, (T) t);
                    ++tl.trans; ++tl.states; ++tl.interior;
                    LD d = qmaxdiff (toQ (g), ref), tol = 128 * e * km * km;
                    if (!qfinite (toQ (g))) d = 1e30L;
                    mx (tl.w_interior, d / tol);
                    if (!(d <= tol)) R ().fail (site<T> ("squad", "interior=slerp(slerp(q1,q2,t),slerp(qa,qb,t),2t(1-t))"), "(q1,qa,qb,q2)=" + desc () + " t=" + vf::fmt ((double) t), qs (ref) + " to 128 eps kappa^2, kappa=" + vf::fmt ((double) km), qs (g));
                }
            }
            // (b) intermediate and spline: consecutive keys distinct and at most 3pi/4 apart
            bool ok = true;
            for (int i = 0; i < 3 && ok; ++i)
                if (k[i] == k[i + 1] || qangle (toQ (K[k[i]]), toQ (K[k[i + 1]])) > 3 * PI / 4) ok = false;
            if (!ok) { ++tl.interior_skipped; continue; }
            Q ia = intermediate_ref (r0, r1, r2), ib = intermediate_ref (r1, r2, r3);
            if (k[3] == 0) // once per (q0,q1,q2)
            {
                Quat<T> ga = intermediate (q0, q1, q2);
                ++tl.trans;
                LD d = qmaxdiff (toQ (ga), ia);
                if (!qfinite (toQ (ga))) d = 1e30L;
                if (!(d <= 48 * e)) R ().fail (site<T> ("intermediate", "=q1*exp(-(log(q1^-1*q2)+log(q1^-1*q0))/4)"), "(q0,q1,q2)=" + qs (q0) + " " + qs (q1) + " " + qs (q2), qs (ia) + " to 48 eps", qs (ga));
            }
            LD a12 = qangle (r1, r2), aab = qangle (ia, ib);
            for (int ti = 0; ti < 5; ++ti)
            {
                LD t = TI[ti];
                Q  s1 = slerp_ref (r1, r2, t), s2 = slerp_ref (ia, ib, t);
                LD a3 = qangle (s1, s2), km = std::max (std::max (kappa (a12), kappa (aab)), kappa (a3));
                if (!(aab < PI - 0.25L) || km > 4) { ++tl.interior_skipped; continue; }
                Q ref = slerp_ref (s1, s2, 2 * t * (1 - t));
                Quat<T> g = spline (q0, q1, q2, q3, (T) t);
                ++tl.trans; ++tl.states; ++tl.interior;
                LD d = qmaxdiff (toQ (g), ref), tol = 256 * e * km * km;
                if (!qfinite (toQ (g))) d = 1e30L;
                mx (tl.w_interior, d / tol);
                if (!(d <= tol)) R ().fail (site<T> ("spline", "interior=squad(q1,intermediate(q0,q1,q2),intermediate(q1,q2,q3),q2,t)"), desc () + " t=" + vf::fmt ((double) t), qs (ref) + " to 256 eps kappa^2, kappa=" + vf::fmt ((double) km), qs (g));
            }
        }
        std::lock_guard<std::mutex> g (mu);
        total.merge (tl);
    });
}

// ---- tangent continuity of consecutive spline segments -------------------------------------------------------------------
// S1(t) = spline(q0,q1,q2,q3,t) ends in q2 where S2(t) = spline(q1,q2,q3,q4,t) starts. One-sided second-order difference
// quotients  D-(h) = (3 S1(1) - 4 S1(1-h) + S1(1-2h)) / 2h ,  D+(h) = (-3 S2(0) + 4 S2(h) - S2(2h)) / 2h  have truncation
// error O(h^2); if the tangent is continuous e(h) = |D-(h) - D+(h)| shrinks 16-fold from h to h/4 (up to O(h^3) terms whose
// size relative to the h^2 term is not known a priori, hence the factor 8 of slack), if there is a jump J it
// stays at J. Demanded:  e(h/4) <= e(h)/2 + Rnd(h/4) + Rnd(h)/2  with Rnd(h) = 8*dS/h the rounding contribution of the six
// evaluations (dS = 64 eps * kappa_max bounds the error of one squad evaluation: three slerps at 16 eps kappa each plus
// normalisations). A convergence check, not a tuned constant. h = 2^-10 (double) / 2^-5 (float: eps/h must stay small).
template <class T> void tangents (Tally& total, bool thorough)
{
    const LD e  = EPS<T> ();
    const LD h1 = std::is_same<T, float>::value ? ldexpl (1, -5) : ldexpl (1, -10), h2 = h1 / 4;
    // key alphabet: 5 group elements and 5 normalised lattice quaternions
    const int KI[10][4] = {{2, 0, 0, 0}, {1, 1, 1, 1}, {1, 1, -1, -1}, {0, 2, 0, 0}, {1, -1, 1, -1}, {2, 1, 0, 0}, {2, 0, 1, 1}, {1, 2, -1, 0}, {2, -1, 0, 1}, {1, 0, 0, 2}};
    const int KX[6][4] = {{-1, 2, 0, 1}, {0, 1, 2, -2}, {2, 2, 1, 0}, {1, -1, -1, 2}, {0, 0, 1, -1}, {-2, 1, 1, 1}}; // thorough only
    std::vector<Quat<T>> K;
    for (auto& c : KI) K.push_back (Quat<T> ((T) c[0], (T) c[1], (T) c[2], (T) c[3]).normalized ());
    if (thorough)
        for (auto& c : KX) K.push_back (Quat<T> ((T) c[0], (T) c[1], (T) c[2], (T) c[3]).normalized ());
    const uint64_t n = K.size (), N = n * n * n * n * n;
    std::mutex     mu;
    vf::parallel_chunks (N, n * n * n, [&] (uint64_t lo, uint64_t hi, unsigned) {
        Tally tl;
        for (uint64_t idx = lo; idx < hi; ++idx)
        {
            int k[5];
            ex::decode (idx, (unsigned) n, 5, k);
            // consecutive keys distinct directions and at a 4-D angle <= 3pi/4 (log/slerp away from their excluded q2 ~ -q1 region)
            bool ok = true;
            LD   kmax = 1;
            for (int i = 0; i < 4 && ok; ++i)
            {
                LD a = qangle (toQ (K[k[i]]), toQ (K[k[i + 1]]));
                if (k[i] == k[i + 1] || a > 3 * PI / 4) ok = false;
                kmax = std::max (kmax, kappa (a));
            }
            if (!ok) { ++tl.tangent_skipped; continue; }
            const Quat<T>&q0 = K[k[0]], &q1 = K[k[1]], &q2 = K[k[2]], &q3 = K[k[3]], &q4 = K[k[4]];
            // conditioning of the inner slerps of both segments at the evaluated parameters
            Quat<T> a1 = intermediate (q0, q1, q2), b1 = intermediate (q1, q2, q3), b2 = intermediate (q2, q3, q4);
            kmax = std::max (kmax, std::max (kappa (qangle (toQ (a1), toQ (b1))), kappa (qangle (toQ (b1), toQ (b2)))));
            for (LD t : {1 - 2 * h1, 1 - h1, (LD) 1})
                kmax = std::max (kmax, kappa (qangle (toQ (slerp (q1, q2, (T) t)), toQ (slerp (a1, b1, (T) t)))));
            for (LD t : {(LD) 0, h1, 2 * h1})
                kmax = std::max (kmax, kappa (qangle (toQ (slerp (q2, q3, (T) t)), toQ (slerp (b1, b2, (T) t)))));
            if (kmax > 4) { ++tl.tangent_skipped; continue; } // an inner arc longer than ~165 degrees: rounding bound useless
            ++tl.states; ++tl.tangent;
            auto S1 = [&] (LD t) { return toQ (spline (q0, q1, q2, q3, (T) t)); };
            auto S2 = [&] (LD t) { return toQ (spline (q1, q2, q3, q4, (T) t)); };
            auto ediff = [&] (LD h) {
                Q dm = qscale (qadd (qadd (qscale (S1 (1), 3), qscale (S1 (1 - h), -4)), S1 (1 - 2 * h)), 1 / (2 * h));
                Q dp = qscale (qadd (qadd (qscale (S2 (0), -3), qscale (S2 (h), 4)), qscale (S2 (2 * h), -1)), 1 / (2 * h));
                return qmaxdiff (dm, dp);
            };
            LD e1 = ediff (h1), e2 = ediff (h2);
            tl.trans += 12;
            LD dS = 64 * e * kmax, rnd = 8 * dS / h2 + 8 * dS / h1 / 2;
            LD lim = e1 / 2 + rnd;
            if (lim > 0) mx (tl.w_tan_ratio, e2 / lim);
            if (e1 > 64 * rnd) mx (tl.w_tan_conv, e2 / e1); // truncation-dominated joins: observed convergence factor (ideal 1/16)
            if (!(e2 <= lim))
                R ().fail (site<T> ("spline", "tangent-continuous-across-segments"),
                           "keys " + qs (q0) + " " + qs (q1) + " " + qs (q2) + " " + qs (q3) + " " + qs (q4) + " h=" + vf::fmt ((double) h1),
                           "e(h/4) <= e(h)/2 + rounding = " + vf::fmt (lim), "e(h)=" + vf::fmt (e1) + " e(h/4)=" + vf::fmt (e2));
        }
        std::lock_guard<std::mutex> g (mu);
        total.merge (tl);
    });
}


// ---- stage "spline-repeated-keys" (seed C10-u2) ----------------------------------------------------------------------------
// spline / intermediate with a held (repeated) key. intermediate(q0,q1,q2) takes log(q1^-1 q2) and log(q1^-1 q0); with q2 == q1
// (or q0 == q1) that product is the identity only up to rounding, so its real part is 1 - k ulp, 1 or 1 + ulp -- a unit
// quaternion within rounding, for which log must return (nearly) zero. Nothing in the documentation of spline excludes
// coincident keys (a held key is the ordinary way to pause an animation); slerp's own precondition q1 != -q2 holds.
// Enumerated: the repeated key B over the whole quaternion alphabet of this file (group + normalised lattice L(2)^4, 648, both tiers)
// and six unit-within-rounding quaternions (r in {1-ulp, 1, 1+ulp}, v = 0 or 2^k(1,-1,0) with 2^2k ~ eps/4), the other keys A, C over the
// 10-element key set of interior(), key patterns ABBC, BBAC, ACBB, ABBB, BBBA, BBBB, BBCC. Judged as in interior(): consecutive
// DISTINCT keys at most 3pi/4 apart, inner arcs with kappa <= 4 (skipped tuples counted).
// Oracles (all from the documentation / statement, tolerances as derived above for interior() and keys()):
//   intermediate = q1 exp(-(log(q1^-1 q2) + log(q1^-1 q0))/4) to 48 eps (the log term of a coincident pair is within 8 eps of zero:
//     the bound only gets smaller);  spline(t=0) = q1, spline(t=1) = q2 to 16 eps;  spline(t) finite and unit to 4 eps and equal
//     to squad(q1, qa, qb, q2, t) evaluated in long double to 256 eps kappa^2 at 5 interior parameters.
struct RepCnt
{
    long long c_above1 = 0, c_eq1 = 0, c_below1 = 0, tuples = 0, skipped = 0, near_identity_keys = 0, pattern[7] = {0, 0, 0, 0, 0, 0, 0};
    double    w_int = 0, w_key = 0, w_interior = 0;
    void      merge (const RepCnt& o)
    {
        c_above1 += o.c_above1; c_eq1 += o.c_eq1; c_below1 += o.c_below1; tuples += o.tuples; skipped += o.skipped; near_identity_keys += o.near_identity_keys;
        for (int i = 0; i < 7; ++i) pattern[i] += o.pattern[i];
        w_int = std::max (w_int, o.w_int); w_key = std::max (w_key, o.w_key); w_interior = std::max (w_interior, o.w_interior);
    }
};

template <class T> void repeated_keys (Tally& total, RepCnt& rtotal, bool thorough)
{
    const LD  e = EPS<T> ();
    const int KI[10][4] = {{2, 0, 0, 0}, {1, 1, 1, 1}, {1, 1, -1, -1}, {0, 2, 0, 0}, {1, -1, 1, -1}, {2, 1, 0, 0}, {2, 0, 1, 1}, {1, 2, -1, 0}, {2, -1, 0, 1}, {1, 0, 0, 2}};
    std::vector<Quat<T>> K;
    for (auto& c : KI) K.push_back (Quat<T> ((T) c[0], (T) c[1], (T) c[2], (T) c[3]).normalized ());
    struct B { Quat<T> q; std::string name; };
    std::vector<B> S;
    (void) thorough; // both tiers use the large alphabet: over group + L(1)^4 the product inverse(q)*q is exactly 1 for every key
    for (auto& x : quat_set<T> (true)) S.push_back ({x.q, x.name});
    {
        const T    eps = std::numeric_limits<T>::epsilon (), one = 1;
        const bool dbl = std::numeric_limits<T>::digits > 30;
        const T    s   = (T) ldexpl (1.0L, dbl ? -28 : -14); // 2 s^2 = eps/8 resp. eps/4... : norm defect stays below 4.5 eps
        const T    RS[3] = {(T) (one - eps / 2), one, (T) (one + eps)};
        const char* RN[3] = {"1-ulp", "1", "1+ulp"};
        for (int ri = 0; ri < 3; ++ri)
        {
            S.push_back ({Quat<T> (RS[ri], 0, 0, 0), std::string ("(") + RN[ri] + ",0,0,0)"});
            S.push_back ({Quat<T> (RS[ri], s, -s, 0), std::string ("(") + RN[ri] + ",s,-s,0)"});
            rtotal.near_identity_keys += 2;
        }
    }
    for (auto& b : S)
    {
        Quat<T> c = b.q.inverse () * b.q; // classification only (what intermediate() feeds to log for a held key)
        (c.r > 1 ? rtotal.c_above1 : c.r == 1 ? rtotal.c_eq1 : rtotal.c_below1)++;
    }
    const uint64_t nS = S.size (), nK = K.size (), N = nS * nK * nK * 7;
    const LD       TI[5] = {0.125L, 0.25L, 0.5L, 0.75L, 0.875L};
    std::mutex     mu;
    vf::parallel_chunks (N, nK * nK * 7, [&] (uint64_t lo, uint64_t hi, unsigned) {
        Tally  tl;
        RepCnt rc;
        for (uint64_t idx = lo; idx < hi; ++idx)
        {
            const int      pat = (int) (idx % 7);
            const uint64_t ai = (idx / 7) % nK, ci = (idx / 7 / nK) % nK, bi = idx / 7 / nK / nK;
            // patterns that do not use A and/or C are run once (index 0)
            static const bool usesA[7] = {true, true, true, true, true, false, false}, usesC[7] = {true, true, true, false, false, false, true};
            if ((!usesA[pat] && ai) || (!usesC[pat] && ci)) continue;
            const Quat<T>&A = K[ai], &C = K[ci], &Bq = S[bi].q;
            const Quat<T>* q[4];
            switch (pat)
            {
                case 0: q[0] = &A;  q[1] = &Bq; q[2] = &Bq; q[3] = &C;  break; // ABBC: the held key is the segment itself
                case 1: q[0] = &Bq; q[1] = &Bq; q[2] = &A;  q[3] = &C;  break; // BBAC
                case 2: q[0] = &A;  q[1] = &C;  q[2] = &Bq; q[3] = &Bq; break; // ACBB
                case 3: q[0] = &A;  q[1] = &Bq; q[2] = &Bq; q[3] = &Bq; break; // ABBB
                case 4: q[0] = &Bq; q[1] = &Bq; q[2] = &Bq; q[3] = &A;  break; // BBBA
                case 5: q[0] = &Bq; q[1] = &Bq; q[2] = &Bq; q[3] = &Bq; break; // BBBB
                default: q[0] = &Bq; q[1] = &Bq; q[2] = &C; q[3] = &C;  break; // BBCC
            }
            static const char* PN[7] = {"ABBC", "BBAC", "ACBB", "ABBB", "BBBA", "BBBB", "BBCC"};
            const Q r[4] = {toQ (*q[0]), toQ (*q[1]), toQ (*q[2]), toQ (*q[3])};
            bool ok = true;
            for (int i = 0; i < 3 && ok; ++i)
                if (q[i] != q[i + 1] && qangle (r[i], r[i + 1]) > 3 * PI / 4) ok = false;
            if (!ok) { ++rc.skipped; continue; }
            auto desc = [&] () { return std::string ("pattern ") + PN[pat] + " B=" + S[bi].name + " keys " + qs (*q[0]) + " " + qs (*q[1]) + " " + qs (*q[2]) + " " + qs (*q[3]); };
            const Q ia = intermediate_ref (r[0], r[1], r[2]), ib = intermediate_ref (r[1], r[2], r[3]);
            ++rc.tuples; ++rc.pattern[pat]; ++tl.states;
            // intermediate of both triples
            {
                Quat<T> ga = intermediate (*q[0], *q[1], *q[2]), gb = intermediate (*q[1], *q[2], *q[3]);
                tl.trans += 2;
                LD da = qmaxdiff (toQ (ga), ia), db = qmaxdiff (toQ (gb), ib);
                if (!qfinite (toQ (ga)) || !(da == da)) da = 1e30L;
                if (!qfinite (toQ (gb)) || !(db == db)) db = 1e30L;
                mx (rc.w_int, std::max (da, db) / e);
                if (!(da <= 48 * e)) R ().fail (site<T> ("intermediate", "=q1*exp(-(log(q1^-1*q2)+log(q1^-1*q0))/4).repeated-key"), desc () + " triple (q0,q1,q2)", qs (ia) + " to 48 eps", qs (ga));
                if (!(db <= 48 * e)) R ().fail (site<T> ("intermediate", "=q1*exp(-(log(q1^-1*q2)+log(q1^-1*q0))/4).repeated-key"), desc () + " triple (q1,q2,q3)", qs (ib) + " to 48 eps", qs (gb));
            }
            const LD a12 = qangle (r[1], r[2]), aab = qangle (ia, ib);
            if (!(aab < PI - 0.25L)) { ++rc.skipped; continue; }
            for (int ti = -2; ti < 5; ++ti)
            {
                const LD t  = ti == -2 ? 0 : ti == -1 ? 1 : TI[ti];
                Q        s1 = slerp_ref (r[1], r[2], t), s2 = slerp_ref (ia, ib, t);
                LD       a3 = qangle (s1, s2), km = std::max (std::max (kappa (a12), kappa (aab)), kappa (a3));
                // a3 = pi exactly (outer slerp between antipodes: excluded by slerp's documentation) gives sin(a3) <= 0 in long double, so test the arc itself too
                if (!(a3 < PI - 0.25L) || km > 4) { ++rc.skipped; continue; }
                Quat<T> g  = spline (*q[0], *q[1], *q[2], *q[3], (T) t);
                Q       gr = toQ (g);
                ++tl.trans;
                const std::string in = desc () + " t=" + vf::fmt ((double) t);
                if (!qfinite (gr)) { R ().fail (site<T> ("spline", "finite.repeated-key"), in, "finite unit quaternion", qs (g)); continue; }
                if (ti < 0)
                {
                    const Q want = qunit (ti == -2 ? r[1] : r[2]);
                    LD      d    = qmaxdiff (gr, want);
                    mx (rc.w_key, d / e);
                    if (!(d <= 16 * e)) R ().fail (site<T> ("spline", ti == -2 ? "t=0-passes-through-q1.repeated-key" : "t=1-passes-through-q2.repeated-key"), in, qs (want) + " to 16 eps", qs (g));
                    continue;
                }
                if (!(fabsl (qnorm (gr) - 1) <= 4 * e)) R ().fail (site<T> ("spline", "unit.repeated-key"), in, "|q| = 1 to 4 eps", qs (g));
                Q  ref = slerp_ref (s1, s2, 2 * t * (1 - t));
                LD d = qmaxdiff (gr, ref), tol = 256 * e * km * km;
                mx (rc.w_interior, d / tol);
                if (!(d <= tol)) R ().fail (site<T> ("spline", "interior=squad(q1,intermediate(q0,q1,q2),intermediate(q1,q2,q3),q2,t).repeated-key"), in, qs (ref) + " to 256 eps kappa^2, kappa=" + vf::fmt ((double) km), qs (g));
            }
        }
        std::lock_guard<std::mutex> g (mu);
        total.merge (tl);
        rtotal.merge (rc);
    });
}

} // namespace

void run_slerp ()
{
    if (!R ().stage ("slerp")) return;
    const bool th = R ().thorough ();
    Tally      tl;
    pairs<float> (tl, th);
    pairs<double> (tl, th);
    keys<float> (tl);
    keys<double> (tl);
    interior<float> (tl);
    interior<double> (tl);
    tangents<float> (tl, th);
    tangents<double> (tl, th);
    R ().add ("states", tl.states); R ().add ("transitions", tl.trans); R ().add ("evaluations", tl.states);
    R ().cls ("slerp.q1=q2", tl.equal);
    R ().cls ("slerp.angle>90", tl.a_gt90);
    R ().cls ("slerp.angle-within-1e-3-of-pi", tl.a_near_pi);
    R ().cls ("slerp.t-outside-[0,1]", tl.t_outside);
    R ().cls ("slerp.t-endpoint", tl.t_end);
    R ().cls ("slerp.t-inner.generic", tl.t_inner);
    R ().cls ("shortestArc.q1.q2<0(flip)", tl.short_flip);
    R ().cls ("shortestArc.q1.q2>0.generic", tl.short_keep);
    R ().cls ("shortestArc.q1.q2=0(either)", tl.short_orth);
    R ().cls ("slerp.nearly-equal-pair(10^-j)", tl.near_eq);
    R ().cls ("slerp.angle-in-(0,sqrt-eps)", tl.a_lt_sqrt_eps);
    R ().cls ("slerp.angle-in-[sqrt-eps,0.03)", tl.a_sqrt_eps_to_003);
    R ().cls ("slerp.angle-in-(0,1e-3)", tl.a_small);
    R ().cls ("slerp.t*a-or-(1-t)*a-below-sqrt-eps<=a", tl.ta_lt_sqrt_eps);
    R ().cls ("slerp.tiny-t-or-1-t(2^-8..2^-30)", tl.tiny_t);
    R ().cls ("squad-spline.interior-t", tl.interior);
    R ().add ("interior_tuples_skipped_ill_conditioned_or_repeated_key", tl.interior_skipped);
    R ().note_max ("squad/spline interior: worst error / a-priori bound (128 resp. 256 eps kappa^2)", tl.w_interior);
    R ().cls ("spline.key-tuples", tl.keys);
    R ().cls ("spline.tangent-joins", tl.tangent);
    R ().add ("tangent_tuples_skipped_ill_conditioned_or_repeated_key", tl.tangent_skipped);
    R ().note_max ("slerp: worst component error in eps*kappa (bound 32)", tl.w_slerp);
    R ().note_max ("slerp: worst 4-D angle error in eps*kappa (bound 64)", tl.w_angle);
    R ().note_max ("slerpShortestArc: worst component error in eps (bound 32)", tl.w_short);
    R ().note_max ("squad/spline keys: worst error in eps (bound 16)", tl.w_keys);
    R ().note_max ("spline tangent: worst e(h/4) / (e(h)/2 + rounding) (bound 1)", tl.w_tan_ratio);
    R ().note_max ("spline tangent: worst e(h/4)/e(h) where truncation dominates rounding 64-fold (ideal 1/16, demanded < 1/2)", tl.w_tan_conv);
    R ().sample ("slerp(group(2,0,0,0)/2, group(-1,1,1,1)/2, t): 4-D angle 2pi/3, kappa 1.15");
    R ().sample ("slerpShortestArc(q1, q2 with q1.q2 < 0, 1/2) == slerp(q1, -q2, 1/2)");
    R ().stage_done (std::string ("slerp/slerpShortestArc on all ordered pairs of ") + (th ? "648" : "104") +
                     " unit quaternions (group + normalised lattice) x 11 values of t, nearly antipodal and nearly equal families j=1..15, tiny t / 1-t on every pair; squad/spline keys on 24^4 group tuples; squad/spline/intermediate at 5 interior t on 10^4 normalised-lattice key tuples; "
                     "tangent continuity on " + std::string (th ? "16^5" : "10^5") + " key 5-tuples; float and double");
}

void run_repeated_keys ()
{
    if (!R ().stage ("spline-repeated-keys")) return;
    const bool th = R ().thorough ();
    Tally      tl;
    RepCnt     rc;
    repeated_keys<float> (tl, rc, th);
    repeated_keys<double> (tl, rc, th);
    R ().add ("states", tl.states); R ().add ("transitions", tl.trans); R ().add ("evaluations", tl.states);
    R ().add ("repeated_key_tuples_or_parameters_skipped_ill_conditioned", rc.skipped);
    R ().cls ("repeated-key.(inverse(q)*q).r>1", rc.c_above1);
    R ().cls ("repeated-key.(inverse(q)*q).r=1", rc.c_eq1);
    R ().cls ("repeated-key.(inverse(q)*q).r<1", rc.c_below1);
    R ().cls ("repeated-key.key-unit-within-rounding(r=1+-ulp)", rc.near_identity_keys);
    static const char* PN[7] = {"ABBC", "BBAC", "ACBB", "ABBB", "BBBA", "BBBB", "BBCC"};
    for (int i = 0; i < 7; ++i) R ().cls (std::string ("repeated-key.pattern-") + PN[i], rc.pattern[i]);
    R ().note_max ("repeated keys: intermediate worst error in eps (bound 48)", rc.w_int);
    R ().note_max ("repeated keys: spline at t=0,1 worst error in eps (bound 16)", rc.w_key);
    R ().note_max ("repeated keys: spline interior worst error / bound (256 eps kappa^2)", rc.w_interior);
    R ().sample ("spline(q0, q, q, q3, t) with a held key q: passes through q at t=0,1, unit and equal to the documented squad in between");
    R ().stage_done (std::string ("held key B over 648 unit quaternions + 6 unit-within-rounding ones x A, C over 10 keys x patterns ABBC, BBAC, ACBB, ABBB, BBBA, BBBB, BBCC x {intermediate (both triples), spline at t = 0, 1 and 5 interior t}; float and double"));
}

} // namespace c10
