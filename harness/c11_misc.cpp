// C11 — order bookkeeping, XYZ-layout permutations, re-ordering constructor, 2-D extractEuler.
#include "c11.hpp"
#include <ImathMatrix.h>

namespace c11 {
using vf::R;

template <class T> static void orders_T (long long& states, long long& trans)
{
    typedef Euler<T>           E;
    typedef typename E::Order  Ord;
    typedef typename E::Axis   Axis;
    const std::string tn = ref::tname<T> ();

    for (const OrderInfo& O : ORDERS)
    {
        Ord         ord = (Ord) O.value;
        std::string in  = "T=" + tn + " order=" + O.name + "(" + hex4 (O.value) + ")";
        ++states;

        E a (ord);
        if (a.order () != ord) R ().fail ("Euler(order).order", in, hex4 (O.value), hex4 ((int) a.order ()));
        if (!(a.x == 0 && a.y == 0 && a.z == 0)) R ().fail ("Euler(order).zero-angles", in, "0 0 0", vf::Msg () << a.x << " " << a.y << " " << a.z);
        if (!E::legal (ord)) R ().fail ("Euler::legal", in, "true", "false");
        if (a.frameStatic () != O.frameStatic () || a.initialRepeated () != O.repeated () || a.parityEven () != O.parityEven () || (int) a.initialAxis () != O.axis ())
            R ().fail ("Euler::setOrder.bit-fields", in, vf::Msg () << "axis=" << O.axis () << " parityEven=" << O.parityEven () << " repeated=" << O.repeated () << " static=" << O.frameStatic (),
                       vf::Msg () << "axis=" << (int) a.initialAxis () << " parityEven=" << a.parityEven () << " repeated=" << a.initialRepeated () << " static=" << a.frameStatic ());
        E b;
        b.setOrder (ord);
        if (b.order () != ord) R ().fail ("Euler::setOrder.order", in, hex4 (O.value), hex4 ((int) b.order ()));
        E c;
        c.set ((Axis) O.axis (), !O.frameStatic (), O.parityEven (), O.repeated ());
        if (c.order () != ord) R ().fail ("Euler::set(axis,relative,parity,repeats).order", in, hex4 (O.value), hex4 ((int) c.order ()));

        int i, j, k, ax[3];
        a.angleOrder (i, j, k);
        int ei = O.axis (), ej = O.parityEven () ? (ei + 1) % 3 : (ei + 2) % 3, ek = 3 - ei - ej;
        if (i != ei || j != ej || k != ek)
            R ().fail ("Euler::angleOrder", in, vf::Msg () << ei << " " << ej << " " << ek, vf::Msg () << i << " " << j << " " << k);
        // self-check of the reference table: for static orders the decoded fields spell the name
        int nx[3];
        O.staticAxes (ax);
        O.nameAxes (nx);
        if (O.frameStatic () && (ax[0] != nx[0] || ax[1] != nx[1] || ax[2] != nx[2]))
            R ().fail ("reference.static-name-vs-bit-fields", in, O.name, vf::Msg () << ax[0] << ax[1] << ax[2]);
        if ((O.name[3] == 'r') == O.frameStatic ()) R ().fail ("reference.r-suffix-vs-frame-bit", in);

        // copies keep angles and order; assigning a Vec3 keeps the order
        E d (T (0.25), T (-0.5), T (0.75), ord);
        E f (d);
        E g;
        g = d;
        if (!(f.order () == ord && f.x == d.x && f.y == d.y && f.z == d.z)) R ().fail ("Euler(Euler).copy", in);
        if (!(g.order () == ord && g.x == d.x && g.y == d.y && g.z == d.z)) R ().fail ("Euler::operator=(Euler)", in);
        g = Vec3<T> (1, 2, 3);
        if (!(g.order () == ord && g.x == 1 && g.y == 2 && g.z == 3)) R ().fail ("Euler::operator=(Vec3)", in);
        E h (Vec3<T> (1, 2, 3), ord);
        if (!(h.order () == ord && h.x == 1 && h.y == 2 && h.z == 3)) R ().fail ("Euler(Vec3,order).slots", in);
        trans += 9;

        // every (previous order -> new order) history of the bit-field state
        for (const OrderInfo& P : ORDERS)
        {
            E s ((Ord) P.value);
            s.setOrder (ord);
            if (s.order () != ord) R ().fail ("Euler::setOrder.after-other-order", in + " previous=" + P.name, hex4 (O.value), hex4 ((int) s.order ()));
            ++trans;
        }

        // ---- XYZ-layout permutations (non-repeated orders): exact
        if (!O.repeated ())
        {
            static const int P5[5] = {2, 3, 5, 7, 11};
            for (int p = 0; p < 5; ++p) for (int q = 0; q < 5; ++q) for (int r = 0; r < 5; ++r)
            {
                if (p == q || q == r || p == r) continue;
                Vec3<T>     v (T (P5[p]) / 8, T (-P5[q]) / 8, T (P5[r]) / 16);
                std::string inv = in + (vf::Msg () << " v=(" << v.x << " " << v.y << " " << v.z << ")").str ();
                E e1 (v, ord, E::XYZLayout);
                E e2 (v.x, v.y, v.z, ord, E::XYZLayout);
                E e3 (ord);
                e3.setXYZVector (v);
                auto same3 = [] (const Vec3<T>& A, const Vec3<T>& B) { return ex::same (A.x, B.x) && ex::same (A.y, B.y) && ex::same (A.z, B.z); };
                if (!same3 (e1, e2) || !same3 (e1, e3) || e1.order () != ord || e2.order () != ord || e3.order () != ord)
                    R ().fail ("Euler.XYZLayout.constructors-vs-setXYZVector", inv);
                if (!same3 (e1.toXYZVector (), v))
                    R ().fail ("Euler::toXYZVector.inverts-setXYZVector", inv, vf::Msg () << v.x << " " << v.y << " " << v.z, vf::Msg () << e1.toXYZVector ().x << " " << e1.toXYZVector ().y << " " << e1.toXYZVector ().z);
                // a permutation of the slots: each component of v lands in exactly one slot
                int hit[3] = {0, 0, 0};
                for (int s = 0; s < 3; ++s) for (int u = 0; u < 3; ++u) if (ex::same (e1[s], v[u])) ++hit[u];
                if (hit[0] != 1 || hit[1] != 1 || hit[2] != 1) R ().fail ("Euler::setXYZVector.is-permutation", inv);
                // ijk -> xyz -> ijk
                E w (v, ord); // IJK layout
                E w2 (w.toXYZVector (), ord, E::XYZLayout);
                if (!same3 (w, w2)) R ().fail ("Euler::setXYZVector.inverts-toXYZVector", inv);
                // documented meaning for fixed-axis orders: the slot of axis a holds v[a]
                if (O.frameStatic ())
                {
                    bool ok = true;
                    for (int s = 0; s < 3; ++s) ok = ok && ex::same (e1[s], v[nx[s]]);
                    if (!ok) R ().fail ("Euler.XYZLayout.slot-of-axis.static-nonrepeated", inv, vf::Msg () << v[nx[0]] << " " << v[nx[1]] << " " << v[nx[2]], vf::Msg () << e1.x << " " << e1.y << " " << e1.z);
                    // and it is the same rotation as the reference built from per-axis angles
                    LD dd = ref::maxdiff (ref::fromLib<3> (e1.toMatrix33 ()), xyzLayoutRef (O, v.x, v.y, v.z));
                    if (!(dd <= 8 * ex::eps<T> ())) R ().fail ("Euler.XYZLayout.rotation.static-nonrepeated", inv, "<= 8 eps", ref::fmtE (dd / ex::eps<T> ()) + " eps");
                }
                trans += 6;
                ++states;
            }
        }
    }
}

void stage_orders ()
{
    if (!R ().stage ("orders-and-layout")) return;
    // the table must be the full product of the four bit-fields
    std::set<int> vals;
    for (const OrderInfo& O : ORDERS) vals.insert (O.value);
    std::set<int> want;
    for (int a = 0; a < 3; ++a) for (int b = 0; b < 8; ++b) want.insert ((a << 12) | ((b & 4) << 6) | ((b & 2) << 3) | (b & 1));
    if (vals != want) R ().fail ("reference.order-table-complete", "24 enumerators", "3 axes x 2^3 flags", std::to_string (vals.size ()) + " distinct values");
    long long st = 0, tr = 0;
    orders_T<float> (st, tr);
    orders_T<double> (st, tr);
    R ().add ("states", st);
    R ().add ("transitions", tr);
    R ().add ("evaluations", st);
    R ().cls ("orders.24x24-setOrder-histories", 2 * 24 * 24);
    R ().sample ("XZYr = 0x2100 decodes to axis z, parity even, not repeated, rotating: reference = fixed-axis ZXY with the triple reversed");
    R ().stage_done ("24 orders x {float,double}: order()/setOrder/set/legal/bit-fields/angleOrder, 24x24 setOrder histories, 60 distinct-prime XYZ-layout triples per non-repeated order");
}

// ---- re-ordering constructor: Euler(e, newOrder) keeps the rotation
template <class T> static bool reorder_T (int step, long long& cases)
{
    typedef Euler<T>          E;
    typedef typename E::Order Ord;
    const LD                  eps = ex::eps<T> ();
    std::vector<int>          ks;
    for (int k = -12; k <= 12; k += step) ks.push_back (k);
    const uint64_t       ng = ks.size () * ks.size () * ks.size ();
    std::atomic<long long> n (0);
    std::mutex           mu;
    double               worst = 0;
    bool ok = vf::parallel_chunks (576 * ng, ng, [&] (uint64_t lo, uint64_t hi, unsigned) {
        double lw = 0;
        for (uint64_t i = lo; i < hi; ++i)
        {
            const OrderInfo& O1 = ORDERS[(i / ng) / 24];
            const OrderInfo& O2 = ORDERS[(i / ng) % 24];
            int              dg[3];
            ex::decode (i % ng, (unsigned) ks.size (), 3, dg);
            T a0 = gridAngle<T> (ks[dg[0]]), a1 = gridAngle<T> (ks[dg[1]]), a2 = gridAngle<T> (ks[dg[2]]);
            E e1 (a0, a1, a2, (Ord) O1.value);
            E e2 (e1, (Ord) O2.value);
            if (e2.order () != (Ord) O2.value) R ().fail ("Euler(Euler,newOrder).order", caseStr (O1, a0, a1, a2) + " new=" + O2.name, hex4 (O2.value), hex4 ((int) e2.order ()));
            LD d = ref::maxdiff (ref::fromLib<3> (e2.toMatrix33 ()), ref::fromLib<3> (e1.toMatrix33 ()));
            lw = std::max (lw, (double) (d / eps));
            if (!(d <= 16 * eps))
                R ().fail (std::string ("Euler(Euler,newOrder).keeps-rotation.to-") + O2.cls (), caseStr (O1, a0, a1, a2) + " new=" + O2.name, "within 16 eps",
                           vf::Msg () << ref::fmtE (d / eps) << " eps; new angles (" << e2.x << " " << e2.y << " " << e2.z << ")");
        }
        n += (long long) (hi - lo);
        std::lock_guard<std::mutex> g (mu);
        worst = std::max (worst, lw);
    });
    cases += n.load ();
    R ().note_max (std::string ("worst re-ordering rotation error (eps, ") + ref::tname<T> () + ")", worst);
    return ok;
}

void stage_reorder ()
{
    if (!R ().stage ("reorder")) return;
    int       step = R ().thorough () ? 1 : 2;
    long long n    = 0;
    bool      ok   = reorder_T<float> (step, n) && reorder_T<double> (step, n);
    R ().add ("states", n);
    R ().add ("transitions", 2 * n);
    R ().add ("evaluations", n);
    R ().cls ("reorder.order-pairs-x-triples", n);
    std::string b = "24x24 order pairs x (k*pi/6)^3, k in [-12,12] step " + std::to_string (step) + ", float and double";
    if (ok) R ().stage_done (b); else R ().stage_partial (std::to_string (n) + " cases of " + b);
}

// ---- 2-D: extractEuler(Matrix22 / Matrix33) inverts setRotation
// a-priori: row normalisation <= 1.5 eps per component, atan2 <= 1 ulp (2 eps at |r| ~ pi): the
// rebuilt 2x2 rotation is within 8 eps of the input matrix.
template <class T> static void extract2d_T (long long& cases, long long& lock)
{
    const LD  eps  = ex::eps<T> ();
    const int jmax = sizeof (T) == 4 ? 7 : 15;
    std::vector<T> angles;
    for (int k = -24; k <= 24; ++k) angles.push_back (gridAngle<T> (k));
    size_t ngrid = angles.size ();
    for (int b = -2; b <= 2; ++b)
        for (int j = 1; j <= jmax; ++j)
            for (int s = -1; s <= 1; s += 2) angles.push_back ((T) ((LD) b * ref::PI_LD / 2 + s * powl (10.0L, -(LD) j)));
    double worst = 0;
    for (size_t n = 0; n < angles.size (); ++n)
    {
        T           a  = angles[n];
        std::string in = vf::Msg () << "T=" << ref::tname<T> () << " angle=" << a;
        Matrix22<T> m2;
        m2.setRotation (a);
        Matrix33<T> m3;
        m3.setRotation (a);
        m3[2][0] = 3; m3[2][1] = -5; // a translation must not matter
        T r2 = 99, r3 = 99;
        extractEuler (m2, r2);
        extractEuler (m3, r3);
        ref::M2 want = ref::rot2 (a);
        LD d2 = ref::maxdiff (ref::rot2 (r2), ref::fromLib<2> (m2)), d3 = ref::maxdiff (ref::rot2 (r3), ref::fromLib<2> (m3));
        LD dw = ref::maxdiff (ref::fromLib<2> (m2), want);
        worst = std::max (worst, (double) (std::max (d2, d3) / eps));
        if (!(dw <= 2 * eps)) R ().fail ("Matrix22::setRotation.vs-definition", in, "<= 2 eps", ref::fmtE (dw / eps) + " eps");
        if (!(d2 <= 8 * eps)) R ().fail ("extractEuler(Matrix22).rebuild", in, "within 8 eps", vf::Msg () << ref::fmtE (d2 / eps) << " eps; rot " << r2);
        if (!(d3 <= 8 * eps)) R ().fail ("extractEuler(Matrix33).rebuild", in, "within 8 eps", vf::Msg () << ref::fmtE (d3 / eps) << " eps; rot " << r3);
        if (!(fabsl ((LD) r2) <= (LD) (T) ref::PI_LD + 2 * eps) || !(fabsl ((LD) r3) <= (LD) (T) ref::PI_LD + 2 * eps))
            R ().fail ("extractEuler(2-D).range", in, "|rot| <= pi", vf::Msg () << r2 << " " << r3);
        ++cases;
        if (n >= ngrid) ++lock;
    }
    R ().note_max (std::string ("worst 2-D extractEuler rebuild error (eps, ") + ref::tname<T> () + ")", worst);
}

void stage_extract2d ()
{
    if (!R ().stage ("extractEuler-2d")) return;
    long long n = 0, lock = 0;
    extract2d_T<float> (n, lock);
    extract2d_T<double> (n, lock);
    R ().add ("states", n);
    R ().add ("transitions", 3 * n);
    R ().add ("evaluations", n);
    R ().cls ("extractEuler2d.within-1e-j-of-quadrant-boundary", lock);
    R ().stage_done ("angles k*pi/6, k in [-24,24], and b*pi/2 +- 10^-j (b in [-2,2]) through Matrix22/Matrix33::setRotation and extractEuler, float and double");
}

} // namespace c11
