// C13 set-level stage, element type int64_t (one TU per type keeps the build parallel)
#include "c13_sets.hpp"
namespace c13 { template bool run_sets<int64_t> (bool); }
