// C17 — scalar, root and colour utilities equal their mathematical definitions.
//
// This TU: driver + the bit-pattern stages
//   float-bits-all   : ALL 2^32 float patterns: floor/ceil/trunc (|x| < 2^31) vs an integer model read off the
//                      bit pattern; succf/predf vs the bit-pattern neighbour model; finitef.
//   double-bits      : every exponent (2048) x mantissa {0,1,2^51,2^52-1} x sign, plus the values adjacent to
//                      k, k+-1/2 for k in a boundary set up to +-2^31: same functions in double.
//   int-div-grid     : divs/mods/divp/modp on the boundary-heavy int grid against int64 models.
//   int-div-ub       : the same grid + INT_MIN through an overflow-instrumented copy (c17_ub.cpp): no undefined
//                      signed overflow in the evaluation wherever no negation overflows.
// Other TUs: c17_scalar.cpp, c17_roots.cpp, c17_color.cpp.
//
// Oracles are written from the definitions (integer part / fraction flag of the binary expansion; "next bit
// pattern"; x = y*q + r in int64), not from the library's expressions.
#include "c17.hpp"
#include <ImathFun.h>
#include <algorithm>
#include <climits>

using namespace vf;
using c17::hx32;
using c17::hx64;

namespace {

// ---- integer model of floor / ceil / trunc from the binary expansion ------------------------------
// |x| = M * 2^E with integer M; ip = integer part of |x|, frac = (|x| is not an integer).
// Valid for every finite x with |x| < 2^63.
struct IPart { bool neg; uint64_t ip; bool frac; };

inline IPart ipart (float x)
{
    uint32_t u = ex::bits (x);
    int      e = (int) ((u >> 23) & 255);
    uint64_t M = e ? ((u & 0x7fffffu) | 0x800000u) : (u & 0x7fffffu);
    int      E = (e ? e : 1) - 150;
    IPart    r;
    r.neg = (u >> 31) != 0;
    if (E >= 0) { r.ip = M << E; r.frac = false; }
    else if (E <= -64) { r.ip = 0; r.frac = M != 0; }
    else { r.ip = M >> -E; r.frac = (M & ((1ull << -E) - 1)) != 0; }
    return r;
}
inline IPart ipart (double x)
{
    uint64_t u = ex::bits (x);
    int      e = (int) ((u >> 52) & 2047);
    uint64_t M = e ? ((u & 0xfffffffffffffull) | 0x10000000000000ull) : (u & 0xfffffffffffffull);
    int      E = (e ? e : 1) - 1075;
    IPart    r;
    r.neg = (u >> 63) != 0;
    if (E >= 0) { r.ip = M << E; r.frac = false; } // only reached for |x| >= 2^52; callers restrict |x| < 2^31
    else if (E <= -64) { r.ip = 0; r.frac = M != 0; }
    else { r.ip = M >> -E; r.frac = (M & ((1ull << -E) - 1)) != 0; }
    return r;
}
inline int64_t m_floor (const IPart& p) { return p.neg ? -(int64_t) p.ip - (p.frac ? 1 : 0) : (int64_t) p.ip; }
inline int64_t m_ceil (const IPart& p) { return p.neg ? -(int64_t) p.ip : (int64_t) p.ip + (p.frac ? 1 : 0); }
inline int64_t m_trunc (const IPart& p) { return p.neg ? -(int64_t) p.ip : (int64_t) p.ip; }
inline bool    fits (int64_t v) { return v >= INT_MIN && v <= INT_MAX; }

// ---- bit-pattern neighbour model -------------------------------------------------------------------
// finite x: the next representable value above; +-0 -> +denorm_min; max -> +inf; inf, NaN: unchanged.
// The successor of -denorm_min is a zero whose sign the documentation does not fix (see `zero_any`).
template <class U> struct Lay;
template <> struct Lay<uint32_t> { static constexpr uint32_t sign = 0x80000000u, inf = 0x7f800000u; };
template <> struct Lay<uint64_t> { static constexpr uint64_t sign = 0x8000000000000000ull, inf = 0x7ff0000000000000ull; };

template <class U> inline U succ_model (U u)
{
    const U S = Lay<U>::sign, INF = Lay<U>::inf;
    if ((u & ~S) >= INF) return u;
    if ((u & ~S) == 0) return 1;
    return (u & S) ? u - 1 : u + 1;
}
template <class U> inline U pred_model (U u)
{
    const U S = Lay<U>::sign;
    return succ_model<U> (u ^ S) ^ S; // mirror image
}
// compare with the model; a zero result matches a zero of either sign
template <class U> inline bool nb_ok (U got, U want)
{
    const U S = Lay<U>::sign;
    if ((want & ~S) == 0) return (got & ~S) == 0;
    return got == want;
}

struct Tally
{
    long long in_dom = 0, out_dom = 0, neg_frac = 0, half = 0, below1 = 0, denorm = 0, nan = 0, inf = 0, zero = 0,
              maxv = 0, integer = 0, trans = 0;
};

// one value, float or double
template <class T, class U> inline void check_value (T x, U u, Tally& t, const char* tn)
{
    const U  S = Lay<U>::sign, INF = Lay<U>::inf;
    const U  au = u & ~S;
    const bool is_nan = au > INF, is_inf = au == INF;
    const char* sfx = tn; // site names are only built on failure (this runs 2^32 times)

    // finitef / finited
    bool fin = sizeof (T) == 4 ? IM::finitef ((float) x) : IM::finited ((double) x);
    if (fin != (au < INF)) R ().fail (std::string ("finite") + sfx, Msg () << x, fmt (au < INF), fmt (fin));

    // succ / pred
    T sx, px;
    if (sizeof (T) == 4) { sx = (T) IM::succf ((float) x); px = (T) IM::predf ((float) x); }
    else { sx = (T) IM::succd ((double) x); px = (T) IM::predd ((double) x); }
    U su, pu;
    memcpy (&su, &sx, sizeof (U));
    memcpy (&pu, &px, sizeof (U));
    U ws = succ_model<U> (u), wp = pred_model<U> (u);
    if (!nb_ok<U> (su, ws)) R ().fail (std::string ("succ") + sfx, Msg () << x, sizeof (U) == 4 ? hx32 ((uint32_t) ws) : hx64 (ws), Msg () << sx);
    if (!nb_ok<U> (pu, wp)) R ().fail (std::string ("pred") + sfx, Msg () << x, sizeof (U) == 4 ? hx32 ((uint32_t) wp) : hx64 (wp), Msg () << px);
    t.trans += 3;
    if (is_nan) ++t.nan;
    else if (is_inf) ++t.inf;
    else if (au == 0) ++t.zero;
    else if (au == INF - 1) ++t.maxv;
    else if ((au >> (sizeof (U) == 4 ? 23 : 52)) == 0) ++t.denorm; // exponent field 0, mantissa != 0

    // floor / ceil / trunc on |x| < 2^31
    if (is_nan || is_inf) return;
    T ax = x < 0 ? -x : x;
    if (!(ax < (T) 2147483648.0)) { ++t.out_dom; return; }
    ++t.in_dom;
    IPart   p  = ipart (x);
    int64_t wf = m_floor (p), wc = m_ceil (p), wt = m_trunc (p);
    if (p.neg && p.frac) ++t.neg_frac;
    if (p.frac && (T) (ax - (T) p.ip) == (T) 0.5) ++t.half;
    if (p.ip == 0 && p.frac) ++t.below1;
    if (!p.frac) ++t.integer;
    // "result representable": the mathematical value must be an int
    if (fits (wf))
    {
        int g = IM::floor (x);
        ++t.trans;
        if (g != wf) R ().fail (std::string ("floor") + (sizeof (T) == 4 ? "<float>" : "<double>"), Msg () << x, fmt ((long long) wf), fmt (g));
    }
    if (fits (wc))
    {
        int g = IM::ceil (x);
        ++t.trans;
        if (g != wc) R ().fail (std::string ("ceil") + (sizeof (T) == 4 ? "<float>" : "<double>"), Msg () << x, fmt ((long long) wc), fmt (g));
    }
    {
        int g = IM::trunc (x);
        ++t.trans;
        if (g != wt) R ().fail (std::string ("trunc") + (sizeof (T) == 4 ? "<float>" : "<double>"), Msg () << x, fmt ((long long) wt), fmt (g));
    }
}

void publish (const Tally& t, const std::string& pfx)
{
    R ().cls (pfx + "in-domain", t.in_dom);
    R ().cls (pfx + "negative-non-integer", t.neg_frac);
    R ().cls (pfx + "exact-half", t.half);
    R ().cls (pfx + "magnitude-below-1", t.below1);
    R ().cls (pfx + "subnormal", t.denorm);
    R ().cls (pfx + "nan", t.nan);
    R ().cls (pfx + "inf", t.inf);
    R ().cls (pfx + "zero", t.zero);
    R ().cls (pfx + "max-finite", t.maxv);
    R ().add (pfx + "outside_domain_2^31_skipped_for_floor", t.out_dom);
    R ().add (pfx + "integers.generic", t.integer);
}

void add (Tally& a, const Tally& b)
{
    a.in_dom += b.in_dom; a.out_dom += b.out_dom; a.neg_frac += b.neg_frac; a.half += b.half; a.below1 += b.below1;
    a.denorm += b.denorm; a.nan += b.nan; a.inf += b.inf; a.zero += b.zero; a.maxv += b.maxv; a.integer += b.integer;
    a.trans += b.trans;
}

// ---- int64 models of the four integer divisions ----------------------------------------------------
inline void trunc_div (int64_t x, int64_t y, int64_t& q, int64_t& r) { q = x / y; r = x % y; } // C++11: truncating, sign(r)=sign(x)
inline void eucl_div (int64_t x, int64_t y, int64_t& q, int64_t& r)
{
    int64_t ay = y < 0 ? -y : y;
    r = ((x % ay) + ay) % ay; // 0 <= r < |y|
    q = (x - r) / y;          // exact
}

// the boundary-heavy int alphabet of the division stages (INT_MIN itself is added by the stage that can use it)
std::vector<int> int_alphabet ()
{
    std::vector<int> A;
    for (int k = 1; k <= 4; ++k) A.push_back (INT_MIN + k);
    for (int k : {-65537, -65536, -65535}) A.push_back (k);
    for (int k = -7; k <= 7; ++k) A.push_back (k);
    if (R ().thorough ())
    {
        for (int k = 8; k <= 40; ++k) { A.push_back (k); A.push_back (-k); }
        for (int k : {255, 256, 257, 32767, 32768, 46340, 46341, 1 << 30, (1 << 30) + 1, INT_MAX / 2, INT_MAX / 3, 715827882, 715827883}) { A.push_back (k); A.push_back (-k); }
        for (int k = 5; k <= 40; ++k) { A.push_back (INT_MIN + k); A.push_back (INT_MAX - k + 1); }
    }
    for (int k : {65535, 65536, 65537}) A.push_back (k);
    for (int k = 3; k >= 0; --k) A.push_back (INT_MAX - k);
    std::sort (A.begin (), A.end ());
    A.erase (std::unique (A.begin (), A.end ()), A.end ());
    return A;
}

} // namespace

int main (int argc, char** argv)
{
    R ().property = "C17";
    R ().parse (argc, argv);
    R ().assume ("x86-64 SSE2 arithmetic: float/double operations are IEEE-754 binary32/binary64, no FMA contraction (-O2, baseline ISA)");
    R ().assume ("NaN arguments of the int-valued functions are outside the stated domain and are not enumerated; INT_MIN operands of the integer divisions are enumerated in stage int-div-ub only, where a call is inside the premise iff no unary minus overflowed in it");

    // ---- model self-check: the integer model agrees with long-double floorl/ceill/truncl on a boundary set
    if (R ().stage ("oracle-selfcheck"))
    {
        long long n = 0;
        for (int k = -40; k <= 40; ++k)
            for (int d = -3; d <= 3; ++d)
                for (int h = 0; h < 2; ++h)
                {
                    double base = (double) k * 53687091.0 + (h ? 0.5 : 0.0); // spans +-2^31
                    double x    = ex::dbits (ex::bits (base) + (uint64_t) (int64_t) d);
                    if (!(std::fabs (x) < 2147483648.0)) continue;
                    IPart p = ipart (x);
                    ++n;
                    if ((long double) m_floor (p) != floorl ((long double) x) || (long double) m_ceil (p) != ceill ((long double) x) ||
                        (long double) m_trunc (p) != truncl ((long double) x))
                        R ().fail ("oracle.selfcheck.double", Msg () << x);
                    float  xf = (float) x;
                    IPart  q  = ipart (xf);
                    if ((long double) m_floor (q) != floorl ((long double) xf) || (long double) m_ceil (q) != ceill ((long double) xf) ||
                        (long double) m_trunc (q) != truncl ((long double) xf))
                        R ().fail ("oracle.selfcheck.float", Msg () << xf);
                }
        R ().add ("oracle_selfcheck_cases", n);
        R ().stage_done ("integer-part model == floorl/ceill/truncl on 81x7x2 values spanning +-2^31");
    }

    // ---- all 2^32 floats
    if (R ().stage ("float-bits-all"))
    {
        std::mutex  mu;
        Tally       tot;
        std::atomic<long long> done (0);
        bool complete = parallel_chunks (1ull << 32, 1ull << 20, [&] (uint64_t lo, uint64_t hi, unsigned) {
            Tally t;
            for (uint64_t i = lo; i < hi; ++i)
            {
                uint32_t u = (uint32_t) i;
                check_value<float, uint32_t> (ex::fbits (u), u, t, "f");
            }
            std::lock_guard<std::mutex> g (mu);
            add (tot, t);
            done += (long long) (hi - lo);
        });
        R ().add ("states", done.load ());
        R ().add ("evaluations", done.load ());
        R ().add ("transitions", tot.trans);
        publish (tot, "float.");
        R ().sample ("floor(-0.5f) = " + fmt (IM::floor (-0.5f)) + ", ceil(-0.5f) = " + fmt (IM::ceil (-0.5f)) + ", trunc(-0.5f) = " + fmt (IM::trunc (-0.5f)));
        R ().sample ("floor(-2147483520.f) = " + fmt (IM::floor (-2147483520.f)));
        R ().sample ("succf(-denorm_min) = " + fmt (IM::succf (ex::fbits (0x80000001u))) + ", succf(max) = " + fmt (IM::succf (ex::fbits (0x7f7fffffu))));
        if (complete) R ().stage_done ("all 2^32 float patterns x {floor, ceil, trunc (|x|<2^31), succf, predf, finitef} vs bit-pattern models");
        else R ().stage_partial (std::to_string (done.load ()) + " of 2^32 patterns");
    }

    // ---- doubles: every exponent x boundary mantissas x sign; neighbours of k, k+1/2 around the int range ends
    if (R ().stage ("double-bits"))
    {
        Tally                 t;
        std::vector<uint64_t> pats;
        std::vector<uint64_t> mant = {0, 1, 1ull << 51, (1ull << 52) - 1};
        if (R ().thorough ())
            for (uint64_t m : {2ull, 3ull, 1ull << 26, (1ull << 51) - 1, (1ull << 51) + 1, (1ull << 52) - 2, 0x5555555555555ull, 0xAAAAAAAAAAAAAull}) mant.push_back (m);
        for (uint64_t e = 0; e < 2048; ++e)
            for (uint64_t m : mant)
                for (uint64_t s = 0; s < 2; ++s) pats.push_back ((s << 63) | (e << 52) | m);
        const double ks[] = {0, 1, 2, 3, 7, 8, 255, 256, 65535, 65536, 8388607, 8388608, 16777215, 16777216, 16777217,
                             1073741823, 1073741824, 2147483645, 2147483646, 2147483647, 2147483648.0};
        for (double k : ks)
            for (int h = 0; h < 2; ++h)
                for (int d = -2; d <= 2; ++d)
                    for (int s = 0; s < 2; ++s)
                    {
                        double   b = k + (h ? 0.5 : 0.0);
                        uint64_t u = ex::bits (b) + (uint64_t) (int64_t) d;
                        if (b == 0 && d < 0) continue;
                        pats.push_back (u | ((uint64_t) s << 63));
                    }
        for (uint64_t u : pats) check_value<double, uint64_t> (ex::dbits (u), u, t, "d");
        R ().add ("states", (long long) pats.size ());
        R ().add ("evaluations", (long long) pats.size ());
        R ().add ("transitions", t.trans);
        publish (t, "double.");
        R ().sample ("floor(-2147483647.5) = " + fmt (IM::floor (-2147483647.5)) + ", trunc(2147483647.5) = " + fmt (IM::trunc (2147483647.5)));
        R ().stage_done ("2048 exponents x " + std::to_string (mant.size ()) + " mantissas {0,1,2^51,2^52-1" + std::string (R ().thorough () ? ",2,3,2^26,2^51+-1,2^52-2,0x5..5,0xA..A" : "") + "} x sign + 5 neighbours of k and k+1/2 for 21 boundary k up to 2^31, both signs");
    }

    // ---- int grid
    if (R ().stage ("int-div-grid"))
    {
        std::vector<int> A = int_alphabet ();
        long long pairs = 0, trans = 0, sg[4] = {0, 0, 0, 0}, exact = 0, ovf = 0;
        for (int xi : A)
            for (int yi : A)
            {
                if (yi == 0) continue;
                // volatile: the library functions are constexpr; force run-time evaluation of the real code
                volatile int xv = xi, yv = yi;
                int          x = xv, y = yv;
                ++pairs;
                sg[(x < 0 ? 2 : 0) + (y < 0 ? 1 : 0)]++;
                int64_t tq, tr, eq, er;
                trunc_div (x, y, tq, tr);
                eucl_div (x, y, eq, er);
                if (tr == 0) ++exact;
                std::string in = Msg () << x << " " << y;
                int ds = IM::divs (x, y), ms = IM::mods (x, y), dp = IM::divp (x, y), mp = IM::modp (x, y);
                trans += 4;
                if (ds != tq) R ().fail ("divs", in, fmt ((long long) tq), fmt (ds));
                if (ms != tr) R ().fail ("mods", in, fmt ((long long) tr), fmt (ms));
                if ((int64_t) y * ds + ms != x) R ().fail ("divs.mods.identity", in, "x == y*divs + mods", Msg () << ds << " " << ms);
                // The only intermediate of divp that can leave the int range although no negation does is
                // |y|-1-x for x < 0 (the rounding offset added before the division).
                bool offset_overflows = x < 0 && ((int64_t) (y < 0 ? -(int64_t) y : (int64_t) y) - 1 - (int64_t) x) > INT_MAX;
                if (offset_overflows) ++ovf;
                const char* sp = offset_overflows ? "divp.modp.overflow-in-y-1-x" : "divp";
                const char* sm = offset_overflows ? "divp.modp.overflow-in-y-1-x" : "modp";
                if (dp != eq) R ().fail (sp, in, "divp = " + fmt ((long long) eq), fmt (dp));
                if (mp != er) R ().fail (sm, in, "modp = " + fmt ((long long) er), fmt (mp));
                if (!offset_overflows && ((int64_t) y * dp + mp != x || mp < 0 || mp >= (y < 0 ? -(int64_t) y : (int64_t) y)))
                    R ().fail ("divp.modp.identity", in, "x == y*divp + modp, 0 <= modp < |y|", Msg () << dp << " " << mp);
            }
        R ().add ("states", pairs);
        R ().add ("evaluations", pairs);
        R ().add ("transitions", trans);
        R ().cls ("int.x>=0,y>0", sg[0]); R ().cls ("int.x>=0,y<0", sg[1]); R ().cls ("int.x<0,y>0", sg[2]); R ().cls ("int.x<0,y<0", sg[3]);
        R ().cls ("int.exact-quotient", exact);
        R ().cls ("int.rounding-offset-exceeds-int", ovf);
        R ().sample ("divp(-7,2) = " + fmt (IM::divp (-7, 2)) + ", modp(-7,2) = " + fmt (IM::modp (-7, 2)) + ", divs(-7,2) = " + fmt (IM::divs (-7, 2)) + ", mods(-7,2) = " + fmt (IM::mods (-7, 2)));
        R ().stage_done (std::to_string (A.size ()) + "^2 pairs minus y=0 on {INT_MIN+1..+4, -2^16+-1, -7..7, 2^16+-1, INT_MAX-3..INT_MAX}" + std::string (R ().thorough () ? " + 162 further boundary values" : "") + " x {divs, mods, divp, modp} vs int64 truncating / Euclidean division");
    }


    // ---- int grid again, through the instrumented copy of the four functions (c17_ub.cpp): the evaluation itself
    // must be free of undefined behaviour wherever the statement's premise holds.
    //   premise ("all ints where no intermediate negation overflows"): decided per call by the negate call-back of
    //   the instrumentation — a call in which a unary minus overflowed is outside the statement and only counted;
    //   x = INT_MIN, y = -1 for divp/modp is outside as well (the quotient 2^31 is not an int: no function can satisfy
    //   x = y*divp + modp there).
    //   demanded: no other signed operation (+, binary -, *, /, %) leaves the int range. A result that happens to be
    //   right after two's-complement wrap-around is still undefined behaviour (constant evaluation rejects it, -ftrapv
    //   aborts, the optimiser may assume it away).
    // Alphabet: the int-div-grid alphabet plus INT_MIN itself (for divp/modp no negation touches x, so x = INT_MIN is
    // inside the premise; their values there are compared with the Euclidean model as well).
    if (R ().stage ("int-div-ub"))
    {
        std::vector<int> A = int_alphabet ();
        A.push_back (INT_MIN);
        std::sort (A.begin (), A.end ());
        // instrumentation self-check: every kind of call-back is live, and a clean operation raises none
        {
            volatile int big = INT_MAX, mn = INT_MIN, one = 1, m1 = -1;
            unsigned     seen = 0, clean = 0;
            (void) c17ub::take ();
            (void) c17ub::probe (0, big, one); seen |= c17ub::take ();
            (void) c17ub::probe (1, mn, one); seen |= c17ub::take ();
            (void) c17ub::probe (2, big, big); seen |= c17ub::take ();
            (void) c17ub::probe (3, mn, one); seen |= c17ub::take ();
            for (int k = 0; k < 5; ++k) { (void) c17ub::probe (k, 7, 3); clean |= c17ub::take (); }
            (void) m1; // (INT_MIN / -1 cannot be probed live: the call-back returns and the division instruction traps)
            if (seen != 15u || clean != 0) R ().fail ("oracle.selfcheck.overflow-instrumentation", "one overflowing and one clean operation of each kind", "flags 15 / 0", fmt (seen) + " / " + fmt (clean));
            R ().cls ("int.ub.instrumentation-kinds-live", __builtin_popcount (seen));
        }
        const char* FN[4] = {"divs", "mods", "divp", "modp"};
        long long   calls = 0, in_premise = 0, negation = 0, unrep = 0, xmin_in = 0, prod_out = 0, pairs = 0;
        for (int xi : A)
            for (int yi : A)
            {
                if (yi == 0) continue;
                volatile int xv = xi, yv = yi;
                int          x = xv, y = yv;
                ++pairs;
                int64_t eq = 0, er = 0, tq = 0, tr = 0;
                trunc_div (x, y, tq, tr);
                eucl_div (x, y, eq, er);
                for (int w = 0; w < 4; ++w)
                {
                    if (x == INT_MIN && y == -1) { ++unrep; continue; } // quotient 2^31 (divs: also a negation of INT_MIN)
                    (void) c17ub::take ();
                    int      got = c17ub::call (w, x, y);
                    unsigned fl  = c17ub::take ();
                    ++calls;
                    if (fl & c17ub::NEG) { ++negation; continue; } // outside the premise
                    ++in_premise;
                    std::string in = std::string (FN[w]) + " " + fmt (x) + " " + fmt (y);
                    // input class of the one known way to get there: modp forms y*divp(x,y) = x - modp, which lies below
                    // INT_MIN when x is closer to INT_MIN than the remainder
                    bool product_unrepresentable = w == 3 && !fits ((int64_t) y * eq);
                    if (product_unrepresentable) ++prod_out;
                    if (fl)
                    {
                        std::string kinds;
                        if (fl & c17ub::ADD) kinds += "+add";
                        if (fl & c17ub::SUB) kinds += "+sub";
                        if (fl & c17ub::MUL) kinds += "+mul";
                        if (fl & c17ub::DIVREM) kinds += "+divrem";
                        std::string site = product_unrepresentable && (fl & c17ub::MUL) ? std::string ("modp.signed-overflow.y*divp-below-INT_MIN")
                                                                                        : std::string (FN[w]) + ".signed-overflow." + kinds.substr (1);
                        R ().fail (site, in, "no signed overflow in the evaluation (no negation overflows for this input)", "overflow in: " + kinds.substr (1) + "; returned " + fmt (got));
                    }
                    // values for the new operand INT_MIN (everything else is compared in int-div-grid)
                    if (x == INT_MIN || y == INT_MIN)
                    {
                        if (x == INT_MIN && w >= 2) ++xmin_in;
                        int64_t want = w == 0 ? tq : (w == 1 ? tr : (w == 2 ? eq : er));
                        if (got != want) R ().fail (std::string (FN[w]) + ".INT_MIN-operand", in, fmt ((long long) want), fmt (got));
                    }
                }
            }
        R ().add ("states", pairs); R ().add ("evaluations", calls); R ().add ("transitions", calls);
        R ().cls ("int.ub.calls-inside-premise", in_premise);
        R ().cls ("int.ub.calls-outside-premise(negation-overflows)", negation);
        R ().cls ("int.ub.divp-modp.x=INT_MIN-inside-premise", xmin_in);
        R ().cls ("int.ub.modp.y*divp-not-representable", prod_out);
        R ().add ("int.ub.quotient_2^31_not_representable_skipped", unrep);
        R ().stage_done (std::to_string (A.size ()) + "^2 pairs minus y=0 (int-div-grid alphabet + INT_MIN) x {divs, mods, divp, modp} through the overflow-instrumented copy: no signed +,-,*,/ overflow where no negation overflows; values at INT_MIN operands");
    }

    c17_scalar_stages ();
    c17_roots_stages ();
    c17_color_stages ();
    return R ().finish ();
}
