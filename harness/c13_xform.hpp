// C13 — transform / affineTransform, all four overloads, Box<Vec3<S>> x Matrix44<T>.
// Shared by c13_xform.cpp (S,T in {float,double}) and c13_xform_int.cpp (S in {int,short}, T in {float,double}).
// Oracle: exact integer / rational images of the 8 corners -> tight axis-aligned bound.
//   * integer affine matrices on lattice boxes: every product and sum is a small integer, exact in S and T,
//     so the result must EQUAL the exact bound (this also holds for integer S: (S)m[j][i] is exact);
//   * projective matrices, w != 0 on all corners: numerators and w are small integers (exact in S and T), the
//     only rounding is the final division x/w (correctly rounded, <= 1/2 ulp, whatever the sign of w) and
//     rounding is monotone, so min/max commute with it; tolerance fixed a priori at 2 ulp of the exact bound
//     (DESIGN.md C13). The statement's "tight bound of the images of the box's corners" is well defined as
//     soon as no corner has w == 0; "hence contains the image of every point" needs w of one sign on the whole
//     box and is therefore only self-checked (oracle.selfcheck) when all eight w have the same sign;
//   * integer S with a projective matrix: only matrices whose corner images are integers (w = +-2 constant,
//     even block and translation), where x/w is an exact integer division.
// The out-parameter forms are called with `result` PRE-FILLED with an unrelated box (and, separately, with a
// default-constructed result): the contract is "the transformed box is returned in result".
#pragma once
#include "c13_common.hpp"
#include <array>

namespace c13 {
namespace xf {

struct IM { int a[3][3]; int t[3]; int w[4]; }; // p' = p*A + t ; w = p . w[0..2] + w[3]

template <class T> inline Matrix44<T> mk (const IM& m)
{
    Matrix44<T> r;
    for (int j = 0; j < 3; ++j) { for (int i = 0; i < 3; ++i) r[j][i] = (T) m.a[j][i]; r[j][3] = (T) m.w[j]; }
    for (int i = 0; i < 3; ++i) r[3][i] = (T) m.t[i];
    r[3][3] = (T) m.w[3];
    return r;
}
inline std::string mstr (const IM& m)
{
    std::string s = "M44[";
    for (int j = 0; j < 4; ++j)
    {
        s += j ? " | " : "";
        for (int i = 0; i < 4; ++i)
        {
            int v = i < 3 ? (j < 3 ? m.a[j][i] : m.t[i]) : m.w[j];
            s += (i ? " " : "") + std::to_string (v);
        }
    }
    return s + "]";
}
template <class S> inline std::string b3 (const Box<Vec3<S>>& b) { return "{min=" + vstr<Vec3<S>> (b.min) + " max=" + vstr<Vec3<S>> (b.max) + "}"; }
template <class S, class T> inline std::string tt () { return std::string ("Box3<") + TName<S>::n () + "> x M44<" + TName<T>::n () + ">"; }

static const int FILL[5][3][3] = {
    {{1, 1, 1}, {1, 1, 1}, {1, 1, 1}},
    {{-1, -1, -1}, {-1, -1, -1}, {-1, -1, -1}},
    {{2, 2, 2}, {2, 2, 2}, {2, 2, 2}},
    {{2, -1, 1}, {1, 2, -1}, {-1, 1, 2}},
    {{-1, 2, 2}, {2, -1, 1}, {1, 1, -1}}};
static const int TQ[3][3] = {{0, 0, 0}, {1, -2, 2}, {-2, 1, -1}};

struct LBox { int mn[3], mx[3]; };
// exact fraction, denominator kept positive, compared by cross-multiplication (small integers: no overflow)
struct Q
{
    long long n = 0, d = 1;
    Q () {}
    Q (long long nn, long long dd) : n (dd < 0 ? -nn : nn), d (dd < 0 ? -dd : dd) {}
    bool operator< (const Q& o) const { return n * o.d < o.n * d; }
    bool operator> (const Q& o) const { return o < *this; }
    long double ld () const { return (long double) n / (long double) d; }
    std::string str () const { return ex::Rat ((ex::i128) n, (ex::i128) d).str (); }
};
inline std::vector<LBox> lattice_boxes (bool nonempty, const std::vector<int>& coords)
{
    std::vector<LBox> v;
    size_t n = coords.size ();
    for (uint64_t k = 0; k < ex::ipow (n * n, 3); ++k)
    {
        LBox b; uint64_t x = k; bool ne = true;
        for (int i = 0; i < 3; ++i) { int d = (int) (x % (n * n)); x /= n * n; b.mn[i] = coords[d % n]; b.mx[i] = coords[d / n]; ne = ne && b.mn[i] <= b.mx[i]; }
        if (ne == nonempty) v.push_back (b);
    }
    return v;
}
inline bool has_negative (const LBox& b) { for (int i = 0; i < 3; ++i) if (b.mn[i] < 0) return true; return false; }
inline bool straddles_zero (const LBox& b) { for (int i = 0; i < 3; ++i) if (b.mn[i] < 0 && b.mx[i] > 0) return true; return false; }

// exact bound of the images of the 8 corners under an integer affine map
inline void affine_bound (const IM& m, const LBox& b, int* omn, int* omx)
{
    for (int c = 0; c < 8; ++c)
    {
        int p[3] = {(c & 1) ? b.mx[0] : b.mn[0], (c & 2) ? b.mx[1] : b.mn[1], (c & 4) ? b.mx[2] : b.mn[2]};
        for (int i = 0; i < 3; ++i)
        {
            int v = p[0] * m.a[0][i] + p[1] * m.a[1][i] + p[2] * m.a[2][i] + m.t[i];
            if (c == 0 || v < omn[i]) omn[i] = v;
            if (c == 0 || v > omx[i]) omx[i] = v;
        }
    }
}

template <class S> inline Box<Vec3<S>> prefill (int which)
{
    if (which == 0) return Box<Vec3<S>> (Vec3<S> (100, 100, 100), Vec3<S> (200, 200, 200));
    if (which == 1) return Box<Vec3<S>> (Vec3<S> (-300, -300, -300), Vec3<S> (-250, -250, -250));
    return Box<Vec3<S>> (); // default-constructed (how the library's own tests call it)
}
inline const char* prefill_name (int which) { return which == 0 ? "result pre-filled [100..200]^3" : which == 1 ? "result pre-filled [-300..-250]^3" : "result default-constructed"; }

template <class S> inline bool eq_int (const Box<Vec3<S>>& r, const int* mn, const int* mx)
{
    for (int i = 0; i < 3; ++i) if (r.min[i] != (S) mn[i] || r.max[i] != (S) mx[i]) return false;
    return true;
}
inline std::string ibox (const int* mn, const int* mx)
{
    return "{min=(" + std::to_string (mn[0]) + "," + std::to_string (mn[1]) + "," + std::to_string (mn[2]) + ") max=(" +
           std::to_string (mx[0]) + "," + std::to_string (mx[1]) + "," + std::to_string (mx[2]) + ")}";
}
template <class S> inline Box<Vec3<S>> mkb (const LBox& lb)
{
    return Box<Vec3<S>> (Vec3<S> ((S) lb.mn[0], (S) lb.mn[1], (S) lb.mn[2]), Vec3<S> ((S) lb.mx[0], (S) lb.mx[1], (S) lb.mx[2]));
}

// one affine (matrix, box) case through the four overloads. `sfx` narrows the site to the input class
// ("" = the original alphabet: non-negative box, float/double S; ".signed-box"; ".integer-box")
template <class S, class T> inline void affine_case (const IM& im, const Matrix44<T>& M, const LBox& lb, long long& trans, const char* sfx)
{
    typedef Box<Vec3<S>> B;
    B   bx = mkb<S> (lb);
    int mn[3], mx[3];
    affine_bound (im, lb, mn, mx);
    auto in = [&] (const char* extra) { return tt<S, T> () + " box=" + b3 (bx) + " m=" + mstr (im) + (*extra ? std::string (" ") + extra : std::string ()); };
    auto site = [&] (const char* s) { return std::string (s) + sfx; };
    B r1 = transform (bx, M);
    if (!eq_int (r1, mn, mx)) vf::R ().fail (site ("transform(box,m).affine"), in (""), ibox (mn, mx), b3 (r1));
    B r3 = affineTransform (bx, M);
    if (!eq_int (r3, mn, mx)) vf::R ().fail (site ("affineTransform(box,m)"), in (""), ibox (mn, mx), b3 (r3));
    for (int pf = 0; pf < 3; ++pf)
    {
        B r2 = prefill<S> (pf); transform (bx, M, r2);
        if (!eq_int (r2, mn, mx)) vf::R ().fail (site ("transform(box,m,result).affine"), in (prefill_name (pf)), ibox (mn, mx), b3 (r2));
        B r4 = prefill<S> (pf); affineTransform (bx, M, r4);
        if (!eq_int (r4, mn, mx)) vf::R ().fail (site ("affineTransform(box,m,result)"), in (prefill_name (pf)), ibox (mn, mx), b3 (r4));
    }
    // in-place use: `result` is the very object passed as `box` (both parameters are references, nothing forbids it)
    {
        B a1 = bx; transform (a1, M, a1);
        if (!eq_int (a1, mn, mx)) vf::R ().fail (site ("transform(box,m,result).result-aliases-box"), in ("transform(b, m, b)"), ibox (mn, mx), b3 (a1));
        B a2 = bx; affineTransform (a2, M, a2);
        if (!eq_int (a2, mn, mx)) vf::R ().fail (site ("affineTransform(box,m,result).result-aliases-box"), in ("affineTransform(b, m, b)"), ibox (mn, mx), b3 (a2));
        trans += 2;
    }
    // every lattice point of the box maps inside the returned box (integer arithmetic for the image)
    for (int x = lb.mn[0]; x <= lb.mx[0]; ++x)
        for (int y = lb.mn[1]; y <= lb.mx[1]; ++y)
            for (int z = lb.mn[2]; z <= lb.mx[2]; ++z)
            {
                int p[3] = {x, y, z}; Vec3<S> img;
                for (int i = 0; i < 3; ++i) img[i] = (S) (p[0] * im.a[0][i] + p[1] * im.a[1][i] + p[2] * im.a[2][i] + im.t[i]);
                if (!r1.intersects (img))
                    vf::R ().fail (site ("transform(box,m).contains-image-of-point"), in ("") + " p=(" + std::to_string (x) + "," + std::to_string (y) + "," + std::to_string (z) + ")",
                                   "image " + vstr<Vec3<S>> (img) + " inside", b3 (r1));
            }
    trans += 8;
}

struct MI { unsigned pat, fill; int t[3]; };
inline IM im_of (const MI& mi, bool* neg = nullptr, int* nz = nullptr)
{
    IM im; bool n = false; int z = 0;
    for (int j = 0; j < 3; ++j) for (int i = 0; i < 3; ++i)
    { im.a[j][i] = ((mi.pat >> (j * 3 + i)) & 1) ? FILL[mi.fill][j][i] : 0; if (im.a[j][i] < 0) n = true; if (im.a[j][i]) ++z; }
    for (int i = 0; i < 3; ++i) { im.t[i] = mi.t[i]; im.w[i] = 0; }
    im.w[3] = 1;
    if (neg) *neg = n;
    if (nz) *nz = z;
    return im;
}
// 512 sparsity patterns x 5 fillings x the translations TQ[t0..t1)
inline std::vector<MI> pattern_matrices (int t0, int t1)
{
    std::vector<MI> mats;
    for (int t = t0; t < t1; ++t) for (unsigned fill = 0; fill < 5; ++fill) for (unsigned pat = 0; pat < 512; ++pat) mats.push_back ({pat, fill, {TQ[t][0], TQ[t][1], TQ[t][2]}});
    return mats;
}

struct AffineTally { std::atomic<long long> trans{0}, cases{0}, neg{0}, sparse{0}, full{0}, zero{0}, negbox{0}, straddle{0}; };

// every matrix of `mats` x every box of `boxes` through affine_case
template <class S, class T> inline bool affine_run (const std::vector<MI>& mats, const std::vector<LBox>& boxes, const char* sfx, AffineTally& A)
{
    long long nneg = 0, nstr = 0;
    for (auto& b : boxes) { if (has_negative (b)) ++nneg; if (straddles_zero (b)) ++nstr; }
    return vf::parallel_chunks (mats.size (), 8, [&] (uint64_t lo, uint64_t hi, unsigned) {
        long long l_trans = 0, l_neg = 0, l_sparse = 0, l_full = 0, l_zero = 0;
        for (uint64_t k = lo; k < hi; ++k)
        {
            bool neg; int nz;
            IM im = im_of (mats[k], &neg, &nz);
            Matrix44<T> M = mk<T> (im);
            for (auto& lb : boxes) affine_case<S, T> (im, M, lb, l_trans, sfx);
            long long nb = (long long) boxes.size ();
            if (nz == 0) l_zero += nb; else if (nz == 9) l_full += nb; else l_sparse += nb;
            if (neg) l_neg += nb;
        }
        A.trans += l_trans; A.cases += (long long) (hi - lo) * (long long) boxes.size ();
        A.neg += l_neg; A.sparse += l_sparse; A.full += l_full; A.zero += l_zero;
        A.negbox += (long long) (hi - lo) * nneg; A.straddle += (long long) (hi - lo) * nstr;
    });
}
// every 3x3 block over {-1,0,1,2}, one translation
template <class S, class T> inline bool affine_all_blocks (const std::vector<LBox>& boxes, const char* sfx, AffineTally& A)
{
    long long nneg = 0, nstr = 0;
    for (auto& b : boxes) { if (has_negative (b)) ++nneg; if (straddles_zero (b)) ++nstr; }
    return vf::parallel_chunks (262144, 64, [&] (uint64_t lo, uint64_t hi, unsigned) {
        long long l_trans = 0;
        for (uint64_t k = lo; k < hi; ++k)
        {
            int d[9]; ex::decode (k, 4, 9, d, -1);
            IM im;
            for (int j = 0; j < 3; ++j) for (int i = 0; i < 3; ++i) im.a[j][i] = d[j * 3 + i];
            for (int i = 0; i < 3; ++i) { im.t[i] = TQ[1][i]; im.w[i] = 0; }
            im.w[3] = 1;
            Matrix44<T> M = mk<T> (im);
            for (auto& lb : boxes) affine_case<S, T> (im, M, lb, l_trans, sfx);
        }
        A.trans += l_trans; A.cases += (long long) (hi - lo) * (long long) boxes.size ();
        A.negbox += (long long) (hi - lo) * nneg; A.straddle += (long long) (hi - lo) * nstr;
    });
}

// float/double S: the original alphabet (boxes over {0..3}) + boxes over {-2,-1,1,2} (negative and zero-straddling:
// with all box coordinates >= 0 the branch a<b of Arvo's loop is decided by the sign of m[j][i] alone)
template <class S, class T> bool affine_stage (bool thorough)
{
    const std::vector<LBox> boxes = lattice_boxes (true, {0, 1, 2, 3});
    // matrices: 512 sparsity patterns x 5 fillings x 3 translations; thorough adds every translation of L(2)
    // (125) for the generic filling FILL[3]
    std::vector<MI> mats = pattern_matrices (0, 3);
    if (thorough)
        for (int k = 0; k < 125; ++k)
        {
            int c[3]; ex::decode (k, 5, 3, c, -2);
            bool dup = false; for (auto& t : TQ) dup = dup || (t[0] == c[0] && t[1] == c[1] && t[2] == c[2]);
            if (!dup) for (unsigned pat = 0; pat < 512; ++pat) mats.push_back ({pat, 3, {c[0], c[1], c[2]}});
        }
    AffineTally A;
    bool ok = affine_run<S, T> (mats, boxes, "", A);
    if (ok && thorough) ok = affine_all_blocks<S, T> (lattice_boxes (true, {0, 2, 3}), "", A); // boxes with coordinates {0,2,3}
    vf::R ().add ("transitions", A.trans.load ()); vf::R ().add ("evaluations", A.cases.load ()); vf::R ().add ("states", A.cases.load ());
    vf::R ().cls ("affine.negative-entry(a>=b branch)", A.neg); vf::R ().cls ("affine.sparse-block", A.sparse);
    vf::R ().cls ("affine.full-block", A.full); vf::R ().cls ("affine.zero-block", A.zero);

    // signed boxes: quick = 512 patterns x 5 fillings x translation TQ[1] x the 216 boxes over {-2,-1,1} (all-negative,
    // zero-straddling and positive axes); thorough = all three translations x the 1000 boxes over {-2,-1,1,2} + (for the two
    // combinations with S == T) every block over {-1,0,1,2} x the 216 boxes over {-2,-1,2}
    AffineTally N;
    if (ok) ok = affine_run<S, T> (pattern_matrices (thorough ? 0 : 1, thorough ? 3 : 2),
                                   thorough ? lattice_boxes (true, {-2, -1, 1, 2}) : lattice_boxes (true, {-2, -1, 1}), ".signed-box", N);
    if (ok && thorough && std::is_same<S, T>::value) ok = affine_all_blocks<S, T> (lattice_boxes (true, {-2, -1, 2}), ".signed-box", N); // (S == T combinations)
    vf::R ().add ("transitions", N.trans.load ()); vf::R ().add ("evaluations", N.cases.load ()); vf::R ().add ("states", N.cases.load ());
    vf::R ().add ("affine_cases_signed_box", N.cases.load ());
    vf::R ().cls ("affine.signed-box.negative-coordinate", N.negbox); vf::R ().cls ("affine.signed-box.straddles-zero", N.straddle);
    vf::R ().cls ("affine.signed-box.negative-entry(a>=b branch)", N.neg);
    return ok;
}

// integer S (Box3i / Box3s): both box alphabets (quick: signed boxes over {-2,-1,1}); quick = translation TQ[1], thorough = all three
template <class S, class T> bool affine_stage_int (bool thorough)
{
    std::vector<LBox> boxes = lattice_boxes (true, {0, 1, 2, 3});
    for (auto& b : thorough ? lattice_boxes (true, {-2, -1, 1, 2}) : lattice_boxes (true, {-2, -1, 1})) boxes.push_back (b);
    AffineTally A;
    bool ok = affine_run<S, T> (pattern_matrices (thorough ? 0 : 1, thorough ? 3 : 2), boxes, ".integer-box", A);
    vf::R ().add ("transitions", A.trans.load ()); vf::R ().add ("evaluations", A.cases.load ()); vf::R ().add ("states", A.cases.load ());
    vf::R ().add ("affine_cases_integer_box", A.cases.load ());
    vf::R ().cls ("affine.integer-box.cases", A.cases); vf::R ().cls ("affine.integer-box.negative-entry(a>=b branch)", A.neg);
    vf::R ().cls ("affine.integer-box.negative-coordinate", A.negbox);
    return ok;
}

// ---- projective ---------------------------------------------------------------------------------------
static const int BLK[8][3][3] = {
    {{1, 0, 0}, {0, 1, 0}, {0, 0, 1}},  {{2, 0, 0}, {0, -1, 0}, {0, 0, 1}}, {{0, 1, 0}, {0, 0, 1}, {1, 0, 0}},
    {{2, -1, 1}, {1, 2, -1}, {-1, 1, 2}}, {{-1, 2, 2}, {2, -1, 1}, {1, 1, -1}}, {{0, 0, 0}, {0, 0, 0}, {0, 0, 0}},
    {{1, 1, 0}, {0, 0, 0}, {0, -1, 2}}, {{-2, 0, 1}, {0, 0, -1}, {0, 1, 0}}};

template <class S, class T> bool projective_stage (bool thorough)
{
    typedef Box<Vec3<S>> B;
    const std::vector<LBox> boxes = lattice_boxes (true, {0, 1, 2, 3});
    // m[3][3]: 1,2,10 (the original alphabet: w > 0 on most boxes, mixed sign through the -1 coefficients);
    // -1 (w <= 0 at the origin corner: negative / mixed / zero), -20 (w < 0 on every corner of every box: |p.w| <= 18)
    const int W33[5] = {1, 2, 10, -1, -20};
    const uint64_t NM = 8ull * 3 * 64 * 5;
    std::atomic<long long> trans (0), cases (0), skipped (0), c_neg (0), c_mixed (0);
    double worst = 0, worst_n = 0; std::mutex mu;
    bool ok = vf::parallel_chunks (NM, 4, [&] (uint64_t lo, uint64_t hi, unsigned) {
        long long l_trans = 0, l_cases = 0, l_skip = 0, l_neg = 0, l_mixed = 0; double l_worst = 0, l_worst_n = 0;
        for (uint64_t k = lo; k < hi; ++k)
        {
            int blk = (int) (k % 8), ti = (int) ((k / 8) % 3), wc = (int) ((k / 24) % 64), w3 = (int) (k / 1536);
            // quick tier: the two negative m[3][3] only with the blocks 1, 3, 4, 6 (diagonal with a negative entry, the two full
            // ones, a singular one) and the translation TQ[1]
            if (!thorough && w3 >= 3 && !((blk == 1 || blk == 3 || blk == 4 || blk == 6) && ti == 1)) continue;
            IM im;
            for (int j = 0; j < 3; ++j) for (int i = 0; i < 3; ++i) im.a[j][i] = BLK[blk][j][i];
            for (int i = 0; i < 3; ++i) im.t[i] = TQ[ti][i];
            int d[3]; ex::decode (wc, 4, 3, d, -1);
            im.w[0] = d[0]; im.w[1] = d[1]; im.w[2] = d[2]; im.w[3] = W33[w3];
            if (im.w[0] == 0 && im.w[1] == 0 && im.w[2] == 0 && im.w[3] == 1) continue; // affine: other stage
            Matrix44<T> M = mk<T> (im);
            for (auto& lb : boxes)
            {
                // exact rational images of the corners; the case is in the domain only if w != 0 on all of them
                Q rmn[3], rmx[3]; bool wzero = false; int npos = 0, nneg = 0;
                for (int c = 0; c < 8; ++c)
                {
                    int p[3] = {(c & 1) ? lb.mx[0] : lb.mn[0], (c & 2) ? lb.mx[1] : lb.mn[1], (c & 4) ? lb.mx[2] : lb.mn[2]};
                    int w = p[0] * im.w[0] + p[1] * im.w[1] + p[2] * im.w[2] + im.w[3];
                    if (w == 0) { wzero = true; break; }
                    if (w > 0) ++npos; else ++nneg;
                    for (int i = 0; i < 3; ++i)
                    {
                        Q v (p[0] * im.a[0][i] + p[1] * im.a[1][i] + p[2] * im.a[2][i] + im.t[i], w);
                        if (c == 0 || v < rmn[i]) rmn[i] = v;
                        if (c == 0 || v > rmx[i]) rmx[i] = v;
                    }
                }
                if (wzero) { ++l_skip; continue; }
                const bool wpos = nneg == 0, onesign = nneg == 0 || npos == 0;
                // site suffix: the original domain (w > 0 everywhere) keeps the original site names
                const char* sfx = wpos ? "" : ".w-not-all-positive";
                if (wpos) ++l_cases; else if (npos == 0) ++l_neg; else ++l_mixed;
                // oracle self-check (w of one sign on the box): the image of every lattice point of the box lies in the exact bound
                if (onesign)
                    for (int x = lb.mn[0]; x <= lb.mx[0]; ++x) for (int y = lb.mn[1]; y <= lb.mx[1]; ++y) for (int z = lb.mn[2]; z <= lb.mx[2]; ++z)
                    {
                        int p[3] = {x, y, z}; int w = x * im.w[0] + y * im.w[1] + z * im.w[2] + im.w[3];
                        for (int i = 0; i < 3; ++i)
                        {
                            Q v (p[0] * im.a[0][i] + p[1] * im.a[1][i] + p[2] * im.a[2][i] + im.t[i], w);
                            if (w == 0 || (w > 0) != wpos || v < rmn[i] || v > rmx[i]) vf::R ().fail ("oracle.selfcheck.projective-hull", mstr (im), "inside", "outside");
                        }
                    }
                B bx = mkb<S> (lb);
                auto in = [&] (const char* extra) { return tt<S, T> () + " box=" + b3 (bx) + " m=" + mstr (im) + (*extra ? std::string (" ") + extra : std::string ()); };
                auto want = [&] () { std::string s = "{min=("; for (int i = 0; i < 3; ++i) s += (i ? "," : "") + rmn[i].str (); s += ") max=(";
                                     for (int i = 0; i < 3; ++i) s += (i ? "," : "") + rmx[i].str (); return s + ")} within 2 ulp"; };
                auto close = [&] (const B& r, double& w) {
                    bool good = true;
                    for (int i = 0; i < 3; ++i)
                    {
                        long double u1 = ex::ulps<S> (r.min[i], rmn[i].ld ()), u2 = ex::ulps<S> (r.max[i], rmx[i].ld ());
                        if (!(u1 <= 2) || !(u2 <= 2)) good = false;
                        else { if ((double) u1 > w) w = (double) u1; if ((double) u2 > w) w = (double) u2; }
                    }
                    return good;
                };
                B r1 = transform (bx, M);
                if (!close (r1, wpos ? l_worst : l_worst_n)) vf::R ().fail (std::string ("transform(box,m).projective") + sfx, in (""), want (), b3 (r1));
                for (int pf = 0; pf < 3; ++pf)
                {
                    const B P = prefill<S> (pf);
                    B r2 = P; transform (bx, M, r2);
                    double dummy = 0;
                    if (!close (r2, dummy))
                    {
                        // signature of the known defect: the caller's old `result` was extended instead of replaced
                        B ext = P; ext.extendBy (r1);
                        bool sig = !P.isEmpty () && same_box<Vec3<S>, Vec3<S>> (r2, ext);
                        fail_lazy (std::string (sig ? "transform(box,m,result).projective-extends-prefilled-result" : "transform(box,m,result).projective") + sfx,
                                   [&] { return in (prefill_name (pf)); }, want, [&] { return b3 (r2); });
                    }
                }
                {
                    B a1 = bx; transform (a1, M, a1); // result aliases box on the projective path
                    double dummy = 0;
                    if (!close (a1, dummy)) fail_lazy (std::string ("transform(box,m,result).result-aliases-box") + sfx, [&] { return in ("transform(b, m, b)"); }, want, [&] { return b3 (a1); });
                }
                l_trans += 5;
            }
        }
        trans += l_trans; cases += l_cases; skipped += l_skip; c_neg += l_neg; c_mixed += l_mixed;
        std::lock_guard<std::mutex> g (mu); if (l_worst > worst) worst = l_worst; if (l_worst_n > worst_n) worst_n = l_worst_n;
    });
    const long long all = cases.load () + c_neg.load () + c_mixed.load ();
    vf::R ().add ("transitions", trans.load ()); vf::R ().add ("evaluations", all); vf::R ().add ("states", all);
    vf::R ().add ("projective_cases_outside_domain(w==0 on a corner)", skipped.load ());
    vf::R ().cls ("projective.w-positive-on-all-corners", cases.load ());
    vf::R ().cls ("projective.w-negative-on-all-corners", c_neg.load ());
    vf::R ().cls ("projective.w-mixed-sign-no-zero-corner", c_mixed.load ());
    vf::R ().note_max ("worst projective bound error (ulp)", worst);
    vf::R ().note_max ("worst projective bound error, w not all positive (ulp)", worst_n);
    return ok;
}

// integer S, 8-corner path with exact results: m = [2*BLK | 2*TQ | (0,0,0,w33)], w33 = +-2, so every corner image is the
// integer +-(p*BLK + TQ) and x/w is an exact integer division (w33 = -2: every w negative)
template <class S, class T> bool projective_stage_int (bool)
{
    typedef Box<Vec3<S>> B;
    std::vector<LBox> boxes = lattice_boxes (true, {0, 1, 2, 3});
    for (auto& b : lattice_boxes (true, {-2, -1, 1, 2})) boxes.push_back (b);
    long long trans = 0, n = 0, nneg = 0;
    for (int blk = 0; blk < 8; ++blk) for (int ti = 0; ti < 3; ++ti) for (int w33 : {2, -2})
    {
        IM base, im;
        for (int j = 0; j < 3; ++j) for (int i = 0; i < 3; ++i) { base.a[j][i] = BLK[blk][j][i]; im.a[j][i] = 2 * BLK[blk][j][i]; }
        for (int i = 0; i < 3; ++i) { base.t[i] = TQ[ti][i]; im.t[i] = 2 * TQ[ti][i]; base.w[i] = im.w[i] = 0; }
        base.w[3] = 1; im.w[3] = w33;
        Matrix44<T> M = mk<T> (im);
        for (auto& lb : boxes)
        {
            int mn[3], mx[3];
            affine_bound (base, lb, mn, mx);
            if (w33 < 0) for (int i = 0; i < 3; ++i) { int a = -mx[i], b = -mn[i]; mn[i] = a; mx[i] = b; } // images negated
            B bx = mkb<S> (lb);
            auto in = [&] (const char* extra) { return tt<S, T> () + " box=" + b3 (bx) + " m=" + mstr (im) + (*extra ? std::string (" ") + extra : std::string ()); };
            B r1 = transform (bx, M);
            if (!eq_int (r1, mn, mx)) vf::R ().fail ("transform(box,m).projective.integer-box", in (""), ibox (mn, mx), b3 (r1));
            for (int pf = 0; pf < 3; ++pf)
            {
                B r2 = prefill<S> (pf); transform (bx, M, r2);
                if (!eq_int (r2, mn, mx)) vf::R ().fail ("transform(box,m,result).projective.integer-box", in (prefill_name (pf)), ibox (mn, mx), b3 (r2));
            }
            B a1 = bx; transform (a1, M, a1);
            if (!eq_int (a1, mn, mx)) vf::R ().fail ("transform(box,m,result).result-aliases-box.integer-box", in ("transform(b, m, b)"), ibox (mn, mx), b3 (a1));
            trans += 5; ++n; if (w33 < 0) ++nneg;
        }
    }
    vf::R ().add ("transitions", trans); vf::R ().add ("evaluations", n); vf::R ().add ("states", n);
    vf::R ().cls ("projective.integer-box.exact-corner-images", n); vf::R ().cls ("projective.integer-box.w-negative", nneg);
    return true;
}

// ---- empty -> empty, infinite -> infinite, every overload ---------------------------------------------------
// `sfx`: "" for float/double S, ".integer-box" for integer S
template <class S, class T> bool degenerate_stage (bool, const char* sfx = "")
{
    typedef Box<Vec3<S>> B;
    std::vector<B> empties; std::vector<std::string> names;
    for (auto& lb : lattice_boxes (false, {0, 1, 2, 3})) empties.push_back (mkb<S> (lb));
    empties.push_back (B ());
    B inf; inf.makeInfinite ();
    std::vector<IM> ms;
    for (int blk : {0, 3, 5}) for (int ti : {0, 1}) for (int wk = 0; wk < 3; ++wk)
    {
        IM im;
        for (int j = 0; j < 3; ++j) for (int i = 0; i < 3; ++i) im.a[j][i] = BLK[blk][j][i];
        for (int i = 0; i < 3; ++i) im.t[i] = TQ[ti][i];
        const int WC[3][4] = {{0, 0, 0, 1}, {0, 0, 0, 2}, {1, 0, 2, 3}};
        for (int i = 0; i < 4; ++i) im.w[i] = WC[wk][i];
        ms.push_back (im);
    }
    long long trans = 0, n_e = 0, n_i = 0;
    for (auto& im : ms)
    {
        const bool  affine = im.w[0] == 0 && im.w[1] == 0 && im.w[2] == 0 && im.w[3] == 1;
        Matrix44<T> M = mk<T> (im);
        for (size_t k = 0; k <= empties.size (); ++k)
        {
            const bool isinf = k == empties.size ();
            const B&   bx = isinf ? inf : empties[k];
            const char* cl = isinf ? "infinite-input" : "empty-input";
            auto good = [&] (const B& r) { return isinf ? r.isInfinite () : r.isEmpty (); };
            auto in = [&] (const char* extra) { return tt<S, T> () + " box=" + (isinf ? std::string ("makeInfinite()") : b3 (bx)) + " m=" + mstr (im) + (*extra ? std::string (" ") + extra : std::string ()); };
            const char* want = isinf ? "an infinite box" : "an empty box";
            B r1 = transform (bx, M);
            if (!good (r1)) vf::R ().fail (std::string ("transform(box,m).") + cl + sfx, in (""), want, b3 (r1));
            ++trans;
            if (affine) { B r3 = affineTransform (bx, M); ++trans; if (!good (r3)) vf::R ().fail (std::string ("affineTransform(box,m).") + cl + sfx, in (""), want, b3 (r3)); }
            for (int pf = 0; pf < 3; ++pf)
            {
                if (pf == 2 && !isinf) continue; // a default-constructed result is already empty: says nothing
                const B P = prefill<S> (pf);
                B r2 = P; transform (bx, M, r2); ++trans;
                if (!good (r2))
                {   // signature of the known defect: early return without touching `result`
                    bool sig = same_box<Vec3<S>, Vec3<S>> (r2, P);
                    fail_lazy (std::string ("transform(box,m,result).") + cl + (sig ? "-result-untouched" : "") + sfx, [&] { return in (prefill_name (pf)); }, [&] { return std::string (want); }, [&] { return b3 (r2); });
                }
                if (affine)
                {
                    B r4 = P; affineTransform (bx, M, r4); ++trans;
                    if (!good (r4))
                    {
                        bool sig = same_box<Vec3<S>, Vec3<S>> (r4, P);
                        vf::R ().fail (std::string ("affineTransform(box,m,result).") + cl + (sig ? "-result-untouched" : "") + sfx, in (prefill_name (pf)), want, b3 (r4));
                    }
                }
            }
            if (isinf) ++n_i; else ++n_e;
        }
    }
    vf::R ().add ("transitions", trans); vf::R ().add ("evaluations", n_e + n_i); vf::R ().add ("states", n_e + n_i);
    if (*sfx) { vf::R ().cls ("transform.integer-box.empty-input", n_e); vf::R ().cls ("transform.integer-box.infinite-input", n_i); }
    else { vf::R ().cls ("transform.empty-input", n_e); vf::R ().cls ("transform.infinite-input", n_i); }
    return true;
}

template <class S, class T> bool all_stages (bool thorough)
{
    bool ok = true;
    ok &= affine_stage<S, T> (thorough);
    ok &= projective_stage<S, T> (thorough);
    ok &= degenerate_stage<S, T> (thorough);
    return ok;
}
template <class S, class T> bool all_stages_int (bool thorough)
{
    bool ok = true;
    ok &= affine_stage_int<S, T> (thorough);
    ok &= projective_stage_int<S, T> (thorough);
    ok &= degenerate_stage<S, T> (thorough, ".integer-box");
    return ok;
}

} // namespace xf
} // namespace c13
