// C06, stage "singular-in-place-on-dirty-object".
//
// "... or a clean singular outcome": the in-place forms x.invert(), x.invert(false), x.gjInvert(), x.gjInvert(false) of an exactly
// singular matrix must leave exactly the identity in EVERY slot of x -- x is, at that moment, an object full of unrelated numbers (the
// singular matrix itself), and, for an affine 3x3 / 4x4 matrix, with a non-zero translation row. The lattice stages compare the
// in-place forms with the value forms on matrices over {0,+-1,+-2}; here every slot of the object (last column and translation row
// included) holds a distinct prime before the call, so that an in-place form that writes only the slots it believes to differ (linear
// block only, diagonal only) or that returns early cannot pass. Also the value forms assigned to a pre-filled destination
// (dst = x.inverse()).
//
// Singularity is exact by construction (no tolerance, no false alarm possible):
//   zero row r        : the row is all zeros; every cofactor product and the determinant are exactly 0 (sums of exact zeros);
//                       Gauss-Jordan leaves the row zero (0 - f*x = +-0) until it must supply a pivot, which is exactly 0;
//   zero column c     : likewise, the pivot search in column c finds only exact zeros;
//   duplicated row    : row r2 := row r1 (small integer primes, every 2x2/3x3 minor product exact in float: |entries| < 2^7, products of
//                       four < 2^24 only for the entries used -- so this class is used for the DETERMINANT-based forms of sizes 2 and 3 and for
//                       affine 4x4 only (fast path = 3x3 cofactors), where all intermediate integers stay below 2^24).
// Sites: "Matrix<N><T>::<form>.singular-on-dirty-object".
#include "../engine/exact.hpp"
#include "../engine/report.hpp"
#include <ImathMatrix.h>
#include <limits>

using namespace IMATH_NAMESPACE;
using vf::R;

namespace {
struct Tally { long long st = 0, tr = 0, zrow = 0, zcol = 0, dup = 0, affine_translation = 0, projective = 0, valueform = 0; };
template <class S> struct SN;
template <> struct SN<float>  { static const char* n () { return "float"; } };
template <> struct SN<double> { static const char* n () { return "double"; } };

template <class M, class T, int N> std::string show (const M& m)
{
    std::string s;
    for (int i = 0; i < N; ++i) for (int j = 0; j < N; ++j) s += ((i || j) ? " " : "") + vf::fmt (m.x[i][j]);
    return s;
}
template <class M, int N> bool is_identity (const M& m)
{
    for (int i = 0; i < N; ++i)
        for (int j = 0; j < N; ++j)
        {
            auto v = m.x[i][j];
            if (!(v == (i == j ? 1 : 0)) || (v == 0 && std::signbit (v))) return false; // exactly +0 / 1
        }
    return true;
}

// Matrix22 has no Gauss-Jordan forms
template <class T> bool gj_inplace (Matrix22<T>&, bool) { return false; }
template <class M> bool gj_inplace (M& y, bool witharg) { if (witharg) y.gjInvert (false); else y.gjInvert (); return true; }
template <class T> bool gj_value (const Matrix22<T>&, Matrix22<T>&) { return false; }
template <class M> bool gj_value (const M& x, M& out) { out = x.gjInverse (); return true; }

template <class M, class T, int N> void one (Tally& tl, const M& x, const std::string& what, bool gj_ok)
{
    const std::string cls = "Matrix" + std::to_string (N) + std::to_string (N) + "<" + SN<T>::n () + ">::";
    auto chk = [&] (const char* form, const M& got) {
        ++tl.tr;
        if (!is_identity<M, N> (got)) R ().fail (cls + form + ".singular-on-dirty-object", what + ": " + show<M, T, N> (x), "exactly the identity in every slot", show<M, T, N> (got));
    };
    ++tl.st;
    { M y = x; y.invert (); chk ("invert", y); }
    { M y = x; y.invert (false); chk ("invert(bool)", y); }
    if (gj_ok)
    {
        { M y = x; if (gj_inplace (y, false)) chk ("gjInvert", y); }
        { M y = x; if (gj_inplace (y, true)) chk ("gjInvert(bool)", y); }
    }
    // value forms into pre-filled destinations
    for (int k = 0; k < 2; ++k)
    {
        M d;
        for (int i = 0; i < N; ++i) for (int j = 0; j < N; ++j) d.x[i][j] = k ? std::numeric_limits<T>::quiet_NaN () : (T) (100 + ex::PRIMES[i * N + j]);
        M e = d;
        d = x.inverse (); chk ("inverse.assigned", d);
        if (gj_ok && gj_value (x, e)) chk ("gjInverse.assigned", e);
        ++tl.valueform;
    }
}

template <class M, class T, int N> M primes (int g, bool affine)
{
    M m;
    for (int i = 0; i < N; ++i)
        for (int j = 0; j < N; ++j)
        {
            int v = ex::PRIMES[(i * N + j + 5 * g) % 22]; // 2..79
            if ((g + 2 * i + j) % 3 == 0) v = -v;
            m.x[i][j] = (T) v;
        }
    if (affine) { for (int i = 0; i < N - 1; ++i) m.x[i][N - 1] = 0; m.x[N - 1][N - 1] = 1; }
    return m;
}

template <class T, int N, class M> void size_n (Tally& tl)
{
    for (int g = 0; g < 6; ++g)
        for (int aff = 0; aff < (N == 2 ? 1 : 2); ++aff)
        {
            const int L = aff ? N - 1 : N; // an affine matrix is made singular inside its linear block
            for (int r = 0; r < L; ++r)
            {
                M x = primes<M, T, N> (g, aff);
                for (int j = 0; j < L; ++j) x.x[r][j] = 0;
                if (!aff) x.x[r][N - 1] = 0;
                ++tl.zrow; if (aff) ++tl.affine_translation; else ++tl.projective;
                one<M, T, N> (tl, x, std::string (aff ? "affine, " : "") + "zero row " + std::to_string (r) + (aff ? " of the linear block" : ""), true);
            }
            for (int c = 0; c < L; ++c)
            {
                M x = primes<M, T, N> (g, aff);
                for (int i = 0; i < N; ++i) if (!(aff && i == N - 1)) x.x[i][c] = 0;
                if (aff) { /* translation row keeps its primes: the column of the LINEAR block is zero => det = 0 exactly */ }
                ++tl.zcol; if (aff) ++tl.affine_translation; else ++tl.projective;
                // with a non-zero translation entry in column c Gauss-Jordan still has a pivot there and meets the zero only later,
                // after inexact eliminations: demanded of the determinant forms only
                one<M, T, N> (tl, x, std::string (aff ? "affine, " : "") + "zero column " + std::to_string (c) + (aff ? " of the linear block" : ""), !aff);
            }
            if (N <= 3 || aff)
                for (int r1 = 0; r1 < L; ++r1)
                    for (int r2 = 0; r2 < L; ++r2)
                    {
                        if (r1 == r2) continue;
                        M x = primes<M, T, N> (g, aff);
                        for (int j = 0; j < N; ++j) x.x[r2][j] = x.x[r1][j];
                        ++tl.dup; if (aff) ++tl.affine_translation; else ++tl.projective;
                        one<M, T, N> (tl, x, std::string (aff ? "affine, " : "") + "row " + std::to_string (r2) + " := row " + std::to_string (r1), false);
                    }
        }
}
} // namespace

void c06_dirty_stage ()
{
    if (!R ().stage ("singular-in-place-on-dirty-object")) return;
    Tally tl;
    size_n<float, 2, Matrix22<float>> (tl); size_n<double, 2, Matrix22<double>> (tl);
    size_n<float, 3, Matrix33<float>> (tl); size_n<double, 3, Matrix33<double>> (tl);
    size_n<float, 4, Matrix44<float>> (tl); size_n<double, 4, Matrix44<double>> (tl);
    R ().add ("states", tl.st); R ().add ("transitions", tl.tr); R ().add ("evaluations", tl.st);
    R ().cls ("singular-dirty.zero-row", tl.zrow);
    R ().cls ("singular-dirty.zero-column", tl.zcol);
    R ().cls ("singular-dirty.duplicated-row", tl.dup);
    R ().cls ("singular-dirty.affine-with-prime-translation-row", tl.affine_translation);
    R ().cls ("singular-dirty.non-affine-last-column", tl.projective);
    R ().cls ("singular-dirty.value-form-assigned-to-prefilled-destination", tl.valueform);
    R ().sample ("Matrix44f x = [primes, row 1 of the linear block zero, last column (0,0,0,1), translation row (p,q,r)]; x.invert() must leave the identity, translation row (0,0,0) included");
    R ().stage_done ("6 generic prime matrices x {general, affine with prime translation row} x (every zero row, every zero column, every ordered duplicated-row pair [2x2, 3x3, affine 4x4]) for Matrix22/33/44<float|double>: "
                     "invert(), invert(false) (and gjInvert(), gjInvert(false) where the zero pivot is exact) leave exactly the identity in every slot; inverse()/gjInverse() assigned to destinations pre-filled with primes / NaN");
}
