// C12 — procrustesRotationAndTranslation on lattice point sets.
//
// Related sets: B_i = s * (A_i * Rc) + t with Rc one of the 24 exact cube rotations, lattice t, s in {1, 2, 1/2}
// (doScaling = false only with s = 1). Everything is exactly representable, so the transform "relating the two
// sets" is known exactly: M* = [[s Rc, 0], [t, 1]].
//   rank(A - centroid) >= 2 (coplanar or spanning; exact integer rank): the rotation is unique (the library forces
//     det U, det V > 0), M must equal M*. Tolerance from the polar-factor perturbation bound: the SVD of the
//     3x3 correlation matrix C is backward stable to 64 eps|C| (the C12 SVD bound), the orthogonal polar factor moves
//     by <= 2|dC|/(sigma_2+sigma_3), U and V are orthonormal to 64 eps each:
//         |dQ| <= (2*64*kappa + 128 + 3) eps <= 256 kappa eps,   kappa = |P|_F / (lambda_2 + lambda_3) >= 1/2,
//     P = sum w (a-ac)(a-ac)^T (exact data of A and the weights; eigenvalues in long double, the n-rank smallest set
//     to exactly 0).  Entries of M: 512 kappa eps (1+s) (1 + max|A| + max|B|)  (scale, translation = Bc - s Ac Q included).
//   rank <= 1 (one point, collinear): the rotation is not unique, only the residual is: |A_i M - B_i| <= the same
//     bound with kappa = 1 (the dominant singular direction is separated from the zero ones by sigma_1 itself).
// Unrelated sets: the result must be s*rotation (L L^T = s^2 I to 512 eps, det >= 0), map the weighted centroid
//   onto the weighted centroid, and be locally optimal: for each axis x,y,z and delta = +-2^-10 rad,
//     f(L R_axis(delta), t) >= f(L,t) (1 - 2^-30) - 1024 eps max(1,s) |C|_F |delta|
//   where f = sum w |a L + t - b|^2 in long double and the last term is the first-order effect of the rounding-level
//   error of Q (gradient = Hessian * dQ <= |C| * 256 eps * 4, independent of the conditioning because a badly
//   determined direction of Q is by the same token a flat direction of f).
// All library arithmetic is double whatever T is, so eps = 2^-52 for both instantiations.
#include "c12.hpp"
#include <array>

namespace c12 {
using vf::R;
typedef std::array<int, 3>  P3;
typedef std::vector<P3>     PSet;

static void combos (const std::vector<P3>& pool, int k, std::vector<PSet>& out)
{
    std::vector<int> idx (k);
    for (int i = 0; i < k; ++i) idx[i] = i;
    const int n = (int) pool.size ();
    if (k > n) return;
    for (;;)
    {
        PSet s;
        for (int i : idx) s.push_back (pool[i]);
        out.push_back (s);
        int i = k - 1;
        while (i >= 0 && idx[i] == n - k + i) --i;
        if (i < 0) break;
        ++idx[i];
        for (int j = i + 1; j < k; ++j) idx[j] = idx[j - 1] + 1;
    }
}
static std::vector<P3> lattice (int k)
{
    std::vector<P3> p;
    for (int x = -k; x <= k; ++x) for (int y = -k; y <= k; ++y) for (int z = -k; z <= k; ++z) p.push_back ({{x, y, z}});
    return p;
}

struct ProTally
{
    long long calls = 0, transitions = 0, rank[4] = {0, 0, 0, 0}, scaled = 0, weighted = 0, unrelated = 0, symmetric = 0;
    long long mirror = 0, outlier = 0, zerow = 0;
    double    w_known = 0, w_res = 0, w_opt = 0;
    void merge (const ProTally& o)
    {
        calls += o.calls; transitions += o.transitions; scaled += o.scaled; weighted += o.weighted; unrelated += o.unrelated; symmetric += o.symmetric;
        mirror += o.mirror; outlier += o.outlier; zerow += o.zerow;
        for (int i = 0; i < 4; ++i) rank[i] += o.rank[i];
        w_known = std::max (w_known, o.w_known); w_res = std::max (w_res, o.w_res); w_opt = std::max (w_opt, o.w_opt);
    }
};

static const LD EPSD = 2.220446049250313e-16L;
static const LD GENW[6] = {2, 3, 5, 7, 11, 13};

// exact-ish data of a weighted point set
struct SetData
{
    int rank;
    LD  kappa, maxA;
    bool symmetric; // repeated non-zero eigenvalue of the scatter matrix
};
static SetData analyse (const PSet& A, const LD* w)
{
    SetData d;
    const int n = (int) A.size ();
    long long diff[5 * 3];
    for (int i = 1; i < n; ++i) for (int c = 0; c < 3; ++c) diff[(i - 1) * 3 + c] = A[i][c] - A[0][c];
    d.rank = n > 1 ? ref::rankExact (diff, n - 1, 3) : 0;
    LD ws = 0, ac[3] = {0, 0, 0};
    d.maxA = 0;
    for (int i = 0; i < n; ++i) { ws += w[i]; for (int c = 0; c < 3; ++c) { ac[c] += w[i] * A[i][c]; d.maxA = std::max (d.maxA, fabsl ((LD) A[i][c])); } }
    for (int c = 0; c < 3; ++c) ac[c] /= ws;
    M3 P;
    for (int r = 0; r < 3; ++r) for (int c = 0; c < 3; ++c) { P[r][c] = 0; for (int i = 0; i < n; ++i) P[r][c] += w[i] * (A[i][r] - ac[r]) * (A[i][c] - ac[c]); }
    LD ev[3];
    ref::symEigen<3> (P, ev);
    for (int i = d.rank; i < 3; ++i) ev[i] = 0;
    d.kappa = d.rank >= 2 ? ref::frob (P) / (ev[1] + ev[2]) : 1;
    d.symmetric = false;
    for (int i = 0; i + 1 < d.rank; ++i) if (fabsl (ev[i] - ev[i + 1]) <= 1e-15L * ev[0]) d.symmetric = true;
    return d;
}

template <class T> struct Pro
{
    // mode: 0 = unweighted entry point, 1 = weights all 1, 2 = generic weights
    static M44d call (const PSet& A, const std::vector<std::array<LD, 3>>& B, int mode, bool doScale)
    {
        const size_t n = A.size ();
        Vec3<T> a[6], b[6];
        T       w[6];
        for (size_t i = 0; i < n; ++i)
        {
            a[i] = Vec3<T> ((T) A[i][0], (T) A[i][1], (T) A[i][2]);
            b[i] = Vec3<T> ((T) B[i][0], (T) B[i][1], (T) B[i][2]);
            w[i] = mode == 2 ? (T) GENW[i] : (T) 1;
        }
        return mode == 0 ? procrustesRotationAndTranslation (a, b, n, doScale) : procrustesRotationAndTranslation (a, b, w, n, doScale);
    }
    static std::string inStr (const PSet& A, const std::vector<std::array<LD, 3>>& B, int mode, bool doScale, const std::string& extra)
    {
        std::string s = "T=" + std::string (ref::tname<T> ()) + " doScaling=" + (doScale ? "true" : "false") + " weights=" + (mode == 0 ? "none" : mode == 1 ? "ones" : "(2,3,5,7,11,13)") + " " + extra + " A=";
        for (auto& p : A) s += "(" + std::to_string (p[0]) + "," + std::to_string (p[1]) + "," + std::to_string (p[2]) + ")";
        s += " B=";
        for (auto& p : B) s += "(" + ref::fmtE (p[0]) + "," + ref::fmtE (p[1]) + "," + ref::fmtE (p[2]) + ")";
        return s;
    }

    static void related (const PSet& A, const SetData sd[3], const std::vector<int>& rc, const P3& tr, int scaleIdx, int rotIndex, ProTally& t)
    {
        static const LD SC[3] = {1, 2, 0.5L};
        const LD     s = SC[scaleIdx];
        const size_t n = A.size ();
        std::vector<std::array<LD, 3>> B (n);
        LD maxB = 0;
        for (size_t i = 0; i < n; ++i)
            for (int c = 0; c < 3; ++c)
            {
                LD v = 0;
                for (int k = 0; k < 3; ++k) v += (LD) A[i][k] * rc[k * 3 + c];
                B[i][c] = s * v + tr[c];
                maxB = std::max (maxB, fabsl (B[i][c]));
            }
        M4 want;
        for (int r = 0; r < 3; ++r) { for (int c = 0; c < 3; ++c) want[r][c] = s * rc[r * 3 + c]; want[3][r] = tr[r]; }
        for (int mode = 0; mode < 3; ++mode)
            for (int ds = (scaleIdx == 0 ? 0 : 1); ds < 2; ++ds)
            {
                const SetData& d = sd[mode];
                M44d g = call (A, B, mode, ds != 0);
                ++t.calls; ++t.rank[d.rank];
                if (scaleIdx) ++t.scaled;
                if (mode == 2) ++t.weighted;
                if (d.symmetric) ++t.symmetric;
                auto in = [&] () { return inStr (A, B, mode, ds != 0, "cubeRotation=" + std::to_string (rotIndex) + " scale=" + ref::fmtE (s) + " t=(" + std::to_string (tr[0]) + "," + std::to_string (tr[1]) + "," + std::to_string (tr[2]) + ")"); };
                const LD base = 512 * EPSD * (1 + s) * (1 + sd[mode].maxA + maxB);
                M4 gl = ref::fromLib<4> (g);
                if (!(g[0][3] == 0 && g[1][3] == 0 && g[2][3] == 0 && g[3][3] == 1)) R ().fail ("procrustes.affine-frame", in (), "last column (0,0,0,1)", ref::fmtLib<4> (g));
                if (d.rank >= 2)
                {
                    LD tol = base * d.kappa, e = ref::maxdiff (gl, want);
                    t.w_known = std::max (t.w_known, (double) (e / tol));
                    if (!(e <= tol))
                        R ().fail (std::string ("procrustes.known-transform") + (mode ? ".weighted" : "") + (ds ? ".doScaling" : ""), in (), "[[s*R,0],[t,1]] within " + ref::fmtE (tol), ref::fmtE (e) + " off; got " + ref::fmtLib<4> (g));
                }
                LD tolr = base * (d.rank >= 2 ? d.kappa : 1), worst = 0;
                for (size_t i = 0; i < n; ++i)
                    for (int c = 0; c < 3; ++c)
                    {
                        LD v = gl[3][c];
                        for (int k = 0; k < 3; ++k) v += (LD) A[i][k] * gl[k][c];
                        LD dd = fabsl (v - B[i][c]);
                        worst = (dd == dd) ? std::max (worst, dd) : INFINITY;
                    }
                t.w_res = std::max (t.w_res, (double) (worst / tolr));
                if (!(worst <= tolr * (1 + 3 * d.maxA)))
                    R ().fail (std::string ("procrustes.zero-residual.rank") + std::to_string (d.rank) + (mode ? ".weighted" : "") + (ds ? ".doScaling" : ""), in (), "every A_i*M = B_i within " + ref::fmtE (tolr * (1 + 3 * d.maxA)), ref::fmtE (worst) + " off; got " + ref::fmtLib<4> (g));
                t.transitions += 3;
            }
    }

    // ---- explicit weights (long double values exactly representable in T), any of them may be zero
    static M44d callW (const PSet& A, const std::vector<std::array<LD, 3>>& B, const LD* wl, bool doScale)
    {
        const size_t n = A.size ();
        Vec3<T> a[8], b[8];
        T       w[8];
        for (size_t i = 0; i < n; ++i)
        {
            a[i] = Vec3<T> ((T) A[i][0], (T) A[i][1], (T) A[i][2]);
            b[i] = Vec3<T> ((T) B[i][0], (T) B[i][1], (T) B[i][2]);
            w[i] = (T) wl[i];
        }
        return procrustesRotationAndTranslation (a, b, w, n, doScale);
    }
    // The "otherwise" clause of the statement for an arbitrary pair of sets and weights w (weight sum > 0): the result is
    // s*rotation with the affine frame, maps the weighted centroid onto the weighted centroid and no rotation by +-2^-10 rad
    // about x, y or z lowers the weighted residual (same a-priori bounds as in unrelated() below; sites carry `sfx`).
    template <class InF> static void judgeLocal (const PSet& A, const std::vector<std::array<LD, 3>>& B, const LD* w, const M44d& g, bool ds, const std::string& sfx, InF&& in, ProTally& t)
    {
        const size_t n = A.size ();
        LD maxA = 0, maxB = 0;
        for (size_t i = 0; i < n; ++i) for (int c = 0; c < 3; ++c) { maxA = std::max (maxA, fabsl ((LD) A[i][c])); maxB = std::max (maxB, fabsl (B[i][c])); }
        M4 gl = ref::fromLib<4> (g);
        M3 L;
        for (int r = 0; r < 3; ++r) for (int c = 0; c < 3; ++c) L[r][c] = gl[r][c];
        M3 LLt = ref::mul (L, ref::transpose (L));
        LD s2 = (LLt[0][0] + LLt[1][1] + LLt[2][2]) / 3, s = sqrtl (std::max (s2, (LD) 0));
        M3 sI;
        for (int i = 0; i < 3; ++i) sI[i][i] = s2;
        LD oe = ref::maxdiff (LLt, sI), dt = ref::det (L);
        if (!(oe <= 512 * EPSD * s2) || !(dt >= -512 * EPSD * s2 * s)) R ().fail ("procrustes.linear-part-is-scaled-rotation" + sfx, in (), "L L^T = s^2 I within 512 eps, det >= 0", ref::fmtLib<4> (g));
        if (!ds && !(fabsl (s2 - 1) <= 512 * EPSD)) R ().fail ("procrustes.no-scale-without-doScaling" + sfx, in (), "s = 1", ref::fmtE (s));
        if (!(g[0][3] == 0 && g[1][3] == 0 && g[2][3] == 0 && g[3][3] == 1)) R ().fail ("procrustes.affine-frame" + sfx, in (), "last column (0,0,0,1)", ref::fmtLib<4> (g));
        LD ws = 0, ac[3] = {0, 0, 0}, bc[3] = {0, 0, 0};
        for (size_t i = 0; i < n; ++i) { ws += w[i]; for (int c = 0; c < 3; ++c) { ac[c] += w[i] * A[i][c]; bc[c] += w[i] * B[i][c]; } }
        for (int c = 0; c < 3; ++c) { ac[c] /= ws; bc[c] /= ws; }
        LD cn = 0;
        for (int r = 0; r < 3; ++r) for (int c = 0; c < 3; ++c) { LD v = 0; for (size_t i = 0; i < n; ++i) v += w[i] * (B[i][r] - bc[r]) * (A[i][c] - ac[c]); cn += v * v; }
        cn = sqrtl (cn);
        LD ce = 0;
        for (int c = 0; c < 3; ++c) { LD v = gl[3][c]; for (int k = 0; k < 3; ++k) v += ac[k] * gl[k][c]; ce = std::max (ce, fabsl (v - bc[c])); }
        LD tolc = 64 * EPSD * (1 + maxA * (1 + s) + maxB);
        if (!(ce <= tolc)) R ().fail ("procrustes.centroid-maps-to-centroid" + sfx, in (), "within " + ref::fmtE (tolc), ref::fmtE (ce) + " off; got " + ref::fmtLib<4> (g));
        auto f = [&] (const M3& Lm) {
            LD acc = 0;
            for (size_t i = 0; i < n; ++i)
                for (int c = 0; c < 3; ++c)
                {
                    LD v = gl[3][c] - B[i][c];
                    for (int k = 0; k < 3; ++k) v += (LD) A[i][k] * Lm[k][c];
                    acc += w[i] * v * v;
                }
            return acc;
        };
        const LD f0 = f (L), delta = ldexpl (1.0L, -10);
        for (int ax = 0; ax < 3; ++ax)
            for (int sg = -1; sg <= 1; sg += 2)
            {
                LD f1 = f (ref::mul (L, ref::axisRot (ax, sg * delta)));
                LD floor_ = f0 * (1 - ldexpl (1.0L, -30)) - 1024 * EPSD * std::max ((LD) 1, s) * cn * delta;
                if (!(f1 >= floor_))
                    R ().fail ("procrustes.locally-optimal" + sfx + (ds ? ".doScaling" : ""), in () + " perturbation: axis " + std::to_string (ax) + (sg > 0 ? " +" : " -") + "2^-10 rad",
                               "weighted residual not lowered: f >= " + ref::fmtE (floor_), ref::fmtE (f1) + " < f0 = " + ref::fmtE (f0));
            }
        t.transitions += 10;
    }

    // ---- B is the mirror image of a spanning set A (B_i = A_i * diag(1,1,-1) + t): the orthogonal map that relates the
    // sets is a reflection (unique, rank 3), so the best ROTATION has a positive residual and must be found by the
    // forcePositiveDeterminant path of the SVD: the "otherwise" clause applies.
    static void mirrored (const PSet& A, const P3& tr, ProTally& t)
    {
        const size_t n = A.size ();
        std::vector<std::array<LD, 3>> B (n);
        for (size_t i = 0; i < n; ++i) { B[i][0] = A[i][0] + tr[0]; B[i][1] = A[i][1] + tr[1]; B[i][2] = -(LD) A[i][2] + tr[2]; }
        const LD ones[8] = {1, 1, 1, 1, 1, 1, 1, 1};
        for (int mode = 0; mode < 3; ++mode)
            for (int ds = 0; ds < 2; ++ds)
            {
                M44d g = call (A, B, mode, ds != 0);
                ++t.calls; ++t.mirror;
                auto in = [&] () { return inStr (A, B, mode, ds != 0, "B = mirror image of A (z -> -z) + t"); };
                judgeLocal (A, B, mode == 2 ? GENW : ones, g, ds != 0, ".best-orthogonal-map-is-a-reflection", in, t);
            }
    }

    // ---- a related pair plus one extra point of weight ZERO whose image is unrelated: the weighted residual of the known
    // transform M* is exactly 0, so M* is the global minimiser; the orthogonal Procrustes objective has no other local
    // minimum when the weighted scatter has rank >= 2 (the critical points of tr(Q C) on SO(3) are one maximum, one minimum
    // and saddles), so "locally optimal" and "equals M*" coincide. Both are judged: judgeLocal literally, M* with the
    // bound of related() (kappa of the weighted scatter, which ignores the zero-weight point).
    static void outlier (const PSet& A0, const std::vector<int>& rc, const P3& tr, int scaleIdx, int rotIndex, ProTally& t)
    {
        static const LD SC[3] = {1, 2, 0.5L};
        const LD s = SC[scaleIdx];
        PSet A = A0;
        A.push_back ({{5, -4, 3}});
        const size_t n = A.size ();
        LD w[8];
        for (size_t i = 0; i + 1 < n; ++i) w[i] = GENW[i];
        w[n - 1] = 0;
        std::vector<std::array<LD, 3>> B (n);
        LD maxB = 0;
        for (size_t i = 0; i < n; ++i)
            for (int c = 0; c < 3; ++c)
            {
                LD v = 0;
                for (int k = 0; k < 3; ++k) v += (LD) A[i][k] * rc[k * 3 + c];
                B[i][c] = s * v + tr[c];
                if (i + 1 == n) B[i][c] = (c == 0 ? -6 : c == 1 ? 2 : 7); // where the outlier "went": unrelated to M*
                maxB = std::max (maxB, fabsl (B[i][c]));
            }
        SetData d = analyse (A0, GENW); // rank and conditioning of the points that carry weight
        if (d.rank < 2) return;
        d.maxA = std::max (d.maxA, (LD) 5);
        M4 want;
        for (int r = 0; r < 3; ++r) { for (int c = 0; c < 3; ++c) want[r][c] = s * rc[r * 3 + c]; want[3][r] = tr[r]; }
        for (int ds = (scaleIdx == 0 ? 0 : 1); ds < 2; ++ds)
        {
            M44d g = callW (A, B, w, ds != 0);
            ++t.calls; ++t.outlier;
            auto in = [&] () { return inStr (A, B, 2, ds != 0, "last point has weight 0; cubeRotation=" + std::to_string (rotIndex) + " scale=" + ref::fmtE (s) + " t=(" + std::to_string (tr[0]) + "," + std::to_string (tr[1]) + "," + std::to_string (tr[2]) + ")"); };
            const LD tol = 512 * EPSD * (1 + s) * (1 + d.maxA + maxB) * d.kappa;
            LD e = ref::maxdiff (ref::fromLib<4> (g), want);
            if (!(e <= tol)) R ().fail (std::string ("procrustes.known-transform.zero-weight-outlier") + (ds ? ".doScaling" : ""), in (), "[[s*R,0],[t,1]] within " + ref::fmtE (tol), ref::fmtE (e) + " off; got " + ref::fmtLib<4> (g));
            judgeLocal (A, B, w, g, ds != 0, ".zero-weight-outlier", in, t);
            ++t.transitions;
        }
    }

    // ---- every weight zero: the weighted residual is identically 0, every rigid transform is optimal; the result must
    // still BE one (finite, s*rotation, affine frame)
    static void zeroWeights (const PSet& A, ProTally& t)
    {
        const size_t n = A.size ();
        std::vector<std::array<LD, 3>> B (n);
        for (size_t i = 0; i < n; ++i) for (int c = 0; c < 3; ++c) B[i][c] = A[(i + 1) % n][(c + 1) % 3] + c;
        const LD w[8] = {0, 0, 0, 0, 0, 0, 0, 0};
        for (int ds = 0; ds < 2; ++ds)
        {
            M44d g = callW (A, B, w, ds != 0);
            ++t.calls; ++t.zerow;
            M3 L = ref::fromLib<3> (g);
            M3 LLt = ref::mul (L, ref::transpose (L)), sI;
            LD s2 = (LLt[0][0] + LLt[1][1] + LLt[2][2]) / 3;
            for (int i = 0; i < 3; ++i) sI[i][i] = s2;
            bool finite = true;
            for (int r = 0; r < 4; ++r) for (int c = 0; c < 4; ++c) finite = finite && std::isfinite (g[r][c]);
            if (!finite || !(ref::maxdiff (LLt, sI) <= 512 * EPSD * s2) || !(ref::det (L) >= 0) || !(g[0][3] == 0 && g[1][3] == 0 && g[2][3] == 0 && g[3][3] == 1) || (!ds && !(fabsl (s2 - 1) <= 512 * EPSD)))
                R ().fail ("procrustes.all-weights-zero.not-a-rigid-transform", inStr (A, B, 2, ds != 0, "all weights 0"), "a finite (scaled) rotation + translation", ref::fmtLib<4> (g));
            ++t.transitions;
        }
    }

    static void unrelated (const PSet& A, const SetData sd[3], int shift, ProTally& t)
    {
        static const int G[7][3] = {{2, -3, 5}, {-7, 1, 4}, {3, 3, -2}, {0, 6, -5}, {-4, -1, -1}, {5, 0, 2}, {1, -6, 3}};
        const size_t n = A.size ();
        std::vector<std::array<LD, 3>> B (n);
        LD maxB = 0;
        for (size_t i = 0; i < n; ++i) for (int c = 0; c < 3; ++c) { B[i][c] = G[(i + shift) % 7][c]; maxB = std::max (maxB, fabsl (B[i][c])); }
        for (int mode = 0; mode < 3; ++mode)
            for (int ds = 0; ds < 2; ++ds)
            {
                M44d g = call (A, B, mode, ds != 0);
                ++t.calls; ++t.unrelated;
                if (mode == 2) ++t.weighted;
                auto in = [&] () { return inStr (A, B, mode, ds != 0, "unrelated"); };
                M4 gl = ref::fromLib<4> (g);
                M3 L;
                for (int r = 0; r < 3; ++r) for (int c = 0; c < 3; ++c) L[r][c] = gl[r][c];
                // s * rotation
                M3 LLt = ref::mul (L, ref::transpose (L));
                LD s2 = (LLt[0][0] + LLt[1][1] + LLt[2][2]) / 3, s = sqrtl (std::max (s2, (LD) 0));
                M3 sI;
                for (int i = 0; i < 3; ++i) sI[i][i] = s2;
                LD oe = ref::maxdiff (LLt, sI), dt = ref::det (L);
                if (!(oe <= 512 * EPSD * s2) || !(dt >= -512 * EPSD * s2 * s)) R ().fail ("procrustes.linear-part-is-scaled-rotation", in (), "L L^T = s^2 I within 512 eps, det >= 0", ref::fmtLib<4> (g));
                if (!ds && !(fabsl (s2 - 1) <= 512 * EPSD)) R ().fail ("procrustes.no-scale-without-doScaling", in (), "s = 1", ref::fmtE (s));
                if (!(g[0][3] == 0 && g[1][3] == 0 && g[2][3] == 0 && g[3][3] == 1)) R ().fail ("procrustes.affine-frame", in (), "last column (0,0,0,1)", ref::fmtLib<4> (g));
                // weighted centroids, correlation matrix, objective
                LD w[6], ws = 0, ac[3] = {0, 0, 0}, bc[3] = {0, 0, 0};
                for (size_t i = 0; i < n; ++i) { w[i] = mode == 2 ? GENW[i] : 1; ws += w[i]; for (int c = 0; c < 3; ++c) { ac[c] += w[i] * A[i][c]; bc[c] += w[i] * B[i][c]; } }
                for (int c = 0; c < 3; ++c) { ac[c] /= ws; bc[c] /= ws; }
                LD cn = 0;
                for (int r = 0; r < 3; ++r) for (int c = 0; c < 3; ++c) { LD v = 0; for (size_t i = 0; i < n; ++i) v += w[i] * (B[i][r] - bc[r]) * (A[i][c] - ac[c]); cn += v * v; }
                cn = sqrtl (cn);
                LD ce = 0;
                for (int c = 0; c < 3; ++c) { LD v = gl[3][c]; for (int k = 0; k < 3; ++k) v += ac[k] * gl[k][c]; ce = std::max (ce, fabsl (v - bc[c])); }
                LD tolc = 64 * EPSD * (1 + sd[mode].maxA * (1 + s) + maxB);
                if (!(ce <= tolc)) R ().fail ("procrustes.centroid-maps-to-centroid", in (), "within " + ref::fmtE (tolc), ref::fmtE (ce) + " off; got " + ref::fmtLib<4> (g));
                auto f = [&] (const M3& Lm) {
                    LD acc = 0;
                    for (size_t i = 0; i < n; ++i)
                        for (int c = 0; c < 3; ++c)
                        {
                            LD v = gl[3][c] - B[i][c];
                            for (int k = 0; k < 3; ++k) v += (LD) A[i][k] * Lm[k][c];
                            acc += w[i] * v * v;
                        }
                    return acc;
                };
                const LD f0 = f (L), delta = ldexpl (1.0L, -10);
                for (int ax = 0; ax < 3; ++ax)
                    for (int sg = -1; sg <= 1; sg += 2)
                    {
                        LD f1 = f (ref::mul (L, ref::axisRot (ax, sg * delta)));
                        LD floor_ = f0 * (1 - ldexpl (1.0L, -30)) - 1024 * EPSD * std::max ((LD) 1, s) * cn * delta;
                        if (f0 > 0) t.w_opt = std::max (t.w_opt, (double) ((f0 - f1) / (f0 * ldexpl (1.0L, -30))));
                        if (!(f1 >= floor_))
                            R ().fail (std::string ("procrustes.locally-optimal") + (mode ? ".weighted" : "") + (ds ? ".doScaling" : ""), in () + " perturbation: axis " + std::to_string (ax) + (sg > 0 ? " +" : " -") + "2^-10 rad",
                                       "residual not lowered: f >= " + ref::fmtE (floor_), ref::fmtE (f1) + " < f0 = " + ref::fmtE (f0));
                    }
                t.transitions += 10;
            }
    }
};

void stage_procrustes ()
{
    if (!R ().stage ("procrustes")) return;
    // ---- point-set families
    std::vector<P3> L1 = lattice (1), pool7 = {{{0, 0, 0}}}, pool9 = {{{0, 0, 0}}}, pool15;
    for (int a = 0; a < 3; ++a) for (int s = -1; s <= 1; s += 2) { P3 p = {{0, 0, 0}}; p[a] = s; pool7.push_back (p); }
    for (int x = -1; x <= 1; x += 2) for (int y = -1; y <= 1; y += 2) for (int z = -1; z <= 1; z += 2) pool9.push_back ({{x, y, z}});
    pool15 = pool7;
    for (size_t i = 1; i < pool9.size (); ++i) pool15.push_back (pool9[i]);
    std::vector<PSet> sets;
    for (int k = 1; k <= 3; ++k) combos (L1, k, sets);
    size_t nUnrel3 = sets.size ();
    combos (pool15, 4, sets);
    size_t nUnrel = sets.size (); // the 3-subsets of L(1)^3 and the 4-subsets of the 15-point pool double as "A" of the unrelated pairs
    for (int k = 5; k <= 6; ++k) { combos (pool9, k, sets); combos (pool7, k, sets); }
    if (R ().thorough ()) { combos (L1, 4, sets); combos (lattice (2), 2, sets); }
    // point sets FAR from the origin relative to their size (offset 2^20, extent 2): the centroid must be removed before
    // the cross-covariance is accumulated, or the centring cancels catastrophically (error ~ eps * offset^2 / extent^2)
    const size_t nNear = sets.size ();
    {
        std::vector<PSet> far;
        combos (pool9, 4, far);
        combos (pool9, 6, far);
        for (PSet f : far)
        {
            for (auto& pt : f) { pt[0] += 1 << 20; pt[1] -= 1 << 20; pt[2] += 1 << 19; }
            sets.push_back (f);
        }
    }
    std::vector<P3> trans = {{{0, 0, 0}}, {{1, -2, 3}}, {{-2, 0, 1}}};
    if (R ().thorough ()) { trans.push_back ({{0, 0, -1}}); trans.push_back ({{2, 2, 2}}); }
    const std::vector<std::vector<int>> rots = ex::cube_rotations ();
    if (rots.size () != 24) R ().fail ("reference.cube-rotations", "closure", "24", std::to_string (rots.size ()));

    ProTally   G;
    std::mutex mu;
    const LD   ones[6] = {1, 1, 1, 1, 1, 1};
    bool ok = vf::parallel_chunks (sets.size (), 16, [&] (uint64_t lo, uint64_t hi, unsigned) {
        ProTally l;
        for (uint64_t si = lo; si < hi; ++si)
        {
            const PSet& A = sets[si];
            SetData sd[3] = {analyse (A, ones), analyse (A, ones), analyse (A, GENW)};
            for (size_t ri = 0; ri < rots.size (); ++ri)
                for (const P3& tr : trans)
                    for (int sc = 0; sc < 3; ++sc)
                    {
                        Pro<float>::related (A, sd, rots[ri], tr, sc, (int) ri, l);
                        Pro<double>::related (A, sd, rots[ri], tr, sc, (int) ri, l);
                    }
            if (si < nUnrel && A.size () >= 3 && (si >= nUnrel3 || A.size () == 3))
                for (int shift = 0; shift < 3; ++shift)
                {
                    Pro<float>::unrelated (A, sd, shift, l);
                    Pro<double>::unrelated (A, sd, shift, l);
                }
            // new families (near-origin sets only: the tolerances of judgeLocal are the near-origin ones)
            if (si < nNear && sd[0].rank == 3)
                for (size_t ti = 0; ti < 2; ++ti)
                {
                    Pro<float>::mirrored (A, trans[ti], l);
                    Pro<double>::mirrored (A, trans[ti], l);
                }
            if (si < nUnrel && A.size () >= 3 && A.size () <= 5)
            {
                for (size_t ri = 0; ri < rots.size (); ++ri)
                    for (int sc = 0; sc < 2; ++sc)
                    {
                        Pro<float>::outlier (A, rots[ri], trans[1], sc, (int) ri, l);
                        Pro<double>::outlier (A, rots[ri], trans[1], sc, (int) ri, l);
                    }
                Pro<float>::zeroWeights (A, l);
                Pro<double>::zeroWeights (A, l);
            }
        }
        std::lock_guard<std::mutex> g (mu);
        G.merge (l);
    });
    R ().add ("states", (long long) sets.size ());
    R ().add ("evaluations", G.calls);
    R ().add ("transitions", G.transitions);
    R ().cls ("procrustes.single-point(rank 0)", G.rank[0]);
    R ().cls ("procrustes.collinear(rank 1)", G.rank[1]);
    R ().cls ("procrustes.coplanar(rank 2)", G.rank[2]);
    R ().cls ("procrustes.spanning(rank 3).generic", G.rank[3]);
    R ().cls ("procrustes.scaled(s != 1)", G.scaled);
    R ().cls ("procrustes.generic-weights", G.weighted);
    R ().cls ("procrustes.repeated-singular-values(symmetric set)", G.symmetric);
    R ().cls ("procrustes.unrelated-sets", G.unrelated);
    R ().cls ("procrustes.best-orthogonal-map-is-a-reflection(mirror image of a spanning set)", G.mirror);
    R ().cls ("procrustes.related-sets-plus-zero-weight-outlier", G.outlier);
    R ().cls ("procrustes.all-weights-zero", G.zerow);
    R ().cls ("procrustes.sets-far-from-origin(offset 2^20)", (long long) (sets.size () - nNear));
    R ().note_max ("worst procrustes |M - known transform| / bound", G.w_known);
    R ().note_max ("worst procrustes residual / bound", G.w_res);
    R ().note_max ("worst residual decrease under rotation perturbation / (2^-30 residual)", G.w_opt);
    std::string b = std::to_string (sets.size ()) + " lattice point sets of 1..6 points x 24 cube rotations x " + std::to_string (trans.size ()) +
                    " translations x scale {1,2,1/2} x {unweighted, unit weights, prime weights} x {float,double}; " + std::to_string (G.unrelated) + " calls on unrelated pairs (3- and 4-point sets against shifted generic points) with the perturbation test; " +
                    std::to_string (G.mirror) + " calls on mirror-image pairs, " + std::to_string (G.outlier) + " with a zero-weight outlier, " + std::to_string (G.zerow) + " with all weights zero";
    if (ok) R ().stage_done (b); else R ().stage_partial (b);
}

} // namespace c12
