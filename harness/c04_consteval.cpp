// C04 — the const operator[] of Vec2/3/4 has a separate `if consteval` body under C++23 (__cpp_if_consteval): during
// constant evaluation the component is selected by a conditional chain instead of pointer arithmetic. This TU is
// compiled with -std=c++2b (see tools/props.d/C04.py) and evaluates, IN CONSTANT EXPRESSIONS, v[i] for every index of
// every dimension and element type and the constexpr predicates that are built on operator[]; the constant-evaluated
// values are then compared at run time with the named members (a wrong constant must be a reported violation, not a
// build failure, so nothing here is a static_assert).
#include "../engine/report.hpp"
#include <ImathColor.h>
#include <ImathVec.h>
#include <half.h>

using namespace IMATH_NAMESPACE;
using vf::R;

namespace {
long long n_cases = 0;

template <class T> void vec2 (const char* tn)
{
    constexpr Vec2<T> v (T (3), T (5));
    constexpr T a = v[0], b = v[1];
    ++n_cases;
    if (!(a == T (3) && b == T (5)))
        R ().fail ("Vec2::operator[]const.constant-evaluated", std::string ("T=") + tn + " v=(3,5)", "3 5", vf::Msg () << (double) a << " " << (double) b);
}
template <class T> void vec3 (const char* tn)
{
    constexpr Vec3<T> v (T (3), T (5), T (7));
    constexpr T a = v[0], b = v[1], c = v[2];
    ++n_cases;
    if (!(a == T (3) && b == T (5) && c == T (7)))
        R ().fail ("Vec3::operator[]const.constant-evaluated", std::string ("T=") + tn + " v=(3,5,7)", "3 5 7", vf::Msg () << (double) a << " " << (double) b << " " << (double) c);
}
template <class T> void vec4 (const char* tn)
{
    constexpr Vec4<T> v (T (3), T (5), T (7), T (11));
    constexpr T a = v[0], b = v[1], c = v[2], d = v[3];
    ++n_cases;
    if (!(a == T (3) && b == T (5) && c == T (7) && d == T (11)))
        R ().fail ("Vec4::operator[]const.constant-evaluated", std::string ("T=") + tn + " v=(3,5,7,11)", "3 5 7 11",
                   vf::Msg () << (double) a << " " << (double) b << " " << (double) c << " " << (double) d);
}
// half elements (built from bit patterns: half(float) is not constexpr) and Color3 (inherits Vec3's consteval body)
void vec_half ()
{
    constexpr half h3 (half::FromBits, 0x4200), h5 (half::FromBits, 0x4500), h7 (half::FromBits, 0x4700), h11 (half::FromBits, 0x4980);
    constexpr Vec2<half> v2 (h3, h5);
    constexpr half a2 = v2[0], b2 = v2[1];
    constexpr Vec3<half> v3 (h3, h5, h7);
    constexpr half a3 = v3[0], b3 = v3[1], c3 = v3[2];
    constexpr Vec4<half> v4 (h3, h5, h7, h11);
    constexpr half a4 = v4[0], b4 = v4[1], c4 = v4[2], d4 = v4[3];
    n_cases += 3;
    auto bits = [] (half h) { return (unsigned) h.bits (); };
    if (!(bits (a2) == 0x4200 && bits (b2) == 0x4500))
        R ().fail ("Vec2::operator[]const.constant-evaluated", "T=half v=(3,5)", "0x4200 0x4500", vf::Msg () << bits (a2) << " " << bits (b2));
    if (!(bits (a3) == 0x4200 && bits (b3) == 0x4500 && bits (c3) == 0x4700))
        R ().fail ("Vec3::operator[]const.constant-evaluated", "T=half v=(3,5,7)", "0x4200 0x4500 0x4700", vf::Msg () << bits (a3) << " " << bits (b3) << " " << bits (c3));
    if (!(bits (a4) == 0x4200 && bits (b4) == 0x4500 && bits (c4) == 0x4700 && bits (d4) == 0x4980))
        R ().fail ("Vec4::operator[]const.constant-evaluated", "T=half v=(3,5,7,11)", "0x4200 0x4500 0x4700 0x4980",
                   vf::Msg () << bits (a4) << " " << bits (b4) << " " << bits (c4) << " " << bits (d4));
}
template <class T> void color3 (const char* tn)
{
    constexpr Color3<T> v (T (3), T (5), T (7));
    constexpr T a = v[0], b = v[1], c = v[2];
    ++n_cases;
    if (!(a == T (3) && b == T (5) && c == T (7)))
        R ().fail ("Color3::operator[]const.constant-evaluated", std::string ("T=") + tn + " v=(3,5,7)", "3 5 7", vf::Msg () << (double) a << " " << (double) b << " " << (double) c);
}
// constexpr predicates that loop over operator[]: must depend on EVERY component also when constant-evaluated
template <class V, int N> void preds (const char* name)
{
    typedef typename V::BaseType T;
    bool ok = true;
    std::string which;
    auto chk = [&] (bool got, bool want, const std::string& w) { if (got != want) { ok = false; which += w + " "; } };
    if constexpr (N == 2)
    {
        constexpr V a (T (10), T (20));
        constexpr V b0 (T (11), T (20)), b1 (T (10), T (21));
        constexpr bool e0 = a.equalWithAbsError (b0, T (0)), e1 = a.equalWithAbsError (b1, T (0)), es = a.equalWithAbsError (a, T (0));
        constexpr bool r0 = a.equalWithRelError (b0, T (0)), r1 = a.equalWithRelError (b1, T (0));
        chk (e0, false, "abs[0]"); chk (e1, false, "abs[1]"); chk (es, true, "abs[self]"); chk (r0, false, "rel[0]"); chk (r1, false, "rel[1]");
    }
    if constexpr (N == 3)
    {
        constexpr V a (T (10), T (20), T (30));
        constexpr V b0 (T (11), T (20), T (30)), b1 (T (10), T (21), T (30)), b2 (T (10), T (20), T (31));
        constexpr bool e0 = a.equalWithAbsError (b0, T (0)), e1 = a.equalWithAbsError (b1, T (0)), e2 = a.equalWithAbsError (b2, T (0)), es = a.equalWithAbsError (a, T (0));
        constexpr bool r0 = a.equalWithRelError (b0, T (0)), r1 = a.equalWithRelError (b1, T (0)), r2 = a.equalWithRelError (b2, T (0));
        chk (e0, false, "abs[0]"); chk (e1, false, "abs[1]"); chk (e2, false, "abs[2]"); chk (es, true, "abs[self]");
        chk (r0, false, "rel[0]"); chk (r1, false, "rel[1]"); chk (r2, false, "rel[2]");
    }
    if constexpr (N == 4)
    {
        constexpr V a (T (10), T (20), T (30), T (40));
        constexpr V b0 (T (11), T (20), T (30), T (40)), b1 (T (10), T (21), T (30), T (40)), b2 (T (10), T (20), T (31), T (40)), b3 (T (10), T (20), T (30), T (41));
        constexpr bool e0 = a.equalWithAbsError (b0, T (0)), e1 = a.equalWithAbsError (b1, T (0)), e2 = a.equalWithAbsError (b2, T (0)), e3 = a.equalWithAbsError (b3, T (0)),
                       es = a.equalWithAbsError (a, T (0));
        constexpr bool r0 = a.equalWithRelError (b0, T (0)), r1 = a.equalWithRelError (b1, T (0)), r2 = a.equalWithRelError (b2, T (0)), r3 = a.equalWithRelError (b3, T (0));
        chk (e0, false, "abs[0]"); chk (e1, false, "abs[1]"); chk (e2, false, "abs[2]"); chk (e3, false, "abs[3]"); chk (es, true, "abs[self]");
        chk (r0, false, "rel[0]"); chk (r1, false, "rel[1]"); chk (r2, false, "rel[2]"); chk (r3, false, "rel[3]");
    }
    ++n_cases;
    if (!ok) R ().fail (std::string (name) + "::equalWith*Error.constant-evaluated", "one component differs by 1, tolerance 0", "differs in every slot, equal to itself", "wrong for: " + which);
}
} // namespace

void c04_consteval_stage ()
{
    if (!R ().stage ("constant-evaluation-c++23")) return;
#ifdef __cpp_if_consteval
    R ().note ("if_consteval", "available: the consteval bodies of the const operator[] were evaluated");
#else
    R ().note ("if_consteval", "NOT available in this compiler: the ordinary bodies were constant-evaluated");
#endif
    vec2<int> ("int"); vec2<short> ("short"); vec2<float> ("float"); vec2<double> ("double"); vec2<long> ("int64");
    vec3<int> ("int"); vec3<short> ("short"); vec3<float> ("float"); vec3<double> ("double"); vec3<long> ("int64");
    vec4<int> ("int"); vec4<short> ("short"); vec4<float> ("float"); vec4<double> ("double"); vec4<long> ("int64");
    vec_half ();
    color3<float> ("float"); color3<unsigned char> ("unsigned char");
    preds<Vec2<float>, 2> ("Vec2"); preds<Vec2<double>, 2> ("Vec2"); preds<Vec2<int>, 2> ("Vec2");
    preds<Vec3<float>, 3> ("Vec3"); preds<Vec3<double>, 3> ("Vec3"); preds<Vec3<int>, 3> ("Vec3");
    preds<Vec4<float>, 4> ("Vec4"); preds<Vec4<double>, 4> ("Vec4"); preds<Vec4<int>, 4> ("Vec4");
    R ().add ("states", n_cases); R ().add ("evaluations", n_cases); R ().add ("transitions", n_cases);
    R ().cls ("constant-evaluated.operator[]-and-predicates", n_cases);
    R ().stage_done ("Vec2/3/4 x {short,int,int64,half,float,double}, Color3 x {float, unsigned char}: every index of the const operator[] and equalWithAbs/RelError in every slot, in constant expressions under -std=c++2b");
}
