// C15 (part c) — Sphere3::intersectT / intersect / circumscribe and the line/triangle intersect().
#include "c15.hpp"

namespace c15 {
using namespace vf;

// ------------------------------------------------------------------------------------------------
// Sphere.  Centre c, radius r in {0,1,3,5,7}; line origin c + w, direction v (integers).
//   a = v.v, b = v.w, C = w.w - r^2, disc = b^2 - a C (integer);  roots t+- = (-b +- sqrt(disc)) / |v|.
//   disc < 0 : no intersection -> false.        disc = 0 : tangent -> either answer (if true, t near -b/|v| >= 0).
//   disc > 0 : the answer is the smallest root >= 0; a root within the tolerance of 0 (origin on the sphere)
//              may legitimately fall on either side of the t >= 0 test, so then every consistent answer is accepted.
// Tolerance (disc > 0): tol = 16 eps S2 / sqrt(disc/a) + 16 eps S, S2 = w.w + r^2 + 1, S = |w|_1 + r + 1:
//   the library's discriminant B^2 - 4C carries <= 9 eps B^2 + 4 (4 eps w.w + 2 eps r^2) + eps |disc| <= 60 eps S2,
//   so its square root errs by <= 60 eps S2 / (4 sqrt(disc/a)) and t by half of that plus 4 eps |w| from B.
//   On the lattice |disc|/a >= 1/49, far above 60 eps S2 (S2 <= 141), so the sign of disc is decided correctly.
template <class T> static void sphere_stage ()
{
    const LD   e  = ex::eps<T> ();
    const bool th = R ().thorough ();
    std::string st = std::string ("sphere.") + tname<T> ();
    if (!R ().stage (st)) return;
    std::vector<I3> CC = th ? lattice (1) : std::vector<I3>{{0, 0, 0}, {1, -2, 2}, {-1, 1, 0}};
    std::vector<I3> W = lattice (2);
    for (const I3& d : directions ()) { ll n = dot (d, d); if (n == 9 || n == 25 || n == 49) W.push_back (d); }
    for (ll k : {3, 5, 7, -3, -5, -7}) { W.push_back ({k, 0, 0}); W.push_back ({0, k, 0}); W.push_back ({0, 0, k}); }
    for (const I3& f : {I3{9, 1, -3}, I3{-4, 8, 1}, I3{0, 0, 9}, I3{-6, -6, 3}}) W.push_back (f);
    const auto D = directions ();
    const ll RR[] = {0, 1, 3, 5, 7};
    std::atomic<ll> miss (0), tang (0), outside (0), inside (0), behind (0), onsph (0), cases (0);
    std::mutex mm; double worst = 0;
    bool ok = parallel_chunks (CC.size () * W.size (), 2, [&] (uint64_t lo, uint64_t hi, unsigned) {
        ll k_miss = 0, k_tang = 0, k_out = 0, k_in = 0, k_beh = 0, k_on = 0, k_c = 0; double lw = 0;
        for (uint64_t i = lo; i < hi; ++i)
        {
            I3 c = CC[i / W.size ()], w = W[i % W.size ()];
            for (ll r : RR)
                for (const I3& v : D)
                {
                    ++k_c;
                    Sphere3<T> sp (toV<T> (c), (T) r);
                    Line3<T>   l (toV<T> (c + w), toV<T> (c + w + v));
                    ll a = dot (v, v), b = dot (v, w), C = dot (w, w) - r * r, disc = b * b - a * C;
                    LD vl = sqrtl ((LD) a), S2 = (LD) (dot (w, w) + r * r + 1), S = (LD) (l1 (w) + r + 1);
                    T t = 77; Vec3<T> X ((T) 77);
                    bool r1 = sp.intersectT (l, t), r2 = sp.intersect (l, X);
                    auto in = [&] () { return std::string ("T=") + tname<T> () + " Sphere3(" + s (c) + ", " + std::to_string (r) + ") Line3(" + s (c + w) + ", +" + s (v) + ")"; };
                    if (r1 != r2) R ().fail ("Sphere3::intersect-vs-intersectT", in (), fmt (r1), fmt (r2));
                    if (r1 && r2)
                    {   // the reported point is the point of the line at the reported parameter
                        L3 wl = toL (l.pos) + toL (l.dir) * (LD) t;
                        if (!(maxdiff (X, wl) <= 4 * e * (l1 (toL (l.pos)) + fabsl ((LD) t)))) R ().fail ("Sphere3::intersect.point-is-line(t)", in (), s (wl), s (X));
                    }
                    if (disc < 0)
                    {
                        ++k_miss;
                        if (r1) R ().fail ("Sphere3::intersectT.true-on-miss", in (), "false", "true t=" + fmt (t));
                        continue;
                    }
                    if (disc == 0)
                    {
                        ++k_tang;
                        LD t0 = -(LD) b / vl, tolT = sqrtl (64 * e * S2) + 16 * e * S;
                        if (r1 && !(fabsl ((LD) t - t0) <= tolT && t0 >= -tolT)) R ().fail ("Sphere3::intersectT.tangent", in (), "false, or t near " + s (t0) + " if that is >= 0", fmt (t));
                        continue;
                    }
                    LD sq = sqrtl ((LD) disc), tm = (-(LD) b - sq) / vl, tp = (-(LD) b + sq) / vl;
                    LD tol = 16 * e * S2 / (sq / vl) + 16 * e * S;
                    if (C == 0) ++k_on; else if (C < 0) ++k_in; else if (b < 0) ++k_out; else ++k_beh;
                    bool near0 = fabsl (tm) <= tol || fabsl (tp) <= tol;
                    bool good;
                    if (!r1) good = tp < -tol || (near0 && tp <= tol);
                    else
                    {
                        bool is_m = fabsl ((LD) t - tm) <= tol, is_p = fabsl ((LD) t - tp) <= tol;
                        if (tm > tol) good = is_m;
                        else if (tm < -tol) good = is_p && tp >= -tol;
                        else good = is_m || is_p; // smaller root within tol of 0: it or the larger one
                        if (good) lw = std::max (lw, (double) (std::min (fabsl ((LD) t - tm), fabsl ((LD) t - tp)) / tol));
                        // on the sphere
                        if (good && r2 && !(fabsl (len (toL (X) - toL (c)) - r) <= 2 * tol + 8 * e * S)) R ().fail ("Sphere3::intersect.point-on-sphere", in (), std::to_string (r), s (len (toL (X) - toL (c))));
                    }
                    if (!good)
                        R ().fail (r1 ? "Sphere3::intersectT.smallest-nonnegative-root" : "Sphere3::intersectT.false-on-hit", in (), "roots t-=" + s (tm) + " t+=" + s (tp), r1 ? fmt (t) : std::string ("false"));
                }
        }
        miss += k_miss; tang += k_tang; outside += k_out; inside += k_in; behind += k_beh; onsph += k_on; cases += k_c;
        std::lock_guard<std::mutex> g (mm); worst = std::max (worst, lw);
    });
    R ().add ("states", cases); R ().add ("evaluations", cases); R ().add ("transitions", cases.load () * 2);
    R ().cls ("sphere.line-misses", miss); R ().cls ("sphere.tangent", tang); R ().cls ("sphere.origin-outside-pointing-at", outside);
    R ().cls ("sphere.origin-inside", inside); R ().cls ("sphere.origin-outside-sphere-behind", behind); R ().cls ("sphere.origin-on-sphere", onsph);
    R ().note_max (std::string ("worst intersectT error / tolerance, ") + tname<T> (), worst);

    // circumscribe: every box min <= max over L(2)^3 (3375 boxes): centre is the exact midpoint, radius the half
    // diagonal within 4 eps (exact integer/half-integer data, one sqrt), all 8 corners inside radius (1 + 4 eps).
    ll boxes = 0, degen = 0;
    for (const I3& mn : lattice (2))
        for (const I3& mx : lattice (2))
        {
            if (mx.x < mn.x || mx.y < mn.y || mx.z < mn.z) continue;
            ++boxes; if (mn == mx) ++degen;
            Sphere3<T> sp; sp.circumscribe (Box<Vec3<T>> (toV<T> (mn), toV<T> (mx)));
            L3 ctr = (toL (mn) + toL (mx)) * 0.5L;
            LD hd = len (toL (mx) - toL (mn)) / 2;
            std::string in = std::string ("T=") + tname<T> () + " Box(" + s (mn) + "," + s (mx) + ")";
            if (!(maxdiff (sp.center, ctr) == 0)) R ().fail ("Sphere3::circumscribe.center", in, s (ctr), s (sp.center));
            if (!(fabsl ((LD) sp.radius - hd) <= 4 * e * hd)) R ().fail ("Sphere3::circumscribe.radius-tight", in, s (hd), fmt (sp.radius));
            for (int k = 0; k < 8; ++k)
            {
                L3 cr = {(LD) ((k & 1) ? mx.x : mn.x), (LD) ((k & 2) ? mx.y : mn.y), (LD) ((k & 4) ? mx.z : mn.z)};
                if (!(len (cr - toL (sp.center)) <= (LD) sp.radius * (1 + 4 * e))) R ().fail ("Sphere3::circumscribe.encloses-corner", in + " corner " + std::to_string (k), "<= " + fmt (sp.radius), s (len (cr - toL (sp.center))));
            }
        }
    R ().add ("states", boxes); R ().add ("evaluations", boxes); R ().add ("transitions", boxes * 10);
    R ().cls ("circumscribe.degenerate-box", degen); R ().cls ("circumscribe.box", boxes - degen);
    if (ok) R ().stage_done (std::to_string (cases.load ()) + " (centre, radius, origin, direction) cases with exact integer discriminant; 3375 boxes");
    else R ().stage_partial ("deadline");
}
// ------------------------------------------------------------------------------------------------
// Origin EXACTLY on the sphere.  Statement: "intersectT returns the smallest non-negative ray parameter on the
// sphere (false if none)".  With the ray origin on the sphere, t = 0 is a root of |pos + t dir - c|^2 = r^2 and the
// other root is -2 (dir.w): inward ray (dir.w < 0) roots {0, chord > 0}; tangent ray: double root 0; outward ray
// roots {-chord < 0, 0}.  In all three the smallest non-negative parameter is 0, so the demand is: true, t = 0,
// and intersect() returns the origin itself.
// Input class: every integer point w of [-13,13]^3 whose squared length is a perfect square r^2 (r = 1..13: the
// axis points, the (3,4,0) / (1,2,2) / (2,3,6) / (3,4,12) / (5,12,0) / (1,4,8) ... families with all permutations
// and signs), origin c + w for several centres c, every direction of the alphabet, everything times 2^k.
// Why the answer is exactly decidable here (the generic sphere stage has to accept either root when a root is
// within its rounding tolerance of 0): c, w, r are small integers times 2^k, so pos - c = w, w.w and r^2 are
// computed without any rounding and the constant term C = w.w - r^2 is exactly 0; the discriminant is therefore
// fl(B^2) >= 0 (never "miss") and an IEEE sqrt gives sqrt(fl(B^2)) = |B| exactly (radix 2), so the root nearer 0
// evaluates to exactly 0 whatever rounding B = 2 dir.w itself carries; the other root is +-B, |B| >= 2/|v| >= 2/7 x 2^k
// away when the ray is not tangent.  For a tangent ray B is only the rounding residue of dir.w (<= 4 eps |w|_1,
// dir components carry <= 2 eps), so either root is within 8 eps |w|_1 of 0.  Tolerance, fixed a priori:
// |t| <= 16 eps (|w|_1 + r + 1) 2^k (the same 16 eps S term as the generic stage), more than 2^18 times smaller than
// the chord of any non-tangent lattice ray, so returning the far root can never pass.
template <class T> static void onsphere_stage ()
{
    const LD e = ex::eps<T> ();
    std::string st = std::string ("on-sphere.") + tname<T> ();
    if (!R ().stage (st)) return;
    struct P { I3 w; ll r; };
    std::vector<P> PP;
    for (ll x = -13; x <= 13; ++x)
        for (ll y = -13; y <= 13; ++y)
            for (ll z = -13; z <= 13; ++z)
            {
                ll n = x * x + y * y + z * z, r = (ll) llroundl (sqrtl ((LD) n));
                if (n > 0 && r * r == n) PP.push_back ({{x, y, z}, r});
            }
    const std::vector<I3> CC = {{0, 0, 0}, {1, -2, 2}, {-1, 1, 0}};
    const int KK[] = {-12, 0, 12};
    const auto D = directions ();
    std::atomic<ll> inw (0), outw (0), tang (0), axis (0), pyth (0), scaled (0), cases (0);
    bool ok = parallel_chunks (PP.size () * CC.size (), 4, [&] (uint64_t lo, uint64_t hi, unsigned) {
        ll k_in = 0, k_out = 0, k_tan = 0, k_ax = 0, k_py = 0, k_sc = 0, k_c = 0;
        for (uint64_t i = lo; i < hi; ++i)
        {
            const P& p = PP[i / CC.size ()];
            const I3 c = CC[i % CC.size ()], w = p.w;
            const ll r = p.r;
            const bool is_axis = l1 (w) == r;
            for (int k : KK)
                for (const I3& v : D)
                {
                    ++k_c; if (is_axis) ++k_ax; else ++k_py; if (k) ++k_sc;
                    const T sc = (T) std::ldexp (1.0, k);
                    Sphere3<T> sp (toV<T> (c) * sc, (T) r * sc);
                    Line3<T>   l (toV<T> (c + w) * sc, toV<T> (c + w + v) * sc); // all products exact (|n| <= 34, power of two)
                    const ll b = dot (v, w);
                    const char* cl = b < 0 ? "inward" : (b > 0 ? "outward" : "tangent");
                    if (b < 0) ++k_in; else if (b > 0) ++k_out; else ++k_tan;
                    T t = 77; Vec3<T> X ((T) 77);
                    bool r1 = sp.intersectT (l, t), r2 = sp.intersect (l, X);
                    const LD tol = 16 * e * (LD) (l1 (w) + r + 1) * ldexpl (1, k);
                    auto in = [&] () { return std::string ("T=") + tname<T> () + " Sphere3(" + s (c) + ", " + std::to_string (r) + ") Line3(" + s (c + w) + ", +" + s (v) + ") all x 2^" + std::to_string (k) + " [origin exactly on the sphere, " + cl + ", dir.w = " + std::to_string (b) + "/|v|]"; };
                    const std::string site = std::string ("Sphere3::intersectT.origin-on-sphere.") + cl;
                    if (r1 != r2) R ().fail ("Sphere3::intersect-vs-intersectT.origin-on-sphere", in (), fmt (r1), fmt (r2));
                    if (!r1) R ().fail (site + ".false-on-hit", in (), "true, t = 0", "false");
                    else if (!(fabsl ((LD) t) <= tol))
                        R ().fail (site + ".smallest-nonnegative-root", in (), "0 (other root " + s (-2 * (LD) b / sqrtl ((LD) dot (v, v)) * ldexpl (1, k)) + ")", fmt (t));
                    if (r2 && !(maxdiff (X, toL (l.pos)) <= tol)) // |dir| <= 1 + 2 eps: |X - pos| <= |t| (1 + 4 eps); judged against the same bound (t itself is judged above)
                        R ().fail (std::string ("Sphere3::intersect.origin-on-sphere.") + cl + ".point-is-origin", in (), s (l.pos), s (X));
                }
        }
        inw += k_in; outw += k_out; tang += k_tan; axis += k_ax; pyth += k_py; scaled += k_sc; cases += k_c;
    });
    R ().add ("states", cases); R ().add ("evaluations", cases); R ().add ("transitions", cases.load () * 2);
    R ().cls ("on-sphere.inward(near-root-exactly-0,far-root-positive)", inw); R ().cls ("on-sphere.outward(far-root-exactly-0)", outw);
    R ().cls ("on-sphere.tangent(double-root-0)", tang); R ().cls ("on-sphere.axis-origin", axis); R ().cls ("on-sphere.pythagorean-origin", pyth);
    R ().cls ("on-sphere.scaled-by-2^k", scaled);
    if (ok) R ().stage_done (std::to_string (PP.size ()) + " integer points on spheres of radius 1..13 x 3 centres x 3 dyadic scales x " + std::to_string (D.size ()) + " directions, origin exactly on the sphere (C = 0 exactly)");
    else R ().stage_partial ("deadline");
}
void run_sphere () { sphere_stage<float> (); sphere_stage<double> (); onsphere_stage<float> (); onsphere_stage<double> (); }

// ------------------------------------------------------------------------------------------------
// Triangle.  All ordered vertex triples of L(1)^3 (19683, degenerate ones included).  For a non-degenerate
// triangle, target points X = (w0 v0 + w1 v1 + w2 v2)/8 with integer weights summing to 8:
//   interior targets  : all weights >= 1           -> every line through X that crosses the plane must hit,
//                                                     pt = X, barycentric = w/8, front = (Ndoc.dir < 0), Ndoc = (v2-v1)x(v1-v0)
//   exterior targets  : some weight <= -1 (X in the plane, outside the closed triangle) -> must miss
//   lines parallel to the plane passing at height N above X -> must miss;  degenerate triangles -> false.
// Lines: Line3(X - 2v, X + v) (dyadic, exact in T) for v in +- the 13 small directions.
// Tolerances: hit point 32 eps S kappa^2 (same analysis as Plane3::intersect; kappa = |N||v|/|N.v|);
//   barycentrics tolb = 64 eps L/h + 4 tolp / h  (L longest edge, h smallest altitude): each is e/f with
//   f = (altitude)^2 and e a dot product of two vectors of length <= L and = altitude, each carrying <= 6 eps L
//   of projection rounding, so e/f errs by <= 16 eps L / h, plus the hit-point error divided by h.
//   A verdict is only demanded when tolb < 1/16 (the targets keep a margin of 1/8 from every edge);
//   grazing lines that do not satisfy this are counted and skipped.
template <class T> static void triangle_stage ()
{
    const LD e = ex::eps<T> ();
    std::string st = std::string ("triangle.") + tname<T> ();
    if (!R ().stage (st)) return;
    const auto V = lattice (1);
    std::vector<I3> DS;
    for (const I3& d : directions_small ()) { DS.push_back (d); DS.push_back (d * -1); }
    static const int IN[][3]  = {{4, 2, 2}, {2, 4, 2}, {2, 2, 4}, {6, 1, 1}, {1, 6, 1}, {1, 1, 6}, {3, 3, 2}, {1, 3, 4}, {5, 2, 1}};
    static const int OUT[][3] = {{-8, 8, 8}, {8, -8, 8}, {8, 8, -8}, {-1, 5, 4}, {4, -1, 5}, {5, 4, -1}, {24, -8, -8}, {-8, 24, -8}, {-8, -8, 24},
                                 {-2, 10, 0}, {12, -4, 0}, {0, -2, 10}, {9, 0, -1}, {-1, 8, 1}, {1, -1, 8}};
    std::atomic<ll> hits (0), misses (0), fronts (0), backs (0), parallel (0), degen (0), graze (0), nearedge (0), before (0), beyond (0), inplane (0);
    std::mutex mm; double worst = 0;
    bool ok = parallel_chunks (V.size () * V.size (), 4, [&] (uint64_t lo, uint64_t hi, unsigned) {
        ll k_hit = 0, k_miss = 0, k_f = 0, k_b = 0, k_par = 0, k_deg = 0, k_gr = 0, k_ne = 0, k_before = 0, k_beyond = 0, k_inplane = 0; double lw = 0;
        for (uint64_t i = lo; i < hi; ++i)
        {
            I3 v0 = V[i / V.size ()], v1 = V[i % V.size ()];
            for (const I3& v2 : V)
            {
                I3 Nd = cross (v2 - v1, v1 - v0); // documented normal
                ll NN = dot (Nd, Nd);
                Vec3<T> a0 = toV<T> (v0), a1 = toV<T> (v1), a2 = toV<T> (v2);
                std::string tri = std::string ("T=") + tname<T> () + " tri=" + s (v0) + s (v1) + s (v2);
                if (NN == 0)
                {
                    for (int k = 0; k < 4; ++k)
                    {
                        I3 v = DS[k * 5]; I3 o = v0 - v * 2;
                        Line3<T> l (toV<T> (o), toV<T> (o + v * 3));
                        Vec3<T> pt ((T) 77), bc ((T) 77); bool fr = false;
                        if (intersect (l, a0, a1, a2, pt, bc, fr)) R ().fail ("intersect(triangle).true-on-degenerate", tri + " Line3(" + s (o) + ", +" + s (v * 3) + ")", "false", "true");
                        ++k_deg;
                    }
                    continue;
                }
                ll e2[3] = {dot (v1 - v0, v1 - v0), dot (v2 - v1, v2 - v1), dot (v0 - v2, v0 - v2)};
                LD L = sqrtl ((LD) std::max (e2[0], std::max (e2[1], e2[2]))), h = sqrtl ((LD) NN) / L;
                auto run = [&] (const int* w, bool interior) {
                    Vec3<T> X = (a0 * (T) w[0] + a1 * (T) w[1] + a2 * (T) w[2]) / (T) 8; // exact: dyadic
                    L3 XL = (toL (v0) * w[0] + toL (v1) * w[1] + toL (v2) * w[2]) * 0.125L;
                    for (const I3& v : DS)
                    {
                        ll nv = dot (Nd, v);
                        Vec3<T> vv = toV<T> (v);
                        Vec3<T> pt ((T) 77), bc ((T) 77); bool fr = false;
                        if (nv == 0)
                        {   // parallel to the plane, lifted off it by the (integer) normal
                            if (!interior || w != IN[0]) continue;
                            Vec3<T> o = X + toV<T> (Nd);
                            Line3<T> l (o - vv * (T) 2, o + vv);
                            ++k_par;
                            if (intersect (l, a0, a1, a2, pt, bc, fr)) R ().fail ("intersect(triangle).true-on-parallel-line", tri + " line through " + s (o) + " dir " + s (v), "false", "true");
                            continue;
                        }
                        // the line origin before the triangle (hit at t > 0), beyond it (t < 0) and exactly in its plane
                        // (t = 0): the hit, the barycentrics and the front flag belong to the LINE, not to a ray
                        for (int pk = -2; pk <= 1; ++pk)
                        {
                        if (pk == -1) continue;
                        Line3<T> l (X + vv * (T) pk, X + vv * (T) (pk + 3));
                        (pk < 0 ? k_before : pk > 0 ? k_beyond : k_inplane)++;
                        LD k2 = (LD) NN * dot (v, v) / ((LD) nv * nv);
                        LD S = l1 (XL) + l1 (toL (l.pos)) + 4;
                        LD tolp = 32 * e * S * k2, tolb = 64 * e * L / h + 4 * tolp / h;
                        if (!(tolb < 1.0L / 16)) { ++k_gr; continue; }
                        bool r = intersect (l, a0, a1, a2, pt, bc, fr);
                        auto in = [&] () { return tri + " weights/8=(" + std::to_string (w[0]) + "," + std::to_string (w[1]) + "," + std::to_string (w[2]) + ") Line3(X+" + std::to_string (pk) + "v, X+" + std::to_string (pk + 3) + "v) v=" + s (v); };
                        if (!interior)
                        {
                            ++k_miss;
                            if (r) R ().fail ("intersect(triangle).true-outside", in (), "false", "true bary=" + s (bc));
                            continue;
                        }
                        ++k_hit;
                        if (w[0] == 1 || w[1] == 1 || w[2] == 1) ++k_ne;
                        if (!r) { R ().fail ("intersect(triangle).false-inside", in (), "true", "false"); continue; }
                        bool wf = nv < 0;
                        (wf ? k_f : k_b)++;
                        if (fr != wf) R ().fail ("intersect(triangle).front", in (), fmt (wf), fmt (fr));
                        if (!(maxdiff (pt, XL) <= tolp)) R ().fail ("intersect(triangle).point", in (), s (XL), s (pt));
                        L3 wb = {w[0] / 8.0L, w[1] / 8.0L, w[2] / 8.0L};
                        LD db = maxdiff (bc, wb);
                        lw = std::max (lw, (double) (db / tolb));
                        if (!(db <= tolb)) R ().fail ("intersect(triangle).barycentric", in (), s (wb), s (bc));
                        else
                        {
                            if (!(fabsl ((LD) bc.x + (LD) bc.y + (LD) bc.z - 1) <= 4 * e)) R ().fail ("intersect(triangle).barycentric-sum", in (), "1", s ((LD) bc.x + (LD) bc.y + (LD) bc.z));
                            L3 rep = toL (v0) * (LD) bc.x + toL (v1) * (LD) bc.y + toL (v2) * (LD) bc.z;
                            if (!(linf (rep - toL (pt)) <= 4 * tolb * L + tolp)) R ().fail ("intersect(triangle).barycentric-reproduces-pt", in (), s (pt), s (rep));
                        }
                        } // pk
                    }
                };
                for (auto& w : IN) run (w, true);
                for (auto& w : OUT) run (w, false);
            }
        }
        hits += k_hit; misses += k_miss; fronts += k_f; backs += k_b; parallel += k_par; degen += k_deg; graze += k_gr; nearedge += k_ne;
        before += k_before; beyond += k_beyond; inplane += k_inplane;
        std::lock_guard<std::mutex> g (mm); worst = std::max (worst, lw);
    });
    ll n = hits + misses + parallel + degen;
    R ().add ("states", n); R ().add ("evaluations", n); R ().add ("transitions", hits.load () * 6 + misses + parallel + degen);
    R ().add (std::string ("triangle_grazing_lines_skipped.") + tname<T> (), graze);
    R ().cls ("triangle.line-through-interior", hits); R ().cls ("triangle.line-misses-closed-triangle", misses);
    R ().cls ("triangle.front-facing", fronts); R ().cls ("triangle.back-facing", backs); R ().cls ("triangle.line-parallel-to-plane", parallel);
    R ().cls ("triangle.degenerate", degen); R ().cls ("triangle.hit-near-edge-or-vertex", nearedge);
    R ().cls ("triangle.line-origin-before-the-plane(t>0)", before); R ().cls ("triangle.line-origin-beyond-the-plane(t<0)", beyond); R ().cls ("triangle.line-origin-in-the-plane(t=0)", inplane);
    R ().note_max (std::string ("worst barycentric error / tolerance, ") + tname<T> (), worst);
    if (ok) R ().stage_done ("all 19683 ordered vertex triples of L(1)^3 x (9 interior + 15 exterior targets) x 26 line directions x 3 line origins (before / in / beyond the plane)");
    else R ().stage_partial ("deadline");
}
void run_triangle () { triangle_stage<float> (); triangle_stage<double> (); }
} // namespace c15
