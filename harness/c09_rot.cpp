// C09, stage "rotations": Matrix22/33::setRotation/rotate, Matrix44::setAxisAngle, setEulerAngles, rotate.
//
// Alphabet: angles k*pi/12, k in [-48,48] (four periods each way) and +-10^-j, j = 1..15, each rounded to T
// first (the oracle takes the rounded value as *the* input); axes = the 26 lattice directions, generic
// and exactly scaled non-unit axes; current matrices as in c09.cpp; points L(2)^3 / L(2)^2.
//
// Oracle: long double (64-bit significand). The documented rotation is written from the definition:
//   * 2-D: (x,y) -> (x cos r - y sin r, x sin r + y cos r)                      (counter-clockwise by r)
//   * axis/angle: Rodrigues  p' = p cos a + (u x p) sin a + u (u.p)(1 - cos a),  u = axis/|axis|
//   * XYZ Euler angles: p' = rotZ(rz)( rotY(ry)( rotX(rx) p ) )  (X first), each elementary rotation being
//     the right-handed rotation about that coordinate axis; with row vectors M = Rx*Ry*Rz
//   and the matrix M is the one with  p' = p * M  (row i of M = image of e_i).
//
// Tolerance (fixed a priori): every entry of a computed matrix must lie within 8*eps*A_ij of the oracle
// entry, where A_ij is the sum of the absolute values of the terms of the defining expression
// (products of |cos|,|sin| for Euler; |u_i u_j|*(1+|cos|) + |u_k sin| (+|cos| on the diagonal) for
// axis/angle, i.e. the "1 - cos" written as its two terms). Error analysis, u = eps/2, glibc sin/cos
// < 1 ulp = 2u relative: Euler entry = sum of <= 2 products of <= 3 trig values: (3*2u + 2u) per term + u
// for the sum <= 4.5 eps A; axis/angle: unit vector components 3.5u relative (dot 3u/2... sqrt, divide),
// u_i u_j (1-c): <= 5 eps |u_i u_j|(1+|c|), u_k s: 3.25 eps, final add 0.5 eps: <= 5.5 eps A. In-place
// rotate adds one product and two additions per entry (<= +1.5 eps), the action on a point likewise, so
// 8 eps * (sum_k A_ik |M_kj|) resp. 8 eps * (sum_k |p_k| A_kj) bounds them. Orthonormality and
// determinant tolerances are *derived* from the entry tolerance: |row_i.row_k - delta_ik| <=
// 8 eps sum_j (|M_ij| A_kj + |M_kj| A_ij), |det - 1| <= 8 eps sum_ij |M_ij| A_ij (first order, x1.01).
#include "c09_common.hpp"

namespace c09 {
namespace {
using vf::R;

struct O3 // oracle 3x3 with abs-term sums
{
    LD m[3][3], a[3][3];
};

O3 o3_mul (const O3& p, const O3& q)
{
    O3 r;
    for (int i = 0; i < 3; ++i)
        for (int j = 0; j < 3; ++j)
        {
            LD s = 0, t = 0;
            for (int k = 0; k < 3; ++k) { s += p.m[i][k] * q.m[k][j]; t += p.a[i][k] * q.a[k][j]; }
            r.m[i][j] = s;
            r.a[i][j] = t;
        }
    return r;
}
// elementary right-handed rotation about coordinate axis `ax` by the angle with cosine c, sine s,
// as the matrix acting on row vectors
O3 elementary (int ax, LD c, LD s)
{
    O3 r;
    for (int i = 0; i < 3; ++i)
        for (int j = 0; j < 3; ++j) r.m[i][j] = (i == j);
    int i1 = (ax + 1) % 3, i2 = (ax + 2) % 3; // (e_i1, e_i2) is the positively oriented plane
    // e_i1 -> c e_i1 + s e_i2 ; e_i2 -> -s e_i1 + c e_i2
    r.m[i1][i1] = c; r.m[i1][i2] = s;
    r.m[i2][i1] = -s; r.m[i2][i2] = c;
    for (int i = 0; i < 3; ++i)
        for (int j = 0; j < 3; ++j) r.a[i][j] = fabsl (r.m[i][j]);
    return r;
}
// Rodrigues, row i = image of e_i
O3 rodrigues (const LD* axis, LD c, LD s)
{
    O3 r;
    LD u[3];
    unit3 (axis, u);
    for (int i = 0; i < 3; ++i)
    {
        LD e[3] = {0, 0, 0}, uxe[3];
        e[i]    = 1;
        cross3 (u, e, uxe);
        for (int j = 0; j < 3; ++j)
        {
            r.m[i][j] = (i == j ? c : 0) + uxe[j] * s + u[j] * u[i] * (1 - c);
            r.a[i][j] = (i == j ? fabsl (c) : 0) + fabsl (uxe[j] * s) + fabsl (u[j] * u[i]) * (1 + fabsl (c));
        }
    }
    return r;
}

struct Tally
{
    long long states = 0, trans = 0;
    long long ang_full_turn = 0, ang_beyond = 0, ang_tiny = 0, ang_quarter = 0, gimbal = 0, axis_nonunit = 0, axis_diag = 0, cur_nonaffine = 0,
              ang_generic = 0;
    double worst_entry = 0, worst_orth = 0;
    void   merge (const Tally& o)
    {
        states += o.states; trans += o.trans; ang_full_turn += o.ang_full_turn; ang_beyond += o.ang_beyond; ang_tiny += o.ang_tiny;
        ang_quarter += o.ang_quarter; gimbal += o.gimbal; axis_nonunit += o.axis_nonunit; axis_diag += o.axis_diag; cur_nonaffine += o.cur_nonaffine;
        ang_generic += o.ang_generic;
        if (o.worst_entry > worst_entry) worst_entry = o.worst_entry;
        if (o.worst_orth > worst_orth) worst_orth = o.worst_orth;
    }
};

template <class T> void count_angle (Tally& tl, const Ang<T>& g)
{
    if (g.tiny) ++tl.ang_tiny;
    else if (g.k % 24 == 0) ++tl.ang_full_turn;
    else if (g.k % 6 == 0) ++tl.ang_quarter;
    else ++tl.ang_generic;
    if (!g.tiny && (g.k > 24 || g.k < -24)) ++tl.ang_beyond;
}

// compare a T matrix block with the oracle; returns worst ratio err/(eps*A) seen (for note_max)
template <class T, int N, class Desc>
inline void cmp_entries (Tally& tl, const std::string& st, const T (&x)[N][N], int n, const LD (*m)[4], const LD (*a)[4], Desc desc)
{
    const LD e = EPS<T> ();
    for (int i = 0; i < n; ++i)
        for (int j = 0; j < n; ++j)
        {
            LD d = fabsl ((LD) x[i][j] - m[i][j]);
            LD t = 8 * e * a[i][j];
            if (a[i][j] > 0) { double ratio = (double) (d / (e * a[i][j])); if (ratio > tl.worst_entry) tl.worst_entry = ratio; }
            if (!(d <= t))
            {
                R ().fail (st, desc () + " entry[" + std::to_string (i) + "][" + std::to_string (j) + "]", vf::fmt (m[i][j]) + " +- " + vf::fmt (t), vf::fmt (x[i][j]));
                return;
            }
        }
}

// ---- 2-D: Matrix22 / Matrix33 setRotation, rotate ------------------------------------------------------
template <class T> void rot2d (Tally& tl)
{
    auto       angs = angle_set<T> ();
    const LD   e    = EPS<T> ();
    auto       m2   = current_matrices (2, true);
    auto       m3   = current_matrices (3, false);
    IM d3 = im_identity (3), d2 = im_identity (2);
    for (int i = 0; i < 3; ++i)
        for (int j = 0; j < 3; ++j) d3.a[i][j] = 100 + ex::PRIMES[i * 3 + j];
    for (int i = 0; i < 2; ++i)
        for (int j = 0; j < 2; ++j) d2.a[i][j] = 100 + ex::PRIMES[i * 2 + j];
    for (auto& g : angs)
    {
        count_angle (tl, g);
        ++tl.states;
        LD Rm[4][4] = {{g.c, g.s, 0, 0}, {-g.s, g.c, 0, 0}, {0, 0, 1, 0}, {0, 0, 0, 1}}, Ra[4][4];
        for (int i = 0; i < 4; ++i)
            for (int j = 0; j < 4; ++j) Ra[i][j] = fabsl (Rm[i][j]);
        Matrix22<T> B2 = mk22<T> (d2);
        Matrix33<T> B3 = mk33<T> (d3);
        const Matrix22<T>* r2 = &B2.setRotation (g.a);
        const Matrix33<T>* r3 = &B3.setRotation (g.a);
        tl.trans += 2;
        if (r2 != &B2) R ().fail (site<T> ("Matrix22", "setRotation.returns-this"), g.name);
        if (r3 != &B3) R ().fail (site<T> ("Matrix33", "setRotation.returns-this"), g.name);
        cmp_entries<T, 2> (tl, site<T> ("Matrix22", "setRotation.entries"), B2.x, 2, Rm, Ra, [&] () { return "r=" + g.name; });
        cmp_entries<T, 3> (tl, site<T> ("Matrix33", "setRotation.entries"), B3.x, 3, Rm, Ra, [&] () { return "r=" + g.name; });
        // the homogeneous part of Matrix33::setRotation is exact
        if (!(B3.x[0][2] == 0 && B3.x[1][2] == 0 && B3.x[2][0] == 0 && B3.x[2][1] == 0 && B3.x[2][2] == 1))
            R ().fail (site<T> ("Matrix33", "setRotation.homogeneous-part"), "r=" + g.name, "third row/column (0,0,1)", mat_str (B3.x));
        // action on lattice points: counter-clockwise rotation by r
        for (int pi = 0; pi < 25; ++pi)
        {
            int p[2];
            ex::decode ((uint64_t) pi, 5, 2, p, -2);
            LD ex_ = p[0] * g.c - p[1] * g.s, ey = p[0] * g.s + p[1] * g.c;
            LD tx = 8 * e * (fabsl (p[0] * g.c) + fabsl (p[1] * g.s)), ty = 8 * e * (fabsl (p[0] * g.s) + fabsl (p[1] * g.c));
            Vec2<T> pv ((T) p[0], (T) p[1]);
            Vec2<T> g2 = pv * B2, g3 = pv * B3;
            tl.trans += 2;
            if (!(fabsl ((LD) g2.x - ex_) <= tx && fabsl ((LD) g2.y - ey) <= ty))
                R ().fail (site<T> ("Matrix22", "setRotation.p*M=p-rotated-ccw"), "r=" + g.name + " p=" + i2 (p), "(" + vf::fmt (ex_) + "," + vf::fmt (ey) + ")", "(" + vf::fmt (g2.x) + "," + vf::fmt (g2.y) + ")");
            if (!(fabsl ((LD) g3.x - ex_) <= tx && fabsl ((LD) g3.y - ey) <= ty))
                R ().fail (site<T> ("Matrix33", "setRotation.p*M=p-rotated-ccw"), "r=" + g.name + " p=" + i2 (p), "(" + vf::fmt (ex_) + "," + vf::fmt (ey) + ")", "(" + vf::fmt (g3.x) + "," + vf::fmt (g3.y) + ")");
        }
        // in-place rotate == M * setRotation (POST-multiplication for the 2-D classes)
        for (const IM& cm : m2)
        {
            LD Em[4][4], Ea[4][4];
            for (int i = 0; i < 2; ++i)
                for (int j = 0; j < 2; ++j)
                {
                    Em[i][j] = Ea[i][j] = 0;
                    for (int k = 0; k < 2; ++k) { Em[i][j] += cm.a[i][k] * Rm[k][j]; Ea[i][j] += fabsl ((LD) cm.a[i][k]) * Ra[k][j]; }
                }
            Matrix22<T>        A   = mk22<T> (cm);
            const Matrix22<T>* ret = &A.rotate (g.a);
            ++tl.trans; ++tl.states;
            if (ret != &A) R ().fail (site<T> ("Matrix22", "rotate.returns-this"), g.name);
            cmp_entries<T, 2> (tl, site<T> ("Matrix22", "rotate=M*setRotation"), A.x, 2, Em, Ea, [&] () { return "r=" + g.name + " M=" + im_str (cm); });
        }
        for (const IM& cm : m3)
        {
            LD Em[4][4], Ea[4][4];
            for (int i = 0; i < 3; ++i)
                for (int j = 0; j < 3; ++j)
                {
                    Em[i][j] = Ea[i][j] = 0;
                    for (int k = 0; k < 3; ++k) { Em[i][j] += cm.a[i][k] * Rm[k][j]; Ea[i][j] += fabsl ((LD) cm.a[i][k]) * Ra[k][j]; }
                }
            Matrix33<T>        A   = mk33<T> (cm);
            const Matrix33<T>* ret = &A.rotate (g.a);
            ++tl.trans; ++tl.states;
            if (cm.name[0] == 'G') ++tl.cur_nonaffine;
            if (ret != &A) R ().fail (site<T> ("Matrix33", "rotate.returns-this"), g.name);
            cmp_entries<T, 3> (tl, site<T> ("Matrix33", "rotate=M*setRotation"), A.x, 3, Em, Ea, [&] () { return "r=" + g.name + " M=" + im_str (cm); });
        }
    }
}

// ---- Matrix44::setAxisAngle --------------------------------------------------------------------------
struct Axis { LD v[3]; std::string name; bool nonunit, diag; };

template <class T> std::vector<Axis> axis_set (bool thorough)
{
    std::vector<Axis> v;
    auto add = [&] (LD x, LD y, LD z, const std::string& n) {
        Axis a;
        // the axis is handed to the library as T; all alphabet members are exactly representable
        a.v[0] = (LD) (T) x; a.v[1] = (LD) (T) y; a.v[2] = (LD) (T) z;
        a.name = n;
        LD l2 = a.v[0] * a.v[0] + a.v[1] * a.v[1] + a.v[2] * a.v[2];
        a.nonunit = (l2 != 1);
        a.diag    = (x != 0) + (y != 0) + (z != 0) >= 2;
        v.push_back (a);
    };
    const int R2 = thorough ? 2 : 1;
    for (int x = -R2; x <= R2; ++x)
        for (int y = -R2; y <= R2; ++y)
            for (int z = -R2; z <= R2; ++z)
                if (x || y || z) add (x, y, z, "(" + std::to_string (x) + "," + std::to_string (y) + "," + std::to_string (z) + ")");
    add (2, 3, 5, "(2,3,5)");
    add (-7, 11, -13, "(-7,11,-13)");
    add (3, 0, -4, "(3,0,-4)");
    add (ldexpl (1, 20), -ldexpl (1, 20), ldexpl (1, 20), "(1,-1,1)*2^20");
    add (ldexpl (1, -20), -ldexpl (3, -20), ldexpl (2, -20), "(1,-3,2)*2^-20");
    // "any non-zero axis": magnitudes at which the squared length is subnormal, underflows to zero, or is huge
    // (the rotation does not depend on the magnitude of the axis)
    {
        const bool dbl = std::numeric_limits<T>::digits > 30;
        const int  ks[3] = {dbl ? -540 : -70, dbl ? -600 : -100, dbl ? 500 : 60};
        for (int k : ks)
        {
            add (ldexpl (1, k), -ldexpl (3, k), ldexpl (2, k), "(1,-3,2)*2^" + std::to_string (k));
            add (0, ldexpl (1, k), 0, "(0,1,0)*2^" + std::to_string (k));
            add (-ldexpl (2, k), 0, ldexpl (1, k), "(-2,0,1)*2^" + std::to_string (k));
        }
    }
    return v;
}

template <class T> void axis_angle (Tally& tl, bool thorough)
{
    auto     angs = angle_set<T> ();
    auto     axes = axis_set<T> (thorough);
    const LD e    = EPS<T> ();
    IM dirty = im_identity (4);
    for (int i = 0; i < 4; ++i)
        for (int j = 0; j < 4; ++j) dirty.a[i][j] = 100 + ex::PRIMES[i * 4 + j];
    for (auto& ax : axes)
        for (auto& g : angs)
        {
            ++tl.states;
            count_angle (tl, g);
            if (ax.nonunit) ++tl.axis_nonunit;
            if (ax.diag) ++tl.axis_diag;
            O3 o = rodrigues (ax.v, g.c, g.s);
            LD Em[4][4], Ea[4][4];
            for (int i = 0; i < 3; ++i)
                for (int j = 0; j < 3; ++j) { Em[i][j] = o.m[i][j]; Ea[i][j] = o.a[i][j]; }
            Matrix44<T>        B   = mk44<T> (dirty);
            Vec3<T>            av ((T) ax.v[0], (T) ax.v[1], (T) ax.v[2]);
            const Matrix44<T>* ret = &B.setAxisAngle (av, g.a);
            ++tl.trans;
            auto desc = [&] () { return "axis=" + ax.name + " angle=" + g.name; };
            if (ret != &B) R ().fail (site<T> ("Matrix44", "setAxisAngle.returns-this"), desc ());
            cmp_entries<T, 4> (tl, site<T> ("Matrix44", "setAxisAngle.entries"), B.x, 3, Em, Ea, desc);
            if (!(B.x[0][3] == 0 && B.x[1][3] == 0 && B.x[2][3] == 0 && B.x[3][0] == 0 && B.x[3][1] == 0 && B.x[3][2] == 0 && B.x[3][3] == 1))
                R ().fail (site<T> ("Matrix44", "setAxisAngle.homogeneous-part"), desc (), "fourth row/column (0,0,0,1)", mat_str (B.x));
            // orthonormal, determinant +1 (tolerances derived from the entry tolerance, see header)
            {
                LD   m[3][3];
                bool bad = false;
                LD   worst = 0;
                for (int i = 0; i < 3; ++i)
                    for (int j = 0; j < 3; ++j) m[i][j] = (LD) B.x[i][j];
                for (int i = 0; i < 3 && !bad; ++i)
                    for (int k = i; k < 3; ++k)
                    {
                        LD t = 0;
                        for (int j = 0; j < 3; ++j) t += fabsl (o.m[i][j]) * o.a[k][j] + fabsl (o.m[k][j]) * o.a[i][j];
                        t *= 8 * e * 1.01L;
                        LD d = fabsl (dot3 (m[i], m[k]) - (i == k ? 1 : 0));
                        if (d / e > worst) worst = d / e;
                        if (!(d <= t)) { bad = true; R ().fail (site<T> ("Matrix44", "setAxisAngle.orthonormal"), desc (), "rows " + std::to_string (i) + "," + std::to_string (k) + " within " + vf::fmt (t), vf::fmt (d)); break; }
                    }
                LD t = 0;
                for (int i = 0; i < 3; ++i)
                    for (int j = 0; j < 3; ++j) t += fabsl (o.m[i][j]) * o.a[i][j];
                t *= 8 * e * 1.01L;
                LD d = fabsl (det3 (m) - 1);
                if (d / e > worst) worst = d / e;
                if (!(d <= t)) R ().fail (site<T> ("Matrix44", "setAxisAngle.det=+1"), desc (), "1 +- " + vf::fmt (t), vf::fmt (det3 (m)));
                if ((double) worst > tl.worst_orth) tl.worst_orth = (double) worst;
            }
            // action on lattice points = Rodrigues rotation of p
            LD u[3];
            unit3 (ax.v, u);
            for (int pi = 0; pi < 125; ++pi)
            {
                int p[3];
                ex::decode ((uint64_t) pi, 5, 3, p, -2);
                LD pv[3] = {(LD) p[0], (LD) p[1], (LD) p[2]}, uxp[3], ev[3], tv[3];
                cross3 (u, pv, uxp);
                LD up = dot3 (u, pv);
                for (int j = 0; j < 3; ++j)
                {
                    ev[j] = pv[j] * g.c + uxp[j] * g.s + u[j] * up * (1 - g.c);
                    tv[j] = 8 * e * (fabsl (pv[0]) * o.a[0][j] + fabsl (pv[1]) * o.a[1][j] + fabsl (pv[2]) * o.a[2][j]);
                }
                Vec3<T> got = Vec3<T> ((T) p[0], (T) p[1], (T) p[2]) * B;
                ++tl.trans;
                if (!(fabsl ((LD) got.x - ev[0]) <= tv[0] && fabsl ((LD) got.y - ev[1]) <= tv[1] && fabsl ((LD) got.z - ev[2]) <= tv[2]))
                    R ().fail (site<T> ("Matrix44", "setAxisAngle.p*M=Rodrigues(p)"), desc () + " p=" + i3 (p), ld3 (ev), v3 (got));
            }
        }
}

// ---- Matrix44::setEulerAngles / rotate ------------------------------------------------------------------
template <class T> void euler (Tally& total, bool thorough)
{
    const auto     angs = angle_set<T> ();
    const unsigned NA   = (unsigned) angs.size ();
    const LD       e    = EPS<T> ();
    std::vector<O3> EX, EY, EZ;
    std::vector<char> inQ (NA, 0), inQ2 (NA, 0);
    for (unsigned i = 0; i < NA; ++i)
    {
        EX.push_back (elementary (0, angs[i].c, angs[i].s));
        EY.push_back (elementary (1, angs[i].c, angs[i].s));
        EZ.push_back (elementary (2, angs[i].c, angs[i].s));
        const auto& g = angs[i];
        if (!g.tiny && g.k >= -12 && g.k <= 12) inQ[i] = 1;
        if (g.tiny)
        {
            LD m = fabsl ((LD) g.a);
            for (int j : {1, 3, 8, 15})
                if (fabsl (m - powl (10.0L, -j)) < m * 1e-3L) inQ[i] = 1;
        }
        if (!g.tiny && (g.k == 5 || g.k == -7 || g.k == 0)) inQ2[i] = 1;
    }
    const auto cur = current_matrices (4, false);
    std::vector<Matrix44<T>> curT;
    for (auto& c : cur) curT.push_back (mk44<T> (c));
    static const int P8[8][3] = {{1, 2, -2}, {-1, 0, 2}, {2, -1, 1}, {0, 0, 1}, {0, 1, 0}, {1, 0, 0}, {-2, -2, -2}, {1, 1, 1}};
    IM dirty = im_identity (4);
    for (int i = 0; i < 4; ++i)
        for (int j = 0; j < 4; ++j) dirty.a[i][j] = 100 + ex::PRIMES[i * 4 + j];
    const Matrix44<T> DIRTY = mk44<T> (dirty);
    const std::string sSet = site<T> ("Matrix44", "setEulerAngles.entries"), sAct = site<T> ("Matrix44", "setEulerAngles.p*M=rotZ(rotY(rotX(p)))"),
                      sRot = site<T> ("Matrix44", "rotate=setEulerAngles*M"), sHom = site<T> ("Matrix44", "setEulerAngles.homogeneous-part"),
                      sRow3 = site<T> ("Matrix44", "rotate.fourth-row-unchanged");
    std::mutex mu;
    const uint64_t N = (uint64_t) NA * NA * NA;
    bool complete = vf::parallel_chunks (N, NA * NA, [&] (uint64_t lo, uint64_t hi, unsigned) {
        Tally tl;
        for (uint64_t idx = lo; idx < hi; ++idx)
        {
            unsigned ix = (unsigned) (idx % NA), iy = (unsigned) ((idx / NA) % NA), iz = (unsigned) (idx / ((uint64_t) NA * NA));
            bool q = inQ[ix] && inQ[iy] && inQ[iz];
            bool slotfull = (inQ2[iy] && inQ2[iz]) || (inQ2[ix] && inQ2[iz]) || (inQ2[ix] && inQ2[iy]);
            if (!thorough && !q && !slotfull) continue;
            ++tl.states;
            count_angle (tl, angs[ix]); count_angle (tl, angs[iy]); count_angle (tl, angs[iz]);
            if (!angs[iy].tiny && ((angs[iy].k % 12) == 6 || (angs[iy].k % 12) == -6)) ++tl.gimbal;
            O3 o = o3_mul (o3_mul (EX[ix], EY[iy]), EZ[iz]); // X first, then Y, then Z (row vectors)
            LD Em[4][4], Ea[4][4];
            for (int i = 0; i < 3; ++i)
                for (int j = 0; j < 3; ++j) { Em[i][j] = o.m[i][j]; Ea[i][j] = o.a[i][j]; }
            Vec3<T>            r (angs[ix].a, angs[iy].a, angs[iz].a);
            Matrix44<T>        B (DIRTY);
            const Matrix44<T>* ret = &B.setEulerAngles (r);
            ++tl.trans;
            auto desc = [&] () { return "r=(" + angs[ix].name + ", " + angs[iy].name + ", " + angs[iz].name + ")"; };
            if (ret != &B) R ().fail (site<T> ("Matrix44", "setEulerAngles.returns-this"), desc ());
            cmp_entries<T, 4> (tl, sSet, B.x, 3, Em, Ea, desc);
            if (!(B.x[0][3] == 0 && B.x[1][3] == 0 && B.x[2][3] == 0 && B.x[3][0] == 0 && B.x[3][1] == 0 && B.x[3][2] == 0 && B.x[3][3] == 1))
                R ().fail (sHom, desc (), "fourth row/column (0,0,0,1)", mat_str (B.x));
            // action on points: sequential elementary rotations of p (X, then Y, then Z)
            const int np = q ? 125 : 8;
            for (int pi = 0; pi < np; ++pi)
            {
                int p[3];
                if (q) ex::decode ((uint64_t) pi, 5, 3, p, -2); else { p[0] = P8[pi][0]; p[1] = P8[pi][1]; p[2] = P8[pi][2]; }
                LD v[3] = {(LD) p[0], (LD) p[1], (LD) p[2]}, w[3];
                const O3* seq[3] = {&EX[ix], &EY[iy], &EZ[iz]};
                for (int sidx = 0; sidx < 3; ++sidx)
                {
                    for (int j = 0; j < 3; ++j) w[j] = v[0] * seq[sidx]->m[0][j] + v[1] * seq[sidx]->m[1][j] + v[2] * seq[sidx]->m[2][j];
                    v[0] = w[0]; v[1] = w[1]; v[2] = w[2];
                }
                LD tv[3];
                for (int j = 0; j < 3; ++j) tv[j] = 8 * e * (fabsl ((LD) p[0]) * o.a[0][j] + fabsl ((LD) p[1]) * o.a[1][j] + fabsl ((LD) p[2]) * o.a[2][j]);
                Vec3<T> got = Vec3<T> ((T) p[0], (T) p[1], (T) p[2]) * B;
                ++tl.trans;
                if (!(fabsl ((LD) got.x - v[0]) <= tv[0] && fabsl ((LD) got.y - v[1]) <= tv[1] && fabsl ((LD) got.z - v[2]) <= tv[2]))
                    R ().fail (sAct, desc () + " p=" + i3 (p), ld3 (v), v3 (got));
            }
            // in-place rotate == setEulerAngles(r) * M  (PRE-multiplication), fourth row untouched
            for (size_t ci = 0; ci < cur.size (); ++ci)
            {
                const IM& cm = cur[ci];
                LD Rm[4][4], Ra[4][4];
                for (int i = 0; i < 3; ++i)
                    for (int j = 0; j < 4; ++j)
                    {
                        Rm[i][j] = Ra[i][j] = 0;
                        for (int k = 0; k < 3; ++k) { Rm[i][j] += o.m[i][k] * cm.a[k][j]; Ra[i][j] += o.a[i][k] * fabsl ((LD) cm.a[k][j]); }
                    }
                for (int j = 0; j < 4; ++j) { Rm[3][j] = (LD) cm.a[3][j]; Ra[3][j] = 0; }
                Matrix44<T>        A (curT[ci]);
                const Matrix44<T>* rr = &A.rotate (r);
                ++tl.trans;
                if (cm.name[0] == 'G') ++tl.cur_nonaffine;
                if (rr != &A) R ().fail (site<T> ("Matrix44", "rotate.returns-this"), desc ());
                if (!(A.x[3][0] == curT[ci].x[3][0] && A.x[3][1] == curT[ci].x[3][1] && A.x[3][2] == curT[ci].x[3][2] && A.x[3][3] == curT[ci].x[3][3]))
                    R ().fail (sRow3, desc () + " M=" + im_str (cm), "row 3 of M", mat_str (A.x));
                cmp_entries<T, 4> (tl, sRot, A.x, 4, Rm, Ra, [&] () { return desc () + " M=" + im_str (cm); });
            }
        }
        std::lock_guard<std::mutex> g (mu);
        total.merge (tl);
    });
    if (!complete) R ().note ("rotations.euler", "cut short by the deadline");
}

} // namespace

void run_rotations ()
{
    if (!R ().stage ("rotations")) return;
    const bool th = R ().thorough ();
    Tally      tl;
    rot2d<float> (tl);  rot2d<double> (tl);
    axis_angle<float> (tl, th);  axis_angle<double> (tl, th);
    bool timed_out = false;
    euler<float> (tl, th);
    if (R ().out_of_time ()) timed_out = true;
    euler<double> (tl, th);
    if (R ().out_of_time ()) timed_out = true;
    R ().add ("states", tl.states); R ().add ("transitions", tl.trans); R ().add ("evaluations", tl.states);
    R ().cls ("angle.multiple-of-2pi", tl.ang_full_turn);
    R ().cls ("angle.beyond-one-period", tl.ang_beyond);
    R ().cls ("angle.tiny(10^-j)", tl.ang_tiny);
    R ().cls ("angle.quarter-turn-multiple", tl.ang_quarter);
    R ().cls ("angle.other.generic", tl.ang_generic);
    R ().cls ("euler.middle-angle-at-gimbal-lock", tl.gimbal);
    R ().cls ("axis.non-unit", tl.axis_nonunit);
    R ().cls ("axis.two-or-three-nonzero-components", tl.axis_diag);
    R ().cls ("rotate.current-matrix-non-affine", tl.cur_nonaffine);
    R ().note_max ("rotations: worst entry error / (eps*Sum|terms|)  (bound 8)", tl.worst_entry);
    R ().note_max ("setAxisAngle: worst |R R^T - I|, |det-1| in eps", tl.worst_orth);
    R ().sample ("Matrix33 G1.rotate(5*pi/12) == G1 * [[c s 0],[-s c 0],[0 0 1]] to 8 eps Sum|terms| (post-multiplication)");
    R ().sample ("Matrix44 G2.rotate((pi/12,-7pi/12,29pi/12)) == Rx*Ry*Rz * G2 (pre-multiplication), row 3 unchanged");
    const std::string bound = std::string ("Matrix22/33 setRotation+rotate on 127 angles x current matrices; Matrix44::setAxisAngle on ") + (th ? "133" : "31") +
                              " axes x 127 angles x L(2)^3 points; setEulerAngles + rotate(28 current matrices) on " +
                              (th ? "all 127^3 angle triples" : "33^3 + one-slot-full angle triples") + "; float and double";
    if (timed_out) R ().stage_partial (bound); else R ().stage_done (bound);
}

} // namespace c09
