// C13 — shared helpers: shape traits (Interval / Box<VecN> / generic Box<G>), lattice codecs, formatting.
#pragma once
#include "../engine/exact.hpp"
#include "../engine/report.hpp"
#include <ImathBox.h>
#include <ImathBoxAlgo.h>
#include <ImathInterval.h>
#include <ImathMatrix.h>
#include <ImathVec.h>
#include <half.h>
#include <algorithm>
#include <array>
#include <type_traits>

namespace c13 {
using namespace IMATH_NAMESPACE;

// Harness vector types *derived from* Vec2/Vec3: Box<G2<T>> / Box<G3<T>> do not match the partial
// specialisations Box<Vec2<T>> / Box<Vec3<T>>, so they instantiate the GENERIC Box<V> template in 2-D / 3-D.
template <class T> struct G2 : Vec2<T>
{
    G2 () {}
    constexpr G2 (const Vec2<T>& v) : Vec2<T> (v) {}
    constexpr explicit G2 (T a) : Vec2<T> (a) {}
    constexpr G2 (T a, T b) : Vec2<T> (a, b) {}
};
template <class T> struct G3 : Vec3<T>
{
    G3 () {}
    constexpr G3 (const Vec3<T>& v) : Vec3<T> (v) {}
    constexpr explicit G3 (T a) : Vec3<T> (a) {}
    constexpr G3 (T a, T b, T c) : Vec3<T> (a, b, c) {}
};

template <class T> struct TName;
template <> struct TName<signed char> { static const char* n () { return "signed char"; } };
template <> struct TName<unsigned char> { static const char* n () { return "unsigned char"; } };
template <> struct TName<short> { static const char* n () { return "short"; } };
template <> struct TName<int> { static const char* n () { return "int"; } };
template <> struct TName<int64_t> { static const char* n () { return "int64"; } };
template <> struct TName<float> { static const char* n () { return "float"; } };
template <> struct TName<double> { static const char* n () { return "double"; } };
template <> struct TName<half> { static const char* n () { return "half"; } };

// element type `half` is a class: "scalar" (Interval's point type) = arithmetic or half
template <class V> struct is_half : std::is_same<V, half> {};
template <class V> struct is_scalar_elem : std::integral_constant<bool, std::is_arithmetic<V>::value || is_half<V>::value> {};

// the ends of the element type's range. For half they are written out as bit patterns (65504 / -65504) instead of
// being read from std::numeric_limits<half>, so that the harness does not inherit a wrong lowest()/max() from
// the header under test (makeEmpty / makeInfinite / isInfinite of Box2h, Box3h, Interval<half> depend on them).
template <class T> struct ElemLimits
{
    static T max () { return std::numeric_limits<T>::max (); }
    static T lowest () { return std::numeric_limits<T>::lowest (); }
};
template <> struct ElemLimits<half>
{
    static half max () { return half (half::FromBits, 0x7bff); }
    static half lowest () { return half (half::FromBits, 0xfbff); }
};

// ---- shape traits: V is the "point" type (scalar for Interval) -------------------------------------
template <class V, bool Scalar = is_scalar_elem<V>::value> struct Shape;
template <class V> struct Shape<V, true>
{
    typedef V           T;
    typedef Interval<V> Box;
    enum { D = 1 };
    static T&       at (V& v, int) { return v; }
    static const T& at (const V& v, int) { return v; }
    static std::string name () { return std::string ("Interval<") + TName<T>::n () + ">"; }
    // site prefix: names the template copy; element type half (a class type with its own conversions) gets its own sites
    static std::string kind () { return is_half<V>::value ? "Interval[half]" : "Interval"; }
};
template <class V> struct Shape<V, false>
{
    typedef typename V::BaseType      T;
    typedef IMATH_NAMESPACE::Box<V>   Box;
    enum { D = (int) V::dimensions () };
    static T&       at (V& v, int i) { return v[i]; }
    static const T& at (const V& v, int i) { return v[i]; }
    static bool generic ()
    {
        return !(std::is_same<V, Vec2<T>>::value || std::is_same<V, Vec3<T>>::value);
    }
    static std::string name ()
    {
        const bool g = std::is_same<V, G2<T>>::value || std::is_same<V, G3<T>>::value;
        return std::string ("Box<") + (g ? "G" : "Vec") + std::to_string ((int) D) + "<" + TName<T>::n () + ">>" +
               (g ? "[generic template]" : (D == 4 ? "[generic template]" : "[specialisation]"));
    }
    // site prefix: names the template copy, not the element type
    static std::string kind ()
    {
        const bool g = std::is_same<V, G2<T>>::value || std::is_same<V, G3<T>>::value;
        const char* k = D == 2 ? (g ? "Box<generic-2D>" : "Box<Vec2>") : D == 3 ? (g ? "Box<generic-3D>" : "Box<Vec3>") : "Box<Vec4>";
        return is_half<T>::value ? std::string (k) + "[half]" : std::string (k);
    }
};

template <class T> inline std::string fmt_elem (T v) { return vf::fmt (v); }
inline std::string fmt_elem (half v) { char b[32]; snprintf (b, sizeof b, "[half 0x%04x]", (unsigned) v.bits ()); return vf::fmt ((float) v) + b; }
// small-integer-valued coordinates print as integers, everything else exactly (hexfloat + bits)
template <class T> inline std::string cs (T v)
{
    long double x = (long double) v;
    if (x == (long double) (long long) x && fabsl (x) < 1e6L) return std::to_string ((long long) x);
    if (v == ElemLimits<T>::max ()) return "MAX";
    if (v == ElemLimits<T>::lowest ()) return "LOWEST";
    return fmt_elem (v);
}
template <class V> inline std::string vstr (const V& v)
{
    typedef Shape<V> S;
    std::string      s = "(";
    for (int i = 0; i < S::D; ++i) s += (i ? "," : "") + cs (S::at (v, i));
    return s + ")";
}
template <class V> inline std::string bstr (const typename Shape<V>::Box& b)
{
    return Shape<V>::name () + "{min=" + vstr<V> (b.min) + " max=" + vstr<V> (b.max) + "}";
}

// point from integer coordinates
template <class V> inline V mkpt (const int* c)
{
    typedef Shape<V> S;
    V                v;
    for (int i = 0; i < S::D; ++i) S::at (v, i) = (typename S::T) c[i];
    return v;
}
template <class V> inline typename Shape<V>::Box mkbox (const int* mn, const int* mx)
{
    return typename Shape<V>::Box (mkpt<V> (mn), mkpt<V> (mx));
}
// bitwise comparison of two boxes (of possibly different template copies) coordinate by coordinate
template <class VA, class VB> inline bool same_box (const typename Shape<VA>::Box& a, const typename Shape<VB>::Box& b)
{
    for (int i = 0; i < Shape<VA>::D; ++i)
        if (!ex::same (Shape<VA>::at (a.min, i), Shape<VB>::at (b.min, i)) ||
            !ex::same (Shape<VA>::at (a.max, i), Shape<VB>::at (b.max, i)))
            return false;
    return true;
}
template <class V> inline bool canonical_empty (const typename Shape<V>::Box& b)
{
    typedef Shape<V> S;
    for (int i = 0; i < S::D; ++i)
        if (S::at (b.min, i) != ElemLimits<typename S::T>::max () ||
            S::at (b.max, i) != ElemLimits<typename S::T>::lowest ())
            return false;
    return true;
}

// R().fail for sites that fail millions of times (the known defects): the engine takes a global lock and
// stores only the first 4 cases per site, so each thread formats and reports its own first 4 per site and
// tallies the rest locally; flush_failures() (called once by main, single-threaded) then reports the tallied
// remainder one by one with empty strings. The per-site count in the report stays exact.
struct FailTally
{
    std::map<std::string, long long> seen, pending;
    static std::mutex& mu () { static std::mutex m; return m; }
    static std::map<std::string, long long>& global () { static std::map<std::string, long long> g; return g; }
    void flush ()
    {
        std::lock_guard<std::mutex> g (mu ());
        for (auto& kv : pending) global ()[kv.first] += kv.second;
        pending.clear ();
    }
    ~FailTally () { flush (); }
};
inline FailTally& fail_tally () { thread_local FailTally t; return t; }
template <class FI, class FE, class FG> inline void fail_lazy (const std::string& site, FI in, FE want, FG got)
{
    FailTally& t = fail_tally ();
    const long long n = ++t.seen[site];
    // replay: the engine echoes every failure to stderr; format (per thread) the first 64 of the replayed site only
    if (n <= 4 || (vf::R ().replay && site == vf::R ().replay_filter_site && n <= 64)) vf::R ().fail (site, in (), want (), got ());
    else ++t.pending[site];
}
inline void flush_failures ()
{
    fail_tally ().flush ();
    std::map<std::string, long long> g;
    { std::lock_guard<std::mutex> l (FailTally::mu ()); g.swap (FailTally::global ()); }
    for (auto& kv : g) for (long long i = 0; i < kv.second; ++i) vf::R ().fail (kv.first, "", "", "");
}

// stage entry points, one translation unit per element type (c13_t_*.cpp) -------------------------
// (each returns false when the deadline cut the enumeration short)
template <class T> bool run_sets (bool thorough);      // c13_sets.hpp
template <class T> bool run_histories (bool thorough); // c13_hist.hpp
template <class T> bool run_closest (bool thorough);   // c13_closest.hpp
template <class T> bool run_extremes (bool thorough);  // c13_extreme.hpp
bool run_transforms (bool thorough);                   // c13_xform.cpp (float/double boxes)
bool run_transforms_int (bool thorough);               // c13_xform_int.cpp (Box3i / Box3s)
bool run_transforms_tiny (bool thorough);              // c13_xform_tiny.cpp (perspective entries whose squares underflow)

} // namespace c13
