// C12 — double instantiation of the 3-D factorisation checks
#include "c12_shrt3d.hpp"
namespace c12 { void stage_shrt3d_double (int part) { run_shrt3d<double> (part); } }
