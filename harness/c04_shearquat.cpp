#include "c04.hpp"
namespace c04 {
void register_shearquat (Jobs& jobs)
{
    reg_shear6<Shear6<float>> (jobs); reg_shear6<Shear6<double>> (jobs);
    reg_quat<Quat<float>> (jobs); reg_quat<Quat<double>> (jobs);
}
}
