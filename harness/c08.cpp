// C08 — length() and normalisation are accurate for every non-overflowing vector.
//
// Bounded exhaustive exploration of the real Vec2/Vec3/Vec4 <float|double> code over the exponent-sweep
// alphabet of DESIGN.md §1 C08 (see c08_alpha.hpp): every exponent of the type for the leading component
// (float -149..63, double -1074..511), in every slot, x relative exponents {0,-1,-2,-12,-24,-25,-53,-54,
// -inf} of the other components x mantissas {1,1+ulp,1.5,2-ulp} x sign patterns (incl. -0); thorough adds
// the complete exponent square/cube for float Vec2/Vec3.  Stages tiny-mixed.*: the full product of a tiny-regime
// alphabet (0, subnormals, min, around sqrt(min) and sqrt(2 min)) over all slots - every ordering of the component
// magnitudes, ratios whose square overflows (see tiny_mixed_stage).
//
// Oracle: the definition, sqrtl(sum x_i^2) in long double (64-bit significand, 15-bit exponent: no
// overflow/underflow anywhere in the double range, relative error < 2^-62).
//
// Tolerances, fixed a priori (u = eps/2 = unit roundoff; an error of k*u relative is < k ulp):
//  * direct path  sqrt(fl(sum x_i^2)), n <= 4:  each product 1u, each addition 1u  => sum within 4u
//    (a term that underflows contributes <= denorm_min/2 = u*min absolutely; the path is only taken for
//    sum >= 2*min, so <= 3 such terms add <= 1.5u)  => 5.5u on the sum, halved by sqrt, + 1u for sqrt
//    => 3.75u  < 4 ulp.
//  * scaled path  max*sqrt(sum (|x_i|/max)^2): ratios 1u (the largest is exactly 1), squares 1u, so a
//    non-maximal term carries 3u and the n-1 of them are at most (n-1)/n of the sum; n-1 additions;
//    sqrt halves and adds 1u; the final product adds 1u:
//        n=2: (1.5u+1u)/2+2u = 3.25u   n=3: (2u+2u)/2+2u = 4u   n=4: (2.25u+3u)/2+2u = 4.63u
//    A subnormal result is rounded once more to the denorm_min grid (+0.5 ulp, the relative terms
//    are then < 2 denorm_min).  Hence  K_len = 4 ulp for Vec2/Vec3 and 5 ulp for Vec4 (the design's
//    4 ulp is kept wherever the analysis supports it; the Vec4 scaled path needs 4.63).
//  * normalised component r_i = fl(x_i / l), l = |v|(1+lambda), |lambda| <= K_len*u: error
//    <= K_len ulp + 0.5 ulp  => K_comp = K_len + 1 ulp of x_i/|v| (denorm_min grid below min).
//  * | ||r|| - 1 | <= (K_len+1)u + u  <= 2.82 eps  <  4 eps  (the design's constant).
//  * length2() = fl(sum fl(x_i^2)): n products and n-1 additions of non-negative terms, each (1+d), |d| <= u
//    => relative error <= (1+u)^n - 1 < n*u*(1+2^-10); a product that underflows adds <= denorm_min/2 absolutely.
// None of these constants was adjusted after looking at a run; the worst observed ratios are recorded
// with note_max.
//
// Domain (audit2 C08 S2).  The statement quantifies over vectors "whose squared components do not overflow"; the
// judged domain is: the floating-point sum of squares provably stays finite, i.e.
//     exact sum x_i^2 * (1 + N*eps) <= max      (every rounding of the n products / n-1 additions is <= 1+u), or
//     a single non-zero component with x^2 <= max (one rounding: finite up to the largest value <= sqrt(max)).
// The DESIGN/quantifier domain |c| <= sqrt(max)/2 is kept verbatim as a third alternative (it was judged before; for
// N = 4 with every component at the top its sum is exactly max and only the factor 1+N*eps is missing).  Together
// they reach single components up to the largest value <= sqrt(max) and pairs (c, c*2^-k) close to it.
#include "../engine/exact.hpp"
#include "../engine/report.hpp"
#include "c08_alpha.hpp"
#include <ImathVec.h>

using namespace vf;
using namespace IMATH_NAMESPACE;

namespace {

template <class T> const char* tname ();
template <> const char* tname<float> () { return "float"; }
template <> const char* tname<double> () { return "double"; }

template <class T, int N> struct VecOf;
template <class T> struct VecOf<T, 2> { typedef Vec2<T> type; };
template <class T> struct VecOf<T, 3> { typedef Vec3<T> type; };
template <class T> struct VecOf<T, 4> { typedef Vec4<T> type; };

template <class T, int N> typename VecOf<T, N>::type make (const T* c);
template <> Vec2<float>  make<float, 2> (const float* c) { return Vec2<float> (c[0], c[1]); }
template <> Vec3<float>  make<float, 3> (const float* c) { return Vec3<float> (c[0], c[1], c[2]); }
template <> Vec4<float>  make<float, 4> (const float* c) { return Vec4<float> (c[0], c[1], c[2], c[3]); }
template <> Vec2<double> make<double, 2> (const double* c) { return Vec2<double> (c[0], c[1]); }
template <> Vec3<double> make<double, 3> (const double* c) { return Vec3<double> (c[0], c[1], c[2]); }
template <> Vec4<double> make<double, 4> (const double* c) { return Vec4<double> (c[0], c[1], c[2], c[3]); }

template <class T, int N> std::string show (const T* c)
{
    Msg m;
    m << "Vec" << N << "<" << tname<T> () << ">(";
    for (int i = 0; i < N; ++i) { if (i) m << ", "; m << c[i]; }
    m << ")";
    return m.str ();
}

// worst-case trackers must stay finite (the report is JSON)
static inline double capped (long double e) { return (e == e && e < 1e30L) ? (double) e : 1e30; }

struct Tally
{
    long long states = 0, transitions = 0, skipped_domain = 0, beyond_narrow = 0, c_recip_overflows = 0;
    double    w_len2 = 0;
    long long c_scaled = 0, c_direct_generic = 0, c_direct_underflowing_square = 0, c_switch_window = 0, c_subnormal_norm = 0,
              c_zero = 0, c_single = 0, c_negzero = 0, c_mixed_far = 0;
    double    w_len_direct = 0, w_len_scaled = 0, w_unit = 0, w_comp = 0;
};

template <class T, int N> struct Checker
{
    typedef typename VecOf<T, N>::type V;
    std::string                        pfx; // "Vec3<float>"
    long double                        dom_max, tmin, tmax;
    Checker ()
    {
        pfx     = std::string ("Vec") + char ('0' + N) + "<" + tname<T> () + ">";
        tmax    = (long double) std::numeric_limits<T>::max ();
        tmin    = (long double) std::numeric_limits<T>::min ();
        dom_max = sqrtl (tmax) / 2;
    }
    static constexpr long double KLEN  = (N == 4) ? 5.0L : 4.0L;
    static constexpr long double KCOMP = KLEN + 1.0L;

    static bool same_vec (const V& a, const V& b)
    {
        for (int i = 0; i < N; ++i)
            if (!ex::same (a[i], b[i])) return false;
        return true;
    }
    static std::string showv (const V& a)
    {
        T c[N];
        for (int i = 0; i < N; ++i) c[i] = a[i];
        return show<T, N> (c);
    }

    void check (const T* c, Tally& t) const
    {
        // ---- domain of the property: finite, |component| <= sqrt(max)/2
        long double s = 0, amax = 0;
        int         nz = 0, negzero = 0, sq_under = 0;
        for (int i = 0; i < N; ++i)
        {
            long double a = fabsl ((long double) c[i]);
            if (a > amax) amax = a;
            s += a * a;
            if (c[i] != 0) ++nz;
            else if (std::signbit (c[i])) ++negzero;
            if (c[i] != 0 && a * a < tmin) ++sq_under;
        }
        // judged domain: see the header comment (the old predicate |c| <= sqrt(max)/2 is a subset and kept verbatim)
        if (amax > dom_max)
        {
            const bool single_ok = nz == 1 && s <= tmax;
            if (!(single_ok || s * (1 + N * (long double) std::numeric_limits<T>::epsilon ()) <= tmax)) { ++t.skipped_domain; return; }
            ++t.beyond_narrow;
        }
        ++t.states;
        const long double want   = sqrtl (s);
        const bool        zero   = (nz == 0);
        const bool        scaled = s < 2 * tmin; // predicate on the input: which algorithm the definition of length() calls for
        // classes
        if (zero) ++t.c_zero;
        else if (scaled) ++t.c_scaled;
        else if (sq_under) ++t.c_direct_underflowing_square;
        else ++t.c_direct_generic;
        if (!zero && s >= tmin && s <= 4 * tmin) ++t.c_switch_window;
        if (!zero && want < tmin) ++t.c_subnormal_norm;
        if (nz == 1) ++t.c_single;
        if (negzero) ++t.c_negzero;
        if (nz >= 2 && sq_under && !scaled) ++t.c_mixed_far;

        const V v = make<T, N> (c);

        // ---- length()
        const T len = v.length ();
        ++t.transitions;
        if (zero)
        {
            if (!(len == T (0))) C0X_FAIL (pfx + "::length.zero-vector-nonzero-length", (show<T, N> (c)), "0", Msg () << len);
        }
        else
        {
            if (len == T (0) || !(len == len))
                C0X_FAIL (pfx + "::length.zero-iff-zero", (show<T, N> (c)), Msg () << "nonzero, ~" << want, Msg () << len);
            else
            {
                long double e = ex::ulps<T> (len, want);
                double&     w = scaled ? t.w_len_scaled : t.w_len_direct;
                if (capped (e) > w) w = capped (e);
                if (!(e <= KLEN))
                {
                    if (scaled)
                        C0X_FAIL (pfx + "::length.accuracy.scaled-path", (show<T, N> (c)),
                                  Msg () << "sqrtl(sum sq)=" << want << " +-" << (int) KLEN << "ulp", Msg () << len << " (" << (double) e << " ulp)");
                    else
                        C0X_FAIL (pfx + "::length.accuracy.direct-path", (show<T, N> (c)),
                                  Msg () << "sqrtl(sum sq)=" << want << " +-" << (int) KLEN << "ulp", Msg () << len << " (" << (double) e << " ulp)");
                }
            }
        }
        // ---- length2() == dot(v,v), bitwise
        {
            T l2 = v.length2 (), d = v.dot (v);
            ++t.transitions;
            if (!ex::same (l2, d)) C0X_FAIL (pfx + "::length2.eq-dot", (show<T, N> (c)), Msg () << d, Msg () << l2);
            T op = v ^ v;
            if (!ex::same (l2, op)) C0X_FAIL (pfx + "::length2.eq-operator^", (show<T, N> (c)), Msg () << op, Msg () << l2);
            // ... and the dot product of the vector with itself is sum x_i^2 (independent of dot()): N*u relative, plus
            // denorm_min/2 for each of the N products that may underflow
            const long double u = ex::eps<T> () / 2, tol = N * u * s * (1 + ldexpl (1, -10)) + N * (long double) std::numeric_limits<T>::denorm_min () / 2;
            const long double e2 = fabsl ((long double) l2 - s);
            if (!(e2 <= tol))
                C0X_FAIL (pfx + "::length2.accuracy-vs-exact-sum-of-squares", (show<T, N> (c)), Msg () << "sum x_i^2 = " << s << " +- " << tol, Msg () << l2);
            else if (tol > 0 && capped (e2 / tol) > t.w_len2) t.w_len2 = capped (e2 / tol);
        }
        // ---- the normalisation family
        V r = v.normalized ();
        V ip = v; ip.normalize ();
        t.transitions += 2;
        if (zero)
        {
            for (int i = 0; i < N; ++i)
            {
                if (!(r[i] == T (0))) { C0X_FAIL (pfx + "::normalized.zero-to-zero", (show<T, N> (c)), "zero vector", showv (r)); break; }
            }
            for (int i = 0; i < N; ++i)
                if (!(ip[i] == T (0))) { C0X_FAIL (pfx + "::normalize.zero-to-zero", (show<T, N> (c)), "zero vector", showv (ip)); break; }
            return; // Exc must throw and NonNull is outside its precondition: C07
        }
        // non-zero: all six forms return and are bitwise equal to each other
        if (!same_vec (ip, r)) C0X_FAIL (pfx + "::normalize.vs-normalized", (show<T, N> (c)), showv (r), showv (ip));
        {
            V a = v.normalizedNonNull ();
            if (!same_vec (a, r)) C0X_FAIL (pfx + "::normalizedNonNull.vs-normalized", (show<T, N> (c)), showv (r), showv (a));
            V b = v; b.normalizeNonNull ();
            if (!same_vec (b, r)) C0X_FAIL (pfx + "::normalizeNonNull.vs-normalized", (show<T, N> (c)), showv (r), showv (b));
            t.transitions += 2;
            try
            {
                V e1 = v.normalizedExc ();
                if (!same_vec (e1, r)) C0X_FAIL (pfx + "::normalizedExc.vs-normalized", (show<T, N> (c)), showv (r), showv (e1));
                V e2 = v; e2.normalizeExc ();
                if (!same_vec (e2, r)) C0X_FAIL (pfx + "::normalizeExc.vs-normalized", (show<T, N> (c)), showv (r), showv (e2));
                t.transitions += 2;
            }
            catch (...)
            {
                C0X_FAIL (pfx + "::normalizeExc.throws-on-nonzero", (show<T, N> (c)), "no exception", "exception");
            }
        }
        if (want < tmin)
        {   // the property promises the unit-vector relations only for a normal norm, but "never NaN or infinity" for every
            // vector of the domain.  This is where dividing by length() differs observably from multiplying by 1/length():
            // 1/l is finite for every normal l and overflows for l < 1/max.
            if (want * tmax < 1) ++t.c_recip_overflows;
            for (int i = 0; i < N; ++i)
                if (!std::isfinite (r[i])) { C0X_FAIL (pfx + "::normalized.nonfinite.subnormal-norm", (show<T, N> (c)), "finite components", showv (r)); break; }
            return;
        }
        // never NaN / inf
        bool finite = true;
        for (int i = 0; i < N; ++i)
            if (!std::isfinite (r[i])) finite = false;
        if (!finite) { C0X_FAIL (pfx + "::normalized.nonfinite", (show<T, N> (c)), "finite unit vector", showv (r)); return; }
        // sign of every component preserved
        for (int i = 0; i < N; ++i)
            if (std::signbit (r[i]) != std::signbit (c[i]))
            {
                C0X_FAIL (pfx + "::normalized.sign", (show<T, N> (c)), "signs of input", showv (r));
                break;
            }
        // unit length
        {
            long double q = 0;
            for (int i = 0; i < N; ++i) q += (long double) r[i] * (long double) r[i];
            long double e = fabsl (sqrtl (q) - 1) / ex::eps<T> ();
            if (capped (e) > t.w_unit) t.w_unit = capped (e);
            if (!(e <= 4.0L)) C0X_FAIL (pfx + "::normalized.unit-length", (show<T, N> (c)), "| |r|-1 | <= 4 eps", Msg () << showv (r) << " (" << (double) e << " eps)");
        }
        // every component in the ratio of the input
        for (int i = 0; i < N; ++i)
        {
            long double q = (long double) c[i] / want;
            long double e = ex::ulps<T> (r[i], q);
            if (capped (e) > t.w_comp) t.w_comp = capped (e);
            if (!(e <= KCOMP))
            {
                C0X_FAIL (pfx + "::normalized.component-ratio", (show<T, N> (c)), Msg () << "r[" << i << "]=" << q << " +-" << (int) KCOMP << "ulp",
                           Msg () << r[i] << " (" << (double) e << " ulp)");
                break;
            }
        }
    }

    static std::string d0 () { return std::string ("Vec") + char ('0' + N) + "."; }
    void merge (const Tally& t) const
    {
        R ().add ("states", t.states);
        R ().add ("evaluations", t.states);
        R ().add ("transitions", t.transitions);
        R ().add ("skipped_outside_domain(float sum of squares may overflow)", t.skipped_domain);
        R ().cls (d0 () + "beyond-sqrt(max)/2-but-sum-of-squares-finite", t.beyond_narrow);
        R ().cls (d0 () + "subnormal-norm.reciprocal-of-norm-overflows(norm<1/max)", t.c_recip_overflows);
        R ().note_max (pfx + " worst length2() error / (N u sum) bound", t.w_len2);
        std::string d = std::string ("Vec") + char ('0' + N) + ".";
        R ().cls (d + "scaled-path(sumsq<2min)", t.c_scaled);
        R ().cls (d + "direct-path.generic", t.c_direct_generic);
        R ().cls (d + "direct-path.some-square-underflows", t.c_direct_underflowing_square);
        R ().cls (d + "switch-over-window(min<=sumsq<=4min)", t.c_switch_window);
        R ().cls (d + "subnormal-norm", t.c_subnormal_norm);
        R ().cls (d + "zero-vector", t.c_zero);
        R ().cls (d + "single-nonzero-component", t.c_single);
        R ().cls (d + "has-negative-zero", t.c_negzero);
        R ().note_max (pfx + " worst length() error, direct path (ulp; bound " + std::to_string ((int) KLEN) + ")", t.w_len_direct);
        R ().note_max (pfx + " worst length() error, scaled path (ulp; bound " + std::to_string ((int) KLEN) + ")", t.w_len_scaled);
        R ().note_max (pfx + " worst | |normalized|-1 | (eps; bound 4)", t.w_unit);
        R ().note_max (pfx + " worst normalized component error (ulp; bound " + std::to_string ((int) KCOMP) + ")", t.w_comp);
    }
};

static void fold (Tally& a, const Tally& b)
{
    a.states += b.states; a.transitions += b.transitions; a.skipped_domain += b.skipped_domain;
    a.c_scaled += b.c_scaled; a.c_direct_generic += b.c_direct_generic; a.c_direct_underflowing_square += b.c_direct_underflowing_square;
    a.c_switch_window += b.c_switch_window; a.c_subnormal_norm += b.c_subnormal_norm; a.c_zero += b.c_zero; a.c_single += b.c_single;
    a.c_negzero += b.c_negzero; a.c_mixed_far += b.c_mixed_far; a.beyond_narrow += b.beyond_narrow; a.c_recip_overflows += b.c_recip_overflows;
    a.w_len2 = std::max (a.w_len2, b.w_len2);
    a.w_len_direct = std::max (a.w_len_direct, b.w_len_direct); a.w_len_scaled = std::max (a.w_len_scaled, b.w_len_scaled);
    a.w_unit = std::max (a.w_unit, b.w_unit); a.w_comp = std::max (a.w_comp, b.w_comp);
}

// run one sweep space; returns false if cut short by the deadline
template <class T, int N> bool run_space (const c08::Space& sp, uint64_t& visited)
{
    Checker<T, N> ck;
    std::mutex    mu;
    Tally         total;
    std::atomic<uint64_t> done (0);
    bool complete = parallel_chunks (sp.size (), 1u << 15, [&] (uint64_t lo, uint64_t hi, unsigned) {
        Tally t;
        T     c[N];
        for (uint64_t i = lo; i < hi; ++i)
            if (sp.decode<T> (i, c)) ck.check (c, t);
        done += hi - lo;
        std::lock_guard<std::mutex> g (mu);
        fold (total, t);
    });
    ck.merge (total);
    visited = done.load ();
    return complete;
}

// complete exponent square / cube (float): every component exponent independent over the whole range,
// mantissa of every component in {1, 2-ulp}, signs (+..+) and alternating
template <class T, int N> bool run_cube (uint64_t& visited, uint64_t& total_sz)
{
    Checker<T, N> ck;
    const int     E = c08::Lim<T>::etop - c08::Lim<T>::emin_sub + 1;
    uint64_t      n = 1;
    for (int i = 0; i < N; ++i) n *= (uint64_t) E;
    const unsigned MANT = 1u << N, SG = 2;
    total_sz = n * MANT * SG;
    std::mutex mu;
    Tally      total;
    std::atomic<uint64_t> done (0);
    bool complete = parallel_chunks (total_sz, 1u << 15, [&] (uint64_t lo, uint64_t hi, unsigned) {
        Tally t;
        T     c[N];
        for (uint64_t i = lo; i < hi; ++i)
        {
            uint64_t k  = i;
            unsigned sg = (unsigned) (k % SG); k /= SG;
            unsigned mm = (unsigned) (k % MANT); k /= MANT;
            bool     ok = true;
            for (int j = 0; j < N && ok; ++j)
            {
                int e = c08::Lim<T>::emin_sub + (int) (k % (uint64_t) E); k /= (uint64_t) E;
                ok    = c08::mk<T> (((mm >> j) & 1) ? 3 : 0, e, c[j]);
                if (sg && (j & 1) == 0) c[j] = -c[j];
            }
            if (ok) ck.check (c, t);
        }
        done += hi - lo;
        std::lock_guard<std::mutex> g (mu);
        fold (total, t);
    });
    ck.merge (total);
    visited = done.load ();
    return complete;
}

template <class T, int N> void sweep_stage (const char* name, const std::vector<int>& other_mants, const std::vector<unsigned>& signs)
{
    if (!R ().stage (name)) return;
    c08::Space sp = c08::sweep_space<T> (N, other_mants, signs);
    uint64_t   visited = 0;
    bool       ok = run_space<T, N> (sp, visited);
    std::string what = std::string ("Vec") + char ('0' + N) + "<" + tname<T> () + ">: leading exponent " + std::to_string (sp.e_lo) + ".." +
                       std::to_string (sp.e_hi) + " x " + std::to_string (N) + " slots x 4 mantissas x " + std::to_string (sp.others.size ()) + "^" +
                       std::to_string (N - 1) + " other components (8 relative exponents x " + std::to_string (other_mants.size ()) + " mantissas + zero) x " +
                       std::to_string (signs.size ()) + " sign patterns = " + std::to_string (sp.size ()) + " index points";
    if (ok) R ().stage_done (what);
    else R ().stage_partial (std::to_string (visited) + " of " + what);
}

template <class T, int N> void boundary_stage (const char* name)
{
    if (!R ().stage (name)) return;
    T top = (T) (sqrtl ((long double) std::numeric_limits<T>::max ()) / 2);
    if ((long double) top > sqrtl ((long double) std::numeric_limits<T>::max ()) / 2) top = std::nextafter (top, T (0));
    const T pos[6] = {T (0), std::numeric_limits<T>::denorm_min (), std::numeric_limits<T>::min (), T (1), T (1) + std::numeric_limits<T>::epsilon (), top};
    T       al[12];
    for (int i = 0; i < 6; ++i) { al[2 * i] = pos[i]; al[2 * i + 1] = -pos[i]; }
    Checker<T, N> ck;
    Tally         t;
    uint64_t      n = ex::ipow (12, N);
    for (uint64_t i = 0; i < n; ++i)
    {
        int d[N];
        ex::decode (i, 12, N, d);
        T c[N];
        for (int j = 0; j < N; ++j) c[j] = al[d[j]];
        ck.check (c, t);
    }
    ck.merge (t);
    R ().stage_done (std::string ("Vec") + char ('0' + N) + "<" + tname<T> () + ">: all 12^" + std::to_string (N) + " tuples over {+-0,+-denorm_min,+-min,+-1,+-(1+ulp),+-top}");
}


// ---- tiny regime, mixed magnitudes, EVERY slot assignment (seeded change C08-v2).
// The exponent sweep above ties the non-leading components to the leading one by a relative exponent >= -54, so inside
// the scaled ("lengthTiny") regime it never presents two non-zero components whose ratio SQUARED overflows, and the
// boundary product has only denorm_min / min below 1.  lengthTiny() must scale by the LARGEST magnitude: scaling by any
// other non-zero component is equally accurate as long as (largest/that)^2 is representable and returns +inf (and a zero
// "normalized" vector) beyond it - which needs a subnormal component next to one near sqrt(min), in the right slots.
// Space: the full product A^N x sign patterns, A = {0} u {m * 2^e : e in {emin_sub, emin_sub+1, a mid-subnormal exponent
// (float 2^-140, double 2^-1060), emin_norm-1, emin_norm, hs-digits, hs-2, hs-1, hs, hs+1}, m in {1, 1+ulp, 1.5, 2-ulp},
// exactly representable} u {largest value whose square is < 2*min, its successor}, hs = emin_norm/2 (2^hs = sqrt(min)
// exactly; sqrt(min)/4 = 2^(hs-2)).  Being a full product it contains every ORDERING of the component magnitudes (all
// N! strict orders, counted as classes for the tuples whose largest/smallest non-zero ratio squared overflows) and both
// sides of the 2*min switch-over.  Oracle and tolerances: Checker::check, unchanged (the scaled-path analysis in the
// header only uses ratios <= 1: a ratio or its square that underflows is an absolute error <= denorm_min in a sum >= 1).
template <class T> std::vector<T> tiny_alphabet ()
{
    std::vector<T> a;
    a.push_back (T (0));
    const int hs = c08::Lim<T>::emin_norm / 2, dg = std::numeric_limits<T>::digits;
    const int mid = sizeof (T) == 4 ? -140 : -1060;
    const int ex[10] = {c08::Lim<T>::emin_sub, c08::Lim<T>::emin_sub + 1, mid, c08::Lim<T>::emin_norm - 1, c08::Lim<T>::emin_norm, hs - dg, hs - 2, hs - 1, hs, hs + 1};
    for (int e : ex)
        for (int m = 0; m < 4; ++m)
        {
            T v;
            if (c08::mk<T> (m, e, v)) a.push_back (v);
        }
    // the two neighbours of sqrt(2*min): lo^2 < 2*min <= hi^2 (squares exact in long double)
    const long double two_min = 2 * (long double) std::numeric_limits<T>::min ();
    T lo = (T) sqrtl (two_min);
    while ((long double) lo * (long double) lo >= two_min) lo = std::nextafter (lo, T (0));
    while ((long double) std::nextafter (lo, T (1)) * (long double) std::nextafter (lo, T (1)) < two_min) lo = std::nextafter (lo, T (1));
    a.push_back (lo);
    a.push_back (std::nextafter (lo, T (1)));
    return a;
}

template <class T, int N> void tiny_mixed_stage (const char* name, const std::vector<unsigned>& signs)
{
    if (!R ().stage (name)) return;
    const std::vector<T> A = tiny_alphabet<T> ();
    const uint64_t       na = A.size (), ns = signs.size ();
    uint64_t             n = ns;
    for (int i = 0; i < N; ++i) n *= na;
    int nperm = 1;
    for (int i = 2; i <= N; ++i) nperm *= i;
    Checker<T, N> ck;
    std::mutex    mu;
    Tally         total;
    std::vector<long long> order_cnt (nperm, 0);
    long long     huge_total = 0, scaled_total = 0, second_sub_total = 0;
    std::atomic<uint64_t> done (0);
    const long double tmax = (long double) std::numeric_limits<T>::max (), tmin = (long double) std::numeric_limits<T>::min ();
    bool complete = parallel_chunks (n, 1u << 14, [&] (uint64_t lo, uint64_t hi, unsigned) {
        Tally t;
        std::vector<long long> oc (nperm, 0);
        long long huge = 0, scaled = 0, second_sub = 0;
        T c[N];
        for (uint64_t i = lo; i < hi; ++i)
        {
            uint64_t k = i;
            unsigned sg = signs[k % ns]; k /= ns;
            long double s = 0, mag[N];
            for (int j = 0; j < N; ++j)
            {
                T v = A[k % na]; k /= na;
                mag[j] = (long double) v;
                s += mag[j] * mag[j];
                c[j] = ((sg >> j) & 1u) ? -v : v;
            }
            // classes: predicates on the input
            if (s != 0 && s < 2 * tmin)
            {
                ++scaled;
                long double mx = 0, mn = INFINITY, mx2 = 0;
                bool distinct = true;
                for (int j = 0; j < N; ++j)
                {
                    if (mag[j] > mx) { mx2 = mx; mx = mag[j]; } else if (mag[j] > mx2) mx2 = mag[j];
                    if (mag[j] != 0 && mag[j] < mn) mn = mag[j];
                    for (int l = 0; l < j; ++l) if (mag[l] == mag[j]) distinct = false;
                }
                if ((mx / mn) * (mx / mn) > tmax)
                {
                    ++huge;
                    if (mx2 != 0 && (mx / mx2) * (mx / mx2) > tmax) ++second_sub; // even the second largest is out of reach of the largest
                    if (distinct)
                    {   // Lehmer code of the ordering of the magnitudes
                        int code = 0;
                        for (int j = 0; j < N; ++j)
                        {
                            int smaller = 0;
                            for (int l = j + 1; l < N; ++l) if (mag[l] < mag[j]) ++smaller;
                            code = code * (N - j) + smaller;
                        }
                        ++oc[code];
                    }
                }
            }
            ck.check (c, t);
        }
        done += hi - lo;
        std::lock_guard<std::mutex> g (mu);
        fold (total, t);
        for (int p = 0; p < nperm; ++p) order_cnt[p] += oc[p];
        huge_total += huge; scaled_total += scaled; second_sub_total += second_sub;
    });
    ck.merge (total);
    const std::string d = std::string ("Vec") + char ('0' + N) + ".tiny-mixed.";
    R ().cls (d + "scaled-path", scaled_total);
    R ().cls (d + "(largest/smallest-nonzero)^2-overflows", huge_total);
    R ().cls (d + "(largest/second-largest)^2-overflows", second_sub_total);
    for (int p = 0; p < nperm; ++p)
    {   // decode the Lehmer code back to "rank of each slot" for the class name
        int digits[N], rem = p;
        for (int j = N - 1; j >= 0; --j) { digits[j] = rem % (N - j); rem /= (N - j); }
        std::vector<int> pool;
        for (int j = 0; j < N; ++j) pool.push_back (j);
        int rank[N];
        for (int j = 0; j < N; ++j) { rank[j] = pool[digits[j]]; pool.erase (pool.begin () + digits[j]); }
        std::string nm;
        for (int r = 0; r < N; ++r)
            for (int j = 0; j < N; ++j)
                if (rank[j] == r) { if (r) nm += "<"; nm += std::string ("|") + "xyzw"[j] + "|"; }
        R ().cls (d + "huge-ratio.order-" + nm, order_cnt[p]);
    }
    std::string what = std::string ("Vec") + char ('0' + N) + "<" + tname<T> () + ">: full product of the " + std::to_string (na) + "-value tiny-regime alphabet {0, subnormal, min, sqrt(min)*2^{-digits,-2,-1,0,1} x 4 mantissas, sqrt(2 min) neighbours}^" +
                       std::to_string (N) + " x " + std::to_string (ns) + " sign patterns = " + std::to_string (n) + " tuples (every ordering of the component magnitudes)";
    if (complete) R ().stage_done (what);
    else R ().stage_partial (std::to_string (done.load ()) + " of " + what);
}

} // namespace

int main (int argc, char** argv)
{
    R ().property = "C08";
    R ().parse (argc, argv);
    R ().assume ("long double has a 64-bit significand and 15-bit exponent (x86-64): sum of squares and sqrtl are accurate to 2^-62 over the whole double range");
    R ().assume ("domain of the property: finite components whose floating-point sum of squares provably stays finite (exact sum*(1+N eps) <= max, or a single component with x^2 <= max; contains |c| <= sqrt(max)/2); tuples outside are enumerated but not judged (counted separately)");
    const bool th = R ().thorough ();
    const std::vector<int> M4 = {0, 1, 2, 3}, M2 = {2, 3}, M1 = {3};

    // literal samples
    {
        Vec3<float> a (3e-23f, 4e-23f, 0.f);
        R ().sample (Msg () << "Vec3f(3e-23,4e-23,0).length() = " << a.length () << " (squares underflow; scaled path)");
        Vec2<double> b (std::numeric_limits<double>::denorm_min (), -std::numeric_limits<double>::denorm_min ());
        R ().sample (Msg () << "Vec2d(denorm_min,-denorm_min).length() = " << b.length ());
        Vec4<float> c (std::ldexp (1.f, 62), std::ldexp (1.f, 62), std::ldexp (1.f, 62), std::ldexp (1.f, 62));
        R ().sample (Msg () << "Vec4f(2^62 x4).length() = " << c.length ());
        Vec3<float> d (-0.f, 0.f, -0.f);
        R ().sample (Msg () << "Vec3f(-0,0,-0).normalized().x = " << d.normalized ().x << ", length() = " << d.length ());
    }

    // boundary product: every tuple over {+-0, +-denorm_min, +-min, +-1, +-(1+ulp), +-top} (top = largest value of the
    // domain, <= sqrt(max)/2): the zero vectors with every sign pattern, and the corners of the domain
    boundary_stage<float, 2> ("boundary.Vec2f"); boundary_stage<double, 2> ("boundary.Vec2d");
    boundary_stage<float, 3> ("boundary.Vec3f"); boundary_stage<double, 3> ("boundary.Vec3d");
    boundary_stage<float, 4> ("boundary.Vec4f"); boundary_stage<double, 4> ("boundary.Vec4d");

    // tiny regime x mixed magnitudes x every slot assignment (all orderings of the component magnitudes)
    tiny_mixed_stage<float, 2> ("tiny-mixed.Vec2f", c08::all_signs (2)); tiny_mixed_stage<double, 2> ("tiny-mixed.Vec2d", c08::all_signs (2));
    tiny_mixed_stage<float, 3> ("tiny-mixed.Vec3f", c08::all_signs (3)); tiny_mixed_stage<double, 3> ("tiny-mixed.Vec3d", c08::all_signs (3));
    tiny_mixed_stage<float, 4> ("tiny-mixed.Vec4f", c08::four_signs (4)); tiny_mixed_stage<double, 4> ("tiny-mixed.Vec4d", c08::four_signs (4));

    // Vec2: the full alphabet in both tiers
    sweep_stage<float, 2> ("sweep.Vec2f", M4, c08::all_signs (2));
    sweep_stage<double, 2> ("sweep.Vec2d", M4, c08::all_signs (2));
    // Vec3
    sweep_stage<float, 3> ("sweep.Vec3f", M4, c08::all_signs (3));
    sweep_stage<double, 3> ("sweep.Vec3d", M4, th ? c08::all_signs (3) : c08::four_signs (3));
    // Vec4
    sweep_stage<float, 4> ("sweep.Vec4f", th ? M4 : M2, c08::four_signs (4));
    sweep_stage<double, 4> ("sweep.Vec4d", th ? M2 : M1, c08::four_signs (4));

    if (th)
    {
        if (R ().stage ("cube.Vec2f"))
        {
            uint64_t v = 0, n = 0;
            bool     ok = run_cube<float, 2> (v, n);
            if (ok) R ().stage_done ("Vec2<float>: complete exponent square 213^2 x mantissas {1,2-ulp}^2 x 2 sign patterns = " + std::to_string (n));
            else R ().stage_partial (std::to_string (v) + " of " + std::to_string (n));
        }
        if (R ().stage ("cube.Vec3f"))
        {
            uint64_t v = 0, n = 0;
            bool     ok = run_cube<float, 3> (v, n);
            if (ok) R ().stage_done ("Vec3<float>: complete exponent cube 213^3 x mantissas {1,2-ulp}^3 x 2 sign patterns = " + std::to_string (n));
            else R ().stage_partial (std::to_string (v) + " of " + std::to_string (n));
        }
    }
    c08::flush_sites ();
    return R ().finish ();
}
