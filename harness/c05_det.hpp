// C05 — determinants, minors, fastMinor, cofactor expansion, transposes, trace, det of products.
// All operands are integer matrices on which float arithmetic is exact; see c05.hpp.
#pragma once
#include "c05_exact.hpp"
#include <atomic>

namespace c05 {

inline void merge (DetClasses& a, const DetClasses& b)
{
    a.singular += b.singular; a.nonsingular += b.nonsingular; a.lc_allzero += b.lc_allzero;
    a.lc_mixed += b.lc_mixed; a.lc_nozero += b.lc_nozero; a.lc_patterns |= b.lc_patterns;
}

template <class T, int N> inline bool det_lattice (unsigned base, int off, DetClasses& dc, bool tuples)
{
    std::mutex mu;
    return vf::parallel_chunks (ex::ipow (base, N * N), 1u << 13, [&] (uint64_t lo, uint64_t hi, unsigned) {
        Tally      t;
        DetClasses l;
        int        a[N * N];
        for (uint64_t i = lo; i < hi; ++i)
        {
            ex::decode (i, base, N * N, a, off);
            check_det<T, N> (a, t, l);
            if (tuples) check_fastminor_tuples (a, mk<T, N> (a), t);
        }
        t.flush ();
        std::lock_guard<std::mutex> g (mu);
        merge (dc, l);
    });
}

// fixed small-integer 4x4 right/left factors for det(AB) (entries in -2..3, five regular, one singular)
static const int DETPROD_B[6][16] = {
    {1, 2, 0, -1, 0, 1, 3, 2, -2, 0, 1, 1, 1, -1, 2, 0},
    {2, -1, 1, 0, 1, 3, -2, 1, 0, 1, 1, -1, 3, 0, 2, 1},
    {0, 1, 0, 0, 0, 0, 1, 0, 0, 0, 0, 1, 1, 0, 0, 0},
    {1, 0, 0, 0, 2, 1, 0, 0, -1, 3, 1, 0, 2, -2, 1, 1},
    {3, 1, -2, 2, 1, 0, 1, -1, 2, 1, -1, 1, 0, 2, 3, -2},
    {1, 2, 3, 0, 2, 1, 0, 1, 3, 3, 3, 1, -1, 1, 3, -1}, // row2 = row0 + row1: singular
};

template <class T> void run_det ()
{
    const std::string tl = TN<T>::l ();
    DetClasses        dc;
    bool              any = false;

    if (R ().stage ("det." + tl))
    {
        any      = true;
        bool ok  = det_lattice<T, 4> (2, 0, dc, false);  // all 65536 0/1 4x4
        ok       = det_lattice<T, 3> (5, -2, dc, false) && ok; // all 5^9 L(2) 3x3
        ok       = det_lattice<T, 3> (3, -1, dc, true) && ok;  // L(1) 3x3 with every fastMinor index tuple
        Tally t;
        for (uint64_t i = 0; i < ex::ipow (7, 4); ++i) { int a[4]; ex::decode (i, 7, 4, a, -3); check_det2<T> (a, t, dc); }
        // dense signed small primes (<= 23): determinant/minors/cofactors, and EVERY fastMinor index
        // tuple (4^6 for 4x4, 3^4 for 3x3) — sum of |terms| <= 24*23^4 < 2^24, still exact in float
        for (int r = 0; r < 9; ++r)
            for (int s = 0; s < 4; ++s)
            {
                int a[16];
                for (int i = 0; i < 16; ++i) a[i] = sgn_pat (s, i) * ex::PRIMES[(r + i) % 9];
                check_det<T, 4> (a, t, dc);
                check_fastminor_tuples (a, mk<T, 4> (a), t);
                check_det<T, 3> (a, t, dc);
                check_fastminor_tuples (a, mk<T, 3> (a), t);
                check_det2<T> (a, t, dc);
            }
        t.flush ();
        std::string b = "determinant, minorOf(r,c) for every (r,c), fastMinor, cofactor expansion along every row and column, det of transpose, transposed/transpose/trace on: all 65536 0/1 4x4, all 1953125 L(2) 3x3, all 2401 L(3) 2x2, 36 dense small-prime matrices; every fastMinor index tuple on all 19683 L(1) 3x3 and on the prime matrices (4096 tuples each for 4x4)";
        if (ok) R ().stage_done (b); else R ().stage_partial (b);
    }

    if (R ().thorough () && R ().stage ("det33-L3." + tl))
    {
        any     = true;
        bool ok = det_lattice<T, 3> (7, -3, dc, false);
        if (ok) R ().stage_done ("all 7^9 = 40353607 L(3) 3x3 matrices: determinant, 9 minors (minorOf and fastMinor), 6 cofactor expansions, transpose");
        else R ().stage_partial ("L(3) 3x3 sweep cut short");
    }

    if (R ().thorough () && R ().stage ("det44-pm1." + tl))
    {
        any     = true;
        bool ok = det_lattice<T, 4> (3, -1, dc, false);
        if (ok) R ().stage_done ("all 3^16 = 43046721 {-1,0,1} 4x4 matrices: determinant, 16 minors (minorOf and fastMinor), 8 cofactor expansions, transpose");
        else R ().stage_partial ("{-1,0,1} 4x4 sweep cut short");
    }

    if (any)
    {
        R ().cls ("det.singular", dc.singular);
        R ().cls ("det.nonsingular", dc.nonsingular);
        R ().cls ("det44.last-column-all-zero(all four terms skipped)", dc.lc_allzero);
        R ().cls ("det44.last-column-some-zero(some terms skipped)", dc.lc_mixed);
        R ().cls ("det44.last-column-no-zero", dc.lc_nozero);
        int np = 0;
        for (int i = 0; i < 16; ++i) if (dc.lc_patterns >> i & 1) ++np;
        R ().note ("det44_last_column_zero_patterns_seen." + tl, std::to_string (np) + " of 16");
        if (np != 16) R ().fail ("harness.det44-last-column-patterns", tl, "16", std::to_string (np));
    }

    if (R ().stage ("detprod." + tl))
    {
        // 2x2: all L(2) pairs
        bool ok = vf::parallel_chunks (ex::ipow (5, 8), 1u << 13, [&] (uint64_t lo, uint64_t hi, unsigned) {
            Tally t;
            int   d[8];
            for (uint64_t i = lo; i < hi; ++i) { ex::decode (i, 5, 8, d, -2); check_detprod<T, 2> (d, d + 4, t); }
            t.flush ();
        });
        // 3x3: all 0/1 pairs (quick), all {-1,0,1} pairs (thorough)
        const bool     pm   = R ().thorough ();
        const unsigned base = pm ? 3 : 2;
        ok = vf::parallel_chunks (ex::ipow (base, 18), 1u << 14, [&] (uint64_t lo, uint64_t hi, unsigned) {
            Tally t;
            int   d[18];
            for (uint64_t i = lo; i < hi; ++i) { ex::decode (i, base, 18, d, pm ? -1 : 0); check_detprod<T, 3> (d, d + 9, t); }
            t.flush ();
        }) && ok;
        // 4x4: every 0/1 matrix on either side of six fixed small-integer matrices
        ok = vf::parallel_chunks (65536, 1u << 10, [&] (uint64_t lo, uint64_t hi, unsigned) {
            Tally t;
            int   a[16];
            for (uint64_t i = lo; i < hi; ++i)
            {
                ex::decode (i, 2, 16, a, 0);
                for (int k = 0; k < 6; ++k) { check_detprod<T, 4> (a, DETPROD_B[k], t); check_detprod<T, 4> (DETPROD_B[k], a, t); }
            }
            t.flush ();
        }) && ok;
        // 4x4, zero patterns of the last column (the term-skipping branches of Matrix44::determinant) on the FACTOR and on the
        // PRODUCT: the dense factor DETPROD_B[4] with its last column zeroed according to each of the 16 patterns, on either
        // side of every 0/1 matrix. Entries of a product are <= 4*3, so 24 * 12^4 < 2^24: exact in float.
        int BP[16][16];
        for (int p = 0; p < 16; ++p)
            for (int i = 0; i < 16; ++i) BP[p][i] = (i % 4 == 3 && !((p >> (i / 4)) & 1)) ? 0 : DETPROD_B[4][i];
        std::atomic<unsigned> prod_patterns (0);
        std::atomic<long long> n_pat (0);
        auto lc_pattern = [] (const int* a, const int* b) { // zero pattern of the last column of a*b
            unsigned pat = 0;
            for (int i = 0; i < 4; ++i)
            {
                int s = 0;
                for (int k = 0; k < 4; ++k) s += a[i * 4 + k] * b[k * 4 + 3];
                if (s != 0) pat |= 1u << i;
            }
            return pat;
        };
        ok = vf::parallel_chunks (65536, 1u << 9, [&] (uint64_t lo, uint64_t hi, unsigned) {
            Tally    t;
            int      a[16];
            unsigned seen = 0;
            for (uint64_t i = lo; i < hi; ++i)
            {
                ex::decode (i, 2, 16, a, 0);
                for (int p = 0; p < 16; ++p)
                {
                    check_detprod<T, 4> (a, BP[p], t); seen |= 1u << lc_pattern (a, BP[p]);
                    check_detprod<T, 4> (BP[p], a, t); seen |= 1u << lc_pattern (BP[p], a);
                }
            }
            prod_patterns |= seen;
            n_pat += (long long) (hi - lo) * 32;
            t.flush ();
        }) && ok;
        // every {-1,0,1} upper-left 3x3 block in an affine 4x4 frame (last column (0,0,0,1), last row (2,-1,3,1)) on either
        // side of all 22 factors. |entries of a product| <= 21, 9*9*9*21*24 < 2^24: exact in float.
        ok = vf::parallel_chunks (19683, 1u << 8, [&] (uint64_t lo, uint64_t hi, unsigned) {
            Tally    t;
            int      blk[9], a[16];
            unsigned seen = 0;
            for (uint64_t i = lo; i < hi; ++i)
            {
                ex::decode (i, 3, 9, blk, -1);
                for (int r = 0; r < 3; ++r) { for (int c = 0; c < 3; ++c) a[r * 4 + c] = blk[r * 3 + c]; a[r * 4 + 3] = 0; }
                a[12] = 2; a[13] = -1; a[14] = 3; a[15] = 1;
                for (int k = 0; k < 22; ++k)
                {
                    const int* b = k < 6 ? DETPROD_B[k] : BP[k - 6];
                    check_detprod<T, 4> (a, b, t); seen |= 1u << lc_pattern (a, b);
                    check_detprod<T, 4> (b, a, t); seen |= 1u << lc_pattern (b, a);
                }
            }
            prod_patterns |= seen;
            n_pat += (long long) (hi - lo) * 44;
            t.flush ();
        }) && ok;
        R ().cls ("detprod44.factor-and-product-last-column-zero-patterns", n_pat.load ());
        {
            int np = 0;
            for (int i = 0; i < 16; ++i) if (prod_patterns.load () >> i & 1) ++np;
            R ().note ("detprod44_product_last_column_zero_patterns_seen." + tl, std::to_string (np) + " of 16");
            if (ok && np != 16) R ().fail ("harness.detprod44-product-last-column-patterns", tl, "16", std::to_string (np));
        }
        std::string b = std::string ("det(AB) = det A det B: all 390625 L(2) 2x2 pairs, all ") + (pm ? "3^18 {-1,0,1}" : "2^18 0/1") + " 3x3 pairs, all 65536 0/1 4x4 x (6 fixed factors + 16 last-column zero patterns of a dense factor) on both sides, all 19683 {-1,0,1} affine-framed 4x4 x 22 factors on both sides";
        if (ok) R ().stage_done (b); else R ().stage_partial (b);
    }
}

} // namespace c05
