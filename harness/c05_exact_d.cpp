// C05 — explicit instantiation of the 'exact' stages for double (one TU per scalar type to keep the build parallel)
#include "c05_exact.hpp"
namespace c05 { template void run_exact<double> (); }
