// C11 — per-(order, angle triple) checks: builders against the elementary-rotation reference,
// extraction round trips, quaternion path, XYZ/ZYX free-function extractors.
//
// A-priori tolerances (eps = machine epsilon of T; libm sin/cos/atan2/sqrt taken as <= 1 ulp):
//  * matrix entries are sums of <= 2 products of <= 3 sines/cosines: each product carries
//    <= 3 ulp (factors) + 2 half-ulp roundings = 4 eps relative, |terms| <= 1, one more rounding for
//    the sum  ->  |M - R| <= 8 eps per entry (worst case 7);
//  * hence |M M^T - I| <= 2*3*8 eps = 48 eps and |det M - 1| <= 48 eps;
//  * quaternion components are cj*(cs+-sc)-like: <= 4.5 eps absolute -> 8 eps;
//    toQuat().toMatrix33() entries 1-2(y^2+z^2), 2(xy+zw): <= 4*sqrt2*4.5 + 3 < 32 eps;
//  * extraction removes the first rotation before the other two angles are taken, so the rebuilt
//    matrix is conditioning-free: flat 16 eps at and around gimbal lock (DESIGN C11);
//  * extract(Quat) works on q.toMatrix33(), which deviates from the rotation of q/|q| by
//    2*| |q|^2-1 | plus <= 8 eps of rounding: 24 eps + 2*| |q|^2-1 |.
#pragma once
#include "c11.hpp"

namespace c11 {

struct CaseTally
{
    long long cases = 0, transitions = 0;
    long long cls_order[4] = {0, 0, 0, 0};
    long long lock_exact = 0, lock_near = 0, grid_lock = 0, grid_generic = 0, translated = 0;
    long long reused[3] = {0, 0, 0}, reused_euler = 0;
    double    w_build = 0, w_quat = 0, w_quatmat = 0, w_rebuild = 0, w_rebuildq = 0, w_xyz = 0, w_zyx = 0, w_ortho = 0;
};

template <class T> struct CaseChecker
{
    typedef Euler<T>          E;
    typedef typename E::Order Ord;
    const LD                  eps = ex::eps<T> ();

    static int clsIndex (const OrderInfo& O) { return (O.frameStatic () ? 0 : 2) + (O.repeated () ? 1 : 0); }

    void operator() (const OrderInfo& O, T a0, T a1, T a2, CaseTally& t) const
    {
        using vf::R;
        const std::string c = std::string (".") + O.cls ();
        auto in = [&] () { return caseStr (O, a0, a1, a2); };
        Ord  ord = (Ord) O.value;
        ++t.cases;
        ++t.cls_order[clsIndex (O)];

        E e (a0, a1, a2, ord);
        if (e.order () != ord) R ().fail ("Euler::order.after-angle-constructor", in (), hex4 (O.value), hex4 ((int) e.order ()));
        if (!(ex::same (e.x, a0) && ex::same (e.y, a1) && ex::same (e.z, a2)))
            R ().fail ("Euler(i,j,k,order).slots", in (), "angles stored in slots x,y,z", vf::Msg () << e.x << " " << e.y << " " << e.z);

        // ---- builders
        Matrix33<T> m3 = e.toMatrix33 ();
        Matrix44<T> m4 = e.toMatrix44 ();
        bool        blk = true;
        for (int i = 0; i < 3; ++i) for (int j = 0; j < 3; ++j) blk = blk && ex::same (m3[i][j], m4[i][j]);
        if (!blk) R ().fail ("Euler::toMatrix44.block-vs-toMatrix33-bitwise" + c, in (), ref::fmtLib<3> (m3), ref::fmtLib<3> (m4));
        if (!(m4[0][3] == 0 && m4[1][3] == 0 && m4[2][3] == 0 && m4[3][0] == 0 && m4[3][1] == 0 && m4[3][2] == 0 && m4[3][3] == 1))
            R ().fail ("Euler::toMatrix44.affine-frame", in (), "last row/column of the identity", ref::fmtLib<4> (m4));

        const M3 Rr = ref::eulerRef (O, a0, a1, a2);
        const M3 L3 = ref::fromLib<3> (m3);
        LD       d  = ref::maxdiff (L3, Rr);
        t.w_build   = std::max (t.w_build, (double) (d / eps));
        if (!(d <= 8 * eps)) R ().fail ("Euler::toMatrix33.vs-elementary-rotations" + c, in (), "<= 8 eps", ref::fmtE (d / eps) + " eps; got " + ref::fmtLib<3> (m3));
        if (!blk)
        {
            LD d4 = ref::maxdiff (ref::fromLib<3> (m4), Rr);
            if (!(d4 <= 8 * eps)) R ().fail ("Euler::toMatrix44.vs-elementary-rotations" + c, in (), "<= 8 eps", ref::fmtE (d4 / eps) + " eps; got " + ref::fmtLib<3> (m4));
        }
        LD oe = ref::orthoErr (L3), de = fabsl (ref::det (L3) - 1);
        t.w_ortho = std::max (t.w_ortho, (double) (std::max (oe, de) / eps));
        if (!(oe <= 48 * eps)) R ().fail ("Euler::toMatrix33.orthonormal", in (), "<= 48 eps", ref::fmtE (oe / eps) + " eps");
        if (!(de <= 48 * eps)) R ().fail ("Euler::toMatrix33.det+1", in (), "|det-1| <= 48 eps", ref::fmtE (de / eps) + " eps");
        t.transitions += 4;

        // ---- quaternion
        Quat<T> q = e.toQuat ();
        {
            LD qr[4];
            ref::quatOf (Rr, qr);
            LD ql[4] = {(LD) q.r, (LD) q.v.x, (LD) q.v.y, (LD) q.v.z};
            LD dp = 0, dm = 0;
            for (int i = 0; i < 4; ++i) { dp = std::max (dp, fabsl (ql[i] - qr[i])); dm = std::max (dm, fabsl (ql[i] + qr[i])); }
            LD dq = std::min (dp, dm);
            if (!(dp == dp) || !(dm == dm)) dq = INFINITY;
            t.w_quat = std::max (t.w_quat, (double) (dq / eps));
            if (!(dq <= 8 * eps)) R ().fail ("Euler::toQuat.vs-reference-quaternion" + c, in (), "+-q_ref within 8 eps", vf::Msg () << ref::fmtE (dq / eps) << " eps; got (" << q.r << " " << q.v.x << " " << q.v.y << " " << q.v.z << ")");
            LD dqm = ref::maxdiff (ref::fromLib<3> (q.toMatrix33 ()), Rr);
            t.w_quatmat = std::max (t.w_quatmat, (double) (dqm / eps));
            if (!(dqm <= 32 * eps)) R ().fail ("Euler::toQuat.toMatrix33.vs-elementary-rotations" + c, in (), "<= 32 eps", ref::fmtE (dqm / eps) + " eps");
            t.transitions += 2;
        }

        // ---- XYZ order against Matrix44::setEulerAngles
        if (ord == E::XYZ)
        {
            Matrix44<T> s;
            s.setEulerAngles (Vec3<T> (a0, a1, a2));
            LD ds = ref::maxdiff (ref::fromLib<3> (s), Rr);
            if (!(ds <= 8 * eps)) R ().fail ("Matrix44::setEulerAngles.vs-elementary-rotations", in (), "<= 8 eps", ref::fmtE (ds / eps) + " eps");
            LD dl = ref::maxdiff (ref::fromLib<3> (s), L3);
            if (!(dl <= 16 * eps)) R ().fail ("Euler(XYZ)::toMatrix44.vs-Matrix44::setEulerAngles", in (), "<= 16 eps", ref::fmtE (dl / eps) + " eps");
            t.transitions += 2;
            // "XYZ order agrees with Matrix44::setEulerAngles" is a statement about the whole 4x4 matrix that
            // M.setEulerAngles(a) leaves in M, for whatever M held before (seed C11-v1: setEulerAngles is a set* member that is
            // called on existing objects; a builder writing only the rotation block agrees with toMatrix44() on a fresh
            // identity and nowhere else):
            //  * fourth row / column of the fresh result: equal to those of Euler(XYZ).toMatrix44() (exact: (0,0,0,1));
            //  * the same call on an object pre-filled, in EVERY slot, with distinct primes / sign-flipped transposed primes /
            //    NaN must leave BITWISE the matrix it leaves in the fresh object (the result is a function of the angles
            //    only; same deterministic IEEE operation sequence, so no tolerance), and that matrix must agree with
            //    toMatrix44() in all 16 entries (block to the same 16 eps as above, the rest exactly).
            bool hom = true;
            for (int i = 0; i < 4; ++i) hom = hom && s[i][3] == m4[i][3] && s[3][i] == m4[3][i];
            if (!hom) R ().fail ("Euler(XYZ)::toMatrix44.vs-Matrix44::setEulerAngles.homogeneous-part", in (), ref::fmtLib<4> (m4), ref::fmtLib<4> (s));
            static const char* FILLN[3] = {"every slot a distinct prime 100+p_k", "every slot -+(100+p_k), transposed", "every slot NaN"};
            for (int kind = 0; kind < 3; ++kind)
            {
                Matrix44<T> sd;
                for (int i = 0; i < 4; ++i)
                    for (int j = 0; j < 4; ++j)
                        sd[i][j] = kind == 0 ? (T) (100 + ex::PRIMES[i * 4 + j]) : kind == 1 ? (T) ((((i + j) & 1) ? 1 : -1) * (100 + ex::PRIMES[j * 4 + i])) : std::numeric_limits<T>::quiet_NaN ();
                sd.setEulerAngles (Vec3<T> (a0, a1, a2));
                ++t.reused[kind];
                bool same = true, agree = true;
                for (int i = 0; i < 4; ++i)
                    for (int j = 0; j < 4; ++j)
                    {
                        same = same && ex::same (sd[i][j], s[i][j]);
                        if (i < 3 && j < 3) agree = agree && fabsl ((LD) sd[i][j] - (LD) m4[i][j]) <= 16 * eps;
                        else agree = agree && sd[i][j] == m4[i][j];
                    }
                if (!same) R ().fail ("Matrix44::setEulerAngles.result-depends-on-previous-contents", in () + " previous contents: " + FILLN[kind], "the matrix the same call leaves in a fresh Matrix44: " + ref::fmtLib<4> (s), ref::fmtLib<4> (sd));
                if (!agree) R ().fail ("Euler(XYZ)::toMatrix44.vs-Matrix44::setEulerAngles.reused-object", in () + " previous contents: " + FILLN[kind], "all 16 entries (block to 16 eps): " + ref::fmtLib<4> (m4), ref::fmtLib<4> (sd));
                t.transitions += 2;
            }
        }

        // ---- extraction: 3x3 and 4x4 copies, constructors, rebuild
        E x3 (ord), x4 (ord);
        x3.extract (m3);
        x4.extract (m4);
        // extract() sets all three angles from its argument and the order of the object: an Euler object that already holds
        // angles (generic primes, NaN) must end bitwise equal to a fresh one of the same order
        {
            const T nan = std::numeric_limits<T>::quiet_NaN ();
            for (int kind = 0; kind < 2; ++kind)
            {
                E d3 = kind ? E (nan, nan, nan, ord) : E ((T) 103, (T) -107, (T) 109, ord), d4 (d3), dq (d3), fq (ord);
                d3.extract (m3);
                d4.extract (m4);
                dq.extract (q);
                fq.extract (q);
                ++t.reused_euler;
                auto prev = [&] () { return in () + (kind ? " previous angles: NaN" : " previous angles: (103,-107,109)"); };
                if (!(ex::same (d3.x, x3.x) && ex::same (d3.y, x3.y) && ex::same (d3.z, x3.z) && d3.order () == ord))
                    R ().fail ("Euler::extract(Matrix33).result-depends-on-previous-angles", prev (), vf::Msg () << x3.x << " " << x3.y << " " << x3.z, vf::Msg () << d3.x << " " << d3.y << " " << d3.z);
                if (!(ex::same (d4.x, x4.x) && ex::same (d4.y, x4.y) && ex::same (d4.z, x4.z) && d4.order () == ord))
                    R ().fail ("Euler::extract(Matrix44).result-depends-on-previous-angles", prev (), vf::Msg () << x4.x << " " << x4.y << " " << x4.z, vf::Msg () << d4.x << " " << d4.y << " " << d4.z);
                if (!(ex::same (dq.x, fq.x) && ex::same (dq.y, fq.y) && ex::same (dq.z, fq.z) && dq.order () == ord))
                    R ().fail ("Euler::extract(Quat).result-depends-on-previous-angles", prev (), vf::Msg () << fq.x << " " << fq.y << " " << fq.z, vf::Msg () << dq.x << " " << dq.y << " " << dq.z);
                t.transitions += 3;
            }
        }
        if (!(ex::same (x3.x, x4.x) && ex::same (x3.y, x4.y) && ex::same (x3.z, x4.z)))
            R ().fail ("Euler::extract.Matrix33-vs-Matrix44-bitwise" + c, in (), vf::Msg () << x3.x << " " << x3.y << " " << x3.z, vf::Msg () << x4.x << " " << x4.y << " " << x4.z);
        if (x3.order () != ord || x4.order () != ord) R ().fail ("Euler::extract.keeps-order", in (), hex4 (O.value), hex4 ((int) x3.order ()) + "/" + hex4 ((int) x4.order ()));
        {
            E c3 (m3, ord), c4 (m4, ord);
            if (!(ex::same (c3.x, x3.x) && ex::same (c3.y, x3.y) && ex::same (c3.z, x3.z) && c3.order () == ord))
                R ().fail ("Euler(Matrix33,order).vs-extract", in (), vf::Msg () << x3.x << " " << x3.y << " " << x3.z, vf::Msg () << c3.x << " " << c3.y << " " << c3.z);
            if (!(ex::same (c4.x, x4.x) && ex::same (c4.y, x4.y) && ex::same (c4.z, x4.z) && c4.order () == ord))
                R ().fail ("Euler(Matrix44,order).vs-extract", in (), vf::Msg () << x4.x << " " << x4.y << " " << x4.z, vf::Msg () << c4.x << " " << c4.y << " " << c4.z);
        }
        {
            LD dr = ref::maxdiff (ref::fromLib<3> (x3.toMatrix33 ()), L3);
            t.w_rebuild = std::max (t.w_rebuild, (double) (dr / eps));
            if (!(dr <= 16 * eps))
                R ().fail ("Euler::extract(Matrix33).rebuild" + c, in (), "rebuilt rotation within 16 eps", vf::Msg () << ref::fmtE (dr / eps) << " eps; extracted (" << x3.x << " " << x3.y << " " << x3.z << ")");
            // the 4x4 copy is checked on its own only when it disagrees with the 3x3 copy
            if (!(ex::same (x3.x, x4.x) && ex::same (x3.y, x4.y) && ex::same (x3.z, x4.z)))
            {
                LD d4 = ref::maxdiff (ref::fromLib<3> (x4.toMatrix44 ()), L3);
                if (!(d4 <= 16 * eps))
                    R ().fail ("Euler::extract(Matrix44).rebuild" + c, in (), "rebuilt rotation within 16 eps", vf::Msg () << ref::fmtE (d4 / eps) << " eps; extracted (" << x4.x << " " << x4.y << " " << x4.z << ")");
            }
            t.transitions += 5;
        }

        // ---- "3x3 and 4x4 give identical angles" for an affine 4x4 that carries a translation (Euler::extract
        // documents its Matrix44 argument as "assumed to be affine"; extractSHRT hands such matrices to
        // extractEulerXYZ): the translation row must not influence any extracted angle. Equality is numeric
        // (operator==), not bitwise: the library's N = N*M adds 0*t terms, which may turn a -0 angle into +0.
        {
            Vec3<T> r0, z0;
            extractEulerXYZ (m4, r0);
            extractEulerZYX (m4, z0);
            static const double TR[2][3] = {{-3, -5, -7}, {1099511627776.0 /*2^40*/, -9.094947017729282e-13 /*-2^-40*/, 11}};
            for (int q = 0; q < 2; ++q)
            {
                Matrix44<T> mt = m4;
                for (int i = 0; i < 3; ++i) mt[3][i] = (T) TR[q][i];
                auto int_ = [&] () { return in () + (q ? " translation=(2^40,-2^-40,11)" : " translation=(-3,-5,-7)"); };
                auto eq3 = [] (const Vec3<T>& A, const Vec3<T>& B) { return A.x == B.x && A.y == B.y && A.z == B.z; };
                E xt (ord);
                xt.extract (mt);
                if (!eq3 (xt, x4) || xt.order () != ord)
                    R ().fail ("Euler::extract(Matrix44).translation-row-changes-angles", int_ (), vf::Msg () << x4.x << " " << x4.y << " " << x4.z, vf::Msg () << xt.x << " " << xt.y << " " << xt.z);
                E ct (mt, ord);
                if (!eq3 (ct, x4) || ct.order () != ord)
                    R ().fail ("Euler(Matrix44,order).translation-row-changes-angles", int_ (), vf::Msg () << x4.x << " " << x4.y << " " << x4.z, vf::Msg () << ct.x << " " << ct.y << " " << ct.z);
                Vec3<T> r1, z1;
                extractEulerXYZ (mt, r1);
                extractEulerZYX (mt, z1);
                if (!eq3 (r1, r0)) R ().fail ("extractEulerXYZ.translation-row-changes-angles", int_ (), vf::Msg () << r0.x << " " << r0.y << " " << r0.z, vf::Msg () << r1.x << " " << r1.y << " " << r1.z);
                if (!eq3 (z1, z0)) R ().fail ("extractEulerZYX.translation-row-changes-angles", int_ (), vf::Msg () << z0.x << " " << z0.y << " " << z0.z, vf::Msg () << z1.x << " " << z1.y << " " << z1.z);
                ++t.translated;
                t.transitions += 4;
            }
        }

        // ---- extraction from the quaternion
        {
            E xq (ord);
            xq.extract (q);
            LD n2  = (LD) q.r * q.r + (LD) q.v.x * q.v.x + (LD) q.v.y * q.v.y + (LD) q.v.z * q.v.z;
            M3 Rq  = ref::matOfQuat (q.r, q.v.x, q.v.y, q.v.z);
            LD dq  = ref::maxdiff (ref::fromLib<3> (xq.toMatrix33 ()), Rq);
            LD tol = 24 * eps + 2 * fabsl (n2 - 1);
            t.w_rebuildq = std::max (t.w_rebuildq, (double) (dq / eps));
            if (!(dq <= tol))
                R ().fail ("Euler::extract(Quat).rebuild" + c, in (), "within 24 eps + 2||q|^2-1| = " + ref::fmtE (tol / eps) + " eps", vf::Msg () << ref::fmtE (dq / eps) << " eps; extracted (" << xq.x << " " << xq.y << " " << xq.z << ")");
            ++t.transitions;
        }

        // ---- free-function extractors invert their builders (fixed-axis XYZ and ZYX products)
        {
            Vec3<T> r;
            extractEulerXYZ (m4, r);
            LD dx = ref::maxdiff (ref::compose (0, 1, 2, r.x, r.y, r.z), L3);
            t.w_xyz = std::max (t.w_xyz, (double) (dx / eps));
            if (!(dx <= 16 * eps))
                R ().fail ("extractEulerXYZ.rebuild", in (), "Rx*Ry*Rz of the result within 16 eps", vf::Msg () << ref::fmtE (dx / eps) << " eps; rot (" << r.x << " " << r.y << " " << r.z << ")");
            extractEulerZYX (m4, r);
            LD dz = ref::maxdiff (ref::compose (2, 1, 0, r.x, r.y, r.z), L3);
            t.w_zyx = std::max (t.w_zyx, (double) (dz / eps));
            if (!(dz <= 16 * eps))
                R ().fail ("extractEulerZYX.rebuild", in (), "Rz*Ry*Rx of the result within 16 eps", vf::Msg () << ref::fmtE (dz / eps) << " eps; rot (" << r.x << " " << r.y << " " << r.z << ")");
            t.transitions += 2;
            // The free extractors normalise the three rows first, so a uniformly scaled rotation matrix (exact power-of-two
            // scalings, down to where the squared row length underflows and up to where it is huge) must give the
            // same rotation
            const bool dbl = std::numeric_limits<T>::digits > 30;
            const int  SC[3] = {dbl ? -540 : -70, dbl ? -600 : -100, dbl ? 500 : 60};
            for (int q = 0; q < 3; ++q)
            {
                Matrix44<T> ms = m4;
                for (int i = 0; i < 3; ++i) for (int j = 0; j < 3; ++j) ms[i][j] = (T) std::ldexp ((double) m4[i][j], SC[q]);
                extractEulerXYZ (ms, r);
                LD dxs = ref::maxdiff (ref::compose (0, 1, 2, r.x, r.y, r.z), L3);
                if (!(dxs <= 16 * eps)) R ().fail ("extractEulerXYZ.rebuild.scaled-matrix", in () + " rows*2^" + std::to_string (SC[q]), "within 16 eps", vf::Msg () << ref::fmtE (dxs / eps) << " eps; rot (" << r.x << " " << r.y << " " << r.z << ")");
                extractEulerZYX (ms, r);
                LD dzs = ref::maxdiff (ref::compose (2, 1, 0, r.x, r.y, r.z), L3);
                if (!(dzs <= 16 * eps)) R ().fail ("extractEulerZYX.rebuild.scaled-matrix", in () + " rows*2^" + std::to_string (SC[q]), "within 16 eps", vf::Msg () << ref::fmtE (dzs / eps) << " eps; rot (" << r.x << " " << r.y << " " << r.z << ")");
                t.transitions += 2;
            }
        }
    }
};

inline void mergeTally (CaseTally& g, const CaseTally& l)
{
    g.cases += l.cases; g.transitions += l.transitions;
    for (int i = 0; i < 4; ++i) g.cls_order[i] += l.cls_order[i];
    g.lock_exact += l.lock_exact; g.lock_near += l.lock_near; g.grid_lock += l.grid_lock; g.grid_generic += l.grid_generic;
    g.translated += l.translated;
    for (int i = 0; i < 3; ++i) g.reused[i] += l.reused[i];
    g.reused_euler += l.reused_euler;
    g.w_build = std::max (g.w_build, l.w_build); g.w_quat = std::max (g.w_quat, l.w_quat); g.w_quatmat = std::max (g.w_quatmat, l.w_quatmat);
    g.w_rebuild = std::max (g.w_rebuild, l.w_rebuild); g.w_rebuildq = std::max (g.w_rebuildq, l.w_rebuildq);
    g.w_xyz = std::max (g.w_xyz, l.w_xyz); g.w_zyx = std::max (g.w_zyx, l.w_zyx); g.w_ortho = std::max (g.w_ortho, l.w_ortho);
}

template <class T> inline void publishTally (const CaseTally& g, const char* what)
{
    using vf::R;
    std::string tn = ref::tname<T> ();
    R ().add ("states", g.cases);
    R ().add ("evaluations", g.cases);
    R ().add ("transitions", g.transitions);
    static const char* cn[4] = {"order.static-nonrepeated", "order.static-repeated", "order.rotating-nonrepeated", "order.rotating-repeated"};
    for (int i = 0; i < 4; ++i) R ().cls (cn[i], g.cls_order[i]);
    R ().cls ("extract.matrix44-with-translation-row", g.translated);
    R ().cls ("setEulerAngles.reused-object.previous-contents-distinct-primes", g.reused[0]);
    R ().cls ("setEulerAngles.reused-object.previous-contents-sign-flipped-transposed-primes", g.reused[1]);
    R ().cls ("setEulerAngles.reused-object.previous-contents-NaN", g.reused[2]);
    R ().cls ("extract.reused-Euler-object(previous-angles-primes-or-NaN)", g.reused_euler);
    if (std::string (what) == "grid")
    {
        R ().cls ("grid.middle-angle-exactly-at-lock", g.grid_lock);
        R ().cls ("grid.generic", g.grid_generic);
    }
    else
    {
        R ().cls ("lock.middle-angle-at-lock", g.lock_exact);
        R ().cls ("lock.within-1e-j-of-lock", g.lock_near);
    }
    R ().note_max ("worst |toMatrix33 - reference| (eps, " + tn + ")", g.w_build);
    R ().note_max ("worst orthonormality/det error (eps, " + tn + ")", g.w_ortho);
    R ().note_max ("worst |toQuat - reference quaternion| (eps, " + tn + ")", g.w_quat);
    R ().note_max ("worst |toQuat.toMatrix33 - reference| (eps, " + tn + ")", g.w_quatmat);
    R ().note_max ("worst rebuild-from-extract error (eps, " + tn + ")", g.w_rebuild);
    R ().note_max ("worst rebuild-from-extract(Quat) error (eps, " + tn + ")", g.w_rebuildq);
    R ().note_max ("worst extractEulerXYZ rebuild error (eps, " + tn + ")", g.w_xyz);
    R ().note_max ("worst extractEulerZYX rebuild error (eps, " + tn + ")", g.w_zyx);
}

// ---- stage drivers -----------------------------------------------------------------------------
// grid: 24 orders x (k*pi/6)^3, k in [-12,12]  (two full periods each way)
// lock: middle angle b + s*10^-j, b in {+-pi/2} (non-repeated) or {0, pi, -pi} (repeated),
//       s in {0,+1,-1}, j = 1..jmax(T); outer angles from the pi/6 grid
template <class T> inline void run_cases ()
{
    using vf::R;
    const std::string tn   = ref::tname<T> ();
    const int         jmax = sizeof (T) == 4 ? 7 : 15;
    CaseChecker<T>    chk;
    std::mutex        mu;

    if (R ().stage ("grid-" + tn))
    {
        CaseTally g;
        const uint64_t N = 24ull * 25 * 25 * 25;
        bool ok = vf::parallel_chunks (N, 25 * 25, [&] (uint64_t lo, uint64_t hi, unsigned) {
            CaseTally l;
            for (uint64_t i = lo; i < hi; ++i)
            {
                int dg[3];
                ex::decode (i % 15625, 25, 3, dg, -12);
                const OrderInfo& O = ORDERS[i / 15625];
                int km = ((dg[1] % 12) + 12) % 12;
                bool atlock = O.repeated () ? (km % 6 == 0) : (km == 3 || km == 9);
                (atlock ? l.grid_lock : l.grid_generic)++;
                chk (O, gridAngle<T> (dg[0]), gridAngle<T> (dg[1]), gridAngle<T> (dg[2]), l);
            }
            std::lock_guard<std::mutex> gd (mu);
            mergeTally (g, l);
        });
        publishTally<T> (g, "grid");
        if (ok) R ().stage_done ("24 orders x all 15625 triples (k*pi/6)^3, k in [-12,12], " + tn + ": builders, quaternion, extract x3, XYZ/ZYX extractors");
        else R ().stage_partial (std::to_string (g.cases) + " of " + std::to_string (N) + " cases");
    }

    if (R ().stage ("lock-" + tn))
    {
        // per order: bases x offsets x 25 x 25
        const int      noff = 1 + 2 * jmax;
        CaseTally      g;
        const uint64_t perBase = (uint64_t) noff * 625;
        const uint64_t N = 24ull * 3 * perBase; // index space uses 3 base slots; non-repeated orders skip the third
        bool ok = vf::parallel_chunks (N, 625, [&] (uint64_t lo, uint64_t hi, unsigned) {
            CaseTally l;
            for (uint64_t i = lo; i < hi; ++i)
            {
                const OrderInfo& O = ORDERS[i / (3 * perBase)];
                uint64_t r  = i % (3 * perBase);
                int      b  = (int) (r / perBase);
                uint64_t r2 = r % perBase;
                int      oi = (int) (r2 / 625);
                int      dg[2];
                ex::decode (r2 % 625, 25, 2, dg, -12);
                LD base;
                if (O.repeated ()) base = b == 0 ? 0.0L : (b == 1 ? ref::PI_LD : -ref::PI_LD);
                else { if (b == 2) continue; base = b == 0 ? ref::PI_LD / 2 : -ref::PI_LD / 2; }
                LD off = 0;
                if (oi > 0) { int j = (oi + 1) / 2; off = powl (10.0L, -(LD) j); if (oi % 2 == 0) off = -off; }
                (oi == 0 ? l.lock_exact : l.lock_near)++;
                chk (O, gridAngle<T> (dg[0]), (T) (base + off), gridAngle<T> (dg[1]), l);
            }
            std::lock_guard<std::mutex> gd (mu);
            mergeTally (g, l);
        });
        publishTally<T> (g, "lock");
        if (ok) R ().stage_done ("24 orders x middle angle {+-pi/2 | 0,+-pi} + {0,+-10^-j, j=1.." + std::to_string (jmax) + "} x outer angles (k*pi/6)^2, " + tn);
        else R ().stage_partial (std::to_string (g.cases) + " cases");
    }
}

} // namespace c11
