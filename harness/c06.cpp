// C06 — matrix inversion returns a true inverse, or a clean singular outcome.
// Driver; stages in c06_run.hpp, oracles and per-case checks in c06.hpp.
#include "c06.hpp"
namespace c06 {
extern template void run<float> ();
extern template void run<double> ();
} // namespace c06

void c06_dirty_stage (); // c06_dirty.cpp

int main (int argc, char** argv)
{
    vf::R ().property = "C06";
    vf::R ().parse (argc, argv);
    vf::R ().assume ("long double has a 64-bit significand (x86-64): X_ij*det(A) is exact for |det(A)| < 2^11");
    vf::R ().assume ("accuracy constant c = 8 in c*cond_inf(M)*eps*||M^-1||_inf fixed a priori (DESIGN.md C06), norms are max row sums of the exact matrices");
    c06::run<float> ();
    c06::run<double> ();
    c06_dirty_stage ();
    vf::R ().sample ("Matrix33f [1,2,0; 0,1,2; 2,0,1]*2^-1: det(A)=9, |det(M)|=9/8 >= 1 branch; *2^-2: 9/64 < 1 branch");
    vf::R ().sample ("Matrix33 [1,2,-1; 2,4,-2; 0,1,1] (row1 = 2*row0): singular, Gauss-Jordan must hit an exact zero pivot -> identity");
    vf::R ().sample ("Matrix44 affine [1,0,1,0; 0,1,1,0; 1,1,0,0; 1,-1,2,1]: fast path; with M[3][3]=1+eps: general (Gauss-Jordan) path, results agree to the bound");
    return vf::R ().finish ();
}
