// Vector alphabet shared by C08 (length / normalisation accuracy) and by the normalize-family stage of
// C07 (checked vs unchecked forms).  Everything here is enumeration machinery: a finite, indexable
// space of Vec2/3/4 inputs built from the DESIGN.md §1 C08 description:
//
//   leading component  = +-m * 2^e , m in {1, 1+ulp, 1.5, 2-ulp}, e = every exponent of the type from the
//                        smallest subnormal up to just above sqrt(max)/2 (the domain filter of the property
//                        removes the top), placed in every slot;
//   other components   = +-m' * 2^(e+rel), rel in {0,-1,-2,-12,-24,-25,-53,-54}, or +-0  (rel = -inf);
//                        m' ranges over a (tier dependent) subset of the four mantissas;
//   sign patterns      = a (tier dependent) list of N-bit masks.
//
// A tuple whose component is not exactly representable (a 24-bit mantissa at a subnormal exponent, an
// exponent below the smallest subnormal) is not a member of the space: decode() returns false and the
// caller does not count it.
#pragma once
#include <cfloat>
#include <cmath>
#include <cstdint>
#include <limits>
#include <vector>
#include <atomic>
#include <string>
#include <thread>
#include <mutex>
#include "../engine/report.hpp"

namespace c08 {

// A violation site that stays cheap when a (mutated) library fails on hundreds of millions of inputs.
// Report::fail takes a global lock per call, so: the first 5 failing cases are reported with their
// input / expected / got strings (the Report stores 4 per site); the next CAP cases are reported without
// strings (exact count, no formatting); anything beyond CAP is only tallied and published by flush_sites()
// as the counter "failures_beyond_cap:<site>" (so violation_counts[site] = min(true count, CAP) and the
// true count is violation_counts + that counter).  Later cases wait until the first 5 have been recorded,
// so the stored examples always carry their details.
struct Site;
inline std::vector<Site*>& site_registry () { static std::vector<Site*> r; return r; }
inline std::mutex&         site_registry_mu () { static std::mutex m; return m; }
struct Site
{
    static constexpr long long CAP = 100000;
    std::string            name;
    std::atomic<long long> tickets;
    std::atomic<int>       detailed;
    explicit Site (const std::string& n) : name (n), tickets (0), detailed (0)
    {
        std::lock_guard<std::mutex> g (site_registry_mu ());
        site_registry ().push_back (this);
    }
    template <class F> void fail (F&& details)
    {
        long long k = tickets.fetch_add (1, std::memory_order_relaxed);
        if (k < 5)
        {
            std::string in, ex, got;
            details (in, ex, got);
            vf::R ().fail (name, in, ex, got);
            detailed.fetch_add (1);
        }
        else if (k < CAP)
        {
            while (detailed.load () < 5) std::this_thread::yield ();
            vf::R ().fail (name, "", "", "");
        }
    }
};
// call once, after the last stage and before Report::finish()
inline void flush_sites ()
{
    std::lock_guard<std::mutex> g (site_registry_mu ());
    for (Site* s : site_registry ())
    {
        long long n = s->tickets.load ();
        if (n > Site::CAP) vf::R ().add ("failures_beyond_cap:" + s->name, n - Site::CAP);
    }
}
// SITESTR must be the same string on every execution of this statement (one static Site per statement and
// per template instantiation).
#define C0X_FAIL(SITESTR, IN, EXP, GOT)                                                                    \
    do {                                                                                                   \
        static c08::Site site_ (SITESTR);                                                                  \
        site_.fail ([&] (std::string& i_, std::string& e_, std::string& g_) { i_ = (IN); e_ = (EXP); g_ = (GOT); }); \
    } while (0)

template <class T> struct Lim;
template <> struct Lim<float>
{
    static constexpr int emin_sub = -149, emin_norm = -126, etop = 63; // 2^63 ~ sqrt(FLT_MAX)/2
};
template <> struct Lim<double>
{
    static constexpr int emin_sub = -1074, emin_norm = -1022, etop = 511;
};

// the four mantissas in [1,2)
template <class T> inline T mant (int k)
{
    const T e = std::numeric_limits<T>::epsilon ();
    switch (k)
    {
        case 0: return T (1);
        case 1: return T (1) + e;
        case 2: return T (1.5);
        default: return T (2) - e;
    }
}

// m*2^e if exactly representable in T (and finite), else false
template <class T> inline bool mk (int mant_idx, int e, T& out)
{
    if (e < Lim<T>::emin_sub || e > std::numeric_limits<T>::max_exponent - 1) return false;
    T m = mant<T> (mant_idx);
    T v = std::ldexp (m, e);
    if (e < Lim<T>::emin_norm)
    {   // subnormal range: representable iff scaling back recovers the mantissa
        if (std::ldexp (v, -e) != m) return false;
    }
    out = v;
    return true;
}

static const int REL[8] = {0, -1, -2, -12, -24, -25, -53, -54};

// one "other component" choice: zero (rel = -inf) or (rel index, mantissa index)
struct Other
{
    bool zero;
    int  rel, mant;
};

struct Space
{
    int                   N = 0;        // dimension
    int                   e_lo = 0, e_hi = 0; // leading exponent range, inclusive
    std::vector<int>      lead_mants;   // mantissa indices of the leading component
    std::vector<Other>    others;       // alphabet of each non-leading component
    std::vector<unsigned> signs;        // sign masks (bit i set = component i negative)
    bool                  lead_only = false; // "single non-zero component in each slot" sub-space

    uint64_t n_other_tuples () const
    {
        uint64_t r = 1;
        for (int i = 0; i < N - 1; ++i) r *= others.size ();
        return lead_only ? 1 : r;
    }
    uint64_t size () const
    {
        return (uint64_t) (e_hi - e_lo + 1) * (uint64_t) N * lead_mants.size () * n_other_tuples () * signs.size ();
    }
    // idx -> components; false if the tuple is not in the space (not representable)
    template <class T> bool decode (uint64_t idx, T* v) const
    {
        uint64_t s = idx % signs.size (); idx /= signs.size ();
        uint64_t ot = idx % n_other_tuples (); idx /= n_other_tuples ();
        uint64_t lm = idx % lead_mants.size (); idx /= lead_mants.size ();
        int      slot = (int) (idx % (uint64_t) N); idx /= (uint64_t) N;
        int      e    = e_lo + (int) idx;
        T lead;
        if (!mk<T> (lead_mants[lm], e, lead)) return false;
        int k = 0;
        for (int i = 0; i < N; ++i)
        {
            T c;
            if (i == slot) c = lead;
            else if (lead_only) c = T (0);
            else
            {
                const Other& o = others[ot % others.size ()];
                ot /= others.size ();
                ++k;
                if (o.zero) c = T (0);
                else if (!mk<T> (o.mant, e + REL[o.rel], c)) return false;
            }
            v[i] = ((signs[s] >> i) & 1u) ? -c : c;
        }
        return true;
    }
};

// others alphabet with the given mantissa subset
inline std::vector<Other> make_others (const std::vector<int>& mants)
{
    std::vector<Other> o;
    o.push_back ({true, 0, 0});
    for (int r = 0; r < 8; ++r)
        for (int m : mants) o.push_back ({false, r, m});
    return o;
}

inline std::vector<unsigned> all_signs (int N)
{
    std::vector<unsigned> s;
    for (unsigned i = 0; i < (1u << N); ++i) s.push_back (i);
    return s;
}
// all +, all -, and the two alternating patterns
inline std::vector<unsigned> four_signs (int N)
{
    unsigned all = (1u << N) - 1, alt = 0x5u & all;
    return {0u, all, alt, all ^ alt};
}

template <class T> inline Space sweep_space (int N, const std::vector<int>& other_mants, const std::vector<unsigned>& signs)
{
    Space s;
    s.N = N;
    s.e_lo = Lim<T>::emin_sub;
    s.e_hi = Lim<T>::etop;
    s.lead_mants = {0, 1, 2, 3};
    s.others     = make_others (other_mants);
    s.signs      = signs;
    return s;
}

} // namespace c08
