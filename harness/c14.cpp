// C14 — ray-box and line-box intersection are geometrically exact (driver; see c14.hpp for oracle and tolerances).
#include "c14.hpp"

namespace c14 {
extern template bool run_lattice<float> (bool);  extern template bool run_extreme<float> (bool);
extern template bool run_lattice<double> (bool); extern template bool run_extreme<double> (bool);
extern template bool run_rounding<float> (bool); extern template bool run_rounding<double> (bool);
extern template bool run_elongated<float> (bool); extern template bool run_elongated<double> (bool);
extern template bool run_maxface<float> (bool); extern template bool run_maxface<double> (bool);
extern template bool run_signed<float> (bool); extern template bool run_signed<double> (bool);
extern template bool run_negzero<float> (bool); extern template bool run_negzero<double> (bool);
extern template bool run_guard<float> (bool); extern template bool run_guard<double> (bool);
extern template bool run_ovf<float> (bool); extern template bool run_ovf<double> (bool);
}
using namespace vf;

template <class F> static void run_stage (const char* name, const char* bound, F f)
{
    if (!R ().stage (name)) return;
    bool ok = f ();
    c14::flush_failures ();
    if (ok) R ().stage_done (bound);
    else R ().stage_partial (std::string (bound) + " (cut short by the deadline)");
}

int main (int argc, char** argv)
{
    R ().property = "C14";
    R ().parse (argc, argv);
    const bool th = R ().thorough ();
    R ().assume ("zero direction vectors are outside the property's domain and are excluded");
    R ().assume ("long double has a 64-bit significand (x86-64): the power-of-two alphabet's cross products are exact");
    const char* lat = th
        ? "boxes: every (min,max) in {0..4} per axis incl. flat and inverted (15625) x origins {-2..6}^3 x directions {-3..3}^3 minus 0 (unnormalised); 3 entry points; exact integer slab oracle"
        : "boxes: every (min,max) in {0..3} per axis incl. flat and inverted (4096) x origins {-1..4}^3 x directions {-3..3}^3 minus 0 (unnormalised); 3 entry points; exact integer slab oracle";
    const char* ext = th
        ? "direction components {0,+-denorm_min,+-min,+-2^-100,+-1,+-2^100,+-max}^3 minus 0 x boxes (per-axis every (min,max) over {0,1,2}s) x origins {-1,0,1,2,3}^3 s, scales s in {min,2^-100,1,2^100,2^(emax-5)}"
        : "direction components {0,+-denorm_min,+-min,+-2^-100,+-1,+-2^100,+-max}^3 minus 0 x boxes (per-axis (0,1),(1,1),(0,2),(1,0))s x origins {-1,0,1,3}^3 s, scales s in {min,2^-100,1,2^100,2^(emax-5)}";
    run_stage ("lattice.float", lat, [&] { return c14::run_lattice<float> (th); });
    run_stage ("lattice.double", lat, [&] { return c14::run_lattice<double> (th); });
    const char* elo = "boxes: every (min,max) over {0,1,12} per axis (729: cubes, 12x1x1 slabs, plates, flat, inverted) x origins {-1,1,6,11,13}^3 x directions {-3..3}^3 minus 0; 3 entry points; exact integer slab oracle";
    run_stage ("elongated.float", elo, [&] { return c14::run_elongated<float> (th); });
    run_stage ("elongated.double", elo, [&] { return c14::run_elongated<double> (th); });
    const char* rnd = "rounding-at-the-boundary alphabet: direction components {0,+-d,+-e}, boxes (min,max) over {0,D,P} per axis incl. flat/inverted, origins {-D,0,D,P,P+D}^3; float (D,d,e,P)=(1,7,21,3), double (5,29,87,15)";
    run_stage ("rounding.float", rnd, [&] { return c14::run_rounding<float> (th); });
    run_stage ("rounding.double", rnd, [&] { return c14::run_rounding<double> (th); });
    run_stage ("extreme.float", ext, [&] { return c14::run_extreme<float> (th); });
    run_stage ("extreme.double", ext, [&] { return c14::run_extreme<double> (th); });
    const char* mxf = th
        ? "per-axis (min,max) in {(-W,W),(1,W),(-W,1),(0,1),(W,-W),(W,W),(-1,1),(-W,-W),(1,-W)}, W = numeric max (729 boxes incl. makeInfinite(), makeEmpty(), half spaces, slabs) x origins {-1,0,2}^3 x directions {-3..3}^3 minus 0; exact oracle over a*W+b"
        : "per-axis (min,max) in {(-W,W),(1,W),(-W,1),(0,1),(W,-W),(W,W)}, W = numeric max (216 boxes incl. makeInfinite(), makeEmpty(), half spaces, slabs) x origins {-1,0,2}^3 x directions {-2..2}^3 minus 0; exact oracle over a*W+b";
    run_stage ("max-face.float", mxf, [&] { return c14::run_maxface<float> (th); });
    run_stage ("max-face.double", mxf, [&] { return c14::run_maxface<double> (th); });
    const char* sgn = th
        ? "boxes: every (min,max) in {-2..1} per axis incl. flat and inverted (4096) x origins {-3..2}^3 x directions {-2..2}^3 minus 0; exact integer slab oracle"
        : "boxes: every (min,max) in {-2..1} per axis incl. flat and inverted (4096) x origins {-3..2}^3 x directions {-1,0,1}^3 minus 0; exact integer slab oracle";
    run_stage ("signed.float", sgn, [&] { return c14::run_signed<float> (th); });
    run_stage ("signed.double", sgn, [&] { return c14::run_signed<double> (th); });
    const char* ngz = "boxes: every (min,max) over {-1,0,1} per axis (729) x origins {-1,0,1}^3 x directions {-1,0,1}^3 minus 0 x every distinct non-empty choice of zero components passed as -0.0 (direction: per component; origin, box.min, box.max: per vector)";
    run_stage ("negzero.float", ngz, [&] { return c14::run_negzero<float> (th); });
    run_stage ("negzero.double", ngz, [&] { return c14::run_negzero<double> (th); });
    const char* grd = th
        ? "origin 0; per-axis (min,max) in {(Q,X),(-X,-Q),(X,max),(-max,-X),(-Q,X),(-X,Q),(0,X),(-X,X)} for X in {E-1,E,E+1,max-2u,max-u,max} (E = fl(max*3/4), u = ulp(max)), (-Q,Q), (Q,-Q) (50^3 boxes) x directions {0,+-3/4,+-(1-eps/2),+-1,+-(1+eps),+-3/2}^3 minus 0; exact __int128 oracle"
        : "origin 0; per-axis (min,max) in {(Q,X),(-X,-Q),(X,max),(-max,-X)} for X in {E,E+1,max-u,max} (E = fl(max*3/4), u = ulp(max)), (-Q,Q), (Q,-Q) (18^3 boxes) x directions {0,+-3/4,+-(1-eps/2),+-1,+-(1+eps)}^3 minus 0; exact __int128 oracle";
    run_stage ("guard.float", grd, [&] { return c14::run_guard<float> (th); });
    run_stage ("guard.double", grd, [&] { return c14::run_guard<double> (th); });
    const char* ovf = th
        ? "elongated boxes in the overflow regimes: per-axis (min,max) in {(0,2),(0,8),(4,8),(-8,-2),(2,2),(-2,4)}s (216 boxes) x origins {-9,-5,-1,0,1,3,4,6,9}^3 s x directions {0,+-denorm_min,+-min,+-2^-30,+-1}^3 minus 0, s in {1, 2^(emax-28)}; exact slab oracle + the documented-fallback model in regimes 2/3"
        : "elongated boxes in the overflow regimes: per-axis (min,max) in {(0,2),(0,8),(4,8),(-8,-2)}s (64 boxes) x origins {-9,-1,0,1,3,6,9}^3 s x directions {0,+-denorm_min,+-min,+-2^-30,+-1}^3 minus 0, s in {1, 2^(emax-28)}; exact slab oracle + the documented-fallback model in regimes 2/3";
    run_stage ("overflow-fallback.float", ovf, [&] { return c14::run_ovf<float> (th); });
    run_stage ("overflow-fallback.double", ovf, [&] { return c14::run_ovf<double> (th); });
    R ().sample ("box{(1,-1,-1),(MAX,1,1)} pos=(0,0,0) dir=(1,0,0): slab parameters 1 and MAX, both representable -> the line meets the box, entry=(1,0,0), exit=(MAX,0,0)");
    R ().sample ("box{(0,0,0),(1,1,1)} pos=(-1,-1,1) dir=(1,1,0): grazes the top edge from corner to corner -> hit, ip=(0,0,1)");
    R ().sample ("box{(0,0,0),(3,3,3)} pos=(4,4,4) dir=(1,2,2): line hits, ray points away -> intersects false, findEntryAndExitPoints true");
    R ().sample ("box{(2,0,0),(1,3,3)} (inverted): false for every ray and line");
    R ().sample ("box{(0,0,0),(1,1,1)} pos=(-1,0,0) dir=(denorm_min,0,0): exact hit at t=2^1074 > DBL_MAX");
    return R ().finish ();
}
