// C03 — halfFunction<T> stage, shared by the default build (c03.cpp) and the IMATH_HAVE_LARGE_STACK build
// (c03_largestack.cpp: the in-object-array side of every #ifdef in halfFunction.h). The including TU must have
// included <halfFunction.h> already and may define HF_TAG (a string literal that is spliced into every site and
// class name, "" for the default build).
//
// Oracle (halfFunction.h header comment): "evaluates the function for all finite half values in the interval
// [domainMin, domainMax], and stores the results in a lookup table. For finite half values that are not in
// [domainMin, domainMax], the constructor stores defaultValue in the table. For positive infinity, negative infinity
// and NANs, posInfValue, negInfValue and nanValue are stored". The interval is an interval of *values*: -0 lies in
// [+0, x] and +0 in [x, -0], and f is then called with the queried pattern itself (so f(-0) may differ from f(+0)).
//
// Space: T in {float, uint32_t, half, double}; functors identity, square, call recorder (uint32_t: which entries was f
// called for, and how often), negate (half -> half, exact, sign-of-zero visible), cube-plus-tenth (double: not a
// float, so a float temporary anywhere would show); domains: default arguments, full, one-sided, symmetric,
// subnormal-only, negative-only, degenerate, empty, infinite bounds, and every zero-endpoint shape
// [+0,1] [-0,1] [-1,+0] [-1,-0] [+0,-0] [-0,+0] [+0,+0] [-0,-0]; all 65536 entries of every table.
#pragma once
#include "../engine/exact.hpp"
#include "../engine/halfref.hpp"
#include "../engine/report.hpp"
#include <memory>

#ifndef HF_TAG
#    define HF_TAG ""
#endif

namespace {
namespace hf {

using vf::R;
typedef IMATH_INTERNAL_NAMESPACE::half half_t;

inline std::string hx (uint32_t v, int w) { char b[16]; snprintf (b, sizeof b, "0x%0*x", w, v); return b; }
inline half_t hb (uint16_t b) { half_t h; h.setBits (b); return h; }
inline float  refv (uint16_t b) { return href::bitsf (href::h2f_ref (b)); }

// value comparison / formatting per table element type
template <class T> inline bool same_v (T a, T b) { return ex::same (a, b); }
inline bool same_v (half_t a, half_t b) { return a.bits () == b.bits (); }
template <class T> inline std::string fmt_v (T v) { return vf::fmt (v); }
inline std::string fmt_v (half_t v) { return "half " + hx (v.bits (), 4); }

struct Ident { float operator() (half_t x) const { return (float) x; } };
struct Square { float operator() (half_t x) const { float f = (float) x; return f * f; } };
struct Recorder
{
    int* calls; // shared: the functor is passed by value
    uint32_t operator() (half_t x) const { ++calls[x.bits ()]; return 0x10000u + x.bits (); }
};
struct Negate { half_t operator() (half_t x) const { return -x; } };
struct CubeTenth { double operator() (half_t x) const { double d = (double) (float) x; return d * d * d + 0.1; } };

struct Dom { uint16_t lo, hi; const char* name; };

// tallies: in, default, +inf, -inf, nan, endpoint, zero queried against a zero endpoint of the opposite sign
template <class T, class F, class Direct>
void check_table (const char* tname, const char* fname, const F& f, const Dom* dom, T dflt, T pinf, T ninf, T nanv, Direct direct, const int* calls, long long* tallies)
{
    std::unique_ptr<halfFunction<T>> fn; // on the heap in both builds (with IMATH_HAVE_LARGE_STACK the object *is* the table)
    if (dom) fn.reset (new halfFunction<T> (f, hb (dom->lo), hb (dom->hi), dflt, pinf, ninf, nanv));
    else fn.reset (new halfFunction<T> (f)); // all defaults: [-HALF_MAX, HALF_MAX], every marker 0
    const float dlo = dom ? refv (dom->lo) : -65504.0f, dhi = dom ? refv (dom->hi) : 65504.0f;
    if (!dom) { dflt = pinf = ninf = nanv = T (0); }
    const std::string dn   = std::string (fname) + " domain " + (dom ? dom->name : "default [-HALF_MAX,HALF_MAX]");
    const std::string base = std::string ("halfFunction") + tname + HF_TAG;
    for (uint32_t i = 0; i < 65536; ++i)
    {
        const float v = refv ((uint16_t) i);
        T           want;
        bool        in = false, zero_opp = false;
        if (std::isnan (v)) { want = nanv; ++tallies[4]; }
        else if (std::isinf (v)) { want = v > 0 ? pinf : ninf; ++tallies[v > 0 ? 2 : 3]; }
        else if (v < dlo || v > dhi) { want = dflt; ++tallies[1]; }
        else
        {
            want = direct (hb ((uint16_t) i));
            in   = true;
            ++tallies[0];
            if (v == dlo || v == dhi) ++tallies[5];
            // a zero queried against a zero endpoint whose pattern has the other sign
            if (dom && v == 0 && ((dlo == 0 && dom->lo != i) || (dhi == 0 && dom->hi != i))) { zero_opp = true; ++tallies[6]; }
        }
        T got = (*fn) (hb ((uint16_t) i));
        if (!same_v (got, want))
        {
            const char* cls = std::isnan (v) ? "nan" : std::isinf (v) ? "infinity" : in ? (zero_opp ? "zero-endpoint-opposite-sign" : (v == dlo || v == dhi) ? "domain-endpoint" : "in-domain") : "out-of-domain";
            R ().fail (base + ".table." + cls, dn + " x=half " + hx (i, 4), fmt_v (want), fmt_v (got));
        }
        if (calls && !in && calls[i]) R ().fail (base + ".f-called-outside-domain-or-on-non-finite", dn + " x=half " + hx (i, 4), "0 calls", std::to_string (calls[i]) + " calls");
        if (calls && in && !calls[i]) R ().fail (base + ".f-not-called-in-domain", dn + " x=half " + hx (i, 4), ">= 1 call", "0 calls");
    }
}

inline void stage ()
{
    // full domain, proper sub-domains (one-sided, symmetric, subnormal-only, negative-only), degenerate, empty, infinite bound,
    // every zero-endpoint shape
    const Dom doms[] = {
        {0xfbff, 0x7bff, "[-65504,65504]"}, {0x0000, 0x7bff, "[0,65504]"}, {0xbc00, 0x3c00, "[-1,1]"}, {0x0001, 0x03ff, "[2^-24,1023*2^-24] (subnormals)"},
        {0xfbff, 0xbe00, "[-65504,-1.5]"}, {0x3c00, 0x3c00, "[1,1]"}, {0x3c00, 0xbc00, "[1,-1] (empty)"}, {0xfc00, 0x8000, "[-inf,-0]"}, {0x3555, 0x7c00, "[0.333..,+inf]"},
        {0x0000, 0x3c00, "[+0,1]"}, {0x8000, 0x3c00, "[-0,1]"}, {0xbc00, 0x0000, "[-1,+0]"}, {0xbc00, 0x8000, "[-1,-0]"},
        {0x0000, 0x8000, "[+0,-0]"}, {0x8000, 0x0000, "[-0,+0]"}, {0x0000, 0x0000, "[+0,+0]"}, {0x8000, 0x8000, "[-0,-0]"}};
    const int ndoms = (int) (sizeof doms / sizeof doms[0]);
    long long tl[7] = {0, 0, 0, 0, 0, 0, 0}, tl_h[7] = {0, 0, 0, 0, 0, 0, 0}, tl_d[7] = {0, 0, 0, 0, 0, 0, 0};
    long long tables = 0;
    std::vector<int> calls (65536);
    for (int d = -1; d < ndoms; ++d)
    {
        const Dom* dom = d < 0 ? nullptr : &doms[d];
        // markers: pairwise distinct and distinct from every value f can return (7777 and 12345 are odd
        // integers above 2048, hence not halves nor squares of halves; 1e30 is out of range)
        check_table<float> ("", "identity", Ident (), dom, -7777.0f, 1e30f, -1e30f, 12345.0f, [] (half_t x) { return refv (x.bits ()); }, nullptr, tl);
        check_table<float> ("", "square", Square (), dom, -7777.0f, 1e30f, -1e30f, 12345.0f, [] (half_t x) { float f = refv (x.bits ()); return f * f; }, nullptr, tl);
        std::fill (calls.begin (), calls.end (), 0);
        Recorder rec = {calls.data ()};
        check_table<uint32_t> ("", "recorder", rec, dom, 1u, 2u, 3u, 4u, [] (half_t x) { return 0x10000u + x.bits (); }, calls.data (), tl);
        // T = half: markers are four NaN patterns (negating a finite value never yields a NaN); compared by bits
        check_table<half_t> ("<half>", "negate", Negate (), dom, hb (0x7e01), hb (0x7e02), hb (0x7e03), hb (0x7e04), [] (half_t x) { return hb ((uint16_t) (x.bits () ^ 0x8000)); }, nullptr, tl_h);
        // T = double: x^3 + 0.1 in double (|x|^3 <= 2.9e14 is exact in double before the addition; the sum is one rounding,
        // the same single IEEE double operation sequence as the functor: d*d is exact (22 bits), *d exact (33 bits), + 0.1)
        check_table<double> ("<double>", "cube-plus-tenth", CubeTenth (), dom, -7777.25, 1e300, -1e300, 12345.125,
                             [] (half_t x) { double v = (double) refv (x.bits ()); return v * v * v + 0.1; }, nullptr, tl_d);
        tables += 5;
    }
    const std::string p = std::string ("halfFunction") + HF_TAG;
    R ().add ("states", tables * 65536);
    R ().add ("transitions", tables * 65536);
    R ().add ("evaluations", tables * 65536);
    R ().add (p + "_tables", tables);
    R ().cls (p + ".in-domain", tl[0]); R ().cls (p + ".out-of-domain-default", tl[1]); R ().cls (p + ".+inf", tl[2]);
    R ().cls (p + ".-inf", tl[3]); R ().cls (p + ".nan", tl[4]); R ().cls (p + ".domain-endpoint", tl[5]);
    R ().cls (p + ".zero-queried-against-zero-endpoint-of-opposite-sign", tl[6] + tl_h[6] + tl_d[6]);
    R ().cls (p + "<half>.in-domain", tl_h[0]); R ().cls (p + "<half>.markers(default,+inf,-inf,nan)", tl_h[1] + tl_h[2] + tl_h[3] + tl_h[4]);
    R ().cls (p + "<double>.in-domain", tl_d[0]); R ().cls (p + "<double>.markers(default,+inf,-inf,nan)", tl_d[1] + tl_d[2] + tl_d[3] + tl_d[4]);
    R ().stage_done (std::string ("5 instantiations (float identity, float square, uint32_t call recorder, half negate, double cube+0.1) x ") + std::to_string (ndoms + 1) +
                     " domains (default arguments, full, 5 proper sub-domains, degenerate, empty, infinite bounds, 8 zero-endpoint shapes) x all 65536 entries" +
                     (HF_TAG[0] ? " — halfFunction.h compiled with IMATH_HAVE_LARGE_STACK" : ""));
}

} // namespace hf
} // namespace
