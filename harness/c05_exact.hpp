// C05 — exact stages for the bilinear maps: basis-element pairs, lattices, dense primes,
// 0/+-1 sparsity patterns, homogeneous divide.  See c05.hpp for the oracles.
#pragma once
#include "c05.hpp"

namespace c05 {

inline int sgn_pat (int s, int idx)
{
    switch (s & 3)
    {
        case 0: return 1;
        case 1: return (idx & 1) ? -1 : 1;
        case 2: return (idx % 3 == 0) ? -1 : 1;
        default: return ((idx >> 1) & 1) ? -1 : 1;
    }
}
// n signed distinct primes (<= 151): entry idx = +-PRIMES[(r + stride*idx) % 36]; stride coprime to 36
inline void gen_primes (int r, int s, int stride, int* out, int n)
{
    for (int i = 0; i < n; ++i) out[i] = sgn_pat (s, i) * ex::PRIMES[(r + stride * i) % 36];
}

// ---- basis-element pairs: a complete test of every bilinear term and its sign ----------------
template <class T, int N> inline void basis_dim (Tally& t)
{
    // matrix x matrix: p E_ij  x  q E_kl, all (i,j,k,l)
    for (int ij = 0; ij < N * N; ++ij)
        for (int kl = 0; kl < N * N; ++kl)
        {
            int a[N * N] = {0}, b[N * N] = {0};
            a[ij] = ex::PRIMES[ij];
            b[kl] = -ex::PRIMES[16 + kl];
            check_matmul<T, N> (a, b, t);
        }
    // row vector x matrix: p e_i x q E_kl
    for (int i = 0; i < N; ++i)
        for (int kl = 0; kl < N * N; ++kl)
        {
            int v[N] = {0}, m[N * N] = {0};
            v[i]  = ex::PRIMES[20 + i];
            m[kl] = -ex::PRIMES[kl];
            check_vecmat<T, N> (v, m, t);
        }
    // dot
    for (int i = 0; i < N; ++i)
        for (int j = 0; j < N; ++j)
        {
            int a[N] = {0}, b[N] = {0};
            a[i] = ex::PRIMES[i];
            b[j] = -ex::PRIMES[8 + j];
            check_dot<T, N> (a, b, t);
        }
}
template <class T, int N> inline void basis_proj (Tally& t, HomogClasses& hc)
{
    // multDirMatrix: p e_i (i < N-1) x q E_kl over ALL (k,l): row N-1 and column N-1 must be ignored
    for (int i = 0; i < N - 1; ++i)
        for (int kl = 0; kl < N * N; ++kl)
        {
            int v[N - 1] = {0}, m[N * N] = {0};
            v[i]  = ex::PRIMES[20 + i];
            m[kl] = -ex::PRIMES[kl];
            check_dir<T, N> (v, m, t);
        }
    // homogeneous forms: v in {0, p e_i}, m = q E_kl + E_(N-1)(N-1)  (w = 1 + ... > 0)
    for (int i = -1; i < N - 1; ++i)
        for (int kl = 0; kl < N * N; ++kl)
        {
            int v[N - 1] = {0}, m[N * N] = {0};
            if (i >= 0) v[i] = ex::PRIMES[20 + i];
            m[kl] = ex::PRIMES[kl];
            m[N * N - 1] += 1;
            check_homog<T, N> (v, m, t, hc);
        }
}
template <class T, int N> inline void basis_outer (Tally& t)
{
    for (int i = 0; i < N; ++i)
        for (int j = 0; j < N; ++j)
        {
            int a[N] = {0}, b[N] = {0};
            a[i] = ex::PRIMES[i];
            b[j] = -ex::PRIMES[8 + j];
            check_outer<T, N> (a, b, t);
        }
}

// ---- all lattice tuples {lo..lo+base-1}^n x same, sequentially (small spaces) ---------------------
template <class F> inline void all_pairs (unsigned base, unsigned dim, int off, F&& f)
{
    uint64_t n = ex::ipow (base, dim);
    int      a[16], b[16];
    for (uint64_t i = 0; i < n; ++i)
    {
        ex::decode (i, base, dim, a, off);
        for (uint64_t j = 0; j < n; ++j)
        {
            ex::decode (j, base, dim, b, off);
            f (a, b);
        }
    }
}

// ---- sparsity patterns of one operand against a generic other -----------------------------------
template <class T, int N> inline bool sparsity_dim (bool pm, long long& affine, long long& other)
{
    const unsigned base = pm ? 3 : 2;
    const int      off  = pm ? -1 : 0;
    int            G[2][N * N], gv[N];
    gen_primes (0, 1, 7, G[0], N * N);
    gen_primes (9, 2, 7, G[1], N * N);
    gen_primes (4, 3, 5, gv, N);
    std::atomic<long long> aff (0), oth (0);
    bool ok = vf::parallel_chunks (ex::ipow (base, N * N), 1u << 14, [&] (uint64_t lo, uint64_t hi, unsigned) {
        Tally     t;
        long long la = 0, lo_ = 0;
        int          p[N * N];
        for (uint64_t idx = lo; idx < hi; ++idx)
        {
            ex::decode (idx, base, N * N, p, off);
            for (int g = 0; g < 2; ++g)
            {
                check_matmul<T, N> (p, G[g], t);
                check_matmul<T, N> (G[g], p, t);
            }
            check_vecmat<T, N> (gv, p, t);
            bool a = p[N * N - 1] == 1;
            for (int k = 0; k < N - 1; ++k) if (p[k * N + N - 1] != 0) a = false;
            (a ? la : lo_)++;
        }
        aff += la; oth += lo_;
        t.flush ();
    });
    affine += aff.load ();
    other += oth.load ();
    // pattern vectors against the generic matrices
    Tally t;
    for (uint64_t idx = 0; idx < ex::ipow (3, N); ++idx)
    {
        int v[N];
        ex::decode (idx, 3, N, v, -1);
        check_vecmat<T, N> (v, G[0], t);
        check_vecmat<T, N> (v, G[1], t);
    }
    t.flush ();
    return ok;
}
// the (N-1)-vector forms (multDirMatrix, homogeneous) against pattern matrices and pattern vectors
template <class T, int N> inline bool sparsity_proj (bool pm, HomogClasses& hcsum)
{
    const unsigned base = pm ? 3 : 2;
    const int      off  = pm ? -1 : 0;
    int            G[N * N], gv[N - 1];
    gen_primes (0, 1, 7, G, N * N);
    gen_primes (4, 3, 5, gv, N - 1);
    std::mutex mu;
    bool ok = vf::parallel_chunks (ex::ipow (base, N * N), 1u << 14, [&] (uint64_t lo, uint64_t hi, unsigned) {
        Tally        t;
        HomogClasses hc;
        int          p[N * N];
        for (uint64_t idx = lo; idx < hi; ++idx)
        {
            ex::decode (idx, base, N * N, p, off);
            check_dir<T, N> (gv, p, t);
            check_homog<T, N> (gv, p, t, hc);
        }
        t.flush ();
        std::lock_guard<std::mutex> g (mu);
        hcsum.affine += hc.affine; hcsum.projective += hc.projective; hcsum.inexact += hc.inexact; hcsum.wzero += hc.wzero; hcsum.npot += hc.npot;
    });
    Tally t;
    for (uint64_t idx = 0; idx < ex::ipow (3, N - 1); ++idx)
    {
        int v[N - 1];
        ex::decode (idx, 3, N - 1, v, -1);
        check_dir<T, N> (v, G, t);
        check_homog<T, N> (v, G, t, hcsum);
    }
    t.flush ();
    return ok;
}

// ---- homogeneous divide ---------------------------------------------------------------------------
// first N-1 columns from 6 fixed generators (dense signed small primes; two of them sparse), last
// column (0,..,0,1) or {-1,0,1,2}^(N-1) x {+-1,+-2,+-4,8,+-3,5}; source vector L(3)^2 (N=3) / L(2)^3 (N=4)
template <class T, int N> inline void homog_dim (Tally& t, HomogClasses& hc)
{
    // w values: +-powers of two (quotients exact) and odd primes (quotients really rounded)
    static const int W[10] = {1, -1, 2, -2, 4, -4, 8, 3, -3, 5};
    const int        NW   = 10;
    const uint64_t   nlc  = ex::ipow (4, N - 1) * NW + 1;
    const unsigned   vb   = N == 3 ? 7 : 5; // source lattice L(3)^2 for Vec2 x M33, L(2)^3 for Vec3 x M44
    for (int g = 0; g < 6; ++g)
    {
        int m[N * N];
        for (int i = 0; i < N * N; ++i)
        {
            m[i] = sgn_pat (g, i) * ex::PRIMES[(3 * g + 7 * i) % 12];
            if (g >= 4 && (i + g) % 3 == 0) m[i] = 0;
        }
        for (uint64_t lc = 0; lc < nlc; ++lc)
        {
            if (lc == 0)
            {
                for (int k = 0; k < N - 1; ++k) m[k * N + N - 1] = 0;
                m[N * N - 1] = 1;
            }
            else
            {
                int d[N - 1];
                ex::decode ((lc - 1) / NW, 4, N - 1, d, -1);
                for (int k = 0; k < N - 1; ++k) m[k * N + N - 1] = d[k];
                m[N * N - 1] = W[(lc - 1) % NW];
            }
            for (uint64_t vi = 0; vi < ex::ipow (vb, N - 1); ++vi)
            {
                int v[N - 1];
                ex::decode (vi, vb, N - 1, v, -(int) (vb / 2));
                check_homog<T, N> (v, m, t, hc);
                check_dir<T, N> (v, m, t);
            }
        }
    }
}

template <class T> void run_exact ()
{
    const std::string tl = TN<T>::l ();
    HomogClasses      hc;

    if (R ().stage ("basis." + tl))
    {
        Tally t;
        basis_dim<T, 2> (t); basis_dim<T, 3> (t); basis_dim<T, 4> (t);
        basis_proj<T, 3> (t, hc); basis_proj<T, 4> (t, hc);
        basis_outer<T, 3> (t); basis_outer<T, 4> (t);
        for (int i = 0; i < 2; ++i) for (int j = 0; j < 2; ++j)
        {
            int a[2] = {0}, b[2] = {0}; a[i] = 3; b[j] = -7; check_cross2<T> (a, b, t);
        }
        for (int i = 0; i < 3; ++i) for (int j = 0; j < 3; ++j)
        {
            int a[3] = {0}, b[3] = {0}; a[i] = ex::PRIMES[i]; b[j] = -ex::PRIMES[5 + j]; check_cross3<T> (a, b, t);
        }
        for (int i = 0; i < 4; ++i) for (int j = 0; j < 4; ++j)
        {
            int a[4] = {0}, b[4] = {0}; a[i] = ex::PRIMES[i]; b[j] = -ex::PRIMES[5 + j]; check_quat<T> (a, b, t);
        }
        t.flush ();
        R ().stage_done ("every pair of prime-scaled basis elements: matrix x matrix (16+81+256), vector x matrix, multDirMatrix, homogeneous forms, dot, cross, outerProduct (3,4), Quat x Quat");
    }

    if (R ().stage ("lattice." + tl))
    {
        // all 5^8 pairs of 2x2 matrices over {-2..2}
        bool ok = vf::parallel_chunks (ex::ipow (5, 8), 1u << 13, [&] (uint64_t lo, uint64_t hi, unsigned) {
            Tally t;
            int   d[8];
            for (uint64_t i = lo; i < hi; ++i) { ex::decode (i, 5, 8, d, -2); check_matmul<T, 2> (d, d + 4, t); }
            t.flush ();
        });
        // thorough: all 3^18 pairs of 3x3 matrices over {-1,0,1}
        if (R ().thorough ())
            ok = vf::parallel_chunks (ex::ipow (3, 18), 1u << 15, [&] (uint64_t lo, uint64_t hi, unsigned) {
                Tally t;
                int   d[18];
                for (uint64_t i = lo; i < hi; ++i) { ex::decode (i, 3, 18, d, -1); check_matmul<T, 3> (d, d + 9, t); }
                t.flush ();
            }) && ok;
        Tally t;
        for (uint64_t i = 0; i < ex::ipow (5, 6); ++i) { int d[6]; ex::decode (i, 5, 6, d, -2); check_vecmat<T, 2> (d, d + 2, t); }
        all_pairs (7, 2, -3, [&] (const int* a, const int* b) { check_dot<T, 2> (a, b, t); check_cross2<T> (a, b, t); });
        all_pairs (5, 3, -2, [&] (const int* a, const int* b) { check_dot<T, 3> (a, b, t); check_cross3<T> (a, b, t); });
        all_pairs (3, 4, -1, [&] (const int* a, const int* b) { check_dot<T, 4> (a, b, t); check_quat<T> (a, b, t); check_outer<T, 4> (a, b, t); });
        all_pairs (3, 3, -1, [&] (const int* a, const int* b) { check_outer<T, 3> (a, b, t); });
        t.flush ();
        if (ok) R ().stage_done (std::string (R ().thorough () ? "all 3^18 pairs of 3x3 L(1) matrices; " : "") + "all 390625 pairs of 2x2 L(2) matrices; Vec2 x M22 on L(2); dot/cross on L(3)^2, L(2)^3 pairs; dot, Quat product, outerProduct on L(1)^4 (and L(1)^3) pairs");
        else R ().stage_partial ("2x2 lattice pairs cut short");
    }

    if (R ().stage ("primes." + tl))
    {
        Tally     t;
        long long wz0 = hc.wzero;
        for (int r = 0; r < 36; ++r)
            for (int sa = 0; sa < 4; ++sa)
                for (int sb = 0; sb < 4; ++sb)
                {
                    int a[16], b[16], v[4];
                    gen_primes (r, sa, 1, a, 16);
                    gen_primes (r + 5, sb, 7, b, 16);
                    gen_primes (r + 11, sa + sb, 5, v, 4);
                    check_matmul<T, 2> (a, b, t); check_matmul<T, 3> (a, b, t); check_matmul<T, 4> (a, b, t);
                    check_vecmat<T, 2> (v, a, t); check_vecmat<T, 3> (v, a, t); check_vecmat<T, 4> (v, a, t);
                    check_dir<T, 3> (v, b, t); check_dir<T, 4> (v, b, t);
                    check_homog<T, 3> (v, b, t, hc); check_homog<T, 4> (v, b, t, hc);
                    check_dot<T, 2> (a, b, t); check_dot<T, 3> (a, b, t); check_dot<T, 4> (a, b, t);
                    check_cross2<T> (a, b, t); check_cross3<T> (a, b, t);
                    check_outer<T, 3> (a, b, t); check_outer<T, 4> (a, b, t);
                    check_quat<T> (a, b, t);
                    check_transpose_trace<T, 2> (a, mk<T, 2> (a), t);
                    check_transpose_trace<T, 3> (a, mk<T, 3> (a), t);
                    check_transpose_trace<T, 4> (a, mk<T, 4> (a), t);
                }
        t.flush ();
        R ().cls ("quat.4d-dot(operator^,euclideanInnerProduct)-vs-sum-of-products", quatdot_count ().exchange (0));
        R ().add ("homog_w_zero_skipped", hc.wzero - wz0);
        R ().stage_done ("576 dense operand pairs of distinct signed primes (36 rotations x 4 x 4 sign patterns), every product in every dimension");
    }

    if (R ().stage ("sparsity." + tl))
    {
        long long aff = 0, oth = 0;
        bool      pm4 = R ().thorough ();
        bool      ok  = sparsity_dim<T, 2> (true, aff, oth);
        ok            = sparsity_dim<T, 3> (true, aff, oth) && ok;
        ok            = sparsity_dim<T, 4> (pm4, aff, oth) && ok;
        ok            = sparsity_proj<T, 3> (true, hc) && ok;
        ok            = sparsity_proj<T, 4> (pm4, hc) && ok;
        R ().cls ("sparsity.pattern-with-affine-last-column", aff);
        R ().cls ("sparsity.pattern-other.generic", oth);
        std::string b = std::string ("every {0,+-1} pattern of a 2x2 (81) and 3x3 (19683) operand and every ") + (pm4 ? "{0,+-1} (3^16)" : "0/1 (2^16)") +
                        " pattern of a 4x4 operand, on the left and on the right of two generic prime matrices, and under a generic vector (plain, multDirMatrix, homogeneous); every {0,+-1} vector against the generic matrices";
        if (ok) R ().stage_done (b);
        else R ().stage_partial (b);
    }

    if (R ().stage ("homogeneous." + tl))
    {
        Tally t;
        homog_dim<T, 3> (t, hc);
        homog_dim<T, 4> (t, hc);
        t.flush ();
        R ().stage_done ("Vec2 x M33 and Vec3 x M44 (operator*, operator*=, multVecMatrix, multDirMatrix): 6 generators x last column {(0,..,0,1)} + {-1,0,1,2}^(n-1) x {+-1,+-2,+-4,8,+-3,5} x source L(3)^2 resp. L(2)^3");
    }
    if (hc.affine + hc.projective + hc.wzero == 0) return; // no homogeneous stage ran (stage filter)
    R ().cls ("homog.affine-last-column(w=1)", hc.affine);
    R ().cls ("homog.projective-last-column", hc.projective);
    R ().cls ("homog.inexact-quotient(rounded once)", hc.inexact);
    R ().cls ("homog.w-not-power-of-two(quotient really rounded)", hc.npot);
    R ().add ("homog_w_zero_skipped_total", hc.wzero);
}

} // namespace c05
