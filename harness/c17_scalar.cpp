// C17 — abs, sign, cmp, cmpt, iszero, equal, clamp, lerp, ulerp, lerpfactor, equalWithAbsError/RelError,
// sinx_over_x on products of the boundary alphabet B(T) (float, double, int), against their definitions.
//
// What each oracle demands (and nothing more):
//  * abs / clamp / lerp end points: equality *by value* (a zero of either sign is a zero), NaN iff NaN.
//  * sign / cmp / cmpt: the order relation of the operands; NaN operands are outside the domain.
//  * cmpt / iszero / equal / equalWith*Error: the documented formula "|a-b| <= t" (resp. "<= e*|x1|") evaluated in
//    the arithmetic of T with std::fabs — the documentation defines them by that formula, so the rounded
//    difference is the definition. int instantiations are compared with int64 arithmetic on the operands for
//    which no int operation overflows.
//  * lerp/ulerp: (i) exact on dyadic data (every intermediate is representable, so the result is the
//    mathematical a(1-t)+bt); (ii) on B(T) within the a-priori bound of the documented formula:
//       lerp : fl(fl(a*fl(1-t)) + fl(b*t))  -> |err| <= 2 eps (|a||1-t| + |b||t|) + 2 denorm_min
//       ulerp: fl(a + fl(fl(b-a)*t))        -> |err| <= 2 eps (|a| + |b-a||t|) + 2 denorm_min
//    (each of the <= 4 roundings contributes <= eps/2 of a quantity bounded by the bracket; the underflow term
//    covers the two products). Cases whose intermediates overflow T are outside the domain.
//  * lerpfactor: inverts lerp exactly on dyadic data; a == b -> 0; on the guard alphabet the result is always
//    finite, is 0 when the exact quotient exceeds max(1+eps), is fl(n/d) when it is below max(1-eps) (either in
//    the band between, where the guard's own rounded product decides).
//  * sinx_over_x: |got - sinl(x)/x| <= 4 eps |want| (libm sin < 1 ulp, one division, and the series cut-off
//    1 - x^2/6 with x^2 < eps).
#include "c17.hpp"
#include <ImathFun.h>
#include <ImathMath.h>
#include <algorithm>
#include <climits>
#include <cstdint>
#include <limits>

using namespace vf;

namespace {

template <class T> inline bool eqv (T a, T b) { return (a == b) || (a != a && b != b); }
template <class T> inline bool fin (T a) { return a - a == 0; }

template <class T> std::vector<T> BT (bool nonfinite)
{
    typedef std::numeric_limits<T> L;
    std::vector<T> pos = {T (0), L::denorm_min (), L::min (), T (0.5), T (1) - L::epsilon () / 2, T (1), T (1) + L::epsilon (),
                          T (2), T (3), T (7.25), L::max ()};
    std::vector<T> v;
    for (T p : pos) { v.push_back (p); v.push_back (-p); }
    if (nonfinite) { v.push_back (L::infinity ()); v.push_back (-L::infinity ()); v.push_back (L::quiet_NaN ()); }
    return v;
}

template <class T> void fp_stage (const std::string& tn)
{
    typedef std::numeric_limits<T> L;
    const long double EPS = (long double) L::epsilon (), DEN = (long double) L::denorm_min (), MAX = (long double) L::max ();
    if (R ().stage ("scalar-" + tn))
    {
        std::vector<T> B = BT<T> (true), F = BT<T> (false);
        long long      n = 0, tr = 0, c_nan = 0, c_inf = 0, c_zero = 0, c_within = 0, c_lo = 0, c_hi = 0, c_eq = 0;
        // --- unary + binary
        for (T a : B)
        {
            ++n;
            T g = IM::abs (a);
            ++tr;
            if (!eqv (g, (T) std::fabs (a)) || (g == g && std::signbit (g) && g != 0)) R ().fail ("abs<" + tn + ">", Msg () << a, Msg () << (T) std::fabs (a), Msg () << g);
            if (a != a) { ++c_nan; continue; }
            if (!fin (a)) ++c_inf;
            if (a == 0) ++c_zero;
            int s = IM::sign (a), ws = (a > 0) - (a < 0);
            ++tr;
            if (s != ws) R ().fail ("sign<" + tn + ">", Msg () << a, fmt (ws), fmt (s));
            for (T b : B)
            {
                if (b != b) continue;
                ++n;
                int c = IM::cmp (a, b), wc = a < b ? -1 : (a > b ? 1 : 0);
                ++tr;
                if (c != wc) R ().fail ("cmp<" + tn + ">", Msg () << a << " " << b, fmt (wc), fmt (c));
                if (a == b) ++c_eq;
            }
        }
        // --- ternary
        for (T a : B)
            for (T b : B)
                for (T t : B)
                {
                    ++n;
                    volatile T dv = a - b; // the rounded difference of the documented formula
                    T          d  = dv;
                    bool       anynan = a != a || b != b || t != t;
                    // iszero(a, t), equal(a, b, t), equalWithAbsError, equalWithRelError: bool-valued, NaN -> false by the formula
                    {
                        bool g = IM::iszero (a, t), w = std::fabs (a) <= t;
                        ++tr;
                        if (g != w) R ().fail ("iszero<" + tn + ">", Msg () << a << " " << t, fmt (w), fmt (g));
                    }
                    {
                        bool g = IM::equal (a, b, t), w = std::fabs (d) <= t;
                        ++tr;
                        if (g != w) R ().fail ("equal<" + tn + ">", Msg () << a << " " << b << " " << t, fmt (w), fmt (g));
                        bool g2 = IM::equalWithAbsError (a, b, t);
                        ++tr;
                        if (g2 != w) R ().fail ("equalWithAbsError<" + tn + ">", Msg () << a << " " << b << " " << t, fmt (w), fmt (g2));
                        volatile T rhs = t * (T) std::fabs (a);
                        bool       w3 = std::fabs (d) <= rhs, g3 = IM::equalWithRelError (a, b, t);
                        ++tr;
                        if (g3 != w3) R ().fail ("equalWithRelError<" + tn + ">", Msg () << a << " " << b << " " << t, fmt (w3), fmt (g3));
                        if (w) ++c_within;
                    }
                    if (anynan) continue;
                    {
                        int g = IM::cmpt (a, b, t), w = (std::fabs (d) <= t) ? 0 : (a < b ? -1 : (a > b ? 1 : 0));
                        ++tr;
                        if (g != w) R ().fail ("cmpt<" + tn + ">", Msg () << a << " " << b << " " << t, fmt (w), fmt (g));
                    }
                    // clamp(a, l=b, h=t) for l <= h
                    if (b <= t)
                    {
                        T g = IM::clamp (a, b, t), w = std::min (std::max (a, b), t);
                        ++tr;
                        if (!eqv (g, w)) R ().fail ("clamp<" + tn + ">", Msg () << a << " " << b << " " << t, Msg () << w, Msg () << g);
                        if (a < b) ++c_lo; else if (a > t) ++c_hi;
                    }
                }
        R ().cls ("scalar." + tn + ".nan-operand", c_nan); R ().cls ("scalar." + tn + ".inf-operand", c_inf);
        R ().cls ("scalar." + tn + ".zero-operand", c_zero); R ().cls ("scalar." + tn + ".within-tolerance", c_within);
        R ().cls ("scalar." + tn + ".clamped-low", c_lo); R ().cls ("scalar." + tn + ".clamped-high", c_hi);
        R ().cls ("scalar." + tn + ".equal-operands", c_eq);
        R ().add ("states", n); R ().add ("evaluations", n); R ().add ("transitions", tr);
        R ().stage_done ("B(" + tn + ")^1..3 (" + std::to_string (B.size ()) + " values) x {abs, sign, cmp, cmpt, iszero, equal, clamp, equalWithAbsError, equalWithRelError}");
    }

    if (R ().stage ("lerp-" + tn))
    {
        std::vector<T> F = BT<T> (false);
        long long      n = 0, tr = 0, c_dy = 0, c_tol = 0, c_skip = 0, c_agtb = 0, c_extrap = 0;
        // (o) end points
        for (T a : F)
            for (T b : F)
            {
                ++n;
                T g0 = IM::lerp (a, b, T (0)), g1 = IM::lerp (a, b, T (1));
                tr += 2;
                if (!eqv (g0, a)) R ().fail ("lerp<" + tn + ">.endpoint", Msg () << a << " " << b << " t=0", Msg () << a, Msg () << g0);
                if (!eqv (g1, b)) R ().fail ("lerp<" + tn + ">.endpoint", Msg () << a << " " << b << " t=1", Msg () << b, Msg () << g1);
                if (fabsl ((long double) a - (long double) b) < MAX)
                {
                    T u0 = IM::ulerp (a, b, T (0));
                    ++tr;
                    if (!eqv (u0, a)) R ().fail ("ulerp<" + tn + ">.endpoint", Msg () << a << " " << b << " t=0", Msg () << a, Msg () << u0);
                }
            }
        // (i) dyadic data: exact
        const T dy[] = {T (-3), T (-0.75), T (0), T (0.5), T (1), T (2.25), T (6)};
        const T ts[] = {T (-1), T (0), T (0.25), T (0.5), T (0.75), T (1), T (2)};
        for (T a : dy)
            for (T b : dy)
                for (T t : ts)
                {
                    ++n; ++c_dy;
                    long double w = (long double) a * (1 - (long double) t) + (long double) b * (long double) t; // exact
                    T           g = IM::lerp (a, b, t), u = IM::ulerp (a, b, t);
                    tr += 2;
                    if ((long double) g != w) R ().fail ("lerp<" + tn + ">.dyadic", Msg () << a << " " << b << " " << t, fmt (w), Msg () << g);
                    if ((long double) u != w) R ().fail ("ulerp<" + tn + ">.dyadic", Msg () << a << " " << b << " " << t, fmt (w), Msg () << u);
                    if (a > b) ++c_agtb;
                    if (t < 0 || t > 1) ++c_extrap;
                    // lerpfactor inverts lerp exactly here
                    if (a != b)
                    {
                        T f = IM::lerpfactor (g, a, b);
                        ++tr;
                        if (f != t) R ().fail ("lerpfactor<" + tn + ">.inverts-lerp", Msg () << g << " " << a << " " << b, Msg () << t, Msg () << f);
                    }
                }
        // (ii) boundary data within the a-priori bound
        const T tb[] = {T (0), L::denorm_min (), L::epsilon (), T (0.25), T (1) / T (3), T (0.5), T (1) - L::epsilon () / 2, T (1), T (1.5), T (-0.5), T (3)};
        for (T a : F)
            for (T b : F)
                for (T t : tb)
                {
                    ++n;
                    long double la = a, lb = b, lt = t;
                    long double p1 = la * (1 - lt), p2 = lb * lt, w = p1 + p2;
                    if (fabsl (p1) < MAX && fabsl (p2) < MAX && fabsl (w) < MAX)
                    {
                        long double tol = 2 * EPS * (fabsl (la) * fabsl (1 - lt) + fabsl (lb) * fabsl (lt)) + 2 * DEN;
                        T           g   = IM::lerp (a, b, t);
                        ++tr; ++c_tol;
                        long double e = fabsl ((long double) g - w);
                        if (!(e <= tol)) R ().fail ("lerp<" + tn + ">.accuracy", Msg () << a << " " << b << " " << t, fmt (w), Msg () << g);
                        if (tol > 0) R ().note_max ("lerp<" + tn + "> error / a-priori bound", (double) (e / tol));
                    }
                    else ++c_skip;
                    long double d = lb - la, p = d * lt, wu = la + p;
                    if (fabsl (d) < MAX && fabsl (p) < MAX && fabsl (wu) < MAX)
                    {
                        long double tol = 2 * EPS * (fabsl (la) + fabsl (d) * fabsl (lt)) + 2 * DEN;
                        T           g   = IM::ulerp (a, b, t);
                        ++tr;
                        long double e = fabsl ((long double) g - wu);
                        if (!(e <= tol)) R ().fail ("ulerp<" + tn + ">.accuracy", Msg () << a << " " << b << " " << t, fmt (wu), Msg () << g);
                        if (tol > 0) R ().note_max ("ulerp<" + tn + "> error / a-priori bound", (double) (e / tol));
                    }
                }
        R ().cls ("lerp." + tn + ".dyadic-exact", c_dy); R ().cls ("lerp." + tn + ".bounded", c_tol);
        R ().cls ("lerp." + tn + ".a>b", c_agtb); R ().cls ("lerp." + tn + ".extrapolation", c_extrap);
        R ().add ("lerp." + tn + ".overflowing_intermediate_skipped", c_skip);
        R ().add ("states", n); R ().add ("evaluations", n); R ().add ("transitions", tr);
        R ().stage_done ("lerp/ulerp: end points on B^2, 7x7x7 dyadic exact cases (with lerpfactor inversion), B^2 x 11 t-values within the a-priori bound");
    }

    if (R ().stage ("lerpfactor-guard-" + tn))
    {
        std::vector<T> F = BT<T> (false);
        long long      n = 0, tr = 0, c_fire = 0, c_band = 0, c_pass = 0, c_big_d = 0, c_same = 0;
        // a == b -> 0
        for (T a : F)
            for (T m : F)
            {
                ++n; ++tr; ++c_same;
                T g = IM::lerpfactor (m, a, a);
                if (!(g == 0)) R ().fail ("lerpfactor<" + tn + ">.a==b", Msg () << m << " " << a << " " << a, "0", Msg () << g);
            }
        // guard alphabet: d in +-{denorm_min, min, 2^-k, 1-ulp, 1, 1+eps, 2}, n in +-{0, denorm, min, 1, max*d*(1-ulp), max*d, max*d*(1+ulp), max}
        std::vector<T> D = {L::denorm_min (), L::min (), T (1) - L::epsilon () / 2, T (1), T (1) + L::epsilon (), T (2), T (7.25)};
        for (int k : {1, 2, 10, L::digits - 1, 64, 100, -L::min_exponent}) D.push_back ((T) std::ldexp ((T) 1, -k));
        for (T d0 : D)
            for (int sd = 0; sd < 2; ++sd)
            {
                T              d   = sd ? -d0 : d0;
                volatile T     mdv = L::max () * (d0 <= 1 ? d0 : T (1));
                T              md  = mdv;
                std::vector<T> N   = {T (0), L::denorm_min (), L::min (), T (1), std::nextafter (md, T (0)), md, std::nextafter (md, L::infinity ()), L::max ()};
                for (T n0 : N)
                    for (int sn = 0; sn < 2; ++sn)
                    {
                        T nn = sn ? -n0 : n0;
                        if (!fin (nn)) continue;
                        ++n; ++tr;
                        T           g = IM::lerpfactor (nn, T (0), d); // a = 0: d = b - a and n = m - a exactly
                        long double q = fabsl ((long double) nn) / fabsl ((long double) d);
                        std::string in = Msg () << nn << " " << T (0) << " " << d;
                        if (!fin (g)) R ().fail ("lerpfactor<" + tn + ">.overflow", in, "finite", Msg () << g);
                        volatile T qv = nn / d;
                        T          qt = qv;
                        if (d0 > 1) ++c_big_d;
                        if (q > MAX * (1 + EPS))
                        {
                            ++c_fire;
                            if (!(g == 0)) R ().fail ("lerpfactor<" + tn + ">.guard", in, "0 (quotient not representable)", Msg () << g);
                        }
                        else if (q < MAX * (1 - EPS))
                        {
                            ++c_pass;
                            if (!eqv (g, qt)) R ().fail ("lerpfactor<" + tn + ">.quotient", in, Msg () << qt, Msg () << g);
                        }
                        else
                        {
                            ++c_band;
                            if (!(g == 0) && !eqv (g, qt)) R ().fail ("lerpfactor<" + tn + ">.threshold", in, "0 or n/d", Msg () << g);
                        }
                    }
            }
        R ().cls ("lerpfactor." + tn + ".guard-fires", c_fire); R ().cls ("lerpfactor." + tn + ".at-threshold", c_band);
        R ().cls ("lerpfactor." + tn + ".quotient-representable", c_pass); R ().cls ("lerpfactor." + tn + ".|d|>1", c_big_d);
        R ().cls ("lerpfactor." + tn + ".a==b", c_same);
        R ().add ("states", n); R ().add ("evaluations", n); R ().add ("transitions", tr);
        R ().stage_done ("a==b on B^2; guard alphabet 14 |d| x 8 |n| x signs: finite always, 0 beyond max, n/d below it");
    }

    if (R ().stage ("sinx_over_x-" + tn))
    {
        std::vector<T> X = BT<T> (false);
        for (int k = -64; k <= 64; ++k) X.push_back (T (k) / 8);
        T s = std::sqrt (L::epsilon ());
        for (int j = -4; j <= 4; ++j)
            for (int sg = 0; sg < 2; ++sg)
            {
                T v = s;
                for (int i = 0; i < (j < 0 ? -j : j); ++i) v = std::nextafter (v, j < 0 ? T (0) : T (1));
                X.push_back (sg ? -v : v);
            }
        for (T v : {T (3.14159265358979323846L), T (6.28318530717958647692L), T (1e10), T (1e-3), T (1e-5)}) { X.push_back (v); X.push_back (-v); }
        long long n = 0, c_small = 0, c_gen = 0, c_zero = 0;
        for (T x : X)
        {
            ++n;
            T           g = IM::sinx_over_x (x);
            long double w = x == 0 ? 1.0L : sinl ((long double) x) / (long double) x;
            long double e = fabsl ((long double) g - w), tol = 4 * EPS * fabsl (w) + DEN;
            if (!(e <= tol)) R ().fail ("sinx_over_x<" + tn + ">", Msg () << x, fmt (w), Msg () << g);
            R ().note_max ("sinx_over_x<" + tn + "> error / (4 eps |want|)", (double) (e / tol));
            if (x == 0) ++c_zero;
            else if ((long double) x * x < EPS) ++c_small;
            else ++c_gen;
        }
        R ().cls ("sinx_over_x." + tn + ".zero", c_zero); R ().cls ("sinx_over_x." + tn + ".series-branch", c_small);
        R ().cls ("sinx_over_x." + tn + ".quotient-branch", c_gen);
        R ().add ("states", n); R ().add ("evaluations", n); R ().add ("transitions", n);
        R ().stage_done ("B(" + tn + ") finite + k/8 (|k|<=64) + sqrt(eps) +-4 ulps + pi, 2pi, 1e10, 1e-3, 1e-5, both signs");
    }
}

// ---- int instantiations: int64 definitions, operands restricted to those for which no int operation overflows
void int_stage ()
{
    if (!R ().stage ("scalar-int")) return;
    const std::vector<int> B = {0, 1, -1, 2, -2, 7, -5, INT_MIN, INT_MIN + 1, INT_MAX - 1, INT_MAX};
    auto fits = [] (int64_t v) { return v >= INT_MIN && v <= INT_MAX; };
    auto iabs = [] (int64_t v) { return v < 0 ? -v : v; };
    long long n = 0, tr = 0, skipped = 0, c_ext = 0, c_eq = 0, c_lo = 0, c_hi = 0;
    for (int a0 : B)
    {
        volatile int av = a0;
        int          a  = av;
        ++n;
        if (a == INT_MIN || a >= INT_MAX - 1 || a == INT_MIN + 1) ++c_ext;
        if (a != INT_MIN)
        {
            int g = IM::abs (a);
            ++tr;
            if (g != iabs (a)) R ().fail ("abs<int>", fmt (a), fmt ((long long) iabs (a)), fmt (g));
        }
        else ++skipped;
        int s = IM::sign (a);
        ++tr;
        if (s != (a > 0) - (a < 0)) R ().fail ("sign<int>", fmt (a), fmt ((a > 0) - (a < 0)), fmt (s));
        for (int b0 : B)
        {
            volatile int bv = b0;
            int          b  = bv;
            int64_t      d  = (int64_t) a - b;
            ++n;
            if (fits (d))
            {
                int c = IM::cmp (a, b), w = a < b ? -1 : (a > b ? 1 : 0);
                ++tr;
                if (c != w) R ().fail ("cmp<int>", Msg () << a << " " << b, fmt (w), fmt (c));
                if (a == b) ++c_eq;
            }
            else ++skipped;
            for (int t0 : B)
            {
                volatile int tv = t0;
                int          t  = tv;
                ++n;
                if (a != INT_MIN)
                {
                    bool g = IM::iszero (a, t), w = iabs (a) <= t;
                    ++tr;
                    if (g != w) R ().fail ("iszero<int>", Msg () << a << " " << t, fmt (w), fmt (g));
                }
                if (fits (d) && d != INT_MIN)
                {
                    bool w = iabs (d) <= t;
                    bool g = IM::equal (a, b, t);
                    int  c = IM::cmpt (a, b, t), wc = w ? 0 : (a < b ? -1 : (a > b ? 1 : 0));
                    bool g2 = IM::equalWithAbsError (a, b, t);
                    tr += 3;
                    if (g != w) R ().fail ("equal<int>", Msg () << a << " " << b << " " << t, fmt (w), fmt (g));
                    if (c != wc) R ().fail ("cmpt<int>", Msg () << a << " " << b << " " << t, fmt (wc), fmt (c));
                    if (g2 != w) R ().fail ("equalWithAbsError<int>", Msg () << a << " " << b << " " << t, fmt (w), fmt (g2));
                    int64_t rhs = (int64_t) t * iabs (a);
                    if (a != INT_MIN && fits (rhs))
                    {
                        bool g3 = IM::equalWithRelError (a, b, t), w3 = iabs (d) <= rhs;
                        ++tr;
                        if (g3 != w3) R ().fail ("equalWithRelError<int>", Msg () << a << " " << b << " " << t, fmt (w3), fmt (g3));
                    }
                }
                else ++skipped;
                if (b <= t)
                {
                    int g = IM::clamp (a, b, t), w = std::min (std::max (a, b), t);
                    ++tr;
                    if (g != w) R ().fail ("clamp<int>", Msg () << a << " " << b << " " << t, fmt (w), fmt (g));
                    if (a < b) ++c_lo; else if (a > t) ++c_hi;
                }
            }
        }
    }
    // lerp / ulerp with integer element type and floating parameter: exact on multiples of 4 and t in quarters
    long long c_li = 0;
    const double tq[] = {0, 0.25, 0.5, 0.75, 1};
    for (int a = -100; a <= 100; a += 20)
        for (int b = -100; b <= 100; b += 20)
            for (double t : tq)
            {
                ++n; ++c_li;
                long double w = a * (1 - (long double) t) + b * (long double) t;
                int         g = IM::lerp (a, b, t), u = IM::ulerp (a, b, t), gf = IM::lerp (a, b, (float) t);
                tr += 3;
                if (g != w) R ().fail ("lerp<int,double>", Msg () << a << " " << b << " " << t, fmt (w), fmt (g));
                if (gf != w) R ().fail ("lerp<int,float>", Msg () << a << " " << b << " " << t, fmt (w), fmt (gf));
                if (u != w) R ().fail ("ulerp<int,double>", Msg () << a << " " << b << " " << t, fmt (w), fmt (u));
                unsigned      ua = (unsigned) (a + 100), ub = (unsigned) (b + 100);
                unsigned char ca = (unsigned char) ua, cb = (unsigned char) ub;
                long double   wu = ua * (1 - (long double) t) + ub * (long double) t;
                unsigned      g1 = IM::ulerp (ua, ub, t), g2 = IM::lerp (ua, ub, t);
                unsigned char g3 = IM::ulerp (ca, cb, (float) t);
                tr += 3;
                if (g1 != wu) R ().fail ("ulerp<unsigned,double>", Msg () << ua << " " << ub << " " << t, fmt (wu), fmt (g1));
                if (g2 != wu) R ().fail ("lerp<unsigned,double>", Msg () << ua << " " << ub << " " << t, fmt (wu), fmt (g2));
                if (g3 != wu) R ().fail ("ulerp<unsigned char,float>", Msg () << ua << " " << ub << " " << t, fmt (wu), fmt ((unsigned) g3));
            }
    R ().cls ("scalar.int.extreme-operand", c_ext); R ().cls ("scalar.int.equal-operands", c_eq);
    R ().cls ("scalar.int.clamped-low", c_lo); R ().cls ("scalar.int.clamped-high", c_hi);
    R ().cls ("lerp.int.exact-grid", c_li);
    R ().add ("scalar.int.int_overflow_operands_skipped", skipped);
    R ().add ("states", n); R ().add ("evaluations", n); R ().add ("transitions", tr);
    R ().stage_done ("B(int)^1..3 (11 values) vs int64 definitions (overflowing operand tuples excluded); integer lerp/ulerp on 11x11x5 exact cases");
}

// ---- mixed-type instantiations: equal<T1,T2,T3>, lerp<T,Q>, ulerp<T,Q>, cmpt/iszero with a tolerance of another kind
// of magnitude. The definitions are "|a - b| <= t" and "a(1-t) + b t" over the reals; every operand here is a small
// dyadic rational (or a small integer), so the usual arithmetic conversions make every intermediate exact and the
// oracle (long double, exact as well) is an equality. What the mixed instantiations add: an implementation that
// converts one operand to the type of another (b to T1, t to T1, the interpolation parameter to T ...) is invisible
// when all three types coincide.
void mixed_stage ()
{
    if (!R ().stage ("scalar-mixed-types")) return;
    long long n = 0, tr = 0, c_frac_vs_int = 0, c_within = 0, c_outside = 0, c_lerp = 0;
    const double dy[] = {-3, -1.5, -0.75, -0.25, 0, 0.25, 0.5, 0.75, 1, 1.25, 2.5, 6};
    const double tol[] = {0, 0.125, 0.25, 0.5, 1, 1.75, 4};
    for (double a : dy)
        for (double b : dy)
            for (double t : tol)
            {
                ++n;
                long double d = fabsl ((long double) a - (long double) b);
                bool        w = d <= (long double) t;
                if (w) ++c_within; else ++c_outside;
                std::string in = Msg () << a << " " << b << " " << t;
                bool g1 = IM::equal ((float) a, (double) b, (float) t);
                bool g2 = IM::equal ((double) a, (float) b, (double) t);
                bool g3 = IM::equal ((float) a, (float) b, (double) t);
                tr += 3;
                if (g1 != w) R ().fail ("equal<float,double,float>", in, fmt (w), fmt (g1));
                if (g2 != w) R ().fail ("equal<double,float,double>", in, fmt (w), fmt (g2));
                if (g3 != w) R ().fail ("equal<float,float,double>", in, fmt (w), fmt (g3));
                // an integer first (second) operand against a fractional one
                int ia = (int) (a < 0 ? -floorl (-(long double) a) : floorl ((long double) a)); // a truncated: an int operand
                {
                    long double di = fabsl ((long double) ia - (long double) b);
                    bool        wi = di <= (long double) t;
                    bool        g4 = IM::equal (ia, (float) b, (float) t), g5 = IM::equal ((double) b, ia, (float) t), g6 = IM::equal (ia, ia + 1, t);
                    tr += 3;
                    if (b != floorl ((long double) b)) ++c_frac_vs_int;
                    if (g4 != wi) R ().fail ("equal<int,float,float>", fmt (ia) + " " + std::string (Msg () << b << " " << t), fmt (wi), fmt (g4));
                    if (g5 != wi) R ().fail ("equal<double,int,float>", std::string (Msg () << b) + " " + fmt (ia) + " " + std::string (Msg () << t), fmt (wi), fmt (g5));
                    if (g6 != (1 <= (long double) t)) R ().fail ("equal<int,int,double>", fmt (ia) + " " + fmt (ia + 1) + " " + std::string (Msg () << t), fmt (1 <= (long double) t), fmt (g6));
                }
            }
    // lerp / ulerp with value type T and parameter type Q != T (floating): exact on dyadic data
    const double ts[] = {-1, 0, 0.25, 0.5, 0.75, 1, 2};
    for (double a : dy)
        for (double b : dy)
            for (double t : ts)
            {
                ++n; ++c_lerp;
                long double w = (long double) a * (1 - (long double) t) + (long double) b * (long double) t; // exact: <= 12 significant bits
                std::string in = Msg () << a << " " << b << " " << t;
                float  g1 = IM::lerp ((float) a, (float) b, (double) t), u1 = IM::ulerp ((float) a, (float) b, (double) t);
                double g2 = IM::lerp ((double) a, (double) b, (float) t), u2 = IM::ulerp ((double) a, (double) b, (float) t);
                tr += 4;
                if ((long double) g1 != w) R ().fail ("lerp<float,double>", in, fmt (w), Msg () << g1);
                if ((long double) u1 != w) R ().fail ("ulerp<float,double>", in, fmt (w), Msg () << u1);
                if ((long double) g2 != w) R ().fail ("lerp<double,float>", in, fmt (w), Msg () << g2);
                if ((long double) u2 != w) R ().fail ("ulerp<double,float>", in, fmt (w), Msg () << u2);
            }
    R ().cls ("scalar.mixed.within-tolerance", c_within); R ().cls ("scalar.mixed.outside-tolerance", c_outside);
    R ().cls ("scalar.mixed.int-operand-vs-fractional-operand", c_frac_vs_int);
    R ().cls ("lerp.mixed.exact-grid", c_lerp);
    R ().add ("states", n); R ().add ("evaluations", n); R ().add ("transitions", tr);
    R ().stage_done ("12 x 12 dyadic operands x 7 tolerances: equal<float,double,float>, <double,float,double>, <float,float,double>, <int,float,float>, <double,int,float>, <int,int,double>; 12 x 12 x 7 exact cases of lerp/ulerp<float,double> and <double,float>");
}

// ---- equalWithAbsError / equalWithRelError for EVERY integer element type ---------------------------------
// The functions are templates over the element type of the vector / colour classes (Vec<short>, Color<unsigned char>,
// Vec<int64_t> ...), so "follow their definitions" is a statement about every integer T, not only int. The documented
// definitions (ImathMath.h) are
//        equalWithAbsError (x1, x2, e)  <=>  abs (x1 - x2) <= e
//        equalWithRelError (x1, x2, e)  <=>  abs (x1 - x2) <= e * x1        (the other stages of this file read the
//                                                                             right-hand side as e * |x1|, as here)
// over the integers: |x1 - x2| is the DISTANCE of the two values. For an unsigned T the distance of x1 < x2 is
// x2 - x1 (not the wrapped x1 - x2), and for a type narrower than int the distance may exceed max(T) (short: up to
// 65535) and is still a perfectly well defined integer. The oracle evaluates both sides in __int128 - exact for every
// operand of every type up to 64 bits. What is judged, and nothing more: let P be the type C++ arithmetic on T is
// carried out in (int for the types narrower than int, otherwise T itself). A case is inside the domain iff every
// quantity of the definition is representable in P: the distance |x1 - x2| <= max(P); for the relative form also
// |x1| <= max(P) and min(P) <= e * |x1| <= max(P) (for unsigned P a product beyond max(P) would wrap silently; the
// definition says nothing about that, so it is excluded, not judged). Operand tuples outside the domain are counted
// (..._outside_domain) and not called for signed P (the evaluation would be undefined behaviour).
// Alphabet: {min, min+1, min/2, -3..3, 7, 100, max/2, max/2+1, max-1, max} of T (non-negative part for unsigned T),
// all triples (x1, x2, e).
typedef __int128 I128;
inline std::string s128 (I128 v)
{
    if (v == 0) return "0";
    bool neg = v < 0;
    unsigned __int128 u = neg ? (unsigned __int128) (-(v + 1)) + 1 : (unsigned __int128) v;
    std::string s;
    while (u) { s.insert (s.begin (), char ('0' + (int) (u % 10))); u /= 10; }
    return neg ? "-" + s : s;
}

template <class T> void int_equal_stage (const std::string& tn)
{
    if (!R ().stage ("equalWithError-" + tn)) return;
    typedef decltype (T () + T ()) P; // the promoted type the library's expression is evaluated in
    typedef std::numeric_limits<T> L;
    typedef std::numeric_limits<P> LP;
    const I128 TMIN = (I128) L::min (), TMAX = (I128) L::max (), PMIN = (I128) LP::min (), PMAX = (I128) LP::max ();
    std::vector<I128> B0 = {TMIN, TMIN + 1, TMIN / 2, -3, -2, -1, 0, 1, 2, 3, 7, 100, TMAX / 2, TMAX / 2 + 1, TMAX - 1, TMAX};
    std::vector<I128> B;
    for (I128 v : B0) if (v >= TMIN && v <= TMAX && std::find (B.begin (), B.end (), v) == B.end ()) B.push_back (v);
    const bool narrow = sizeof (T) < sizeof (P);
    long long n = 0, tr = 0, c_lt = 0, c_far = 0, c_in = 0, c_out = 0, c_rin = 0, c_rout = 0, c_nege = 0, x_abs = 0, x_rel = 0;
    for (I128 a : B)
        for (I128 b : B)
            for (I128 e : B)
            {
                ++n;
                volatile T x1v = (T) a, x2v = (T) b, ev = (T) e;
                const T    x1 = x1v, x2 = x2v, ee = ev;
                const I128 dist = a > b ? a - b : b - a, absa = a < 0 ? -a : a, abse = e < 0 ? -e : e;
                const bool prod_big = absa != 0 && abse > (PMAX + 1) / absa + 1; // |e*|x1|| certainly beyond P (keeps the __int128 product exact: otherwise < 2^66)
                const I128 rhs = prod_big ? 0 : e * absa;
                std::string in = tn + " " + s128 (a) + " " + s128 (b) + " " + s128 (e);
                if (dist > PMAX) { ++x_abs; ++x_rel; continue; } // |x1 - x2| not representable in P
                const bool w = dist <= e;
                const bool g = IM::equalWithAbsError (x1, x2, ee);
                ++tr;
                if (g != w) R ().fail ("equalWithAbsError<" + tn + ">", in, std::string (w ? "true" : "false") + " (|x1-x2| = " + s128 (dist) + ")", fmt (g));
                if (a < b) ++c_lt;
                if (dist > TMAX) ++c_far;
                if (e < 0) ++c_nege;
                if (w) ++c_in; else ++c_out;
                if (absa > PMAX || prod_big || rhs > PMAX || rhs < PMIN) { ++x_rel; continue; }
                const bool w3 = dist <= rhs;
                const bool g3 = IM::equalWithRelError (x1, x2, ee);
                ++tr;
                if (g3 != w3) R ().fail ("equalWithRelError<" + tn + ">", in, std::string (w3 ? "true" : "false") + " (|x1-x2| = " + s128 (dist) + ", e*|x1| = " + s128 (rhs) + ")", fmt (g3));
                if (w3) ++c_rin; else ++c_rout;
            }
    R ().cls ("equalWithError." + tn + ".x1<x2", c_lt);
    if (narrow && L::is_signed) R ().cls ("equalWithError." + tn + ".distance-above-max(T)", c_far);
    if (L::is_signed) R ().cls ("equalWithError." + tn + ".negative-tolerance", c_nege);
    R ().cls ("equalWithError." + tn + ".abs.within", c_in); R ().cls ("equalWithError." + tn + ".abs.outside", c_out);
    R ().cls ("equalWithError." + tn + ".rel.within", c_rin); R ().cls ("equalWithError." + tn + ".rel.outside", c_rout);
    R ().add ("equalWithError." + tn + ".abs.distance_outside_domain", x_abs); R ().add ("equalWithError." + tn + ".rel.product_or_distance_outside_domain", x_rel);
    R ().add ("states", n); R ().add ("evaluations", n); R ().add ("transitions", tr);
    R ().stage_done ("B(" + tn + ")^3 (" + std::to_string (B.size ()) + " values: min, min+1, min/2, -3..3, 7, 100, max/2, max/2+1, max-1, max) x {equalWithAbsError, equalWithRelError} vs the definitions in __int128");
}

} // namespace

void c17_scalar_stages ()
{
    fp_stage<float> ("float");
    fp_stage<double> ("double");
    int_stage ();
    mixed_stage ();
    int_equal_stage<unsigned char> ("unsigned char");
    int_equal_stage<signed char> ("signed char");
    int_equal_stage<short> ("short");
    int_equal_stage<unsigned short> ("unsigned short");
    int_equal_stage<int> ("int");
    int_equal_stage<unsigned int> ("unsigned int");
    int_equal_stage<int64_t> ("int64_t");
    int_equal_stage<uint64_t> ("uint64_t");
}
