// C13 history (BFS) stage, element type half
#include "c13_hist.hpp"
namespace c13 { template bool run_histories<half> (bool); }
