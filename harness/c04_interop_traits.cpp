// C04 — the foreign-type interop constructors / assignments accept EXACTLY the types the headers document
// (ImathVec.h "Interoperability with other vector types", ImathTypeTraits.h): a type qualifies if it has data members
// .x, .y(, .z(, .w)) that are "of the same type as the elements of this vector", or a subscript operator yielding that
// type, "and their size appears to be the right number of elements" (C arrays "of just the right length" included) —
// the statement's "one contiguous block of exactly N elements". The positive cases are run in c04.hpp
// (interop_vec / interop_matrix); this stage evaluates the complete truth table
//     {Vec2, Vec3, Vec4} x 6 element types   x  every foreign shape below      (constructible? assignable?)
//     {Matrix22, Matrix33, Matrix44} x {float, double} x every foreign 2-D shape
// statically (std::is_constructible / std::is_assignable, and the five traits themselves) and reports every cell
// that differs from the documented rule through R().fail — nothing here is a static_assert, so a changed trait is a
// reported violation, not a build failure.
//
// Foreign shapes for an N-vector of T (O = another arithmetic type of the SAME size as T, H = a type of HALF the size):
//   named members of T:  {x,y}, {x,y,z}, {x,y,z,w}            -> qualifies iff it has exactly N members
//   named members of O:  the N-member struct                   -> never (member type differs; total size equal)
//   named members of H:  the 2N-member struct where it exists  -> never (member type differs; total size equal)
//   {x,y,z,pad} for N=3, {x,y,pad} for N=2                     -> never (size is not N elements)
//   value-returning subscript of T, lengths N-1, N, N+1        -> iff length N
//   subscript of O, length N;  subscript of H, length 2N       -> never (total size equal, element type differs)
//   C arrays T[N-1], T[N], T[N+1], O[N]                        -> iff T[N]
#include "../engine/report.hpp"
#include <ImathMatrix.h>
#include <ImathVec.h>
#include <half.h>
#include <type_traits>

using namespace IMATH_NAMESPACE;
using vf::R;

namespace {

template <class M> struct NXY { M x, y; };
template <class M> struct NXYZ { M x, y, z; };
template <class M> struct NXYZW { M x, y, z, w; };
template <class M> struct NXYpad { M x, y, pad; };
template <class M> struct NXYZpad { M x, y, z, pad; };
template <class M, int L> struct SubV { M e[L]; M operator[] (int i) const { return e[i]; } };
template <class M, int R_, int C_> struct Sub2 { M e[R_][C_]; const M* operator[] (int i) const { return e[i]; } };

template <class T> struct Other;   // same size, different type
template <> struct Other<short>   { typedef half type; };
template <> struct Other<half>    { typedef short type; };
template <> struct Other<int>     { typedef float type; };
template <> struct Other<float>   { typedef int type; };
template <> struct Other<int64_t> { typedef double type; };
template <> struct Other<double>  { typedef int64_t type; };
template <class T> struct Half { typedef void type; };  // half the size (void: none)
template <> struct Half<int>     { typedef short type; };
template <> struct Half<float>   { typedef half type; };
template <> struct Half<int64_t> { typedef int type; };
template <> struct Half<double>  { typedef float type; };

template <class T> const char* tn ();
template <> const char* tn<short> () { return "short"; }
template <> const char* tn<half> () { return "half"; }
template <> const char* tn<int> () { return "int"; }
template <> const char* tn<float> () { return "float"; }
template <> const char* tn<int64_t> () { return "int64_t"; }
template <> const char* tn<double> () { return "double"; }

long long g_cells = 0, g_pos = 0, g_neg = 0, g_trait = 0;

// one cell: Dst constructible / assignable from const Src& ?
template <class Dst, class Src> void cell (const std::string& dst, const char* shape_class, const std::string& shape, bool expect)
{
    const bool c = std::is_constructible<Dst, const Src&>::value;
    const bool a = std::is_assignable<Dst&, const Src&>::value;
    g_cells += 2; (expect ? g_pos : g_neg) += 2;
    if (c != expect) R ().fail (dst + ".interop.constructible-from(" + shape_class + ")", shape, expect ? "constructible" : "not constructible", c ? "constructible" : "not constructible");
    if (a != expect) R ().fail (dst + ".interop.assignable-from(" + shape_class + ")", shape, expect ? "assignable" : "not assignable", a ? "assignable" : "not assignable");
}
inline void trait (const char* name, const std::string& shape, bool got, bool expect)
{
    ++g_trait; ++g_cells; (expect ? g_pos : g_neg) += 1;
    if (got != expect) R ().fail (std::string (name) + ".documented-value", shape, expect ? "true" : "false", got ? "true" : "false");
}

template <class T, class H, int N> struct HalfCells
{   // shapes built from a type of half the size: 2N members / subscript length 2N have the same total size as N of T
    template <class V> static void run (const std::string& d, const std::string& tt)
    {
        cell<V, SubV<H, 2 * N>> (d, "subscript.other-element-type-same-total-size", tt + " from subscript type of " + tn<H> () + " x " + std::to_string (2 * N), false);
        if (N == 2) cell<V, NXYZW<H>> (d, "named-members.other-member-type-same-total-size", tt + " from {x,y,z,w} of " + tn<H> (), false);
        trait ("has_subscript", tt + " <- subscript " + tn<H> () + " x " + std::to_string (2 * N), has_subscript<SubV<H, 2 * N>, T, N>::value, false);
    }
};
template <class T, int N> struct HalfCells<T, void, N> { template <class V> static void run (const std::string&, const std::string&) {} };

template <class V, class T, int N> void vec_cells (const char* vname)
{
    typedef typename Other<T>::type O;
    const std::string d = vname, tt = std::string ("T=") + tn<T> ();
    // named members
    cell<V, NXY<T>> (d, N == 2 ? "named-members.exact" : "named-members.missing-member", tt + " from {x,y} of T", N == 2);
    cell<V, NXYZ<T>> (d, N == 3 ? "named-members.exact" : N < 3 ? "named-members.extra-member" : "named-members.missing-member", tt + " from {x,y,z} of T", N == 3);
    cell<V, NXYZW<T>> (d, N == 4 ? "named-members.exact" : "named-members.extra-member", tt + " from {x,y,z,w} of T", N == 4);
    cell<V, NXYpad<T>> (d, "named-members.padded", tt + " from {x,y,pad} of T", false);
    cell<V, NXYZpad<T>> (d, "named-members.padded", tt + " from {x,y,z,pad} of T", false);
    cell<V, NXY<O>> (d, "named-members.other-member-type", tt + " from {x,y} of " + tn<O> (), false);
    cell<V, NXYZ<O>> (d, "named-members.other-member-type", tt + " from {x,y,z} of " + tn<O> (), false);
    cell<V, NXYZW<O>> (d, "named-members.other-member-type", tt + " from {x,y,z,w} of " + tn<O> (), false);
    // subscript types
    cell<V, SubV<T, N - 1>> (d, "subscript.too-short", tt + " from subscript type of T x " + std::to_string (N - 1), false);
    cell<V, SubV<T, N>> (d, "subscript.exact", tt + " from subscript type of T x " + std::to_string (N), true);
    cell<V, SubV<T, N + 1>> (d, "subscript.too-long", tt + " from subscript type of T x " + std::to_string (N + 1), false);
    cell<V, SubV<O, N>> (d, "subscript.other-element-type", tt + " from subscript type of " + tn<O> () + " x " + std::to_string (N), false);
    // C arrays
    cell<V, T[N - 1]> (d, "c-array.too-short", tt + " from T[" + std::to_string (N - 1) + "]", false);
    cell<V, T[N]> (d, "c-array.exact", tt + " from T[" + std::to_string (N) + "]", true);
    cell<V, T[N + 1]> (d, "c-array.too-long", tt + " from T[" + std::to_string (N + 1) + "]", false);
    cell<V, O[N]> (d, "c-array.other-element-type", tt + " from " + tn<O> () + "[" + std::to_string (N) + "]", false);
    HalfCells<T, typename Half<T>::type, N>::template run<V> (d, tt);
    // the traits themselves, as documented in ImathTypeTraits.h
    trait ("has_xy", tt + " <- {x,y} of T", has_xy<NXY<T>, T>::value, true);
    trait ("has_xy", tt + " <- {x,y,z} of T", has_xy<NXYZ<T>, T>::value, false);
    trait ("has_xy", tt + " <- {x,y} of " + tn<O> (), has_xy<NXY<O>, T>::value, false);
    trait ("has_xy", tt + " <- {x,y,pad} of T", has_xy<NXYpad<T>, T>::value, false);
    trait ("has_xyz", tt + " <- {x,y,z} of T", has_xyz<NXYZ<T>, T>::value, true);
    trait ("has_xyz", tt + " <- {x,y} of T", has_xyz<NXY<T>, T>::value, false);
    trait ("has_xyz", tt + " <- {x,y,z,w} of T", has_xyz<NXYZW<T>, T>::value, false);
    trait ("has_xyz", tt + " <- {x,y,z,pad} of T", has_xyz<NXYZpad<T>, T>::value, false);
    trait ("has_xyz", tt + " <- {x,y,z} of " + tn<O> (), has_xyz<NXYZ<O>, T>::value, false);
    trait ("has_xyzw", tt + " <- {x,y,z,w} of T", has_xyzw<NXYZW<T>, T>::value, true);
    trait ("has_xyzw", tt + " <- {x,y,z} of T", has_xyzw<NXYZ<T>, T>::value, false);
    trait ("has_xyzw", tt + " <- {x,y,z,w} of " + tn<O> (), has_xyzw<NXYZW<O>, T>::value, false);
    trait ("has_subscript", tt + " <- subscript T x N", has_subscript<SubV<T, N>, T, N>::value, true);
    trait ("has_subscript", tt + " <- subscript T x N+1", has_subscript<SubV<T, N + 1>, T, N>::value, false);
    trait ("has_subscript", tt + " <- subscript T x N-1", has_subscript<SubV<T, N - 1>, T, N>::value, false);
    trait ("has_subscript", tt + " <- subscript " + tn<O> () + " x N", has_subscript<SubV<O, N>, T, N>::value, false);
    trait ("has_subscript", tt + " <- T[N]", has_subscript<T[N], T, N>::value, true);
    trait ("has_subscript", tt + " <- T[N+1]", has_subscript<T[N + 1], T, N>::value, false);
    trait ("has_subscript", tt + " <- {x,y,z} of T (no subscript)", has_subscript<NXYZ<T>, T, 3>::value, false);
}
template <class T> void vec_all ()
{
    vec_cells<Vec2<T>, T, 2> ("Vec2");
    vec_cells<Vec3<T>, T, 3> ("Vec3");
    vec_cells<Vec4<T>, T, 4> ("Vec4");
}

template <class M, class T, int N> void mat_cells (const char* mname)
{
    typedef typename Other<T>::type O;
    typedef typename Half<T>::type  H;
    const std::string d = mname, tt = std::string ("T=") + tn<T> (), n = std::to_string (N);
    cell<M, Sub2<T, N, N>> (d, "double-subscript.exact", tt + " from double-subscript type of T " + n + "x" + n, true);
    cell<M, Sub2<T, N, N + 1>> (d, "double-subscript.extra-column", tt + " from double-subscript type of T " + n + "x" + std::to_string (N + 1), false);
    cell<M, Sub2<T, N + 1, N>> (d, "double-subscript.extra-row", tt + " from double-subscript type of T " + std::to_string (N + 1) + "x" + n, false);
    cell<M, Sub2<T, N - 1, N>> (d, "double-subscript.missing-row", tt + " from double-subscript type of T " + std::to_string (N - 1) + "x" + n, false);
    cell<M, Sub2<O, N, N>> (d, "double-subscript.other-element-type", tt + " from double-subscript type of " + tn<O> () + " " + n + "x" + n, false);
    cell<M, Sub2<H, N, 2 * N>> (d, "double-subscript.other-element-type-same-total-size", tt + " from double-subscript type of " + tn<H> () + " " + n + "x" + std::to_string (2 * N), false);
    cell<M, SubV<T, N * N>> (d, "single-subscript-of-N*N", tt + " from single-subscript type of T x " + std::to_string (N * N), false);
    cell<M, T[N][N + 1]> (d, "c-array.extra-column", tt + " from T[" + n + "][" + std::to_string (N + 1) + "]", false);
    cell<M, O[N][N]> (d, "c-array.other-element-type", tt + " from " + tn<O> () + "[" + n + "][" + n + "]", false);
    // T[N][N] is accepted both by the interop forms and by the documented Matrix (const T a[N][N]) constructor
    cell<M, T[N][N]> (d, "c-array.exact", tt + " from T[" + n + "][" + n + "]", true);
    trait ("has_double_subscript", tt + " <- double-subscript T NxN", has_double_subscript<Sub2<T, N, N>, T, N, N>::value, true);
    trait ("has_double_subscript", tt + " <- double-subscript T Nx(N+1)", has_double_subscript<Sub2<T, N, N + 1>, T, N, N>::value, false);
    trait ("has_double_subscript", tt + " <- double-subscript " + tn<O> () + " NxN", has_double_subscript<Sub2<O, N, N>, T, N, N>::value, false);
    trait ("has_double_subscript", tt + " <- T[N][N]", has_double_subscript<T[N][N], T, N, N>::value, true);
    trait ("has_double_subscript", tt + " <- T[N][N+1]", has_double_subscript<T[N][N + 1], T, N, N>::value, false);
    trait ("has_double_subscript", tt + " <- single-subscript T x N*N", has_double_subscript<SubV<T, N * N>, T, N, N>::value, false);
}
template <class T> void mat_all ()
{
    mat_cells<Matrix22<T>, T, 2> ("Matrix22");
    mat_cells<Matrix33<T>, T, 3> ("Matrix33");
    mat_cells<Matrix44<T>, T, 4> ("Matrix44");
}

} // namespace

void c04_interop_traits_stage ()
{
    if (!R ().stage ("interop-truth-table")) return;
    vec_all<short> (); vec_all<int> (); vec_all<int64_t> (); vec_all<half> (); vec_all<float> (); vec_all<double> ();
    mat_all<float> (); mat_all<double> ();
    R ().add ("states", g_cells); R ().add ("evaluations", g_cells); R ().add ("transitions", g_cells);
    R ().cls ("interop.truth-table.qualifying-shape", g_pos);
    R ().cls ("interop.truth-table.non-qualifying-shape(size, member type, element type, length)", g_neg);
    R ().cls ("interop.truth-table.trait-documented-value", g_trait);
    R ().stage_done ("Vec2/3/4 x {short,int,int64_t,half,float,double} and Matrix22/33/44 x {float,double}: is_constructible / is_assignable from every foreign shape "
                     "(named members with exactly / fewer / more members, padded, other member type of the same size or of the same total size; subscript types of length N-1, N, N+1, "
                     "other element type; C arrays of length N-1, N, N+1, other element type; 2-D shapes with an extra / missing row or column) and the documented value of has_xy, "
                     "has_xyz, has_xyzw, has_subscript, has_double_subscript on the same shapes");
}
