// C05 — explicit instantiation of the 'det' stages for float (one TU per scalar type to keep the build parallel)
#include "c05_det.hpp"
namespace c05 { template void run_det<float> (); }
