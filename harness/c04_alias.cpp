// C04 — two operand shapes the slot-deviation alphabets of c04.hpp cannot express (added after independently
// seeded changes were missed):
//
//  (1) ALIASED operands. A compound operator whose right-hand side is the object itself (v += v, v *= v, v /= v,
//      m -= m ...) or, for scalar right-hand sides, a reference to one of the object's own components
//      (v /= v.x, v *= v[1], m *= m[0][1]). The result must be what the same operator gives on an independent copy
//      of the right-hand side, component by component — an implementation that takes its argument by reference and
//      overwrites components while still reading the argument fails exactly here.
//  (2) Scalar-on-the-left multiplication with a scalar type S different from the element type T, where the headers
//      provide it (template <class S, class T> operator* (S, const Color4<T>&) / Shear6<T>): every component is
//      T (x * c) — the product formed in the usual arithmetic type of S and T and converted once.
//
// Enumerated: every class template x element type x compound operator x {self, each own component} x the generic
// tuples (distinct primes, so every component and every result is different) and their negations / halves.
#include "../engine/exact.hpp"
#include "../engine/report.hpp"
#include <ImathColor.h>
#include <ImathMatrix.h>
#include <ImathQuat.h>
#include <ImathShear.h>
#include <ImathVec.h>
#include <half.h>

using namespace IMATH_NAMESPACE;
using vf::R;

namespace {

struct Tally { long long states = 0, trans = 0, self_alias = 0, comp_alias = 0, mixed = 0, self_cmp = 0; };

template <class T> std::string tn ();
template <> std::string tn<float> () { return "float"; }
template <> std::string tn<double> () { return "double"; }
template <> std::string tn<int> () { return "int"; }
template <> std::string tn<short> () { return "short"; }
template <> std::string tn<int64_t> () { return "int64_t"; }
template <> std::string tn<half> () { return "half"; }
template <> std::string tn<unsigned char> () { return "unsigned char"; }

template <class T> bool same (T a, T b) { return ex::same (a, b); }
template <> bool same<half> (half a, half b) { return a.bits () == b.bits () || (a.isNan () && b.isNan ()); }

template <class T> std::string show (const T* p, int n)
{
    vf::Msg m;
    m << "[";
    for (int i = 0; i < n; ++i) { if (i) m << " "; m << (double) p[i]; }
    m << "]";
    return m.str ();
}

// generic tuples: distinct primes, sign pattern g (no zero: v /= v must be defined for integers too)
template <class T> void fill (int g, int n, T* v)
{
    for (int i = 0; i < n; ++i)
    {
        int p = ex::PRIMES[i + 1]; // 3, 5, 7, ...
        if (std::numeric_limits<T>::is_signed && ((g >> (i % 3)) & 1)) p = -p;
        v[i] = (T) p;
        if (!std::numeric_limits<T>::is_integer && (g & 4)) v[i] = (T) ((double) p / 2);
    }
}

// A: aggregate with N contiguous elements of type T (layout is established by the layout stage of this property)
template <class A, class T> T* elems (A& a) { return reinterpret_cast<T*> (&a); }

enum Op { ADD, SUB, MUL, DIV };
static const char* OPN[4] = {"+=", "-=", "*=", "/="};

// FULL = the class provides component-wise *= and /= with an aggregate right-hand side (vectors, colours, shears);
// otherwise only += and -= are component-wise (Quat, Matrix: their *= is a product and belongs to C05)
template <bool FULL> struct Apply;
template <> struct Apply<true>
{
    template <class A> static void self (A& a, Op op)
    {
        switch (op) { case ADD: a += a; break; case SUB: a -= a; break; case MUL: a *= a; break; case DIV: a /= a; break; }
    }
    template <class A> static void copy (A& a, const A& b, Op op)
    {
        switch (op) { case ADD: a += b; break; case SUB: a -= b; break; case MUL: a *= b; break; case DIV: a /= b; break; }
    }
};
template <> struct Apply<false>
{
    template <class A> static void self (A& a, Op op) { if (op == ADD) a += a; else a -= a; }
    template <class A> static void copy (A& a, const A& b, Op op) { if (op == ADD) a += b; else a -= b; }
};

// component-wise aggregate (op) aggregate with rhs aliasing self; `ops` lists the operators the class provides
// component-wise (Matrix *= Matrix is a matrix product and belongs to C05)
template <class A, class T, int N, bool FULL> void self_alias (const std::string& cls, Tally& t)
{
    const std::vector<Op> ops = FULL ? std::vector<Op>{ADD, SUB, MUL, DIV} : std::vector<Op>{ADD, SUB};
    for (int g = 0; g < 8; ++g)
        for (Op op : ops)
        {
            T v[N];
            fill<T> (g, N, v);
            A a, b, c;
            for (int i = 0; i < N; ++i) { elems<A, T> (a)[i] = v[i]; elems<A, T> (b)[i] = v[i]; elems<A, T> (c)[i] = v[i]; }
            Apply<FULL>::self (a, op);     // aliased
            Apply<FULL>::copy (b, c, op);  // independent copy of the right-hand side
            ++t.states; t.trans += 2; ++t.self_alias;
            for (int i = 0; i < N; ++i)
                if (!same<T> (elems<A, T> (a)[i], elems<A, T> (b)[i]))
                {
                    R ().fail (cls + "::operator" + OPN[op] + "(" + cls + ").rhs-aliases-self", "T=" + tn<T> () + " v=" + show (v, N) + " component " + std::to_string (i),
                               show (elems<A, T> (b), N), show (elems<A, T> (a), N));
                    break;
                }
        }
}

// aggregate (op) scalar where the scalar argument is a reference to component k of the aggregate itself
template <class A, class T, int N, class F1, class F2> void comp_alias_one (const std::string& cls, const char* opn, F1 aliased, F2 by_value, Tally& t)
{
    for (int g = 0; g < 8; ++g)
        for (int k = 0; k < N; ++k)
        {
            T v[N];
            fill<T> (g, N, v);
            A a, b;
            for (int i = 0; i < N; ++i) { elems<A, T> (a)[i] = v[i]; elems<A, T> (b)[i] = v[i]; }
            aliased (a, elems<A, T> (a)[k]); // the argument is a reference into `a`
            T s = v[k];
            by_value (b, s);
            ++t.states; t.trans += 2; ++t.comp_alias;
            for (int i = 0; i < N; ++i)
                if (!same<T> (elems<A, T> (a)[i], elems<A, T> (b)[i]))
                {
                    R ().fail (cls + "::operator" + opn + "(T).argument-is-own-component", "T=" + tn<T> () + " v=" + show (v, N) + " scalar = component " + std::to_string (k),
                               show (elems<A, T> (b), N), show (elems<A, T> (a), N));
                    break;
                }
        }
}
template <class A, class T, int N> void comp_alias (const std::string& cls, bool has_div, Tally& t)
{
    comp_alias_one<A, T, N> (cls, "*=", [] (A& a, const T& s) { a *= s; }, [] (A& a, T s) { a *= s; }, t);
    if (has_div) comp_alias_one<A, T, N> (cls, "/=", [] (A& a, const T& s) { a /= s; }, [] (A& a, T s) { a /= s; }, t);
}

// ==, != with the SAME OBJECT on both sides must answer what they answer for an independent copy: equality is a
// function of the component values (a NaN component makes an aggregate unequal to itself), not of object identity.
template <class A, class T, int N> void self_compare (const std::string& cls, Tally& t)
{
    for (int slot = -1; slot < N; ++slot) // -1: no NaN
    {
        T v[N];
        fill<T> (1, N, v);
        if (slot >= 0) v[slot] = std::numeric_limits<T>::quiet_NaN ();
        A a, c;
        for (int i = 0; i < N; ++i) { elems<A, T> (a)[i] = v[i]; elems<A, T> (c)[i] = v[i]; }
        const A& r = a;
        bool eq_self = (a == r), ne_self = (a != r), eq_copy = (a == c), ne_copy = (a != c);
        ++t.states; t.trans += 4; ++t.self_cmp;
        if (eq_self != eq_copy || ne_self != ne_copy || eq_copy == ne_copy)
            R ().fail (cls + "::operator==/!=.same-object-vs-copy", "T=" + tn<T> () + " v=" + show (v, N) + (slot >= 0 ? " (NaN in slot " + std::to_string (slot) + ")" : ""),
                       std::string ("a==a ") + (eq_copy ? "1" : "0") + " a!=a " + (ne_copy ? "1" : "0") + " (as for an equal-valued copy)",
                       std::string ("a==a ") + (eq_self ? "1" : "0") + " a!=a " + (ne_self ? "1" : "0") + " a==copy " + (eq_copy ? "1" : "0") + " a!=copy " + (ne_copy ? "1" : "0"));
    }
}

template <class T> void vec_family (Tally& t)
{
    self_alias<Vec2<T>, T, 2, true> ("Vec2", t); comp_alias<Vec2<T>, T, 2> ("Vec2", true, t);
    self_alias<Vec3<T>, T, 3, true> ("Vec3", t); comp_alias<Vec3<T>, T, 3> ("Vec3", true, t);
    self_alias<Vec4<T>, T, 4, true> ("Vec4", t); comp_alias<Vec4<T>, T, 4> ("Vec4", true, t);
}
template <class T> void color_family (Tally& t)
{
    self_alias<Color3<T>, T, 3, true> ("Color3", t); comp_alias<Color3<T>, T, 3> ("Color3", true, t);
    self_alias<Color4<T>, T, 4, true> ("Color4", t); comp_alias<Color4<T>, T, 4> ("Color4", true, t);
}
template <class T> void fp_family (Tally& t)
{
    self_alias<Shear6<T>, T, 6, true> ("Shear6", t); comp_alias<Shear6<T>, T, 6> ("Shear6", true, t);
    self_alias<Quat<T>, T, 4, false> ("Quat", t);  comp_alias<Quat<T>, T, 4> ("Quat", true, t);
    self_alias<Matrix22<T>, T, 4, false> ("Matrix22", t);  comp_alias<Matrix22<T>, T, 4> ("Matrix22", true, t);
    self_alias<Matrix33<T>, T, 9, false> ("Matrix33", t);  comp_alias<Matrix33<T>, T, 9> ("Matrix33", true, t);
    self_alias<Matrix44<T>, T, 16, false> ("Matrix44", t); comp_alias<Matrix44<T>, T, 16> ("Matrix44", true, t);
}

// ---- (2) scalar of another type on the left --------------------------------------------------------------------
template <class A, class S, class T, int N> void mixed_left (const std::string& cls, Tally& t)
{
    static const double XS[6] = {0.5, 2.5, 0.1, 3, -1.5, 1.0 / 3};
    for (double xd : XS)
    {
        if (!std::numeric_limits<S>::is_signed && xd < 0) continue;
        if (std::numeric_limits<T>::is_integer && !std::numeric_limits<T>::is_signed && xd < 0) continue;
        S x = (S) xd;
        for (int g = 0; g < 8; ++g)
        {
            T v[N];
            fill<T> (g, N, v);
            if (std::numeric_limits<T>::is_integer) for (int i = 0; i < N; ++i) v[i] = (T) (v[i] * 7); // products with a fraction stay distinct after truncation; 11*7*3 = 231 still fits unsigned char
            A a;
            for (int i = 0; i < N; ++i) elems<A, T> (a)[i] = v[i];
            A r = x * a;
            ++t.states; ++t.trans; ++t.mixed;
            for (int i = 0; i < N; ++i)
            {
                T want = (T) (x * v[i]); // the scalar operation of the two C++ types, converted once
                if (!same<T> (elems<A, T> (r)[i], want))
                {
                    R ().fail (cls + "::operator*(S," + cls + "<T>).S!=T", "S=" + tn<S> () + " T=" + tn<T> () + " x=" + vf::fmt ((double) x) + " v=" + show (v, N) + " component " + std::to_string (i),
                               vf::fmt ((double) want), vf::fmt ((double) elems<A, T> (r)[i]));
                    break;
                }
            }
        }
    }
}

} // namespace

void c04_alias_stage ()
{
    if (!R ().stage ("aliased-and-mixed-type-operands")) return;
    Tally t;
    vec_family<float> (t); vec_family<double> (t); vec_family<int> (t); vec_family<short> (t); vec_family<int64_t> (t); vec_family<half> (t);
    color_family<float> (t); color_family<half> (t); color_family<unsigned char> (t);
    fp_family<float> (t); fp_family<double> (t);
    self_compare<Vec2<float>, float, 2> ("Vec2", t); self_compare<Vec3<float>, float, 3> ("Vec3", t); self_compare<Vec4<float>, float, 4> ("Vec4", t);
    self_compare<Vec2<double>, double, 2> ("Vec2", t); self_compare<Vec3<double>, double, 3> ("Vec3", t); self_compare<Vec4<double>, double, 4> ("Vec4", t);
    self_compare<Color3<float>, float, 3> ("Color3", t); self_compare<Color4<float>, float, 4> ("Color4", t);
    self_compare<Shear6<float>, float, 6> ("Shear6", t); self_compare<Shear6<double>, double, 6> ("Shear6", t);
    self_compare<Quat<float>, float, 4> ("Quat", t); self_compare<Quat<double>, double, 4> ("Quat", t);
    self_compare<Matrix22<float>, float, 4> ("Matrix22", t); self_compare<Matrix22<double>, double, 4> ("Matrix22", t);
    self_compare<Matrix33<float>, float, 9> ("Matrix33", t); self_compare<Matrix33<double>, double, 9> ("Matrix33", t);
    self_compare<Matrix44<float>, float, 16> ("Matrix44", t); self_compare<Matrix44<double>, double, 16> ("Matrix44", t);
    mixed_left<Color4<float>, double, float, 4> ("Color4", t);
    mixed_left<Color4<float>, int, float, 4> ("Color4", t);
    mixed_left<Color4<double>, float, double, 4> ("Color4", t);
    mixed_left<Color4<unsigned char>, float, unsigned char, 4> ("Color4", t);
    mixed_left<Color4<unsigned char>, double, unsigned char, 4> ("Color4", t);
    mixed_left<Color4<half>, float, half, 4> ("Color4", t);
    mixed_left<Shear6<float>, double, float, 6> ("Shear6", t);
    mixed_left<Shear6<double>, float, double, 6> ("Shear6", t);
    mixed_left<Shear6<float>, int, float, 6> ("Shear6", t);
    R ().add ("states", t.states); R ().add ("transitions", t.trans); R ().add ("evaluations", t.states);
    R ().cls ("alias.rhs-is-self", t.self_alias);
    R ().cls ("alias.scalar-is-own-component", t.comp_alias);
    R ().cls ("scalar-left.S!=T", t.mixed);
    R ().cls ("compare.same-object-with-NaN-slots", t.self_cmp);
    R ().sample ("Vec3<float> v(3,5,7); v /= v.x  == (1, 5/3, 7/3)");
    R ().stage_done ("every class template x element type x component-wise compound operator with rhs = the object itself and with the scalar = each own component, 8 generic tuples; "
                     "S*Color4<T>, S*Shear6<T> for 9 (S,T) pairs x 6 scalars x 8 tuples");
}
