// C09, stages "aliased-arguments", "rotations-mixed-base", "rotations-big-angles" (audit2 S3, S2, S6).
//
// aliased-arguments: Matrix33::shear(const S&) and Matrix33::setShear(const S&) are the only builders that take a
//   scalar BY REFERENCE; with S == T the argument may be an element of the matrix being modified
//   (m.shear (m[1][0])). "the in-place ... shear (all overloads) equal the corresponding set* matrix multiplied on the
//   left of the current matrix": the parameter is the value the element holds when the call is made, so the result must
//   equal the result for a copy of that value. Every slot of every current matrix of the alphabet; exact (integers).
//   One site per aliased slot, so that a slot that is read after having been overwritten owns its site.
//   (Vec2/Vec3/Shear6 arguments cannot alias the matrix without a reinterpret_cast the library neither offers nor
//   uses, so no such case is formed.)
//
// rotations-mixed-base: setRotation / rotate (Matrix22, Matrix33), setAxisAngle, setEulerAngles, rotate (Matrix44) with
//   an argument base type S different from the matrix base type T: (T,S) in {(double,float), (float,double)} and S = int.
//   Angles are the 127 float-valued angles of the alphabet (exactly representable in float AND double, so the value the
//   library receives is the value the oracle uses whichever cast it applies first); int angles are -7..7 radians.
//   Oracle and abs-term sums A_ij exactly as in stage "rotations". Two tiers, both a priori:
//     * 8 eps_w A_ij with eps_w = max(eps_T, eps_S): what a computation carried out in the NARROWER of the two types
//       delivers (the error analysis of c09_rot.cpp applied to that type) -- site "...[arg base S]";
//     * 8 eps_T A_ij: what the base type of the matrix delivers. The angle is exactly representable in T and the
//       functions convert it to T before calling cos/sin ("cos ((T) r)"), so this is the accuracy of the documented
//       rotation of a Matrix<T>; failing only this tier is reported under the narrower site
//       "...[arg base S].accuracy-limited-to-argument-precision".
//   For S = int the angle is an exact integer number of radians and the tolerance is 8 eps_T A_ij.
//
// rotations-big-angles: same-type builders with angles +-2^k*pi/12 and +-(2^k+5)*pi/12, k = 6..20 (up to 2.7e5 rad,
//   43690 periods), rounded to T first; oracle cosl/sinl of exactly that T value (glibc reduces the argument of
//   sinl/cosl/sin/cos/sinf/cosf with the full-precision Payne-Hanek remainder, so the 8 eps A_ij bound of stage
//   "rotations" is unchanged).
#include "c09_common.hpp"
#include <array>
#include <map>

namespace c09 {
namespace {
using vf::R;

template <class S> struct SN;
template <> struct SN<float>  { static const char* n () { return "float"; } };
template <> struct SN<double> { static const char* n () { return "double"; } };
template <> struct SN<int>    { static const char* n () { return "int"; } };

// ---- oracles (as in c09_rot.cpp: written from the definitions) -------------------------------------------------------------
struct O3 { LD m[3][3], a[3][3]; };
O3 o3_mul (const O3& p, const O3& q)
{
    O3 r;
    for (int i = 0; i < 3; ++i)
        for (int j = 0; j < 3; ++j)
        {
            LD s = 0, t = 0;
            for (int k = 0; k < 3; ++k) { s += p.m[i][k] * q.m[k][j]; t += p.a[i][k] * q.a[k][j]; }
            r.m[i][j] = s; r.a[i][j] = t;
        }
    return r;
}
// right-handed rotation about coordinate axis ax, matrix acting on row vectors
O3 elementary (int ax, LD c, LD s)
{
    O3 r;
    for (int i = 0; i < 3; ++i)
        for (int j = 0; j < 3; ++j) r.m[i][j] = (i == j);
    int i1 = (ax + 1) % 3, i2 = (ax + 2) % 3;
    r.m[i1][i1] = c; r.m[i1][i2] = s; r.m[i2][i1] = -s; r.m[i2][i2] = c;
    for (int i = 0; i < 3; ++i)
        for (int j = 0; j < 3; ++j) r.a[i][j] = fabsl (r.m[i][j]);
    return r;
}
O3 rodrigues (const LD* axis, LD c, LD s)
{
    O3 r;
    LD u[3];
    unit3 (axis, u);
    for (int i = 0; i < 3; ++i)
    {
        LD e[3] = {0, 0, 0}, uxe[3];
        e[i]    = 1;
        cross3 (u, e, uxe);
        for (int j = 0; j < 3; ++j)
        {
            r.m[i][j] = (i == j ? c : 0) + uxe[j] * s + u[j] * u[i] * (1 - c);
            r.a[i][j] = (i == j ? fabsl (c) : 0) + fabsl (uxe[j] * s) + fabsl (u[j] * u[i]) * (1 + fabsl (c));
        }
    }
    return r;
}

struct Tally
{
    long long states = 0, trans = 0;
    long long alias_row[3] = {0, 0, 0}, alias_nonaffine = 0;
    long long mx_df = 0, mx_fd = 0, mx_int = 0, mx_int_nonzero = 0;
    long long big = 0, big_huge = 0;
    double w_weak = 0, w_strict = 0, w_big = 0;
    void merge (const Tally& o)
    {
        states += o.states; trans += o.trans;
        for (int i = 0; i < 3; ++i) alias_row[i] += o.alias_row[i];
        alias_nonaffine += o.alias_nonaffine; mx_df += o.mx_df; mx_fd += o.mx_fd; mx_int += o.mx_int; mx_int_nonzero += o.mx_int_nonzero; big += o.big; big_huge += o.big_huge;
        w_weak = std::max (w_weak, o.w_weak); w_strict = std::max (w_strict, o.w_strict); w_big = std::max (w_big, o.w_big);
    }
};

// ---- S3: aliased by-reference scalar arguments --------------------------------------------------------------------------------
template <class T> void aliased (Tally& tl)
{
    auto mats = current_matrices (3, true);
    for (const IM& cm : mats)
    {
        const Matrix33<T> M0 = mk33<T> (cm);
        for (int i = 0; i < 3; ++i)
            for (int j = 0; j < 3; ++j)
            {
                const std::string slot = "[" + std::to_string (i) + "][" + std::to_string (j) + "]";
                const long long   v    = cm.a[i][j];
                IM D = im_identity (3);
                D.a[1][0] = v; // documented matrix of setShear(xy): x' = x + xy*y
                ++tl.states; ++tl.alias_row[i];
                if (cm.name[0] == 'G') ++tl.alias_nonaffine;
                {
                    Matrix33<T>        A (M0);
                    const Matrix33<T>& ret = A.shear (A.x[i][j]); // S = T: the reference binds to the element itself
                    ++tl.trans;
                    IM e = im_mul (D, cm);
                    if (&ret != &A) R ().fail (site<T> ("Matrix33", "shear(scalar).returns-this"), "aliased");
                    if (!eq_int<T, 3> (A.x, e))
                        R ().fail (site<T> ("Matrix33", "shear(scalar)=setShear*M.argument-aliases-slot" + slot), "m.shear(m" + slot + "), m=" + im_str (cm), im_str (e), mat_str (A.x));
                }
                {
                    Matrix33<T>        B (M0);
                    const Matrix33<T>& ret = B.setShear (B.x[i][j]);
                    ++tl.trans;
                    if (&ret != &B) R ().fail (site<T> ("Matrix33", "setShear(scalar).returns-this"), "aliased");
                    if (!eq_int<T, 3> (B.x, D))
                        R ().fail (site<T> ("Matrix33", "setShear(scalar).entries.argument-aliases-slot" + slot), "m.setShear(m" + slot + "), m=" + im_str (cm), im_str (D), mat_str (B.x));
                }
            }
    }
}

// Failure formatting is expensive and the LIVE classes fail by the million on a tree without the repair: after the first 16
// failures reported by a thread at a site the strings are left empty (R().fail keeps only the first 4 per site; the count stays exact).
inline bool verbose_fail (const std::string& site)
{
    static thread_local std::map<std::string, int> n;
    return ++n[site] <= 16;
}

// ---- two-tier entry comparison ---------------------------------------------------------------------------------------------------
// weak: 8 ew A; strict: 8 es A (es <= ew). Returns after the first failing entry.
template <class T, int N, class Desc>
inline void cmp2 (Tally& tl, const std::string& st, const T (&x)[N][N], int rows, int cols, const LD (*m)[4], const LD (*a)[4], LD ew, LD es, bool strict, Desc desc)
{
    for (int i = 0; i < rows; ++i)
        for (int j = 0; j < cols; ++j)
        {
            LD d = fabsl ((LD) x[i][j] - m[i][j]);
            if (!(x[i][j] == x[i][j])) d = 1e30L;
            if (a[i][j] > 0 && d <= 8 * ew * a[i][j]) tl.w_weak = std::max (tl.w_weak, (double) (d / (ew * a[i][j]))); // worst PASSING ratio (failures are reported)
            if (!(d <= 8 * ew * a[i][j]))
            {
                if (verbose_fail (st)) R ().fail (st, desc () + " entry[" + std::to_string (i) + "][" + std::to_string (j) + "]", vf::fmt (m[i][j]) + " +- " + vf::fmt (8 * ew * a[i][j]), vf::fmt (x[i][j]));
                else R ().fail (st, "", "", "");
                return;
            }
        }
    if (!strict) return;
    for (int i = 0; i < rows; ++i)
        for (int j = 0; j < cols; ++j)
        {
            LD d = fabsl ((LD) x[i][j] - m[i][j]);
            if (a[i][j] > 0) tl.w_strict = std::max (tl.w_strict, (double) (d / (es * a[i][j])));
            if (!(d <= 8 * es * a[i][j]))
            {
                if (verbose_fail (st + "#strict"))
                    R ().fail (st + ".accuracy-limited-to-argument-precision", desc () + " entry[" + std::to_string (i) + "][" + std::to_string (j) + "]",
                               vf::fmt (m[i][j]) + " +- " + vf::fmt (8 * es * a[i][j]) + " (8 eps of the matrix base type)", vf::fmt (x[i][j]));
                else R ().fail (st + ".accuracy-limited-to-argument-precision", "", "", "");
                return;
            }
        }
}

template <class S> struct AngS { S a; LD c, s; std::string name; };
template <class S> std::vector<AngS<S>> mixed_angles ()
{
    std::vector<AngS<S>> v;
    for (auto& g : angle_set<float> ()) v.push_back ({(S) g.a, g.c, g.s, g.name}); // float values: exact in S = float and S = double
    return v;
}
template <> std::vector<AngS<int>> mixed_angles<int> ()
{
    std::vector<AngS<int>> v;
    for (int k = -7; k <= 7; ++k) v.push_back ({k, cosl ((LD) k), sinl ((LD) k), std::to_string (k) + "rad"});
    return v;
}

template <class T> std::vector<IM> few_current (int n)
{
    std::vector<IM> out;
    for (auto& m : current_matrices (n, false))
        if (m.name == "I" || m.name[0] == 'G' || m.name == "I+7*E01" || m.name == "I+7*E10" || m.name[0] == 'a' || m.name[0] == 'L') out.push_back (m);
    return out;
}

template <class T, class S> void mixed_2d (Tally& tl)
{
    const bool isint = std::is_same<S, int>::value;
    const LD   eT = EPS<T> (), eS = isint ? 0 : (LD) std::numeric_limits<typename std::conditional<std::is_same<S, int>::value, float, S>::type>::epsilon ();
    const LD   ew = std::max (eT, eS);
    const bool strict = !isint && eT < eS;
    const std::string sfx = std::string ("[arg base ") + SN<S>::n () + "]";
    const auto angs = mixed_angles<S> ();
    const auto m2 = few_current<T> (2), m3 = few_current<T> (3);
    IM d3 = im_identity (3), d2 = im_identity (2);
    for (int i = 0; i < 3; ++i)
        for (int j = 0; j < 3; ++j) d3.a[i][j] = 100 + ex::PRIMES[i * 3 + j];
    for (int i = 0; i < 2; ++i)
        for (int j = 0; j < 2; ++j) d2.a[i][j] = 100 + ex::PRIMES[i * 2 + j];
    for (auto& g : angs)
    {
        ++tl.states;
        if (isint) { ++tl.mx_int; if (g.a != 0) ++tl.mx_int_nonzero; }
        else if (strict) ++tl.mx_df; else ++tl.mx_fd;
        LD Rm[4][4] = {{g.c, g.s, 0, 0}, {-g.s, g.c, 0, 0}, {0, 0, 1, 0}, {0, 0, 0, 1}}, Ra[4][4];
        for (int i = 0; i < 4; ++i)
            for (int j = 0; j < 4; ++j) Ra[i][j] = fabsl (Rm[i][j]);
        Matrix22<T> B2 = mk22<T> (d2);
        Matrix33<T> B3 = mk33<T> (d3);
        const Matrix22<T>* r2 = &B2.setRotation (g.a);
        const Matrix33<T>* r3 = &B3.setRotation (g.a);
        tl.trans += 2;
        if (r2 != &B2 || r3 != &B3) R ().fail (site<T> ("Matrix33", "setRotation.returns-this" + sfx), g.name);
        cmp2<T, 2> (tl, site<T> ("Matrix22", "setRotation.entries" + sfx), B2.x, 2, 2, Rm, Ra, ew, eT, strict, [&] () { return "r=" + g.name; });
        cmp2<T, 3> (tl, site<T> ("Matrix33", "setRotation.entries" + sfx), B3.x, 3, 3, Rm, Ra, ew, eT, strict, [&] () { return "r=" + g.name; });
        for (const IM& cm : m2)
        {
            LD Em[4][4], Ea[4][4];
            for (int i = 0; i < 2; ++i)
                for (int j = 0; j < 2; ++j)
                {
                    Em[i][j] = Ea[i][j] = 0;
                    for (int k = 0; k < 2; ++k) { Em[i][j] += cm.a[i][k] * Rm[k][j]; Ea[i][j] += fabsl ((LD) cm.a[i][k]) * Ra[k][j]; }
                }
            Matrix22<T> A = mk22<T> (cm);
            A.rotate (g.a);
            ++tl.trans; ++tl.states;
            cmp2<T, 2> (tl, site<T> ("Matrix22", "rotate=M*setRotation" + sfx), A.x, 2, 2, Em, Ea, ew, eT, strict, [&] () { return "r=" + g.name + " M=" + im_str (cm); });
        }
        for (const IM& cm : m3)
        {
            LD Em[4][4], Ea[4][4];
            for (int i = 0; i < 3; ++i)
                for (int j = 0; j < 3; ++j)
                {
                    Em[i][j] = Ea[i][j] = 0;
                    for (int k = 0; k < 3; ++k) { Em[i][j] += cm.a[i][k] * Rm[k][j]; Ea[i][j] += fabsl ((LD) cm.a[i][k]) * Ra[k][j]; }
                }
            Matrix33<T> A = mk33<T> (cm);
            A.rotate (g.a);
            ++tl.trans; ++tl.states;
            cmp2<T, 3> (tl, site<T> ("Matrix33", "rotate=M*setRotation" + sfx), A.x, 3, 3, Em, Ea, ew, eT, strict, [&] () { return "r=" + g.name + " M=" + im_str (cm); });
        }
    }
}

// Matrix44::setAxisAngle (Vec3<S>, S): S floating only (an integer axis cannot be normalised)
template <class T, class S> void mixed_axis_angle (Tally& tl)
{
    const LD   eT = EPS<T> (), eS = EPS<S> (), ew = std::max (eT, eS);
    const bool strict = eT < eS;
    const std::string sfx = std::string ("[arg base ") + SN<S>::n () + "]";
    const auto angs = mixed_angles<S> ();
    std::vector<std::array<int, 3>> axes;
    for (int i = 0; i < 27; ++i)
    {
        int a[3];
        ex::decode ((uint64_t) i, 3, 3, a, -1);
        if (a[0] || a[1] || a[2]) axes.push_back ({{a[0], a[1], a[2]}});
    }
    axes.push_back ({{2, 3, 5}}); axes.push_back ({{-7, 11, -13}}); axes.push_back ({{3, 0, -4}});
    const Matrix44<T> DIRTY = [] { Matrix44<T> m; for (int i = 0; i < 4; ++i) for (int j = 0; j < 4; ++j) m.x[i][j] = (T) (100 + ex::PRIMES[i * 4 + j]); return m; }();
    for (auto& ax : axes)
        for (auto& g : angs)
        {
            ++tl.states;
            (strict ? tl.mx_df : tl.mx_fd)++;
            LD av[3] = {(LD) ax[0], (LD) ax[1], (LD) ax[2]};
            O3 o = rodrigues (av, g.c, g.s);
            LD Em[4][4] = {{0}}, Ea[4][4] = {{0}};
            for (int i = 0; i < 3; ++i)
                for (int j = 0; j < 3; ++j) { Em[i][j] = o.m[i][j]; Ea[i][j] = o.a[i][j]; }
            Em[3][3] = 1;
            Matrix44<T> B (DIRTY);
            B.setAxisAngle (Vec3<S> ((S) ax[0], (S) ax[1], (S) ax[2]), g.a);
            ++tl.trans;
            cmp2<T, 4> (tl, site<T> ("Matrix44", "setAxisAngle.entries" + sfx), B.x, 4, 4, Em, Ea, ew, eT, strict,
                        [&] () { return "axis=(" + std::to_string (ax[0]) + "," + std::to_string (ax[1]) + "," + std::to_string (ax[2]) + ") angle=" + g.name; });
        }
}

template <class T, class S> void mixed_euler (Tally& total, bool thorough)
{
    const bool isint = std::is_same<S, int>::value;
    const LD   eT = EPS<T> (), eS = isint ? 0 : (LD) std::numeric_limits<typename std::conditional<std::is_same<S, int>::value, float, S>::type>::epsilon ();
    const LD   ew = std::max (eT, eS);
    const bool strict = !isint && eT < eS;
    const std::string sfx = std::string ("[arg base ") + SN<S>::n () + "]";
    auto all = mixed_angles<S> ();
    std::vector<AngS<S>> angs;
    if (isint || thorough) angs = all;
    else
        for (size_t i = 0; i < all.size (); ++i)
        {
            // quick: 97 grid angles k*pi/12: every k = 1 mod 4, the quarter turns k in {0,+-6,12,24,-30}; tiny +-1e-1, +-1e-3, +-1e-8
            bool keep = false;
            if (i < 97) { int k = (int) i - 48; keep = (((k % 4) + 4) % 4 == 1) || k == 0 || k == 6 || k == -6 || k == 12 || k == 24 || k == -30; }
            else { int j = (int) (i - 97) / 2 + 1; keep = (j == 1 || j == 3 || j == 8); }
            if (keep) angs.push_back (all[i]);
        }
    const unsigned NA = (unsigned) angs.size ();
    std::vector<O3> EX, EY, EZ;
    for (auto& g : angs) { EX.push_back (elementary (0, g.c, g.s)); EY.push_back (elementary (1, g.c, g.s)); EZ.push_back (elementary (2, g.c, g.s)); }
    std::vector<IM> cur;
    for (auto& m : current_matrices (4, false))
        if (m.name == "I" || m.name[0] == 'G' || m.name == "I+7*E03") cur.push_back (m);
    std::vector<Matrix44<T>> curT;
    for (auto& c : cur) curT.push_back (mk44<T> (c));
    const Matrix44<T> DIRTY = [] { Matrix44<T> m; for (int i = 0; i < 4; ++i) for (int j = 0; j < 4; ++j) m.x[i][j] = (T) (100 + ex::PRIMES[i * 4 + j]); return m; }();
    const std::string sSet = site<T> ("Matrix44", "setEulerAngles.entries" + sfx), sRot = site<T> ("Matrix44", "rotate=setEulerAngles*M" + sfx);
    std::mutex     mu;
    const uint64_t N = (uint64_t) NA * NA * NA;
    bool complete = vf::parallel_chunks (N, (uint64_t) NA * NA, [&] (uint64_t lo, uint64_t hi, unsigned) {
        Tally tl;
        for (uint64_t idx = lo; idx < hi; ++idx)
        {
            unsigned ix = (unsigned) (idx % NA), iy = (unsigned) ((idx / NA) % NA), iz = (unsigned) (idx / ((uint64_t) NA * NA));
            ++tl.states;
            if (isint) { ++tl.mx_int; if (angs[ix].a != 0 || angs[iy].a != 0 || angs[iz].a != 0) ++tl.mx_int_nonzero; }
            else if (strict) ++tl.mx_df; else ++tl.mx_fd;
            O3 o = o3_mul (o3_mul (EX[ix], EY[iy]), EZ[iz]);
            LD Em[4][4] = {{0}}, Ea[4][4] = {{0}};
            for (int i = 0; i < 3; ++i)
                for (int j = 0; j < 3; ++j) { Em[i][j] = o.m[i][j]; Ea[i][j] = o.a[i][j]; }
            Em[3][3] = 1;
            Vec3<S>     r (angs[ix].a, angs[iy].a, angs[iz].a);
            Matrix44<T> B (DIRTY);
            B.setEulerAngles (r);
            ++tl.trans;
            auto desc = [&] () { return "r=(" + angs[ix].name + ", " + angs[iy].name + ", " + angs[iz].name + ")"; };
            cmp2<T, 4> (tl, sSet, B.x, 4, 4, Em, Ea, ew, eT, strict, desc);
            for (size_t ci = 0; ci < cur.size (); ++ci)
            {
                const IM& cm = cur[ci];
                LD Rm[4][4], Ra[4][4];
                for (int i = 0; i < 3; ++i)
                    for (int j = 0; j < 4; ++j)
                    {
                        Rm[i][j] = Ra[i][j] = 0;
                        for (int k = 0; k < 3; ++k) { Rm[i][j] += o.m[i][k] * cm.a[k][j]; Ra[i][j] += o.a[i][k] * fabsl ((LD) cm.a[k][j]); }
                    }
                for (int j = 0; j < 4; ++j) { Rm[3][j] = (LD) cm.a[3][j]; Ra[3][j] = 0; }
                Matrix44<T> A (curT[ci]);
                A.rotate (r);
                ++tl.trans;
                cmp2<T, 4> (tl, sRot, A.x, 4, 4, Rm, Ra, ew, eT, strict, [&] () { return desc () + " M=" + im_str (cm); });
            }
        }
        std::lock_guard<std::mutex> g (mu);
        total.merge (tl);
    });
    if (!complete) R ().note ("rotations-mixed-base.euler", "cut short by the deadline");
}

// ---- S6: big angles, same base type -------------------------------------------------------------------------------------------
template <class T> void big_angles (Tally& tl)
{
    const LD PI = acosl (-1.0L), e = EPS<T> ();
    struct BA { T a; LD c, s; std::string name; };
    std::vector<BA> angs;
    for (int k = 6; k <= 20; ++k)
        for (int add : {0, 5})
            for (int sg = -1; sg <= 1; sg += 2)
            {
                LD  v = sg * (ldexpl (1, k) + add) * PI / 12;
                BA  g;
                g.a = (T) v;
                g.c = cosl ((LD) g.a); g.s = sinl ((LD) g.a);
                g.name = std::string (sg < 0 ? "-" : "") + "(2^" + std::to_string (k) + "+" + std::to_string (add) + ")*pi/12=" + vf::fmt (g.a);
                angs.push_back (g);
            }
    // small companions for the other two Euler slots
    struct SA { T a; LD c, s; std::string name; };
    std::vector<SA> small;
    for (int k : {5, -7, 0}) { T a = (T) (k * PI / 12); small.push_back ({a, cosl ((LD) a), sinl ((LD) a), std::to_string (k) + "*pi/12"}); }
    auto cmp = [&] (const std::string& st, auto& x, int n, const LD (*m)[4], const LD (*a)[4], const std::string& d) {
        for (int i = 0; i < n; ++i)
            for (int j = 0; j < n; ++j)
            {
                LD df = fabsl ((LD) x[i][j] - m[i][j]);
                if (a[i][j] > 0) tl.w_big = std::max (tl.w_big, (double) (df / (e * a[i][j])));
                if (!(df <= 8 * e * a[i][j])) { R ().fail (st, d + " entry[" + std::to_string (i) + "][" + std::to_string (j) + "]", vf::fmt (m[i][j]) + " +- " + vf::fmt (8 * e * a[i][j]), vf::fmt (x[i][j])); return; }
            }
    };
    const auto m3 = few_current<T> (3);
    const auto m2 = few_current<T> (2);
    std::vector<IM> cur4;
    for (auto& m : current_matrices (4, false))
        if (m.name[0] == 'G') cur4.push_back (m);
    const int AX[5][3] = {{1, 0, 0}, {0, -1, 0}, {1, 1, 0}, {2, 3, 5}, {-7, 11, -13}};
    for (auto& g : angs)
    {
        ++tl.states; ++tl.big;
        if (fabsl ((LD) g.a) > 1e4L) ++tl.big_huge;
        LD Rm[4][4] = {{g.c, g.s, 0, 0}, {-g.s, g.c, 0, 0}, {0, 0, 1, 0}, {0, 0, 0, 1}}, Ra[4][4];
        for (int i = 0; i < 4; ++i)
            for (int j = 0; j < 4; ++j) Ra[i][j] = fabsl (Rm[i][j]);
        Matrix22<T> B2; Matrix33<T> B3;
        B2.setRotation (g.a); B3.setRotation (g.a);
        tl.trans += 2;
        cmp (site<T> ("Matrix22", "setRotation.entries.angle-beyond-4pi"), B2.x, 2, Rm, Ra, "r=" + g.name);
        cmp (site<T> ("Matrix33", "setRotation.entries.angle-beyond-4pi"), B3.x, 3, Rm, Ra, "r=" + g.name);
        for (const IM& cm : m2)
        {
            LD Em[4][4], Ea[4][4];
            for (int i = 0; i < 2; ++i)
                for (int j = 0; j < 2; ++j)
                {
                    Em[i][j] = Ea[i][j] = 0;
                    for (int k = 0; k < 2; ++k) { Em[i][j] += cm.a[i][k] * Rm[k][j]; Ea[i][j] += fabsl ((LD) cm.a[i][k]) * Ra[k][j]; }
                }
            Matrix22<T> A = mk22<T> (cm);
            A.rotate (g.a);
            ++tl.trans;
            cmp (site<T> ("Matrix22", "rotate=M*setRotation.angle-beyond-4pi"), A.x, 2, Em, Ea, "r=" + g.name + " M=" + im_str (cm));
        }
        for (const IM& cm : m3)
        {
            LD Em[4][4], Ea[4][4];
            for (int i = 0; i < 3; ++i)
                for (int j = 0; j < 3; ++j)
                {
                    Em[i][j] = Ea[i][j] = 0;
                    for (int k = 0; k < 3; ++k) { Em[i][j] += cm.a[i][k] * Rm[k][j]; Ea[i][j] += fabsl ((LD) cm.a[i][k]) * Ra[k][j]; }
                }
            Matrix33<T> A = mk33<T> (cm);
            A.rotate (g.a);
            ++tl.trans;
            cmp (site<T> ("Matrix33", "rotate=M*setRotation.angle-beyond-4pi"), A.x, 3, Em, Ea, "r=" + g.name + " M=" + im_str (cm));
        }
        for (auto& ax : AX)
        {
            LD av[3] = {(LD) ax[0], (LD) ax[1], (LD) ax[2]};
            O3 o = rodrigues (av, g.c, g.s);
            LD Em[4][4] = {{0}}, Ea[4][4] = {{0}};
            for (int i = 0; i < 3; ++i)
                for (int j = 0; j < 3; ++j) { Em[i][j] = o.m[i][j]; Ea[i][j] = o.a[i][j]; }
            Em[3][3] = 1;
            Matrix44<T> B;
            B.setAxisAngle (Vec3<T> ((T) ax[0], (T) ax[1], (T) ax[2]), g.a);
            ++tl.trans;
            cmp (site<T> ("Matrix44", "setAxisAngle.entries.angle-beyond-4pi"), B.x, 4, Em, Ea, "axis=(" + std::to_string (ax[0]) + "," + std::to_string (ax[1]) + "," + std::to_string (ax[2]) + ") angle=" + g.name);
        }
        // Euler: the big angle in each slot in turn
        for (int slot = 0; slot < 3; ++slot)
            for (auto& s1 : small)
                for (auto& s2 : small)
                {
                    T  av[3]; LD cc[3], ss[3]; std::string nm[3];
                    int o1 = (slot + 1) % 3, o2 = (slot + 2) % 3;
                    av[slot] = g.a; cc[slot] = g.c; ss[slot] = g.s; nm[slot] = g.name;
                    av[o1] = s1.a; cc[o1] = s1.c; ss[o1] = s1.s; nm[o1] = s1.name;
                    av[o2] = s2.a; cc[o2] = s2.c; ss[o2] = s2.s; nm[o2] = s2.name;
                    O3 o = o3_mul (o3_mul (elementary (0, cc[0], ss[0]), elementary (1, cc[1], ss[1])), elementary (2, cc[2], ss[2]));
                    LD Em[4][4] = {{0}}, Ea[4][4] = {{0}};
                    for (int i = 0; i < 3; ++i)
                        for (int j = 0; j < 3; ++j) { Em[i][j] = o.m[i][j]; Ea[i][j] = o.a[i][j]; }
                    Em[3][3] = 1;
                    ++tl.states;
                    Vec3<T>     r (av[0], av[1], av[2]);
                    Matrix44<T> B;
                    B.setEulerAngles (r);
                    ++tl.trans;
                    const std::string d = "r=(" + nm[0] + ", " + nm[1] + ", " + nm[2] + ")";
                    cmp (site<T> ("Matrix44", "setEulerAngles.entries.angle-beyond-4pi"), B.x, 4, Em, Ea, d);
                    for (const IM& cm : cur4)
                    {
                        LD Rm4[4][4], Ra4[4][4];
                        for (int i = 0; i < 3; ++i)
                            for (int j = 0; j < 4; ++j)
                            {
                                Rm4[i][j] = Ra4[i][j] = 0;
                                for (int k = 0; k < 3; ++k) { Rm4[i][j] += o.m[i][k] * cm.a[k][j]; Ra4[i][j] += o.a[i][k] * fabsl ((LD) cm.a[k][j]); }
                            }
                        for (int j = 0; j < 4; ++j) { Rm4[3][j] = (LD) cm.a[3][j]; Ra4[3][j] = 0; }
                        Matrix44<T> A = mk44<T> (cm);
                        A.rotate (r);
                        ++tl.trans;
                        cmp (site<T> ("Matrix44", "rotate=setEulerAngles*M.angle-beyond-4pi"), A.x, 4, Rm4, Ra4, d + " M=" + im_str (cm));
                    }
                }
    }
}

} // namespace

void run_ext ()
{
    const bool th = R ().thorough ();
    if (R ().stage ("aliased-arguments"))
    {
        Tally tl;
        aliased<float> (tl); aliased<double> (tl);
        R ().add ("states", tl.states); R ().add ("transitions", tl.trans); R ().add ("evaluations", tl.states);
        R ().cls ("alias.argument-is-slot-of-row-0", tl.alias_row[0]);
        R ().cls ("alias.argument-is-slot-of-row-1", tl.alias_row[1]);
        R ().cls ("alias.argument-is-slot-of-row-2", tl.alias_row[2]);
        R ().cls ("alias.current-matrix-non-affine", tl.alias_nonaffine);
        R ().sample ("M33f m(1,2,3, 4,5,6, 7,8,9); m.shear(m[1][0]) == setShear(4)*m : row 1 = (4+4*1, 5+4*2, 6+4*3)");
        R ().stage_done ("Matrix33::shear(const S&) / setShear(const S&) with the argument bound to each of the 9 slots of every current matrix of the alphabet (identity, I+7E_ij, non-affine primes, all lattice affine); exact; float and double");
    }
    if (R ().stage ("rotations-mixed-base"))
    {
        Tally tl;
        mixed_2d<double, float> (tl); mixed_2d<float, double> (tl); mixed_2d<float, int> (tl); mixed_2d<double, int> (tl);
        mixed_axis_angle<double, float> (tl); mixed_axis_angle<float, double> (tl);
        bool cut = false;
        mixed_euler<double, float> (tl, th);  cut = cut || R ().out_of_time ();
        mixed_euler<float, double> (tl, th);  cut = cut || R ().out_of_time ();
        mixed_euler<float, int> (tl, th);     cut = cut || R ().out_of_time ();
        mixed_euler<double, int> (tl, th);    cut = cut || R ().out_of_time ();
        R ().add ("states", tl.states); R ().add ("transitions", tl.trans); R ().add ("evaluations", tl.states);
        R ().cls ("mixed-base.matrix-double.argument-float", tl.mx_df);
        R ().cls ("mixed-base.matrix-float.argument-double", tl.mx_fd);
        R ().cls ("mixed-base.argument-int", tl.mx_int);
        R ().cls ("mixed-base.argument-int.some-angle-nonzero", tl.mx_int_nonzero);
        R ().note_max ("mixed base: worst passing entry error / (max(eps_T,eps_S) * Sum|terms|)  (bound 8)", tl.w_weak);
        R ().note_max ("mixed base, Matrix<double> with float arguments: worst entry error / (eps_double * Sum|terms|)  (bound 8)", tl.w_strict);
        R ().sample ("Matrix33<double>().setRotation(0.5f): entries cos/sin(0.5) to 8 eps_float (tier 1) and to 8 eps_double (tier 2)");
        R ().sample ("Matrix33<float>().setRotation(1) [S=int]: rotation by 1 radian");
        const std::string bound = std::string ("(T,S) in {(double,float),(float,double)}: Matrix22/33 setRotation+rotate on 127 float-valued angles x current matrices; Matrix44::setAxisAngle on 29 axes x 127 angles; "
                                               "setEulerAngles + rotate (5 current matrices) on ") + (th ? "127^3" : "36^3") + " angle triples; S=int: angles -7..7 rad, 15^3 Euler triples; two-tier tolerance";
        if (cut) R ().stage_partial (bound); else R ().stage_done (bound);
    }
    if (R ().stage ("rotations-big-angles"))
    {
        Tally tl;
        big_angles<float> (tl); big_angles<double> (tl);
        R ().add ("states", tl.states); R ().add ("transitions", tl.trans); R ().add ("evaluations", tl.states);
        R ().cls ("angle.beyond-4pi", tl.big);
        R ().cls ("angle.beyond-1e4-rad", tl.big_huge);
        R ().note_max ("big angles: worst entry error / (eps*Sum|terms|)  (bound 8)", tl.w_big);
        R ().stage_done ("60 angles +-(2^k [+5])*pi/12, k=6..20: Matrix22/33 setRotation+rotate, Matrix44::setAxisAngle (5 axes), setEulerAngles + rotate with the big angle in each slot x 3^2 companions; float and double");
    }
}

} // namespace c09
