// Boundary subset of the 2^32 float bit patterns for the float->half conversion (shared by C01 and C02:
// used in the quick tier wherever a *full* 2^32 sweep of an additional build variant / ambient state is
// reserved for the thorough tier). Complete enumeration of a stated finite set:
//   A  every finite half magnitude h (0 .. 0x7c00) and every midpoint between adjacent half magnitudes
//      (including the overflow midpoint 65520 between 65504 and "65536"), each +-2 float ulps, both signs
//      -> every decision boundary of round-to-nearest-even with the floats on both sides of it;
//   B  every float exponent (0..255) x boundary significands (0, every single bit, every run of low ones, every
//      run of high ones, single bit +-1, the half-tie patterns 0x0fff/0x1000/0x1001/0x1fff/0x2000/0x2001/0x3000,
//      the overflow-threshold patterns 0x7fe000/0x7fefff/0x7ff000/0x7ff001, alternating bits) x both signs
//      -> zeros, float subnormals, every NaN payload bit, infinities, FLT_MAX, the flush region;
//   C  +-3 ulps around every literal threshold of half.h's imath_float_to_half (0x38800000, 0x477fefff,
//      0x33000001, 0x7f800000) and around 0 / FLT_MIN / the last NaN, both signs.
// The set is sorted and duplicate-free.
#pragma once
#include <algorithm>
#include <cstdint>
#include <cstring>
#include <vector>

namespace c01b {

inline std::vector<uint32_t> boundary_floats ()
{
    std::vector<uint32_t> v;
    auto both = [&] (uint32_t ab) { if (ab <= 0x7fffffffu) { v.push_back (ab); v.push_back (ab | 0x80000000u); } };
    auto around = [&] (uint32_t ab, int d) { for (int k = -d; k <= d; ++k) { int64_t x = (int64_t) ab + k; if (x >= 0 && x <= 0x7fffffffLL) both ((uint32_t) x); } };
    // A: half values and midpoints. A half magnitude pattern h denotes m*2^-24 (e==0) or (1024+m)*2^(e-25); both the
    // value and the midpoint to the next pattern have <= 12 significant bits, hence are floats: build their float
    // bit patterns directly from the definition of binary32 (no library code, no rounding).
    auto float_bits_of = [] (uint64_t num, int exp2) -> uint32_t { // num * 2^exp2, num < 2^24, result a normal float or 0
        if (!num) return 0;
        int top = 63 - __builtin_clzll (num);              // num = 1.xxx * 2^top
        uint32_t frac = (uint32_t) ((num << (23 - top)) & 0x7fffff); // top <= 23
        return ((uint32_t) (top + exp2 + 127) << 23) | frac;
    };
    for (uint32_t h = 0; h <= 0x7c00; ++h)
    {
        auto num_exp = [] (uint32_t p, uint64_t& n, int& e) { uint32_t ee = p >> 10, m = p & 0x3ff; if (ee == 0) { n = m; e = -24; } else { n = 1024 + m; e = (int) ee - 25; } };
        uint64_t n0, n1; int e0, e1;
        num_exp (h, n0, e0);
        around (float_bits_of (n0, e0), 2);
        if (h < 0x7c00)
        {
            num_exp (h + 1, n1, e1);
            // midpoint = (n0*2^e0 + n1*2^e1)/2 ; e1 >= e0, e1 - e0 <= 1
            uint64_t s = n0 + (n1 << (e1 - e0));
            around (float_bits_of (s, e0 - 1), 2);
        }
    }
    // B
    std::vector<uint32_t> ms = {0, 0x2aaaaa, 0x555555, 0x000fff, 0x001000, 0x001001, 0x001fff, 0x002000, 0x002001, 0x003000,
                                0x7fe000, 0x7fefff, 0x7ff000, 0x7ff001, 0x7fdfff, 0x7fe001};
    for (int k = 0; k < 23; ++k)
    {
        ms.push_back (1u << k); ms.push_back ((1u << k) - 1); ms.push_back (((1u << k) + 1) & 0x7fffff);
        ms.push_back (0x7fffffu & ~((1u << k) - 1)); ms.push_back ((2u << k) - 1);
    }
    for (uint32_t e = 0; e < 256; ++e)
        for (uint32_t m : ms) both ((e << 23) | (m & 0x7fffff));
    // C
    for (uint32_t c : {0u, 0x00800000u, 0x33000001u, 0x38800000u, 0x477fefffu, 0x7f800000u, 0x7fffffffu}) around (c, 3);
    std::sort (v.begin (), v.end ());
    v.erase (std::unique (v.begin (), v.end ()), v.end ());
    return v;
}

} // namespace c01b
