// C02 — every half-conversion back-end and language mode returns identical bits.
//
// This program is the comparing half of the C02 check. tools/c02_driver.py has compiled
// harness/c02_block.c from the current tree into one shared object per build configuration
// (compiler x language standard x back-end selection x -O level) and hands the list over in
// --configs. Every object is dlopen'ed here and swept over *all* 2^16 half patterns and *all*
// 2^32 float patterns; its output is compared, block by block and bit for bit, with the output
// of the reference configuration (first line of the list: the repository's default build, the
// one C01 decides against the definition of binary16).
//
// The only tolerance is the one the property states: on an F16C object a NaN *input* need only
// produce a NaN of the same sign (the instruction quiets signalling NaNs / keeps other payload
// bits than the table does). Every non-NaN input is compared bitwise on F16C objects as well.
//
// Second part (stage generator-table): the output of the repository's table generator
// toFloat.cpp (compiled and run by the python driver) and the checked-in toFloat.h are
// tokenised here; both must consist of the same 65536 hex words in the same order, and the
// words must be the binary16 decoding of their index (engine/halfref.hpp).
//
// Build variant IMATH_HALF_ENABLE_FP_EXCEPTIONS ("fpexc" objects): compared like every other object; objects marked
// boundary-only are swept over the boundary subset of float inputs (c01_boundary.hpp) instead of all 2^32.
//
// Ambient state (stage ambient-states): the conversions are functions of the bit pattern, so every object must return
// the reference bits under every non-default rounding mode and under MXCSR DAZ / FTZ / DAZ+FTZ as well (the correct
// answer does not depend on them: float subnormals become signed zeros anyway, half subnormals are normal floats; the
// F16C instructions ignore DAZ for half sources and FTZ for half results). All 2^16 half inputs of every object and
// entry point; all 2^32 float inputs of the software objects marked "ambient" (the F16C objects' float sweep under the
// three rounding modes is stage f16c-ambient-rounding-modes).
#include "../engine/halfref.hpp"
#include "../engine/report.hpp"
#include "c01_boundary.hpp"
#include <cfenv>
#include <dlfcn.h>
#include <fstream>
#include <xmmintrin.h>

using namespace vf;

typedef void (*f2h_fn) (uint64_t, uint64_t, uint16_t*);
typedef void (*h2f_fn) (uint64_t, uint64_t, uint32_t*);
typedef const char* (*desc_fn) (void);

struct Cfg
{
    std::string name, kind, path, expect_desc, desc;
    bool        f16c = false, cxx = false, fpexc = false, boundary_only = false, ambient = false;
    f2h_fn      f2h = nullptr, f2h_class = nullptr;
    h2f_fn      h2f = nullptr, h2f_class = nullptr;
    // measured tallies
    std::atomic<long long> cmp_bitwise{0}, cmp_nan_loose{0};
};

// non-default ambient floating-point states
struct Ambient { const char* name; int round; unsigned mxcsr; bool denormal_mode; };
static const Ambient AMB[6] = {{"FE_UPWARD", FE_UPWARD, 0, false},        {"FE_DOWNWARD", FE_DOWNWARD, 0, false}, {"FE_TOWARDZERO", FE_TOWARDZERO, 0, false},
                               {"MXCSR-DAZ", FE_TONEAREST, 0x0040, true}, {"MXCSR-FTZ", FE_TONEAREST, 0x8000, true}, {"MXCSR-DAZ+FTZ", FE_TONEAREST, 0x8040, true}};
static inline void ambient_set (const Ambient& a) { fesetround (a.round); if (a.mxcsr) _mm_setcsr (_mm_getcsr () | a.mxcsr); }
static inline void ambient_reset () { _mm_setcsr (_mm_getcsr () & ~0x8040u); fesetround (FE_TONEAREST); }

static std::string hx (uint32_t v, int w) { char b[16]; snprintf (b, sizeof b, "0x%0*x", w, v); return b; }
static bool is_nan16 (uint16_t h) { return (h & 0x7c00) == 0x7c00 && (h & 0x3ff); }
static bool is_nan32 (uint32_t u) { return (u & 0x7fffffffu) > 0x7f800000u; }

// failures are reported through R().fail at most CAP times per (site, block); the exact number
// of mismatching inputs per site is kept in a counter.
static const int CAP = 8;
static std::mutex                       g_mu;
static std::map<std::string, long long> g_mismatch;
static void mismatch_total (const std::string& site, long long n)
{
    if (!n) return;
    std::lock_guard<std::mutex> g (g_mu);
    g_mismatch[site] += n;
}

// ---- tokeniser for the table texts: hex words outside comments ------------------------------
static bool read_file (const std::string& p, std::string& out)
{
    std::ifstream f (p.c_str (), std::ios::binary);
    if (!f) return false;
    std::ostringstream ss;
    ss << f.rdbuf ();
    out = ss.str ();
    return true;
}
static std::vector<uint64_t> hex_words (const std::string& s)
{
    std::vector<uint64_t> w;
    size_t i = 0, n = s.size ();
    while (i < n)
    {
        if (s[i] == '/' && i + 1 < n && s[i + 1] == '/') { while (i < n && s[i] != '\n') ++i; continue; }
        if (s[i] == '/' && i + 1 < n && s[i + 1] == '*')
        {
            i += 2;
            while (i + 1 < n && !(s[i] == '*' && s[i + 1] == '/')) ++i;
            i += 2;
            continue;
        }
        if (s[i] == '0' && i + 1 < n && (s[i + 1] == 'x' || s[i + 1] == 'X'))
        {
            size_t   j = i + 2;
            uint64_t v = 0;
            int      d = 0;
            while (j < n && isxdigit ((unsigned char) s[j]) && d < 16)
            {
                char c = s[j];
                v      = v * 16 + (uint64_t) (c <= '9' ? c - '0' : (c | 32) - 'a' + 10);
                ++j; ++d;
            }
            if (d) { w.push_back (v); i = j; continue; }
        }
        ++i;
    }
    return w;
}

int main (int argc, char** argv)
{
    R ().property = "C02";
    R ().parse (argc, argv);
    std::string cfg_list, gen_path, hdr_path;
    for (int i = 1; i + 1 < argc; ++i)
    {
        std::string a = argv[i];
        if (a == "--configs") cfg_list = argv[i + 1];
        if (a == "--gen") gen_path = argv[i + 1];
        if (a == "--hdr") hdr_path = argv[i + 1];
    }

    // ---- load the configurations ------------------------------------------------------------
    std::vector<Cfg*> cfgs;
    {
        std::ifstream f (cfg_list.c_str ());
        std::string   line;
        while (std::getline (f, line))
        {
            if (line.empty ()) continue;
            std::vector<std::string> col;
            size_t p = 0;
            for (;;)
            {
                size_t q = line.find ('\t', p);
                col.push_back (line.substr (p, q == std::string::npos ? q : q - p));
                if (q == std::string::npos) break;
                p = q + 1;
            }
            if (col.size () != 5) { fprintf (stderr, "c02_driver: bad config line: %s\n", line.c_str ()); return 3; }
            Cfg* c = new Cfg;
            c->name = col[0]; c->kind = col[1]; c->path = col[2]; c->expect_desc = col[3];
            c->f16c = c->kind == "f16c";
            {
                const std::string at = "," + col[4] + ",";
                c->fpexc         = at.find (",fpexc,") != std::string::npos;
                c->boundary_only = at.find (",boundary-only,") != std::string::npos;
                c->ambient       = at.find (",ambient,") != std::string::npos;
                if (c->ambient && c->f16c) { fprintf (stderr, "c02_driver: the float-input ambient sweep is for software objects (%s)\n", c->name.c_str ()); return 3; }
            }
            void* h = dlopen (c->path.c_str (), RTLD_NOW | RTLD_LOCAL);
            if (!h) { fprintf (stderr, "c02_driver: dlopen %s: %s\n", c->path.c_str (), dlerror ()); return 3; }
            c->f2h       = (f2h_fn) dlsym (h, "f2h_block");
            c->h2f       = (h2f_fn) dlsym (h, "h2f_block");
            c->f2h_class = (f2h_fn) dlsym (h, "f2h_block_class");
            c->h2f_class = (h2f_fn) dlsym (h, "h2f_block_class");
            desc_fn d    = (desc_fn) dlsym (h, "c02_describe");
            if (!c->f2h || !c->h2f || !d) { fprintf (stderr, "c02_driver: %s lacks the block entry points\n", c->path.c_str ()); return 3; }
            c->desc = d ();
            c->cxx  = c->desc.find ("lang=c++") == 0;
            if (c->desc != c->expect_desc)
            {   // the object is not the configuration its name says: machinery failure, not a verdict
                fprintf (stderr, "c02_driver: configuration %s was compiled as [%s], expected [%s]\n", c->name.c_str (), c->desc.c_str (), c->expect_desc.c_str ());
                return 3;
            }
            if (c->cxx && (!c->f2h_class || !c->h2f_class)) { fprintf (stderr, "c02_driver: %s lacks the class entry points\n", c->path.c_str ()); return 3; }
            cfgs.push_back (c);
        }
    }
    if (cfgs.size () < 2) { fprintf (stderr, "c02_driver: need at least two configurations\n"); return 3; }
    Cfg& ref = *cfgs[0];
    if (ref.f16c) { fprintf (stderr, "c02_driver: the reference configuration must not be an F16C one\n"); return 3; }
    const bool have_f16c_cpu = __builtin_cpu_supports ("f16c");
    for (Cfg* c : cfgs)
        if (c->f16c && !have_f16c_cpu) { fprintf (stderr, "c02_driver: F16C object given but the CPU lacks F16C\n"); return 3; }
    R ().note ("reference_configuration", ref.name + " [" + ref.desc + "]");
    {
        std::string all;
        for (Cfg* c : cfgs) all += (all.empty () ? "" : " ") + c->name;
        R ().note ("configurations", all);
        R ().add ("configurations", (long long) cfgs.size ());
    }

    // ---- stage 1: generator output == toFloat.h == definition ---------------------------------
    if (R ().stage ("generator-table"))
    {
        std::string gen, hdr;
        if (!read_file (gen_path, gen) || !read_file (hdr_path, hdr)) { fprintf (stderr, "c02_driver: cannot read %s / %s\n", gen_path.c_str (), hdr_path.c_str ()); return 3; }
        std::vector<uint64_t> gw = hex_words (gen), hw = hex_words (hdr);
        if (gw.size () != 65536) R ().fail ("toFloat.cpp-output.word-count", gen_path, "65536 hex words", std::to_string (gw.size ()));
        if (hw.size () != 65536) R ().fail ("toFloat.h.word-count", hdr_path, "65536 hex words", std::to_string (hw.size ()));
        size_t    n = std::min (gw.size (), hw.size ());
        long long nan = 0, sub = 0, other = 0;
        for (size_t i = 0; i < n && i < 65536; ++i)
            if (gw[i] != hw[i]) R ().fail ("toFloat.h != toFloat.cpp output", "word " + hx ((uint32_t) i, 4), hx ((uint32_t) gw[i], 8) + " (generator)", hx ((uint32_t) hw[i], 8) + " (toFloat.h)");
        for (size_t i = 0; i < 65536; ++i)
        {
            uint32_t want = href::h2f_ref ((uint16_t) i);
            if (i < hw.size () && hw[i] != want) R ().fail ("toFloat.h != binary16 definition", "word " + hx ((uint32_t) i, 4), hx (want, 8), hx ((uint32_t) hw[i], 8));
            if (i < gw.size () && gw[i] != want) R ().fail ("toFloat.cpp output != binary16 definition", "word " + hx ((uint32_t) i, 4), hx (want, 8), hx ((uint32_t) gw[i], 8));
            if (is_nan16 ((uint16_t) i)) ++nan;
            else if ((i & 0x7c00) == 0 && (i & 0x3ff)) ++sub;
            else ++other;
        }
        R ().add ("states", 65536);
        R ().add ("transitions", 65536 * 3);
        R ().add ("table_words_compared", (long long) n);
        R ().cls ("table.nan-entries", nan);
        R ().cls ("table.subnormal-entries(generator renormalisation loop)", sub);
        R ().cls ("table.other-entries.generic", other);
        if (hw.size () > 1) R ().sample ("toFloat.h word 0x0001 = " + hx ((uint32_t) hw[1], 8) + ", generator prints " + (gw.size () > 1 ? hx ((uint32_t) gw[1], 8) : "?"));
        R ().stage_done ("65536 words of toFloat.h == 65536 words printed by toFloat.cpp == binary16 decoding of the index");
    }

    // classes of comparisons, by configuration (measured, not assumed)
    auto branch_differs_from_ref = [&] (const Cfg& c) { return c.kind != ref.kind || c.cxx != ref.cxx || c.fpexc != ref.fpexc; };
    std::atomic<long long> nontrivial (0);

    // ---- stage 2: all 2^16 half -> float, every configuration ---------------------------------
    if (R ().stage ("half-to-float-all-configs"))
    {
        std::vector<uint32_t> rb (65536), b (65536);
        ref.h2f (0, 65536, rb.data ());
        long long states = 65536, trans = 0;
        auto compare = [&] (Cfg& c, const char* what, h2f_fn fn) {
            fn (0, 65536, b.data ());
            const std::string site = std::string (what) + "[" + c.name + "] != reference", site_nan = std::string (what) + "[" + c.name + "].nan-sign-or-nan-ness != reference";
            long long bad = 0, badn = 0;
            for (uint32_t i = 0; i < 65536; ++i)
            {
                if (c.f16c && is_nan16 ((uint16_t) i))
                {
                    ++c.cmp_nan_loose;
                    if (!is_nan32 (b[i]) || !is_nan32 (rb[i]) || ((b[i] ^ rb[i]) >> 31))
                        if (++badn <= 64) R ().fail (site_nan, "half " + hx (i, 4), hx (rb[i], 8) + " (any NaN of this sign)", hx (b[i], 8));
                }
                else
                {
                    ++c.cmp_bitwise;
                    if (b[i] != rb[i])
                        if (++bad <= 64) R ().fail (site, "half " + hx (i, 4), hx (rb[i], 8), hx (b[i], 8));
                }
            }
            mismatch_total (site, bad); mismatch_total (site_nan, badn);
            trans += 65536;
            if (branch_differs_from_ref (c) || fn == c.h2f_class) nontrivial += 65536;
        };
        for (Cfg* c : cfgs)
        {
            if (c != &ref) { compare (*c, "h2f", c->h2f); states += 65536; }
            if (c->cxx) { compare (*c, "h2f.class", c->h2f_class); states += 65536; }
        }
        // triage aid: an input on which *every* configuration that does not read the table (bit-shift and F16C
        // branches) returns one and the same value that differs from the reference points at the reference's
        // own table, not at the others
        {
            std::vector<uint32_t> agreed (65536);
            std::vector<uint8_t>  state (65536, 0); // 0 none yet, 1 all equal so far, 2 disagreement among them
            int nontable = 0;
            for (Cfg* c : cfgs)
            {
                if (c->kind == "table") continue;
                ++nontable;
                c->h2f (0, 65536, b.data ());
                for (uint32_t i = 0; i < 65536; ++i)
                {
                    if (c->f16c && is_nan16 ((uint16_t) i)) continue;
                    if (state[i] == 0) { agreed[i] = b[i]; state[i] = 1; }
                    else if (state[i] == 1 && agreed[i] != b[i]) state[i] = 2;
                }
            }
            if (nontable >= 2)
                for (uint32_t i = 0; i < 65536; ++i)
                    if (state[i] == 1 && agreed[i] != rb[i])
                        R ().fail ("h2f[reference " + ref.name + "] != every configuration that does not read the lookup table", "half " + hx (i, 4), hx (agreed[i], 8) + " (all of them)", hx (rb[i], 8));
        }
        R ().add ("states", states);
        R ().add ("transitions", trans);
        R ().add ("evaluations", states);
        R ().sample ("half 0x0001 -> " + hx (rb[1], 8) + " in " + ref.name);
        R ().sample ("half 0x7c01 (sNaN) -> " + hx (rb[0x7c01], 8) + " in " + ref.name);
        R ().stage_done ("all 65536 half patterns x " + std::to_string (cfgs.size ()) + " configurations (C function; C++ class path where the language is C++) vs " + ref.name);
    }

    // ---- stage 3: all 2^32 float -> half, every configuration ----------------------------------
    if (R ().stage ("float-to-half-all-configs"))
    {
        const uint64_t N = 1ull << 32, CH = 1ull << 18;
        std::atomic<long long> done (0), trans (0), states (0);
        // one call site per (configuration, entry point)
        struct Job { Cfg* c; f2h_fn fn; std::string site, site_nan; bool nontriv; bool counts_state; };
        std::vector<Job> jobs;
        for (Cfg* c : cfgs)
        {
            if (c->boundary_only) continue; // stage float-to-half-boundary-subset
            if (c != &ref) jobs.push_back ({c, c->f2h, "f2h[" + c->name + "] != reference", "f2h[" + c->name + "].nan-sign-or-nan-ness != reference", branch_differs_from_ref (*c), true});
            if (c->cxx) jobs.push_back ({c, c->f2h_class, "f2h.class[" + c->name + "] != reference", "f2h.class[" + c->name + "].nan-sign-or-nan-ness != reference", true, true});
        }
        bool complete = parallel_chunks (N, CH, [&] (uint64_t lo, uint64_t hi, unsigned) {
            static thread_local std::vector<uint16_t> rb, b;
            rb.resize (CH); b.resize (CH);
            const size_t n = (size_t) (hi - lo);
            ref.f2h (lo, hi, rb.data ());
            // does this block contain NaN inputs? (|bits| > 0x7f800000)
            auto has_nan = [] (uint64_t l, uint64_t h) { return (h - 1 > 0x7f800000ull && l <= 0x7fffffffull) || (h - 1 > 0xff800000ull); };
            const bool nan_block = has_nan (lo, hi);
            long long  l_trans = 0, l_nontriv = 0, l_states = (long long) n;
            for (Job& j : jobs)
            {
                j.fn (lo, hi, b.data ());
                l_trans += (long long) n;
                if (j.nontriv) l_nontriv += (long long) n;
                if (j.counts_state) l_states += (long long) n;
                if (!(j.c->f16c && nan_block))
                {
                    j.c->cmp_bitwise += (long long) n;
                    if (memcmp (b.data (), rb.data (), n * 2) == 0) continue;
                    long long bad = 0;
                    for (size_t k = 0; k < n; ++k)
                        if (b[k] != rb[k])
                            if (++bad <= CAP) R ().fail (j.site, "float " + hx ((uint32_t) (lo + k), 8), hx (rb[k], 4), hx (b[k], 4));
                    mismatch_total (j.site, bad);
                }
                else
                {
                    long long bad = 0, badn = 0, nb = 0, nn = 0;
                    for (size_t k = 0; k < n; ++k)
                    {
                        uint32_t u = (uint32_t) (lo + k);
                        if (is_nan32 (u))
                        {
                            ++nn;
                            if (!is_nan16 (b[k]) || !is_nan16 (rb[k]) || ((b[k] ^ rb[k]) & 0x8000))
                                if (++badn <= CAP) R ().fail (j.site_nan, "float " + hx (u, 8), hx (rb[k], 4) + " (any NaN of this sign)", hx (b[k], 4));
                        }
                        else
                        {
                            ++nb;
                            if (b[k] != rb[k])
                                if (++bad <= CAP) R ().fail (j.site, "float " + hx (u, 8), hx (rb[k], 4), hx (b[k], 4));
                        }
                    }
                    j.c->cmp_bitwise += nb; j.c->cmp_nan_loose += nn;
                    mismatch_total (j.site, bad); mismatch_total (j.site_nan, badn);
                }
            }
            trans += l_trans; nontrivial += l_nontriv; states += l_states;
            done += (long long) n;
        });
        R ().add ("states", states.load ());
        R ().add ("transitions", trans.load ());
        R ().add ("evaluations", states.load ());
        R ().add ("float_inputs_swept_per_configuration", done.load ());
        uint16_t s1[1], s2[1];
        ref.f2h (0x33000001u, 0x33000002u, s1);
        ref.f2h (0x477fefffu, 0x477ff000u, s2);
        R ().sample ("float 0x33000001 -> " + hx (s1[0], 4) + ", float 0x477fefff -> " + hx (s2[0], 4) + " in " + ref.name);
        size_t nfull = 0;
        for (Cfg* c : cfgs) if (!c->boundary_only) ++nfull;
        if (complete) R ().stage_done ("all 2^32 float patterns x " + std::to_string (nfull) + " configurations (C function; C++ constructor where the language is C++) vs " + ref.name);
        else R ().stage_partial (std::to_string (done.load ()) + " of 2^32 float patterns (all configurations on each)");
    }

    // ---- stage 4: the F16C back-end must round to nearest-even whatever the AMBIENT rounding mode is -------------
    // (half.h passes an explicit rounding immediate; the software paths are integer code). Every F16C object is swept
    // over all 2^32 inputs again under fesetround(FE_UPWARD / FE_DOWNWARD / FE_TOWARDZERO), set in the worker thread
    // around the call only; the reference block is computed under FE_TONEAREST.
    {
        std::vector<Cfg*> hw;
        for (Cfg* c : cfgs) if (c->f16c) hw.push_back (c);
        if (!hw.empty () && R ().stage ("f16c-ambient-rounding-modes"))
        {
            const uint64_t N = 1ull << 32, CH = 1ull << 18;
            static const int   MODES[3] = {FE_UPWARD, FE_DOWNWARD, FE_TOWARDZERO};
            static const char* MN[3]    = {"FE_UPWARD", "FE_DOWNWARD", "FE_TOWARDZERO"};
            std::atomic<long long> tr (0), done (0);
            bool complete = parallel_chunks (N, CH, [&] (uint64_t lo, uint64_t hi, unsigned) {
                static thread_local std::vector<uint16_t> rb, b;
                rb.resize (CH); b.resize (CH);
                const size_t n = (size_t) (hi - lo);
                ref.f2h (lo, hi, rb.data ());
                for (Cfg* c : hw)
                    for (int m = 0; m < 3; ++m)
                    {
                        fesetround (MODES[m]);
                        c->f2h (lo, hi, b.data ());
                        fesetround (FE_TONEAREST);
                        tr += (long long) n;
                        if (memcmp (b.data (), rb.data (), n * 2) == 0) continue;
                        long long bad = 0;
                        const std::string site = "f2h[" + c->name + "].under-" + MN[m] + " != reference";
                        for (size_t k = 0; k < n; ++k)
                        {
                            uint32_t u = (uint32_t) (lo + k);
                            bool     differs = is_nan32 (u) ? (!is_nan16 (b[k]) || ((b[k] ^ rb[k]) & 0x8000)) : (b[k] != rb[k]);
                            if (differs && ++bad <= CAP) R ().fail (site, "float " + hx (u, 8), hx (rb[k], 4), hx (b[k], 4));
                        }
                        mismatch_total (site, bad);
                    }
                done += (long long) n;
            });
            R ().add ("transitions", tr.load ());
            R ().add ("states", tr.load ());
            R ().cls ("branch.f16c.non-default-ambient-rounding-mode", tr.load ());
            if (complete) R ().stage_done ("all 2^32 float patterns x " + std::to_string (hw.size ()) + " F16C configurations x {FE_UPWARD, FE_DOWNWARD, FE_TOWARDZERO} vs " + ref.name + " under FE_TONEAREST");
            else R ().stage_partial (std::to_string (done.load ()) + " of 2^32");
        }
    }

    // ---- stage 5: boundary subset of the float inputs for the objects that are not swept over all 2^32 -----------
    long long fpexc_cmp = 0;
    {
        std::vector<Cfg*> bo;
        for (Cfg* c : cfgs) if (c->boundary_only) bo.push_back (c);
        if (!bo.empty () && R ().stage ("float-to-half-boundary-subset"))
        {
            const std::vector<uint32_t> in = c01b::boundary_floats ();
            // maximal runs of consecutive bit patterns (the block entry points take ranges)
            std::vector<std::pair<uint32_t, uint32_t>> runs; // [first, last]
            for (size_t i = 0; i < in.size ();)
            {
                size_t j = i;
                while (j + 1 < in.size () && in[j + 1] == in[j] + 1 && j + 1 - i < 4096) ++j;
                runs.push_back ({in[i], in[j]});
                i = j + 1;
            }
            struct Job { Cfg* c; f2h_fn fn; std::string site; };
            std::vector<Job> jobs;
            for (Cfg* c : bo)
            {
                jobs.push_back ({c, c->f2h, "f2h[" + c->name + "].boundary-subset != reference"});
                if (c->cxx) jobs.push_back ({c, c->f2h_class, "f2h.class[" + c->name + "].boundary-subset != reference"});
            }
            std::atomic<long long> tr (0), st (0), nan_in (0), tie_or_threshold (0);
            bool complete = parallel_chunks (runs.size (), 1024, [&] (uint64_t lo, uint64_t hi, unsigned) {
                uint16_t  rb[4096], b[4096];
                long long l_tr = 0, l_st = 0;
                for (uint64_t r = lo; r < hi; ++r)
                {
                    const uint64_t a = runs[(size_t) r].first, e = (uint64_t) runs[(size_t) r].second + 1;
                    const size_t   n = (size_t) (e - a);
                    ref.f2h (a, e, rb);
                    l_st += (long long) n;
                    for (Job& j : jobs)
                    {
                        j.fn (a, e, b);
                        l_tr += (long long) n; l_st += (long long) n;
                        j.c->cmp_bitwise += (long long) n;
                        long long bad = 0;
                        for (size_t k = 0; k < n; ++k)
                            if (b[k] != rb[k] && ++bad <= CAP) R ().fail (j.site, "float " + hx ((uint32_t) (a + k), 8), hx (rb[k], 4), hx (b[k], 4));
                        mismatch_total (j.site, bad);
                    }
                }
                tr += l_tr; st += l_st; nontrivial += l_tr;
            });
            R ().add ("states", st.load ());
            R ().add ("transitions", tr.load ());
            R ().add ("evaluations", st.load ());
            R ().add ("boundary_subset_float_inputs", (long long) in.size ());
            if (complete) R ().stage_done (std::to_string (in.size ()) + " boundary float patterns (every half value and midpoint +-2 ulps, every exponent x boundary significands, every literal threshold +-3, both signs) x " + std::to_string (bo.size ()) + " configurations vs " + ref.name);
            else R ().stage_partial ("boundary subset cut short");
        }
    }

    // ---- stage 6: ambient floating-point state (rounding mode, MXCSR DAZ / FTZ) -----------------------------------
    long long amb_round = 0, amb_denorm = 0, amb_soft_h2f = 0;
    if (R ().stage ("ambient-states"))
    {
        // (a) all 2^16 half inputs, every object and entry point
        {
            std::vector<uint32_t> rb (65536), b (65536);
            ref.h2f (0, 65536, rb.data ());
            for (Cfg* c : cfgs)
                for (int ep = 0; ep < (c->cxx ? 2 : 1); ++ep)
                    for (const Ambient& a : AMB)
                    {
                        h2f_fn fn = ep ? c->h2f_class : c->h2f;
                        ambient_set (a);
                        fn (0, 65536, b.data ());
                        ambient_reset ();
                        const std::string site = std::string (ep ? "h2f.class[" : "h2f[") + c->name + "].under-" + a.name + " != reference";
                        long long bad = 0;
                        for (uint32_t i = 0; i < 65536; ++i)
                        {
                            bool differs = (c->f16c && is_nan16 ((uint16_t) i)) ? (!is_nan32 (b[i]) || ((b[i] ^ rb[i]) >> 31)) : (b[i] != rb[i]);
                            if (differs && ++bad <= 64) R ().fail (site, "half " + hx (i, 4), hx (rb[i], 8), hx (b[i], 8));
                        }
                        mismatch_total (site, bad);
                        (a.denormal_mode ? amb_denorm : amb_round) += 65536;
                        if (!c->f16c && c->kind != "table") amb_soft_h2f += 65536;
                    }
            R ().add ("states", amb_round + amb_denorm);
            R ().add ("transitions", amb_round + amb_denorm);
        }
        // (b) all 2^32 float inputs, the software objects marked "ambient"
        std::vector<Cfg*> sw;
        for (Cfg* c : cfgs) if (c->ambient) sw.push_back (c);
        struct Job { Cfg* c; f2h_fn fn; std::string pfx; };
        std::vector<Job> jobs;
        for (Cfg* c : sw)
        {
            jobs.push_back ({c, c->f2h, "f2h[" + c->name + "].under-"});
            if (c->cxx) jobs.push_back ({c, c->f2h_class, "f2h.class[" + c->name + "].under-"});
        }
        const uint64_t N = 1ull << 32, CH = 1ull << 18;
        std::atomic<long long> tr_r (0), tr_d (0), done (0);
        bool complete = jobs.empty () || parallel_chunks (N, CH, [&] (uint64_t lo, uint64_t hi, unsigned) {
            static thread_local std::vector<uint16_t> rb, b;
            rb.resize (CH); b.resize (CH);
            const size_t n = (size_t) (hi - lo);
            ref.f2h (lo, hi, rb.data ());
            for (Job& j : jobs)
                for (const Ambient& a : AMB)
                {
                    // quick: DAZ and FTZ together only (each can only turn values into zeros, so a conversion sensitive to one
                    // of them is sensitive to the pair); thorough: each of the six states
                    if (!R ().thorough () && a.denormal_mode && a.mxcsr != 0x8040) continue;
                    ambient_set (a);
                    j.fn (lo, hi, b.data ());
                    ambient_reset ();
                    (a.denormal_mode ? tr_d : tr_r) += (long long) n;
                    if (memcmp (b.data (), rb.data (), n * 2) == 0) continue;
                    long long         bad  = 0;
                    const std::string site = j.pfx + a.name + " != reference";
                    for (size_t k = 0; k < n; ++k)
                        if (b[k] != rb[k] && ++bad <= CAP) R ().fail (site, "float " + hx ((uint32_t) (lo + k), 8), hx (rb[k], 4), hx (b[k], 4));
                    mismatch_total (site, bad);
                }
            done += (long long) n;
        });
        R ().add ("transitions", tr_r.load () + tr_d.load ());
        R ().add ("states", tr_r.load () + tr_d.load ());
        amb_round += tr_r.load (); amb_denorm += tr_d.load ();
        nontrivial += tr_r.load () + tr_d.load ();
        R ().cls ("ambient.non-default-rounding-mode.comparisons", amb_round);
        R ().cls ("ambient.mxcsr-daz-ftz.comparisons", amb_denorm);
        R ().cls ("ambient.bit-shift-half-to-float(software, no table).comparisons", amb_soft_h2f);
        R ().cls ("ambient.software-float-to-half.all-2^32.comparisons", tr_r.load () + tr_d.load ());
        std::string what = "all 65536 half patterns x " + std::to_string (cfgs.size ()) + " configurations (every entry point); all 2^32 float patterns x " + std::to_string (sw.size ()) +
                           " software configurations (" + std::to_string (jobs.size ()) + " entry points); each x {FE_UPWARD, FE_DOWNWARD, FE_TOWARDZERO, MXCSR DAZ, FTZ, DAZ+FTZ}" + (R ().thorough () ? "" : " (float inputs in the quick tier: DAZ+FTZ only of the three denormal modes)") + " vs " + ref.name + " under the default state";
        if (complete) R ().stage_done (what);
        else R ().stage_partial (std::to_string (done.load ()) + " of 2^32 float patterns of: " + what);
    }

    // ---- outcome classes: comparisons per selected #if branch / language -----------------------
    {
        std::map<std::string, long long> by;
        long long nan_loose = 0, f16c_bitwise = 0;
        bool      any_f16c = false;
        for (Cfg* c : cfgs)
        {
            long long t = c->cmp_bitwise.load () + c->cmp_nan_loose.load ();
            if (c->f16c) { any_f16c = true; nan_loose += c->cmp_nan_loose.load (); f16c_bitwise += c->cmp_bitwise.load (); }
            else by["branch." + c->kind] += t;
            by[c->cxx ? "language.c++" : "language.c"] += t;
            if (c->fpexc) fpexc_cmp += t;
        }
        bool any_fpexc = false;
        for (Cfg* c : cfgs) any_fpexc |= c->fpexc;
        if (any_fpexc) R ().cls ("variant.IMATH_HALF_ENABLE_FP_EXCEPTIONS.comparisons", fpexc_cmp);
        // the three software selections and both languages are always part of the matrix
        const char* must[] = {"branch.table", "branch.bitshift-macro", "branch.bitshift-cmake-option-off", "language.c", "language.c++"};
        for (const char* m : must)
            if (!by.count (m)) by[m] = 0;
        for (auto& kv : by) R ().cls (kv.first + ".comparisons", kv.second);
        if (any_f16c)
        {
            R ().cls ("branch.f16c.comparisons-bitwise", f16c_bitwise);
            R ().cls ("branch.f16c.comparisons-nan-input-sign-and-nan-ness", nan_loose);
        }
        else R ().assume ("CPU lacks F16C: the hardware branch of half.h was not executed");
        R ().add ("distinct_nontrivial", nontrivial.load ());
        for (auto& kv : g_mismatch) R ().add ("mismatching_inputs: " + kv.first, kv.second);
        if (!g_mismatch.empty ()) R ().note ("violation_counts", "R().fail is called at most 8 times per site and block; exact totals are in the counters 'mismatching_inputs: <site>'");
    }
    return R ().finish ();
}
