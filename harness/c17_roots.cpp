// C17 — solveLinear / solveQuadratic / solveNormalizedCubic / solveCubic on polynomials built FROM CHOSEN ROOTS.
//
// Root alphabet: Q = { p/d : p in -8..8, d in {1,2,4} } (33 distinct dyadic rationals); leading coefficient
// in {1,-1,2,-2,1/2,3}. Every coefficient is computed in exact rationals and is representable in float and
// double (dyadic, or 3 x dyadic; after solveCubic's division by the leading coefficient again dyadic), so the
// polynomial handed to the solver has *exactly* the chosen roots: the oracle knows the true answer.
//
// Demanded (property statement): reported count = number of distinct real roots, each returned value within
//     bound = 64 * eps * scale^n / min_i |p'(x_i)/lead|        (n = degree, scale = max modulus of a root)
// of a true root, every true root matched exactly once — whenever the roots are well separated, which is fixed
// here as  bound < (smallest distance between two distinct roots, complex ones included) / 4.
// Rationale of the bound: a relative perturbation eps of the coefficients of a degree-n polynomial whose roots
// have modulus <= scale moves the simple root x_i by eps*scale^n/|p'(x_i)/lead| to first order; the closed
// forms compute all roots from shared intermediates, so every root inherits the conditioning of the worst
// one (hence min_i); 64 is the allowance for the ~20 roundings of Cardano's formula. It was fixed before the
// first run (DESIGN.md C17) and is not tuned.
// Linear equations, quadratics with a double root and the triple-root cubic are exact on this alphabet (every
// intermediate is representable) and are compared for equality.
// Vanishing leading coefficients: the higher-degree entry point must return exactly what the lower one does.
#include "c17.hpp"
#include <ImathRoots.h>
#include <algorithm>

using namespace vf;
using ex::Rat;

namespace {

// quick: p/d, p in -8..8, d in {1,2,4} (33 values); thorough: p in -16..16, d in {1,2,4,8} (81 values)
std::vector<Rat> root_alphabet ()
{
    std::vector<Rat> v;
    const bool       th = R ().thorough ();
    for (int d : {1, 2, 4, 8})
        for (int p = (th ? -16 : -8); p <= (th ? 16 : 8); ++p)
        {
            if (d == 8 && !th) continue;
            Rat r ((ex::i128) p, (ex::i128) d);
            bool dup = false;
            for (auto& q : v) dup |= (q == r);
            if (!dup) v.push_back (r);
        }
    std::sort (v.begin (), v.end (), [] (const Rat& a, const Rat& b) { return a < b; });
    return v;
}
const Rat LEADS[6] = {Rat (1), Rat (-1), Rat (2), Rat (-2), Rat (1, 2), Rat (3)};

template <class T> T toT (const Rat& r)
{
    T v = (T) r.ld ();
    return v;
}
template <class T> bool exact_in (const Rat& r) // r == (T) r ?
{
    long double l = r.ld ();
    T           v = (T) l;
    // r = n/d with d a power of two (or r = 3*dyadic): check n == v*d exactly in long double (all small)
    return (long double) v * (long double) r.d == (long double) r.n;
}
long double absl (long double x) { return x < 0 ? -x : x; }

// does a permutation exist that pairs every true root with a returned one within `bound`?
bool matches (const long double* truth, const long double* got, int n, long double bound, long double& worst)
{
    int  perm[3] = {0, 1, 2};
    bool ok      = false;
    worst        = 1e300L;
    do
    {
        long double w = 0;
        for (int i = 0; i < n; ++i)
        {
            long double e = absl (got[perm[i]] - truth[i]);
            if (!(e == e)) e = 1e299L; // a NaN root matches nothing (std::max would silently drop it)
            w = std::max (w, e);
        }
        if (w < worst) worst = w;
        if (w <= bound) ok = true;
    } while (std::next_permutation (perm, perm + n));
    return ok;
}

struct Tal
{
    long long n = 0, tr = 0, lin = 0, quad2 = 0, quad1 = 0, quad0 = 0, quadgraded = 0, cubdouble = 0, scaled = 0, qscaled = 0, purecube_qpos = 0, purecube_qneg = 0, cub3 = 0, cub1_qpos = 0, cub1_qneg = 0, cub1_q0 = 0, triple = 0,
              deleg = 0, illcond = 0, inexact = 0;
};

template <class T> void roots_stage (const std::string& tn)
{
    if (!R ().stage ("roots-" + tn)) return;
    const long double EPS = (long double) std::numeric_limits<T>::epsilon ();
    std::vector<Rat>  Q   = root_alphabet ();
    Tal               t;
    auto coef = [&] (const Rat& r, T& out) -> bool {
        if (!exact_in<T> (r)) { ++t.inexact; return false; }
        out = toT<T> (r);
        return true;
    };

    // ---------- linear: a x + b, root r
    for (const Rat& r : Q)
        for (const Rat& L : LEADS)
        {
            T a, b;
            if (!coef (L, a) || !coef (-(L * r), b)) continue;
            ++t.n; ++t.lin; ++t.tr;
            T   x = 99;
            int c = IM::solveLinear (a, b, x);
            std::string in = Msg () << tn << " a=" << a << " b=" << b;
            if (c != 1) R ().fail ("solveLinear.count", in, "1", fmt (c));
            else if ((long double) x != r.ld ()) R ().fail ("solveLinear.root", in, r.str (), Msg () << x);
            // delegation chain: quadratic and cubic with vanishing leading coefficients
            T   xq[2] = {77, 77}, xc[3] = {55, 55, 55};
            int cq = IM::solveQuadratic (T (0), a, b, xq), cc = IM::solveCubic (T (0), T (0), a, b, xc);
            t.tr += 2; ++t.deleg;
            if (cq != c || !ex::same (xq[0], x)) R ().fail ("solveQuadratic.delegates-to-linear", in, Msg () << c << " " << x, Msg () << cq << " " << xq[0]);
            if (cc != c || !ex::same (xc[0], x)) R ().fail ("solveCubic.delegates-to-linear", in, Msg () << c << " " << x, Msg () << cc << " " << xc[0]);
        }
    {   // degenerate linear: no solution / every x
        T   x = 99, xq[2], xc[3];
        for (T b : {T (1), T (-2.5), T (0)})
        {
            int want = b != 0 ? 0 : -1;
            int c = IM::solveLinear (T (0), b, x), cq = IM::solveQuadratic (T (0), T (0), b, xq), cc = IM::solveCubic (T (0), T (0), T (0), b, xc);
            ++t.n; t.tr += 3; ++t.deleg;
            std::string in = Msg () << tn << " a=0 b=" << b;
            if (c != want) R ().fail ("solveLinear.degenerate", in, fmt (want), fmt (c));
            if (cq != want) R ().fail ("solveQuadratic.delegates-to-linear", in, fmt (want), fmt (cq));
            if (cc != want) R ().fail ("solveCubic.delegates-to-linear", in, fmt (want), fmt (cc));
        }
    }

    // ---------- quadratics
    auto run_quadratic = [&] (const Rat& L, const Rat& B, const Rat& C, int want, const long double* truth, long double bound, bool exact, const char* kind) {
        T a, b, c;
        if (!coef (L, a) || !coef (L * B, b) || !coef (L * C, c)) return;
        ++t.n; ++t.tr;
        T   x[2] = {99, 99};
        int cnt  = IM::solveQuadratic (a, b, c, x);
        std::string in = Msg () << tn << " " << kind << " a=" << a << " b=" << b << " c=" << c;
        if (cnt != want) R ().fail (std::string ("solveQuadratic.count.") + kind, in, fmt (want), fmt (cnt));
        else if (want > 0)
        {
            long double g[2] = {(long double) x[0], (long double) x[1]}, worst;
            if (!matches (truth, g, want, exact ? 0 : bound, worst))
                R ().fail (std::string ("solveQuadratic.accuracy.") + kind, in, Msg () << truth[0] << " " << (want > 1 ? truth[1] : truth[0]), Msg () << x[0] << " " << x[1]);
            if (!exact && bound > 0) R ().note_max ("solveQuadratic<" + tn + "> error / bound", (double) std::min (worst / bound, 1e30L)); // capped: the report is JSON (no inf)
        }
        // Multiplying ALL coefficients by an exact power of two leaves the roots unchanged. For |k| small enough that
        // b*b and 4*a*c stay far inside the normal range (coefficients here lie in [2^-9, 2^12]; k = +-40 for float,
        // +-400 for double: squares within 2^+-104 resp. 2^+-824) every intermediate of the discriminant formula is
        // scaled exactly (D by 2^2k, sqrt(D) by 2^k, q by 2^k) and the quotients q/a, c/q, -b/2a are unchanged, so count and
        // roots must be bit-identical. Only this overflow-free range is demanded: beyond it the textbook discriminant
        // itself leaves the floating-point range, which the statement does not address.
        {
            const int K = std::numeric_limits<T>::digits > 30 ? 400 : 40;
            for (int q = 0; q < 2; ++q)
            {
                int k  = q ? K : -K;
                T   as = (T) std::ldexp ((double) a, k), bs = (T) std::ldexp ((double) b, k), cs = (T) std::ldexp ((double) c, k);
                T   xs[2] = {99, 99};
                int cs_n  = IM::solveQuadratic (as, bs, cs, xs);
                ++t.tr; ++t.qscaled;
                bool same = cs_n == cnt;
                for (int i = 0; same && i < cnt && i < 2; ++i) same = ex::same (xs[i], x[i]);
                if (!same)
                    R ().fail ("solveQuadratic.invariant-under-common-power-of-two-scaling", in + " all coefficients *2^" + std::to_string (k),
                               Msg () << cnt << ": " << x[0] << " " << x[1], Msg () << cs_n << ": " << xs[0] << " " << xs[1]);
            }
        }
        // delegation from the cubic entry point
        T   xc[3] = {55, 55, 55};
        int cc    = IM::solveCubic (T (0), a, b, c, xc);
        ++t.tr; ++t.deleg;
        bool same = cc == cnt;
        for (int i = 0; same && i < cnt; ++i) same = ex::same (xc[i], x[i]);
        if (!same) R ().fail ("solveCubic.delegates-to-quadratic", in, Msg () << cnt << " " << x[0] << " " << x[1], Msg () << cc << " " << xc[0] << " " << xc[1]);
    };
    for (size_t i = 0; i < Q.size (); ++i)
        for (size_t j = i + 1; j < Q.size (); ++j)
            for (const Rat& L : LEADS)
            {
                const Rat & r1 = Q[i], &r2 = Q[j];
                long double truth[2] = {r1.ld (), r2.ld ()};
                long double scale = std::max (absl (truth[0]), absl (truth[1])), sep = absl (truth[1] - truth[0]);
                long double bound = 64 * EPS * scale * scale / sep;
                if (!(bound < sep / 4)) { ++t.illcond; continue; }
                ++t.quad2;
                run_quadratic (L, -(r1 + r2), r1 * r2, 2, truth, bound, false, "two-roots");
            }
    for (const Rat& r : Q)
        for (const Rat& L : LEADS)
        {
            long double truth[2] = {r.ld (), 0};
            ++t.quad1;
            run_quadratic (L, -(r + r), r * r, 1, truth, 0, true, "double-root");
        }
    // ---------- quadratics with roots of very different magnitude (2^-k and m*2^k): both roots are perfectly conditioned
    // (well separated), so EACH must be accurate to its own conditioning — a formula that obtains the small root by
    // subtracting two nearly equal numbers (-b +- sqrt(D) with the wrong sign) loses it although the count and the large
    // root stay right.  Per-root bound, from a relative perturbation eps of every coefficient:
    //     |dx_i| <= 64 * eps * (|x_i|^2 + |B| |x_i| + |C|) / |2 x_i + B|      (monic form x^2 + B x + C)
    {
        const int K = std::numeric_limits<T>::digits > 30 ? 25 : 10;
        for (int k = 1; k <= K; ++k)
            for (int m = 1; m <= 3; m += 2)
                for (int s1 = -1; s1 <= 1; s1 += 2)
                    for (int s2 = -1; s2 <= 1; s2 += 2)
                        for (const Rat& L : LEADS)
                        {
                            Rat r1 (s1, (ex::i128) 1 << k), r2 ((long long) s2 * m * ((long long) 1 << k));
                            Rat B = -(r1 + r2), C = r1 * r2;
                            T a, b, c;
                            if (!coef (L, a) || !coef (L * B, b) || !coef (L * C, c)) continue;
                            ++t.n; ++t.tr; ++t.quadgraded;
                            T   x[2] = {99, 99};
                            int cnt  = IM::solveQuadratic (a, b, c, x);
                            std::string in = Msg () << tn << " graded-roots a=" << a << " b=" << b << " c=" << c;
                            if (cnt != 2) { R ().fail ("solveQuadratic.count.graded-roots", in, "2", fmt (cnt)); continue; }
                            long double tr[2] = {r1.ld (), r2.ld ()}, g[2] = {(long double) x[0], (long double) x[1]};
                            if (absl (g[0]) > absl (g[1])) std::swap (g[0], g[1]); // |r1| < |r2| by construction: pair by magnitude
                            for (int i = 0; i < 2; ++i)
                            {
                                long double xi = tr[i], Bl = B.ld (), Cl = C.ld ();
                                long double tol = 64 * EPS * (xi * xi + absl (Bl) * absl (xi) + absl (Cl)) / absl (2 * xi + Bl);
                                long double e = absl (g[i] - xi);
                                if (!(e <= tol))
                                    R ().fail (std::string ("solveQuadratic.accuracy.graded-roots.") + (i ? "large-root" : "small-root"), in, Msg () << xi << " +- " << tol, Msg () << g[i]);
                                else R ().note_max ("solveQuadratic<" + tn + "> graded roots error / per-root bound", (double) (e / tol));
                            }
                        }
    }
    const Rat ALPHA[7] = {Rat (-2), Rat (-1), Rat (-1, 2), Rat (0), Rat (1, 2), Rat (1), Rat (2)};
    const Rat BETA[4]  = {Rat (1, 2), Rat (1), Rat (2), Rat (4)};
    for (const Rat& al : ALPHA)
        for (const Rat& be : BETA)
            for (const Rat& L : LEADS)
            {
                ++t.quad0;
                run_quadratic (L, -(al + al), al * al + be * be, 0, nullptr, 0, true, "no-real-root");
            }

    // ---------- cubics
    // kind: 3 = three distinct real roots, 1 = one real root + complex pair
    auto run_cubic = [&] (const Rat& L, const Rat& Rr, const Rat& Sr, const Rat& Tr, int want, const long double* truth, long double bound, bool exact,
                          const std::string& cls) {
        T a, b, c, d, r, s, tt;
        if (!coef (L, a) || !coef (L * Rr, b) || !coef (L * Sr, c) || !coef (L * Tr, d) || !coef (Rr, r) || !coef (Sr, s) || !coef (Tr, tt)) return;
        ++t.n;
        for (int entry = 0; entry < 2; ++entry)
        {
            if (entry == 1 && !(L == Rat (1))) continue; // the normalized entry point has no leading coefficient
            T   x[3] = {99, 99, 99};
            int cnt  = entry == 0 ? IM::solveCubic (a, b, c, d, x) : IM::solveNormalizedCubic (r, s, tt, x);
            ++t.tr;
            std::string ep = entry == 0 ? "solveCubic" : "solveNormalizedCubic";
            std::string in = entry == 0 ? std::string (Msg () << tn << " a=" << a << " b=" << b << " c=" << c << " d=" << d)
                                        : std::string (Msg () << tn << " r=" << r << " s=" << s << " t=" << tt);
            // the narrow site of the known defect is a property of the *input* (D > 0 and q > 0, exact arithmetic);
            // solveCubic reaches the same code after dividing by a, so both entry points share it
            bool        cancel_class = cls == "one-real-root.q>0";
            if (cnt != want) R ().fail (ep + ".count." + cls, in, fmt (want), fmt (cnt));
            else
            {
                long double g[3] = {(long double) x[0], (long double) x[1], (long double) x[2]}, worst;
                bool        ok   = matches (truth, g, want, exact ? 0 : bound, worst);
                if (!ok)
                    R ().fail (cancel_class ? "solveNormalizedCubic.one-real-root.cancellation" : ep + ".accuracy." + cls, in,
                               std::string (Msg () << truth[0]) + (want > 1 ? std::string (Msg () << " " << truth[1] << " " << truth[2]) : std::string ()) +
                                   " +- " + fmt (bound),
                               Msg () << x[0] << " " << x[1] << " " << x[2]);
                if (!exact && bound > 0) R ().note_max (ep + "<" + tn + "> " + cls + " error / bound", (double) std::min (worst / bound, 1e30L)); // capped: the report is JSON (no inf)
            }
            // solveCubic normalises by its leading coefficient: multiplying ALL coefficients by an exact power of two — down
            // to where the leading coefficient is subnormal (its reciprocal would overflow, the quotients b/a, c/a, d/a do
            // not) and up to where it is huge — must not change the answer at all (correctly rounded division is
            // invariant under an exact common scaling)
            if (entry == 0)
            {
                const bool dbl = std::numeric_limits<T>::digits > 30;
                const int  SC[2] = {dbl ? -1030 : -135, dbl ? 900 : 100};
                for (int q = 0; q < 2; ++q)
                {
                    T as = (T) std::ldexp ((double) a, SC[q]), bs = (T) std::ldexp ((double) b, SC[q]), cs = (T) std::ldexp ((double) c, SC[q]), ds = (T) std::ldexp ((double) d, SC[q]);
                    // exactness of the scaling (subnormals have fewer bits)
                    if ((T) std::ldexp ((double) as, -SC[q]) != a || (T) std::ldexp ((double) bs, -SC[q]) != b || (T) std::ldexp ((double) cs, -SC[q]) != c || (T) std::ldexp ((double) ds, -SC[q]) != d) continue;
                    T   xs[3] = {99, 99, 99};
                    int cs_n  = IM::solveCubic (as, bs, cs, ds, xs);
                    ++t.tr; ++t.scaled;
                    bool same = cs_n == cnt;
                    for (int i = 0; same && i < cnt && i < 3; ++i) same = ex::same (xs[i], x[i]);
                    if (!same)
                        R ().fail ("solveCubic.invariant-under-common-power-of-two-scaling", in + " all coefficients *2^" + std::to_string (SC[q]),
                                   Msg () << cnt << ": " << x[0] << " " << x[1] << " " << x[2], Msg () << cs_n << ": " << xs[0] << " " << xs[1] << " " << xs[2]);
                }
            }
        }
    };
    // three distinct real roots
    for (size_t i = 0; i < Q.size (); ++i)
        for (size_t j = i + 1; j < Q.size (); ++j)
            for (size_t k = j + 1; k < Q.size (); ++k)
            {
                const Rat & r1 = Q[i], &r2 = Q[j], &r3 = Q[k];
                long double x[3] = {r1.ld (), r2.ld (), r3.ld ()};
                long double scale = std::max (absl (x[0]), std::max (absl (x[1]), absl (x[2])));
                long double d01 = x[1] - x[0], d12 = x[2] - x[1], d02 = x[2] - x[0];
                long double minder = std::min (d01 * d02, std::min (d01 * d12, d02 * d12));
                long double sep    = std::min (d01, d12);
                long double bound  = 64 * EPS * scale * scale * scale / minder;
                if (!(bound < sep / 4)) { t.illcond += 6; continue; }
                for (const Rat& L : LEADS)
                {
                    ++t.cub3;
                    run_cubic (L, -(r1 + r2 + r3), r1 * r2 + r1 * r3 + r2 * r3, -(r1 * r2 * r3), 3, x, bound, false, "three-real-roots");
                }
            }
    // one real root r and the pair al +- i be
    for (const Rat& rr : Q)
        for (const Rat& al : ALPHA)
            for (const Rat& be : BETA)
            {
                Rat         m2 = al * al + be * be; // |z|^2
                Rat         Rr = -(rr + al + al), Sr = m2 + rr * (al + al), Tr = -(rr * m2);
                long double x[3] = {rr.ld (), 0, 0};
                long double scale = std::max (absl (x[0]), sqrtl (m2.ld ()));
                Rat         der   = (rr - al) * (rr - al) + be * be; // p'(r)/lead = |r - z|^2
                long double bound = 64 * EPS * scale * scale * scale / der.ld ();
                long double sep   = std::min (sqrtl (der.ld ()), 2 * be.ld ());
                // exact q of the depressed cubic y^3 + p y + q (x = y - R/3): its sign selects the failing class
                Rat q = Rat (2) * Rr * Rr * Rr / Rat (27) - Rr * Sr / Rat (3) + Tr;
                if (!(bound < sep / 4)) { t.illcond += 6; continue; }
                std::string cls = q.sign () > 0 ? "one-real-root.q>0" : (q.sign () < 0 ? "one-real-root.q<0" : "one-real-root.q=0");
                for (const Rat& L : LEADS)
                {
                    (q.sign () > 0 ? t.cub1_qpos : (q.sign () < 0 ? t.cub1_qneg : t.cub1_q0))++;
                    run_cubic (L, Rr, Sr, Tr, 1, x, bound, false, cls);
                }
            }
    // ---------- pure cubes (x - c)^3 = m^3, i.e. r = -3c, s = 3c^2, t = -(c^3 + m^3): the depressed cubic is y^3 - m^3, so
    // p = 0 EXACTLY while q = -m^3 != 0 (all of r*r, 3s, 2r^3/27, rs/3 are representable on this alphabet). This class
    // cannot be built from the rational root alphabet above (the complex pair is c + m(-1 +- i sqrt3)/2). The one real
    // root c + m is known exactly; its conditioning is p'(c+m) = 3 m^2, the pair lies at distance sqrt3 |m| from it and
    // from each other. Same a-priori bound and separation rule as the other one-real-root class.
    {
        const Rat MS[7] = {Rat (-2), Rat (-1), Rat (-1, 2), Rat (1, 2), Rat (1), Rat (2), Rat (3)};
        for (const Rat& c : Q)
            for (const Rat& m : MS)
            {
                Rat         Rr = -(Rat (3) * c), Sr = Rat (3) * c * c, Tr = -(c * c * c + m * m * m);
                long double cl = c.ld (), ml = m.ld ();
                long double x[3] = {cl + ml, 0, 0};
                long double pairmod = sqrtl (cl * cl - cl * ml + ml * ml); // |c + m w|, w a primitive cube root of unity
                long double scale = std::max (absl (x[0]), pairmod);
                long double bound = 64 * EPS * scale * scale * scale / (3 * ml * ml);
                long double sep   = sqrtl (3.0L) * absl (ml);
                if (!(bound < sep / 4)) { t.illcond += 6; continue; }
                // q = -m^3: its sign selects which of -q/2 -+ sqrt(D) the solver takes the cube root of
                const std::string cls = m.sign () < 0 ? "pure-cube.p=0.q>0" : "pure-cube.p=0.q<0";
                for (const Rat& L : LEADS)
                {
                    (m.sign () < 0 ? t.purecube_qpos : t.purecube_qneg)++;
                    run_cubic (L, Rr, Sr, Tr, 1, x, bound, false, cls);
                }
            }
    }
    // ---------- a double root a and a simple root b, well separated from it: (x-a)^2 (x-b).
    // The double root is infinitely ill-conditioned, so neither the count nor its value is demanded; what the statement
    // still promises is judged a priori, independently of which branch the rounded discriminant selects:
    //   (i)  the SIMPLE root b (perfectly conditioned: p'(b) = (b-a)^2) is returned, within 64 eps scale^3 / |p'(b)|;
    //   (ii) every returned value is a root in the backward sense: |p(x)| <= 64 eps scale^3  (monic form) —
    //        near the double root this admits a +- sqrt(eps)-sized spread, nowhere else anything;
    //   (iii) 1 <= count <= 3.
    // Both signs of b - a occur, i.e. both signs of the depressed cubic's q (the D == 0 branch takes the cube root of -q/2).
    for (const Rat& ra : Q)
        for (const Rat& rb : Q)
        {
            if (ra == rb) continue;
            Rat Rr = -(ra + ra + rb), Sr = ra * ra + Rat (2) * ra * rb, Tr = -(ra * ra * rb);
            long double al = ra.ld (), bl = rb.ld ();
            for (const Rat& L : LEADS)
            {
                T a, b, c, d, r, s2, tt;
                if (!coef (L, a) || !coef (L * Rr, b) || !coef (L * Sr, c) || !coef (L * Tr, d) || !coef (Rr, r) || !coef (Sr, s2) || !coef (Tr, tt)) continue;
                ++t.n; ++t.cubdouble;
                for (int entry = 0; entry < 2; ++entry)
                {
                    if (entry == 1 && !(L == Rat (1))) continue;
                    T   x[3] = {99, 99, 99};
                    int cnt  = entry == 0 ? IM::solveCubic (a, b, c, d, x) : IM::solveNormalizedCubic (r, s2, tt, x);
                    ++t.tr;
                    std::string ep = entry == 0 ? "solveCubic" : "solveNormalizedCubic";
                    std::string in = std::string (Msg () << tn << " (x-a)^2(x-b) a=" << (double) al << " b=" << (double) bl << " lead=" << (double) L.ld ());
                    if (cnt < 1 || cnt > 3) { R ().fail (ep + ".double-root.count", in, "1..3", fmt (cnt)); continue; }
                    long double Rl = Rr.ld (), Sl = Sr.ld (), Tl = Tr.ld ();
                    // normwise bounds (Cardano's formula forms each root as a sum of terms of the size of the largest root, so
                    // the error is absolute in that scale, as for the other cubic classes above): scale = max(|a|,|b|)
                    const long double scale = std::max (absl (al), absl (bl)), sc3 = scale * scale * scale;
                    long double tolb = 64 * EPS * sc3 / ((bl - al) * (bl - al));
                    bool have_b = false;
                    for (int i = 0; i < cnt; ++i)
                    {
                        long double xi = (long double) x[i];
                        if (absl (xi - bl) <= tolb) have_b = true;
                        long double res = ((xi + Rl) * xi + Sl) * xi + Tl; // exact coefficients, long double evaluation
                        long double mag = std::max (sc3, absl (xi * xi * xi));
                        if (!(absl (res) <= 64 * EPS * mag))
                            R ().fail (ep + ".double-root.returned-value-is-not-a-root", in + " returned[" + std::to_string (i) + "]", "|p(x)| <= " + fmt (64 * EPS * mag), std::string (Msg () << x[i]) + " p(x)=" + fmt (res));
                    }
                    if (!have_b) R ().fail (ep + ".double-root.simple-root-missing", in, fmt (bl) + " +- " + fmt (tolb), Msg () << cnt << ": " << x[0] << " " << x[1] << " " << x[2]);
                }
            }
        }
    // triple root at a small integer: exact (p = q = 0 are computed without rounding)
    for (int k = -3; k <= 3; ++k)
        for (const Rat& L : LEADS)
        {
            long double x[3] = {(long double) k, 0, 0};
            Rat         K (k);
            ++t.triple;
            run_cubic (L, -(K + K + K), K * K * Rat (3), -(K * K * K), 1, x, 0, true, "triple-root");
        }

    R ().cls ("roots." + tn + ".linear", t.lin);
    R ().cls ("roots." + tn + ".quadratic.two-roots", t.quad2); R ().cls ("roots." + tn + ".quadratic.double-root", t.quad1);
    R ().cls ("roots." + tn + ".quadratic.no-real-root", t.quad0);
    R ().cls ("roots." + tn + ".quadratic.roots-2^-k-and-m*2^k", t.quadgraded);
    R ().cls ("roots." + tn + ".cubic.double-root-plus-simple-root", t.cubdouble);
    R ().cls ("roots." + tn + ".cubic.coefficients-scaled-to-subnormal-or-huge", t.scaled);
    R ().cls ("roots." + tn + ".cubic.three-real-roots", t.cub3);
    R ().cls ("roots." + tn + ".cubic.one-real-root.q>0", t.cub1_qpos); R ().cls ("roots." + tn + ".cubic.one-real-root.q<0", t.cub1_qneg);
    R ().cls ("roots." + tn + ".cubic.one-real-root.q=0", t.cub1_q0);
    R ().cls ("roots." + tn + ".cubic.triple-root", t.triple);
    R ().cls ("roots." + tn + ".cubic.pure-cube.p=0.q>0", t.purecube_qpos); R ().cls ("roots." + tn + ".cubic.pure-cube.p=0.q<0", t.purecube_qneg);
    R ().cls ("roots." + tn + ".quadratic.coefficients-scaled-by-2^+-k", t.qscaled);
    R ().cls ("roots." + tn + ".delegation", t.deleg);
    R ().add ("roots." + tn + ".not_well_separated_skipped", t.illcond);
    R ().add ("roots." + tn + ".coefficient_not_representable_skipped", t.inexact);
    R ().add ("states", t.n); R ().add ("evaluations", t.n); R ().add ("transitions", t.tr);
    R ().stage_done ("all sets of 1-3 distinct roots from " + std::to_string (Q.size ()) + " dyadic values x 6 leading coefficients; 28 complex pairs x " + std::to_string (Q.size ()) + " real roots x 6; double/none/triple; delegation chain");
}

} // namespace

void c17_roots_stages ()
{
    roots_stage<double> ("double");
    roots_stage<float> ("float");
}
