#include "c04.hpp"
namespace c04 {
void register_color3 (Jobs& jobs) { reg_color3<Color3<half>> (jobs); reg_color3<Color3<float>> (jobs); reg_color3<Color3<uchar>> (jobs); }
}
