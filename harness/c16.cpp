// C16 — frustum projection, depth mapping, planes and culling are mutually consistent.
// This TU: main() and every Frustum<T> member that does not involve a camera matrix.  c16_b.cpp: planes(M), FrustumTest.
//
// Tolerances (fixed a priori; "exact" = the dyadic orthographic sub-alphabet where every operation is exact):
//  * projection of the 8 corners: the only rounding is one division per matrix entry (parameter sums, differences
//    and products are exact on this alphabet); a corner coordinate is entry*coord + entry with |terms| <= 4 and 3,
//    so <= 3.5 eps; bound 8 eps for both kinds (the oracle multiplies the stored entries in long double).
//  * projectPointToScreen vs matrix: 8 eps mag, mag = (2|x'| + |l| + |r|)/(r-l) (x' = local x on the near plane).
//  * depth: orthographic 8 eps far (absolute); perspective 8 eps (far/near) |depth| - the denominator
//    Zp(f-n)-f-n cancels down to 2n from terms of size f; the NDC z recovered through the matrix is well
//    conditioned again: <= 8.5 eps by the analysis in the comment of depth_checks, bound 16 eps (<= DESIGN's 8 eps far/near).
//  * DepthToZ(ZToDepth(z)): one unit of truncation; rounding adds <= 6.25 eps zdiff units, kept below 1/16 by the Z ranges used.
#include "c16.hpp"

namespace c16 {
using namespace vf;

// p x M with homogeneous divide, long double on the stored entries
template <class T> static L3 xform (const Matrix44<T>& M, const L3& p, LD* wout = nullptr)
{
    LD o[4];
    for (int j = 0; j < 4; ++j) o[j] = p.x * (LD) M[0][j] + p.y * (LD) M[1][j] + p.z * (LD) M[2][j] + (LD) M[3][j];
    if (wout) *wout = o[3];
    return {o[0] / o[3], o[1] / o[3], o[2] / o[3]};
}

template <class T> static void core ()
{
    const LD   e  = ex::eps<T> ();
    const auto FS = frusta ();
    std::string st = std::string ("frustum-core.") + tname<T> ();
    if (!R ().stage (st)) return;
    std::atomic<ll> c_dy (0), c_or (0), c_pe (0), c_asym (0), c_pts (0), c_behind (0), c_rays (0), c_depth (0), c_z (0), c_trunc (0), trans (0);
    std::mutex mm; double w_corner = 0, w_screen = 0, w_depth_o = 0, w_depth_p = 0, w_ndc = 0, w_dt = 0;
    bool ok = parallel_chunks (FS.size (), 8, [&] (uint64_t lo, uint64_t hi, unsigned) {
        ll k_dy = 0, k_or = 0, k_pe = 0, k_as = 0, k_pts = 0, k_beh = 0, k_rays = 0, k_dep = 0, k_z = 0, k_tr = 0, k_t = 0;
        double lw_c = 0, lw_s = 0, lw_do = 0, lw_dp = 0, lw_n = 0, lw_dt = 0;
        for (uint64_t fi = lo; fi < hi; ++fi)
        {
            const FSpec& F = FS[fi];
            Frustum<T>   fr = F.make<T> ();
            Ideal        I  = ideal (F);
            std::string  in0 = std::string ("T=") + tname<T> () + " " + F.str ();
            (F.dyadic ? k_dy : (F.ortho ? k_or : k_pe))++;
            if (F.l != -F.r || F.b != -F.t) ++k_as;
            const LD n = F.n, f = F.f, l = F.l, r = F.r, b = F.b, t = F.t, ratio = f / n;

            // ---- accessors
            if (!(fr.nearPlane () == (T) n && fr.farPlane () == (T) f && fr.left () == (T) l && fr.right () == (T) r && fr.top () == (T) t && fr.bottom () == (T) b &&
                  fr.hither () == (T) n && fr.yon () == (T) f && fr.orthographic () == F.ortho && !fr.degenerate ()))
                R ().fail ("Frustum::set.accessors", in0, "the constructor arguments", "different");
            ++k_t;

            // ---- projectionMatrix: 8 corners -> the +-1 cube
            Matrix44<T> M = fr.projectionMatrix ();
            for (int c = 0; c < 8; ++c)
            {
                L3 want = {(c == 0 || c == 1 || c == 4 || c == 5) ? -1.0L : 1.0L, (c == 0 || c == 3 || c == 4 || c == 7) ? -1.0L : 1.0L, c < 4 ? -1.0L : 1.0L};
                L3 got  = xform (M, I.cor[c]);
                LD d = linf (got - want), tol = F.dyadic ? 0 : 8 * e;
                lw_c = std::max (lw_c, (double) (d / (8 * e)));
                if (!(d <= tol)) R ().fail (F.dyadic ? "Frustum::projectionMatrix.corners-to-cube.exact" : (F.ortho ? "Frustum::projectionMatrix.corners-to-cube.orthographic" : "Frustum::projectionMatrix.corners-to-cube.perspective"),
                                             in0 + " corner " + s (I.cor[c]), s (want), s (got));
                ++k_t;
            }
            // structural entries
            if (!(M[0][1] == 0 && M[0][2] == 0 && M[0][3] == 0 && M[1][0] == 0 && M[1][2] == 0 && M[1][3] == 0 && M[2][3] == (F.ortho ? 0 : -1) && M[3][3] == (F.ortho ? 1 : 0)))
                R ().fail ("Frustum::projectionMatrix.layout", in0, "zeros / -1 / 1 in the documented places", "different");

            // ---- projectPointToScreen == xy of point x matrix
            const auto G = grid (F);
            for (const L3& g : G)
            {
                Vec3<T> p = toV<T> (g); L3 pl = toL (p);
                if (!F.ortho && p.z == 0) continue; // not projectable
                if (p.z > 0) ++k_beh;
                ++k_pts; ++k_t;
                LD w; L3 mp = xform (M, pl, &w);
                Vec2<T> sc = fr.projectPointToScreen (p);
                LD kx = F.ortho ? 1 : n / -pl.z;
                LD magx = (2 * fabsl (pl.x * kx) + fabsl (l) + fabsl (r)) / (r - l), magy = (2 * fabsl (pl.y * kx) + fabsl (b) + fabsl (t)) / (t - b);
                LD dx = fabsl ((LD) sc.x - mp.x), dy = fabsl ((LD) sc.y - mp.y);
                lw_s = std::max (lw_s, (double) std::max (dx / (8 * e * magx), dy / (8 * e * magy)));
                if (!(dx <= (F.dyadic ? 0 : 8 * e * magx)) || !(dy <= (F.dyadic ? 0 : 8 * e * magy)))
                    R ().fail (F.dyadic ? "Frustum::projectPointToScreen.vs-matrix.exact" : "Frustum::projectPointToScreen.vs-matrix", in0 + " p=" + s (p), s (mp), "(" + fmt (sc.x) + "," + fmt (sc.y) + ")");
            }

            // ---- projectScreenToRay passes through every pre-image of the screen position
            static const double SS[] = {-1, -0.5, 0, 0.25, 1};
            for (double sx : SS) for (double sy : SS)
            {
                Line3<T> ray = fr.projectScreenToRay (Vec2<T> ((T) sx, (T) sy));
                LD lx = l + (r - l) * (1 + sx) / 2, ly = b + (t - b) * (1 + sy) / 2;
                L3 rp = toL (ray.pos), rd = toL (ray.dir);
                ++k_rays; ++k_t;
                if (!(fabsl (dot (rd, rd) - 1) <= 8 * e) || !(rd.z < 0)) R ().fail ("Frustum::projectScreenToRay.direction", in0 + " s=(" + fmt (sx) + "," + fmt (sy) + ")", "unit, pointing to -z", s (rd));
                for (LD dpt : {n, 2 * n, f})
                {
                    LD k = F.ortho ? 1 : dpt / n;
                    L3 P = {lx * k, ly * k, -dpt};
                    L3 q = P - rp, o = q - rd * (dot (q, rd) / dot (rd, rd));
                    LD tol = F.dyadic ? 0 : 8 * e * (l1 (P) + (fabsl (l) + fabsl (r) + fabsl (b) + fabsl (t)) * k + 1);
                    if (!(linf (o) <= tol)) R ().fail (F.dyadic ? "Frustum::projectScreenToRay.through-preimage.exact" : "Frustum::projectScreenToRay.through-preimage", in0 + " s=(" + fmt (sx) + "," + fmt (sy) + ") depth " + s (dpt), "ray through " + s (P), "misses by " + s (o));
                }
            }

            // ---- depth mapping.  Perspective: Den = Zp(f-n)-f-n is formed from terms of size f with absolute rounding
            // <= 1.5 eps f while |Den| = 2fn/|d|, so d carries (0.75 |d|/n + 0.5) eps relative error (<= 1.25 eps f/n);
            // through the matrix NDC = -C - D/d this comes back as |D/d| * that = <= 5 eps, plus 3.5 eps of entry rounding.
            auto want_depth = [&] (LD zn) { LD Zp = 2 * zn - 1; return F.ortho ? -(Zp * (f - n) + f + n) / 2 : 2 * f * n / (Zp * (f - n) - f - n); };
            auto check_depth = [&] (T got, LD zn, const char* site, const std::string& in) {
                LD wd = want_depth (zn), tol = F.dyadic ? 0 : (F.ortho ? 8 * e * f : 8 * e * ratio * fabsl (wd));
                LD d = fabsl ((LD) got - wd);
                if (F.ortho) lw_do = std::max (lw_do, (double) (d / (8 * e * f))); else lw_dp = std::max (lw_dp, (double) (d / (8 * e * ratio * fabsl (wd))));
                if (!(d <= tol)) R ().fail (std::string (site) + (F.dyadic ? ".exact" : (F.ortho ? ".orthographic" : ".perspective")), in, s (wd), fmt (got));
                // Perspective, tight form of the same analysis (audit4 C16 item 5).  With u = eps/2: Zp carries <= 3u absolute error when the
                // normalised z had to be rounded (ZToDepth), Zp(f-n) one more rounding <= u f, "- f" <= 2u f, "- n" <= u |Den|: the denominator
                // errs by <= 6u f + u |Den| with |Den| = 2fn/|d|, i.e. relatively by 1.5 eps |d|/n + eps/2, the quotient adds eps/2:
                // |error| <= (1.5 |d|/n + 1) eps |d|; the bound used is twice that.  (8 eps (f/n) |d| above is this bound at |d| = f, times 2.3,
                // applied at every depth: at far/near = 2^20 it is a 100 % tolerance in float.)
                else if (!F.ortho)
                {
                    LD tt = (3 * fabsl (wd) / n + 2) * e * fabsl (wd);
                    lw_dt = std::max (lw_dt, (double) (d / tt));
                    if (!(d <= tt)) R ().fail (std::string (site) + ".perspective-tight", in, s (wd), fmt (got));
                }
            };
            static const double ZN[] = {0, 0.25, 0.5, 0.75, 1, 0.0009765625, 0.9990234375};
            for (double zn : ZN)
            {
                T d = fr.normalizedZToDepth ((T) zn);
                ++k_dep; k_t += 2;
                check_depth (d, zn, "Frustum::normalizedZToDepth", in0 + " zval=" + fmt (zn));
                // agreement with the matrix: (0,0,d) x M has NDC z = 2 zn - 1
                L3 mp = xform (M, L3{0, 0, (LD) d});
                LD dn = fabsl (mp.z - (2 * zn - 1)), tol = F.dyadic ? 0 : (F.ortho ? 8 * e : 16 * e);
                lw_n = std::max (lw_n, (double) (dn / (16 * e)));
                if (!(dn <= tol)) R ().fail (F.dyadic ? "Frustum::normalizedZToDepth.vs-matrix.exact" : "Frustum::normalizedZToDepth.vs-matrix", in0 + " zval=" + fmt (zn), s (2 * zn - 1), s (mp.z));
            }
            // ZToDepth / DepthToZ
            struct ZR { long mn, mx; };
            static const ZR ZRS[] = {{0, 255}, {0, 65535}, {-128, 127}, {-32768, 32767}, {0, 16777215}, {0, 2147483646}};
            for (const ZR& zr : ZRS)
            {
                LD zd = (LD) zr.mx - zr.mn;
                if (!(6.25L * e * zd < 1.0L / 16)) continue; // rounding must stay far below the one unit of truncation
                const long zv[] = {zr.mn, zr.mn + 1, zr.mn + (zr.mx - zr.mn) / 3, zr.mn + (zr.mx - zr.mn) / 2, zr.mx - 1, zr.mx};
                for (long z : zv)
                {
                    std::string in = in0 + " z=" + std::to_string (z) + " zmin=" + std::to_string (zr.mn) + " zmax=" + std::to_string (zr.mx);
                    T d = fr.ZToDepth (z, zr.mn, zr.mx);
                    LD zn = ((LD) z - zr.mn) / zd;
                    // the normalised z is rounded to T before the depth formula: in the exact sub-alphabet only dyadic zn stay exact
                    bool znexact = (LD) (T) zn == zn;
                    if (!F.dyadic || znexact) check_depth (d, zn, "Frustum::ZToDepth", in);
                    else { LD wd = want_depth (zn); if (!(fabsl ((LD) d - wd) <= 8 * e * f)) R ().fail ("Frustum::ZToDepth.orthographic", in, s (wd), fmt (d)); }
                    long zb = fr.DepthToZ (d, zr.mn, zr.mx);
                    ++k_z; k_t += 2;
                    if (zb != z) ++k_tr;
                    if (std::labs (zb - z) > 1) R ().fail ("Frustum::DepthToZ.roundtrip", in, std::to_string (z) + " (+-1)", std::to_string (zb));
                }
                // the two clipping planes map to the ends of the Z range (one unit of truncation)
                long z0 = fr.DepthToZ ((T) -n, zr.mn, zr.mx), z1 = fr.DepthToZ ((T) -f, zr.mn, zr.mx);
                if (std::labs (z0 - zr.mn) > 1 || std::labs (z1 - zr.mx) > 1) R ().fail ("Frustum::DepthToZ.clipping-planes", in0 + " zmin=" + std::to_string (zr.mn) + " zmax=" + std::to_string (zr.mx), std::to_string (zr.mn) + " / " + std::to_string (zr.mx), std::to_string (z0) + " / " + std::to_string (z1));
            }

            // ---- screenRadius / worldRadius: inverse of one another; screenRadius = extent of the projection on the near plane
            for (const L3& g : {I.centre, I.cor[2], I.cor[4], L3{1, -2, -3 * n}})
                for (double rad : {0.25, 1.0, 3.0})
                {
                    Vec3<T> p = toV<T> (g);
                    T sr = fr.screenRadius (p, (T) rad), wr = fr.worldRadius (p, sr), ws = fr.screenRadius (p, fr.worldRadius (p, (T) rad));
                    std::string in = in0 + " p=" + s (p) + " radius=" + fmt (rad);
                    k_t += 3;
                    if (!(fabsl ((LD) wr - rad) <= 4 * e * rad)) R ().fail ("Frustum::worldRadius(screenRadius)", in, fmt (rad), fmt (wr));
                    if (!(fabsl ((LD) ws - rad) <= 4 * e * rad)) R ().fail ("Frustum::screenRadius(worldRadius)", in, fmt (rad), fmt (ws));
                    LD want = rad * n / -(LD) p.z;
                    if (!(fabsl ((LD) sr - want) <= 4 * e * fabsl (want))) R ().fail ("Frustum::screenRadius.definition", in, s (want), fmt (sr));
                }

            // ---- fovx / fovy / aspect
            {
                LD wx = atan2l (r, n) - atan2l (l, n), wy = atan2l (t, n) - atan2l (b, n), wa = (r - l) / (t - b);
                k_t += 3;
                if (!(fabsl ((LD) fr.fovx () - wx) <= 8 * e)) R ().fail ("Frustum::fovx", in0, s (wx), fmt (fr.fovx ()));
                if (!(fabsl ((LD) fr.fovy () - wy) <= 8 * e)) R ().fail ("Frustum::fovy", in0, s (wy), fmt (fr.fovy ()));
                if (!(fabsl ((LD) fr.aspect () - wa) <= e * wa)) R ().fail ("Frustum::aspect", in0, s (wa), fmt (fr.aspect ()));
            }

            // ---- window (screen rectangle -> sub-frustum): arguments are (left, right, top, bottom)
            static const double WR[][4] = {{-1, 1, 1, -1}, {-0.5, 0.5, 0.25, -0.75}, {0, 1, 1, 0}, {-1, -0.25, 0.5, -1}};
            for (auto& wr : WR)
            {
                Frustum<T> wf = fr.window ((T) wr[0], (T) wr[1], (T) wr[2], (T) wr[3]);
                LD wl = l + (r - l) * (1 + wr[0]) / 2, wrr = l + (r - l) * (1 + wr[1]) / 2, wt = b + (t - b) * (1 + wr[2]) / 2, wb = b + (t - b) * (1 + wr[3]) / 2;
                LD tx = F.dyadic ? 0 : 4 * e * (fabsl (l) + fabsl (r)), ty = F.dyadic ? 0 : 4 * e * (fabsl (b) + fabsl (t));
                std::string in = in0 + " window(" + fmt (wr[0]) + "," + fmt (wr[1]) + "," + fmt (wr[2]) + "," + fmt (wr[3]) + ")";
                ++k_t;
                if (!(fabsl ((LD) wf.left () - wl) <= tx && fabsl ((LD) wf.right () - wrr) <= tx && fabsl ((LD) wf.top () - wt) <= ty && fabsl ((LD) wf.bottom () - wb) <= ty))
                    R ().fail ("Frustum::window.rectangle", in, "l,r,t,b=" + s (wl) + "," + s (wrr) + "," + s (wt) + "," + s (wb), fmt (wf.left ()) + "," + fmt (wf.right ()) + "," + fmt (wf.top ()) + "," + fmt (wf.bottom ()));
                if (!(wf.nearPlane () == fr.nearPlane () && wf.farPlane () == fr.farPlane () && wf.orthographic () == F.ortho)) R ().fail ("Frustum::window.keeps-near-far-kind", in, "unchanged", "changed");
            }

            // ---- modifyNearAndFar: orthographic keeps the window; perspective keeps the field of view (window scales with near)
            static const double NF[][2] = {{0.5, 1}, {2, 2}, {1.5, 2}};
            for (auto& nf : NF)
            {
                Frustum<T> m = fr; T nn = (T) (n * nf[0]), ff = (T) (f * nf[1]);
                m.modifyNearAndFar (nn, ff);
                LD k = F.ortho ? 1 : nf[0];
                std::string in = in0 + " modifyNearAndFar(" + fmt (nn) + "," + fmt (ff) + ")";
                ++k_t;
                if (!(m.nearPlane () == nn && m.farPlane () == ff && m.orthographic () == F.ortho)) R ().fail ("Frustum::modifyNearAndFar.near-far", in, "stored", fmt (m.nearPlane ()) + "," + fmt (m.farPlane ()));
                const LD  wv[4] = {l * k, r * k, t * k, b * k};
                const T   gv[4] = {m.left (), m.right (), m.top (), m.bottom ()};
                for (int q = 0; q < 4; ++q)
                    if (F.ortho ? !((LD) gv[q] == wv[q]) : !(fabsl ((LD) gv[q] - wv[q]) <= 8 * e * fabsl (wv[q])))
                        R ().fail (F.ortho ? "Frustum::modifyNearAndFar.orthographic-window" : "Frustum::modifyNearAndFar.perspective-window", in + " [l,r,t,b][" + std::to_string (q) + "]", s (wv[q]), fmt (gv[q]));
            }

            // ---- planes(): order top,right,bottom,left,near,far; outward unit normals; each contains its four corners
            Plane3<T> P[6];
            fr.planes (P);
            static const int ON[6][4] = {{1, 2, 5, 6}, {2, 3, 6, 7}, {0, 3, 4, 7}, {0, 1, 4, 5}, {0, 1, 2, 3}, {4, 5, 6, 7}};
            for (int i = 0; i < 6; ++i)
            {
                L3 pn = toL (P[i].normal);
                std::string in = in0 + " plane " + std::to_string (i);
                k_t += 2;
                LD dn = linf (pn - I.nrm[i]), dd = fabsl ((LD) P[i].distance - I.off[i]);
                if (!(dn <= (F.ortho ? 0 : 8 * e))) R ().fail (F.ortho ? "Frustum::planes.normal.orthographic" : "Frustum::planes.normal.perspective", in, s (I.nrm[i]), s (pn));
                if (!(dd <= (F.ortho ? 0 : 8 * e * fabsl (I.off[i])))) R ().fail (F.ortho ? "Frustum::planes.offset.orthographic" : "Frustum::planes.offset.perspective", in, s (I.off[i]), fmt (P[i].distance));
                // geometric form of the same statement: own corners on the plane, centre strictly inside
                for (int c : ON[i])
                {
                    LD dc = dot (pn, I.cor[c]) - (LD) P[i].distance;
                    if (!(fabsl (dc) <= (F.dyadic ? 0 : 16 * e * (l1 (I.cor[c]) + 1)))) R ().fail ("Frustum::planes.contains-corner", in + " corner " + s (I.cor[c]), "0", s (dc));
                }
                if (!(dot (pn, I.centre) - (LD) P[i].distance < 0)) R ().fail ("Frustum::planes.outward", in, "centre on the negative side", s (dot (pn, I.centre) - (LD) P[i].distance));
            }
        }
        c_dy += k_dy; c_or += k_or; c_pe += k_pe; c_asym += k_as; c_pts += k_pts; c_behind += k_beh; c_rays += k_rays; c_depth += k_dep; c_z += k_z; c_trunc += k_tr; trans += k_t;
        std::lock_guard<std::mutex> g (mm);
        w_corner = std::max (w_corner, lw_c); w_screen = std::max (w_screen, lw_s); w_depth_o = std::max (w_depth_o, lw_do); w_depth_p = std::max (w_depth_p, lw_dp); w_ndc = std::max (w_ndc, lw_n); w_dt = std::max (w_dt, lw_dt);
    });
    ll nf = c_dy + c_or + c_pe;
    R ().add ("states", nf + c_pts + c_rays + c_depth + c_z); R ().add ("evaluations", nf + c_pts + c_rays + c_depth + c_z); R ().add ("transitions", trans);
    R ().add ("frusta", nf);
    R ().cls ("frustum.dyadic-orthographic-exact", c_dy); R ().cls ("frustum.orthographic", c_or); R ().cls ("frustum.perspective", c_pe);
    R ().cls ("frustum.asymmetric-window", c_asym); R ().cls ("project.point-behind-camera", c_behind); R ().cls ("DepthToZ.roundtrip-truncated-by-one", c_trunc);
    std::string tn = tname<T> ();
    R ().note_max ("worst corner->cube error / (8 eps), " + tn, w_corner); R ().note_max ("worst projectPointToScreen error / tolerance, " + tn, w_screen);
    R ().note_max ("worst orthographic depth error / (8 eps far), " + tn, w_depth_o); R ().note_max ("worst perspective depth error / (8 eps far/near |d|), " + tn, w_depth_p);
    R ().note_max ("worst NDC-z-through-matrix error / (16 eps), " + tn, w_ndc);
    R ().note_max ("worst perspective depth error / tight bound (3 |d|/n + 2) eps |d|, " + tn, w_dt);
    if (ok) R ().stage_done (std::to_string (nf) + " frusta (5400 of the product alphabet + 75 further dyadic orthographic) x every member relation");
    else R ().stage_partial ("deadline");
}

// set(near, far, fovx, fovy, aspect): symmetric perspective frustum with the requested field of view and aspect
template <class T> static void setfov ()
{
    const LD e = ex::eps<T> ();
    std::string st = std::string ("frustum-set-fov.") + tname<T> ();
    if (!R ().stage (st)) return;
    const LD pi = 3.14159265358979323846264338327950288L;
    const LD FOV[] = {pi / 6, pi / 4, pi / 3, pi / 2, 2 * pi / 3, 2.5L};
    const LD ASP[] = {0.5L, 1, 4.0L / 3, 16.0L / 9, 2};
    ll cases = 0, mx = 0, my = 0;
    for (double nn : {0.5, 1.0, 2.0})
        for (LD fv : FOV) for (LD as : ASP) for (int mode = 0; mode < 2; ++mode)
        {
            T n = (T) nn, f = (T) (8 * nn), phi = (T) fv, a = (T) as;
            Frustum<T> fr; // default: near .1 far 1000 window +-1, perspective
            if (mode == 0) fr.set (n, f, phi, (T) 0, a); else fr.set (n, f, (T) 0, phi, a);
            Frustum<T> fc = mode == 0 ? Frustum<T> (n, f, phi, (T) 0, a) : Frustum<T> (n, f, (T) 0, phi, a);
            LD tn = tanl ((LD) phi / 2), wr = mode == 0 ? nn * tn : nn * tn * (LD) a, wt = mode == 0 ? nn * tn / (LD) a : nn * tn;
            LD wfx = 2 * atanl (wr / nn), wfy = 2 * atanl (wt / nn);
            std::string in = std::string ("T=") + tname<T> () + " set(near=" + fmt (n) + ", far=" + fmt (f) + (mode == 0 ? ", fovx=" : ", fovx=0, fovy=") + fmt (phi) + (mode == 0 ? ", fovy=0" : "") + ", aspect=" + fmt (a) + ")";
            ++cases; (mode ? my : mx)++;
            if (!(fr == fc)) R ().fail ("Frustum::Frustum(fov).equals-set", in, "same state", "different");
            if (!(fr.nearPlane () == n && fr.farPlane () == f && !fr.orthographic ())) R ().fail ("Frustum::set(fov).near-far-kind", in, "stored, perspective", "different");
            if (!(fr.left () == -fr.right () && fr.bottom () == -fr.top ())) R ().fail ("Frustum::set(fov).symmetric", in, "left=-right, bottom=-top", "asymmetric");
            if (!(fabsl ((LD) fr.right () - wr) <= 8 * e * wr)) R ().fail ("Frustum::set(fov).right", in, s (wr), fmt (fr.right ()));
            if (!(fabsl ((LD) fr.top () - wt) <= 8 * e * wt)) R ().fail ("Frustum::set(fov).top", in, s (wt), fmt (fr.top ()));
            if (!(fabsl ((LD) fr.fovx () - wfx) <= 8 * e * std::max (1.0L, wfx))) R ().fail ("Frustum::set(fov).fovx-roundtrip", in, s (wfx), fmt (fr.fovx ()));
            if (!(fabsl ((LD) fr.fovy () - wfy) <= 8 * e * std::max (1.0L, wfy))) R ().fail ("Frustum::set(fov).fovy-roundtrip", in, s (wfy), fmt (fr.fovy ()));
            if (!(fabsl ((LD) fr.aspect () - (LD) a) <= 8 * e * (LD) a)) R ().fail ("Frustum::set(fov).aspect-roundtrip", in, fmt (a), fmt (fr.aspect ()));
        }
    R ().add ("states", cases); R ().add ("evaluations", cases); R ().add ("transitions", cases * 8);
    R ().cls ("set-fov.fovx-given", mx); R ().cls ("set-fov.fovy-given", my);
    R ().stage_done ("3 near x 6 fields of view x 5 aspects x {fovx, fovy} given");
}

void run_core ()
{
    core<float> (); core<double> ();
    setfov<float> (); setfov<double> ();
}
} // namespace c16

int main (int argc, char** argv)
{
    vf::R ().property = "C16";
    vf::R ().parse (argc, argv);
    vf::R ().assume ("long double has a 64-bit significand (x86-64); every frustum parameter of the alphabet is a dyadic rational with few bits");
    c16::run_core ();
    c16::run_frustumtest ();
    c16::run_cameras2 ();
    c16::run_history ();
    return vf::R ().finish ();
}
