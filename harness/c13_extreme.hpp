// C13 — extreme-bounds stage: boxes whose (min,max) pairs sit AT the ends of the element type's range, axis by
// axis, so that every box is "infinite on some axes but not on others", has only min or only max at its extreme,
// or is canonically inverted on one axis only. The lattice stage cannot see any of this: there isInfinite() is
// false on both of its per-axis tests at once, and no comparison is ever near the end of the range (so a
// comparison implemented through a subtraction, which overflows here, is indistinguishable from the real one).
//
// Per-axis alphabet of (min,max) pairs:  (LOWEST,MAX) (LOWEST,1) (0,MAX) (0,1) (MAX,LOWEST) (MAX,MAX)
// Point alphabet per axis:               LOWEST -1 0 1 2 MAX
// Oracle: every coordinate is carried as an exact wide value (__int128 for the integer element types, long
// double for float/double/half: all alphabet values, their sums and differences are exact there) and each
// query is evaluated from its definition on the wide values, axis by axis.
//
// What is NEVER called: size()/majorAxis() of an integer box with a non-empty axis whose max-min is not
// representable (signed overflow = undefined behaviour, nothing is promised), center() of an empty box
// (documented as undefined) or of a box with an axis (MAX,MAX) (max+min overflows).
#pragma once
#include "c13_common.hpp"

namespace c13 {

template <class T, bool I = std::is_integral<T>::value> struct WideOf { typedef long double type; };
template <class T> struct WideOf<T, true> { typedef __int128 type; };

template <class V> struct XLat
{
    typedef Shape<V>               S;
    typedef typename S::T          T;
    typedef typename WideOf<T>::type W;
    enum { D = S::D, NPAIR = 6, NPT = 6, FULL = 1 };
    static const char* suffix () { return ".extreme-bounds"; }
    static const char* tag () { return "extreme"; }
    static T    LO () { return ElemLimits<T>::lowest (); }
    static T    HI () { return ElemLimits<T>::max (); }
    static void pair (int k, T& mn, T& mx)
    {
        switch (k)
        {
            case 0: mn = LO (); mx = HI (); break;
            case 1: mn = LO (); mx = (T) 1; break;
            case 2: mn = (T) 0; mx = HI (); break;
            case 3: mn = (T) 0; mx = (T) 1; break;
            case 4: mn = HI (); mx = LO (); break;
            default: mn = HI (); mx = HI (); break;
        }
    }
    static T point (int k)
    {
        switch (k) { case 0: return LO (); case 1: return (T) -1; case 2: return (T) 0; case 3: return (T) 1; case 4: return (T) 2; default: return HI (); }
    }
    static W wide (T v) { return (W) v; }
};

// ---- second alphabet: BOTH bounds of an axis large and of the SAME sign -------------------------------------
// In the alphabet above every sum max+min either fits the element type comfortably ((LOWEST,MAX) -> -1, (0,MAX),
// (LOWEST,1)) or is excluded ((MAX,MAX)); a center() that narrows the sum back to T before halving, or a size()
// / comparison that goes through a narrowed intermediate, is indistinguishable there. Here max+min lies beyond the
// range of T on the pairs A-D,G,H while max-min stays small and representable:
//   A (MAX-1,MAX)  B (MAX/2+1,MAX)  C (LOWEST,LOWEST/2-1)  D (LOWEST,LOWEST+1)  G (MAX,MAX)  H (LOWEST,LOWEST)
//   E (MAX/4,MAX/2)  F (LOWEST/2,LOWEST/4)   - large, same sign, sum still representable (controls)   and (0,1).
// (unsigned element types: C (MAX/2,MAX/2+1)  D (MAX/2+1,MAX/2+2)  F (1,MAX)  H (0,0); floating types: "-1"/"+1" is
// the neighbouring representable value towards zero, MAX/2+1 is MAX/2.)
// What is judged: size() everywhere (max-min is exactly representable on every pair); center() wherever the
// statement's "(max+min)/2 as a function of min and max" is DEFINED in the arithmetic the type performs:
//   * Interval<T> with T narrower than int (short, signed/unsigned char): the operands are promoted to int, the sum
//     cannot overflow, the quotient lies between min and max and so is representable: judged on EVERY pair;
//   * int / int64 (signed overflow: undefined), Box<VecN<short>> (the sum is formed in Vec<short>, i.e. narrowed to the
//     element type, exactly like int for Box<VecN<int>>) and the floating types (max+min rounds to infinity): judged
//     only on boxes whose every per-axis sum is representable, center() is NOT called / not judged otherwise.
template <class T> inline T toward_zero (T v) { return std::nextafter (v, (T) 0); }
inline half toward_zero (half v) { return half (half::FromBits, (unsigned short) (v.bits () - 1)); } // magnitude one ulp smaller, either sign
template <class T, int Kind> struct SameAlpha; // Kind 0: signed integer, 1: unsigned integer, 2: floating / half
template <class T> struct SameAlpha<T, 0>
{
    static void pair (int k, T lo, T hi, T& mn, T& mx)
    {
        switch (k)
        {
            case 0: mn = (T) (hi - 1); mx = hi; break;
            case 1: mn = (T) (hi / 2 + 1); mx = hi; break;
            case 2: mn = lo; mx = (T) (lo / 2 - 1); break;
            case 3: mn = lo; mx = (T) (lo + 1); break;
            case 4: mn = (T) (hi / 4); mx = (T) (hi / 2); break;
            case 5: mn = (T) (lo / 2); mx = (T) (lo / 4); break;
            case 6: mn = hi; mx = hi; break;
            case 7: mn = lo; mx = lo; break;
            default: mn = (T) 0; mx = (T) 1; break;
        }
    }
};
template <class T> struct SameAlpha<T, 1>
{
    static void pair (int k, T lo, T hi, T& mn, T& mx)
    {
        switch (k)
        {
            case 0: mn = (T) (hi - 1); mx = hi; break;
            case 1: mn = (T) (hi / 2 + 1); mx = hi; break;
            case 2: mn = (T) (hi / 2); mx = (T) (hi / 2 + 1); break;
            case 3: mn = (T) (hi / 2 + 1); mx = (T) (hi / 2 + 2); break;
            case 4: mn = (T) (hi / 4); mx = (T) (hi / 2); break;
            case 5: mn = (T) 1; mx = hi; break;
            case 6: mn = hi; mx = hi; break;
            case 7: mn = lo; mx = lo; break;
            default: mn = (T) 0; mx = (T) 1; break;
        }
    }
};
template <class T> struct SameAlpha<T, 2>
{
    static void pair (int k, T lo, T hi, T& mn, T& mx)
    {
        const T two (2), four (4); // halving / quartering the ends of the range is exact (no subnormals involved)
        switch (k)
        {
            case 0: mn = toward_zero (hi); mx = hi; break;
            case 1: mn = hi / two; mx = hi; break;
            case 2: mn = lo; mx = lo / two; break;
            case 3: mn = lo; mx = toward_zero (lo); break;
            case 4: mn = hi / four; mx = hi / two; break;
            case 5: mn = lo / two; mx = lo / four; break;
            case 6: mn = hi; mx = hi; break;
            case 7: mn = lo; mx = lo; break;
            default: mn = T (0); mx = T (1); break;
        }
    }
};
template <class V> struct XSame
{
    typedef Shape<V>               S;
    typedef typename S::T          T;
    typedef typename WideOf<T>::type W;
    enum { D = S::D, NPAIR = 9, NPT = 6, FULL = 0 };
    enum { KIND = std::is_integral<T>::value ? (std::is_signed<T>::value ? 0 : 1) : 2 };
    static const char* suffix () { return ".same-sign-large-bounds"; }
    static const char* tag () { return "same-sign"; }
    static T    LO () { return ElemLimits<T>::lowest (); }
    static T    HI () { return ElemLimits<T>::max (); }
    static void pair (int k, T& mn, T& mx) { SameAlpha<T, KIND>::pair (k, LO (), HI (), mn, mx); }
    static T point (int k)
    {
        T a, b;
        switch (k)
        {
            case 0: return LO ();
            case 1: pair (2, a, b); return b;
            case 2: return T (0);
            case 3: pair (1, a, b); return a;
            case 4: pair (0, a, b); return a;
            default: return HI ();
        }
    }
    static W wide (T v) { return (W) v; }
};

// correctly rounded value of an exact wide result in T (float types); out of range -> +-infinity
template <class T> inline T round_to (long double x)
{
    const long double mx = (long double) ElemLimits<T>::max ();
    // half way between max and the next power of two rounds to infinity; all values used here are either
    // <= max + 1 (rounds to max) or >= 2*max - 1, so the exact tie rule is never consulted
    if (x > mx * 1.5L) return std::numeric_limits<T>::infinity ();
    if (x < -mx * 1.5L) return (T) -std::numeric_limits<T>::infinity ();
    if (x > mx) return ElemLimits<T>::max ();
    if (x < -mx) return ElemLimits<T>::lowest ();
    return (T) (double) x; // |x| <= max: ordinary conversion (double first: exact for every value used, T may be half)
}

template <class V> inline std::string pairstr_x (const typename Shape<V>::Box& a, const typename Shape<V>::Box& b)
{
    return "a=" + bstr<V> (a) + " b=" + bstr<V> (b);
}

template <class V, class G> typename std::enable_if<is_scalar_elem<V>::value, unsigned>::type call_major (const typename Shape<V>::Box&) { return 0; }
template <class V, class G> typename std::enable_if<!is_scalar_elem<V>::value, unsigned>::type call_major (const typename Shape<V>::Box& b) { return b.majorAxis (); }

// V: shape under test, G: generic-template twin (G == V: none), L: the per-axis alphabet (XLat / XSame)
template <class V, class G, class L = XLat<V>> void extreme_one ()
{
    typedef Shape<V>        S;
    typedef typename S::T   T;
    typedef typename S::Box B;
    typedef typename Shape<G>::Box GB;
    typedef typename L::W   W;
    const bool twin = !std::is_same<V, G>::value;
    const bool integral = std::is_integral<T>::value;
    const int  D = S::D;
    const std::string K = S::kind ();
    const std::string X = L::suffix ();
    const std::string TG = L::tag ();
    // center(): the operands are promoted to int (Interval of an element type narrower than int) => the sum cannot wrap
    const bool promoted = integral && is_scalar_elem<V>::value && sizeof (T) < sizeof (int);
    auto& R = vf::R ();
    const uint64_t NB = ex::ipow (L::NPAIR, D), NP = ex::ipow (L::NPT, D);
    const W WLO = L::wide (L::LO ()), WHI = L::wide (L::HI ());

    struct BX { B b; GB g; W mn[4], mx[4]; int k[4]; bool empty, canon, inf, vol, size_ok, center_ok, sum_beyond; };
    std::vector<BX> boxes (NB);
    long long n_partinf = 0, n_minonly = 0, n_maxonly = 0, n_fullinf = 0, n_canonaxis = 0, n_canon = 0, n_ptaxis = 0;
    long long n_sum_beyond_judged = 0, n_sum_beyond_skipped = 0, n_sum_fits_large = 0;
    for (uint64_t i = 0; i < NB; ++i)
    {
        BX& x = boxes[i];
        ex::decode (i, L::NPAIR, D, x.k);
        V mn, mx; G gmn, gmx;
        x.empty = false; x.canon = true; x.inf = true; x.vol = true; x.size_ok = true; x.center_ok = true; x.sum_beyond = false;
        bool some_inf = false, minonly = false, maxonly = false, canonaxis = false, ptaxis = false;
        for (int a = 0; a < D; ++a)
        {
            T lo, hi; L::pair (x.k[a], lo, hi);
            S::at (mn, a) = lo; S::at (mx, a) = hi;
            Shape<G>::at (gmn, a) = lo; Shape<G>::at (gmx, a) = hi;
            x.mn[a] = L::wide (lo); x.mx[a] = L::wide (hi);
            // every predicate below is evaluated on the wide values, from the definition
            if (x.mx[a] < x.mn[a]) x.empty = true;
            if (!(x.mn[a] == WHI && x.mx[a] == WLO)) x.canon = false; else canonaxis = true;
            const bool ainf = x.mn[a] == WLO && x.mx[a] == WHI;
            if (!ainf) x.inf = false; else some_inf = true;
            if (x.mn[a] == WLO && x.mx[a] != WHI) minonly = true;
            if (x.mn[a] != WLO && x.mx[a] == WHI && x.mn[a] <= x.mx[a]) maxonly = true;
            if (!(x.mx[a] > x.mn[a])) x.vol = false;
            if (x.mn[a] == x.mx[a]) ptaxis = true;
            // max+min not representable in T: defined only where the operands are promoted to int (see XSame); for the
            // first alphabet this is the pair (MAX,MAX) alone
            if (x.mx[a] + x.mn[a] > WHI || x.mx[a] + x.mn[a] < WLO) { x.sum_beyond = true; if (!promoted) x.center_ok = false; }
            if (integral && x.mx[a] >= x.mn[a] && x.mx[a] - x.mn[a] > WHI) x.size_ok = false; // max-min overflows
        }
        if (x.empty) { x.center_ok = false; x.size_ok = true; } // size() of an empty box returns 0 before subtracting
        if (!x.empty) { if (x.sum_beyond) { if (x.center_ok) ++n_sum_beyond_judged; else ++n_sum_beyond_skipped; } else if (!L::FULL) ++n_sum_fits_large; }
        x.b = B (mn, mx);
        if (twin) x.g = GB (gmn, gmx);
        if (x.inf) ++n_fullinf; else if (some_inf) ++n_partinf;
        if (minonly) ++n_minonly;
        if (maxonly) ++n_maxonly;
        if (canonaxis && !x.canon) ++n_canonaxis;
        if (x.canon) ++n_canon;
        if (ptaxis) ++n_ptaxis;
    }
    std::vector<V> pts (NP); std::vector<G> gpts (twin ? NP : 0); std::vector<std::array<W, 4>> wpts (NP);
    for (uint64_t p = 0; p < NP; ++p)
    {
        int c[4]; ex::decode (p, L::NPT, D, c);
        for (int a = 0; a < D; ++a)
        {
            T v = L::point (c[a]);
            S::at (pts[p], a) = v; wpts[p][a] = L::wide (v);
            if (twin) Shape<G>::at (gpts[p], a) = v;
        }
    }

    long long trans = 0, n_sizeinf = 0, n_sizecalls = 0, n_centercalls = 0, n_member_in = 0, n_member_out = 0;
    // ---- per-box predicates, membership, size / center / majorAxis ----------------------------------
    for (uint64_t i = 0; i < NB; ++i)
    {
        const BX& x = boxes[i];
        const std::string in = bstr<V> (x.b);
        if (x.b.isInfinite () != x.inf) R.fail (K + "::isInfinite" + X, in, vf::fmt (x.inf), vf::fmt (x.b.isInfinite ()));
        if (x.b.isEmpty () != x.empty) R.fail (K + "::isEmpty" + X, in, vf::fmt (x.empty), vf::fmt (x.b.isEmpty ()));
        if (x.b.hasVolume () != x.vol) R.fail (K + "::hasVolume" + X, in, vf::fmt (x.vol), vf::fmt (x.b.hasVolume ()));
        trans += 3;
        if (twin)
        {
            if (x.g.isInfinite () != x.b.isInfinite ()) R.fail ("generic-vs-specialisation.isInfinite" + X, in, vf::fmt (x.b.isInfinite ()), vf::fmt (x.g.isInfinite ()));
            if (x.g.isEmpty () != x.b.isEmpty ()) R.fail ("generic-vs-specialisation.isEmpty" + X, in, vf::fmt (x.b.isEmpty ()), vf::fmt (x.g.isEmpty ()));
            if (x.g.hasVolume () != x.b.hasVolume ()) R.fail ("generic-vs-specialisation.hasVolume" + X, in, vf::fmt (x.b.hasVolume ()), vf::fmt (x.g.hasVolume ()));
            trans += 3;
        }
        for (uint64_t p = 0; p < NP; ++p)
        {
            bool want = true;
            for (int a = 0; a < D; ++a) want = want && x.mn[a] <= wpts[p][a] && wpts[p][a] <= x.mx[a];
            const bool got = x.b.intersects (pts[p]);
            if (got != want) R.fail (K + "::intersects(point)" + X, in + " p=" + vstr<V> (pts[p]), vf::fmt (want), vf::fmt (got));
            if (twin && x.g.intersects (gpts[p]) != got) R.fail ("generic-vs-specialisation.intersects(point)" + X, in + " p=" + vstr<V> (pts[p]), vf::fmt (got), vf::fmt (!got));
            if (want) ++n_member_in; else ++n_member_out;
        }
        trans += (long long) NP * (twin ? 2 : 1);

        // size: 0 for the empty set, otherwise max-min (float types: correctly rounded, +inf when not representable)
        T want_sz[4]; bool szinf = false;
        if (x.size_ok)
        {
            auto sz = x.b.size (); ++n_sizecalls;
            for (int a = 0; a < D; ++a)
            {
                if (x.empty) want_sz[a] = (T) 0;
                else if (integral) want_sz[a] = (T) (long long) (x.mx[a] - x.mn[a]);
                else { want_sz[a] = round_to<T> ((long double) (x.mx[a] - x.mn[a])); if (want_sz[a] > ElemLimits<T>::max ()) szinf = true; }
            }
            for (int a = 0; a < D; ++a)
                if (!ex::same (S::at (sz, a), want_sz[a])) { R.fail (K + "::size" + X, in, "axis " + std::to_string (a) + " = " + cs (want_sz[a]), vstr<V> (sz)); break; }
            if (szinf) ++n_sizeinf;
            ++trans;
            if (twin)
            {
                auto gs = x.g.size ();
                for (int a = 0; a < D; ++a) if (!ex::same (Shape<G>::at (gs, a), S::at (sz, a))) { R.fail ("generic-vs-specialisation.size" + X, in, vstr<V> (sz), vstr<G> (gs)); break; }
                ++trans;
            }
            // majorAxis: an axis whose size (as size() defines it, i.e. rounded) is not exceeded by any other axis
            if (D > 1)
            {
                const unsigned ax = call_major<V, G> (x.b);
                bool ok = ax < (unsigned) D;
                if (ok) for (int a = 0; a < D; ++a) if (want_sz[a] > want_sz[ax]) ok = false;
                if (!ok) R.fail (K + "::majorAxis" + X, in, "an axis of greatest size", "axis " + std::to_string (ax));
                if (twin && call_major<G, G> (x.g) != ax) R.fail ("generic-vs-specialisation.majorAxis" + X, in, std::to_string (ax), std::to_string (call_major<G, G> (x.g)));
                trans += twin ? 2 : 1;
            }
        }
        // center = (max+min)/2: integers exactly (C++ division, truncating); float types within 1 ulp of the exact
        // value (one rounding of the sum <= 1/2 ulp, the halving is exact: no alphabet sum is subnormal)
        if (x.center_ok)
        {
            auto c = x.b.center (); ++n_centercalls;
            for (int a = 0; a < D; ++a)
            {
                bool ok;
                std::string w;
                if (integral) { const W q = (x.mx[a] + x.mn[a]) / 2; ok = L::wide (S::at (c, a)) == q; if (!ok) w = cs ((T) (long long) q); }
                else { const long double q = ((long double) x.mx[a] + (long double) x.mn[a]) / 2; ok = ex::ulps<T> (S::at (c, a), q) <= 1; if (!ok) w = vf::fmt (q) + " within 1 ulp"; }
                if (!ok) { R.fail (K + "::center" + X, in, "axis " + std::to_string (a) + " = " + w, vstr<V> (c)); break; }
            }
            ++trans;
            if (twin)
            {
                auto gc = x.g.center ();
                for (int a = 0; a < D; ++a) if (!ex::same (Shape<G>::at (gc, a), S::at (c, a))) { R.fail ("generic-vs-specialisation.center" + X, in, vstr<V> (c), vstr<G> (gc)); break; }
                ++trans;
            }
        }
    }

    // ---- box x box: true iff both non-empty and the sets share a point; symmetric ---------------------
    long long n_pair_overlap = 0, n_pair_disj = 0, n_pair_empty = 0;
    for (uint64_t i = 0; i < (L::FULL ? NB : 0); ++i)
        for (uint64_t j = 0; j < NB; ++j)
        {
            const BX &a = boxes[i], &b = boxes[j];
            bool want = !a.empty && !b.empty;
            for (int d = 0; d < D && want; ++d) want = std::max (a.mn[d], b.mn[d]) <= std::min (a.mx[d], b.mx[d]); // common interval non-empty
            const bool got = a.b.intersects (b.b), rev = b.b.intersects (a.b);
            if (got != want) R.fail (K + "::intersects(Box)" + X, pairstr_x<V> (a.b, b.b), vf::fmt (want), vf::fmt (got));
            if (got != rev) R.fail (K + "::intersects(Box).symmetry" + X, pairstr_x<V> (a.b, b.b), "a.intersects(b) == b.intersects(a)", vf::fmt (got) + " vs " + vf::fmt (rev));
            if (twin && a.g.intersects (b.g) != got) R.fail ("generic-vs-specialisation.intersects(Box)" + X, pairstr_x<V> (a.b, b.b), vf::fmt (got), vf::fmt (!got));
            if (a.empty || b.empty) ++n_pair_empty; else if (want) ++n_pair_overlap; else ++n_pair_disj;
        }
    if (L::FULL) trans += (long long) (NB * NB) * (twin ? 3 : 2);

    // ---- extendBy from every non-empty box and the canonical empty box (the harness-wide interpretation: starts and
    //      arguments are non-inverted or canonically empty): result = smallest box containing both -------------
    long long n_ext_to_extreme = 0, n_ext = 0;
    for (uint64_t i = 0; i < (L::FULL ? NB : 0); ++i)
    {
        const BX& s = boxes[i];
        if (s.empty && !s.canon) continue;
        auto check = [&] (const B& nb, const GB& ng, const W* amn, const W* amx, bool arg_empty, const char* site, const std::string& arg) {
            bool ok = true, toext = false;
            for (int d = 0; d < D; ++d)
            {
                W wmn = s.mn[d], wmx = s.mx[d];
                if (!arg_empty) { if (s.empty) { wmn = amn[d]; wmx = amx[d]; } else { wmn = std::min (wmn, amn[d]); wmx = std::max (wmx, amx[d]); } }
                if (L::wide (S::at (nb.min, d)) != wmn || L::wide (S::at (nb.max, d)) != wmx) ok = false;
                if (!arg_empty && ((wmn == WLO && s.mn[d] != WLO) || (wmx == WHI && s.mx[d] != WHI))) toext = true;
            }
            if (!ok) R.fail (K + site + X, "state=" + bstr<V> (s.b) + " arg=" + arg, "per axis (min of mins, max of maxes)", bstr<V> (nb));
            if (twin && !same_box<V, G> (nb, ng)) R.fail (std::string ("generic-vs-specialisation.") + (site + 2) + X, "state=" + bstr<V> (s.b) + " arg=" + arg, bstr<V> (nb), bstr<G> (ng));
            if (toext) ++n_ext_to_extreme;
            ++n_ext;
        };
        for (uint64_t p = 0; p < NP; ++p)
        {
            B nb = s.b; GB ng = s.g;
            nb.extendBy (pts[p]); if (twin) ng.extendBy (gpts[p]);
            check (nb, ng, wpts[p].data (), wpts[p].data (), false, "::extendBy(point)", vstr<V> (pts[p]));
        }
        for (uint64_t j = 0; j < NB; ++j)
        {
            const BX& a = boxes[j];
            if (a.empty && !a.canon) continue;
            B nb = s.b; GB ng = s.g;
            nb.extendBy (a.b); if (twin) ng.extendBy (a.g);
            check (nb, ng, a.mn, a.mx, a.empty, "::extendBy(Box)", bstr<V> (a.b));
        }
    }
    trans += n_ext * (twin ? 2 : 1);

    R.add ("states", (long long) (NB + NP));
    R.add ("evaluations", (long long) (NB * NP + (L::FULL ? NB * NB : 0)) + n_ext);
    R.add ("transitions", trans);
    R.add ("extreme_boxes", (long long) NB);
    R.cls (TG + ".point.inside", n_member_in); R.cls (TG + ".point.outside", n_member_out);
    R.cls (TG + ".size-called", n_sizecalls); R.cls (TG + ".center-called", n_centercalls);
    if (L::FULL)
    {
        R.cls ("extreme.box.infinite-on-some-axes-only", n_partinf);
        R.cls ("extreme.box.only-min-at-LOWEST", n_minonly); R.cls ("extreme.box.only-max-at-MAX", n_maxonly);
        R.cls ("extreme.box.infinite-on-every-axis", n_fullinf);
        R.cls ("extreme.box.canonically-inverted-on-some-axes-only", n_canonaxis);
        R.cls ("extreme.box.single-point-axis-at-MAX", n_ptaxis);
        R.cls ("extreme.pair.overlap", n_pair_overlap); R.cls ("extreme.pair.disjoint", n_pair_disj); R.cls ("extreme.pair.empty-operand", n_pair_empty);
        R.cls ("extreme.extendBy.bound-moves-to-LOWEST-or-MAX", n_ext_to_extreme);
        if (!integral) R.cls ("extreme.size-not-representable(+inf)", n_sizeinf);
        if (is_half<T>::value) R.cls ("half.extreme-boxes", (long long) NB);
    }
    else
    {
        R.cls ("same-sign.box.single-point-axis-at-MAX-or-LOWEST", n_ptaxis);
        R.cls ("same-sign.center.every-axis-sum-representable(judged)", n_sum_fits_large);
        R.cls ("same-sign.center.sum-beyond-element-range(not called: arithmetic in T)", n_sum_beyond_skipped);
    }
    // max+min beyond the range of T but formed in int by promotion (Interval<short/char>): judged, either alphabet
    if (promoted) R.cls ("center.sum-beyond-element-range.promoted-to-int(judged)", n_sum_beyond_judged);
}

template <class T> bool run_extremes (bool)
{
    extreme_one<T, T> ();
    extreme_one<Vec2<T>, G2<T>> ();
    extreme_one<Vec3<T>, G3<T>> ();
    extreme_one<Vec4<T>, Vec4<T>> ();
    // second alphabet (both bounds large, same sign): per-box predicates, membership, size, center, majorAxis
    extreme_one<T, T, XSame<T>> ();
    extreme_one<Vec2<T>, G2<T>, XSame<Vec2<T>>> ();
    extreme_one<Vec3<T>, G3<T>, XSame<Vec3<T>>> ();
    extreme_one<Vec4<T>, Vec4<T>, XSame<Vec4<T>>> ();
    // Interval of the character types (narrower than int, like short; no Vec/Box of them is instantiated by the library):
    // second alphabet only, run with the short stage
    if (std::is_same<T, short>::value)
    {
        extreme_one<signed char, signed char, XSame<signed char>> ();
        extreme_one<unsigned char, unsigned char, XSame<unsigned char>> ();
    }
    return true;
}

} // namespace c13
