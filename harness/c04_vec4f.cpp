#include "c04.hpp"
namespace c04 {
void register_vec4f (Jobs& jobs) { reg_vec<Vec4<half>> (jobs); reg_vec<Vec4<float>> (jobs); reg_vec<Vec4<double>> (jobs); }
}
