// C12 — float instantiation of the 3-D factorisation checks
#include "c12_shrt3d.hpp"
namespace c12 { void stage_shrt3d_float (int part) { run_shrt3d<float> (part); } }
