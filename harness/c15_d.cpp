// C15 (part d) — strengthenings after the clause audit (findings/audits/audit3.md, section C15):
//   scale.<T>             exact power-of-two scale equivariance of closestPoints / closestPointTo(Line3) / distanceTo(Line3),
//                         Plane3::intersect / intersectT, Sphere3::intersectT / intersect and the triangle intersect()
//   (graded incidence, integer affine plane x matrix, closestVertex for the other Vec types and the far-origin
//    sphere family are in c15_e.cpp)
//
// Scale stage.  Every geometric relation of the property is homogeneous: multiplying all POINTS by s = 2^k multiplies
// the answer points, parameters and distances by s and leaves truth values, directions and barycentric coordinates
// unchanged.  The lattice data times 2^k are exact in T, the exact rational oracle value times 2^k is the exact answer
// for the scaled input, and every rounding-error bound used at unit scale is a bound RELATIVE to the data magnitude
// (the "+1" in S = |p|_1 + |q|_1 + 1 stands for the unit of the lattice), so it scales with s as well.  The check
// therefore divides the library's answer by 2^k (exact) and applies the unit-scale oracle and tolerance unchanged.
// The exponents keep every square (and the fourth-order quantities of the triangle code: |edge x edge|^2) inside the
// normal range:  float |k| <= 28: 2^(4*28) * 2^8 < 2^128 and 2^(-4*28) > 2^-126;  double |k| <= 250: 2^1000 * 2^8 < 2^1024.
// What this adds: at unit scale every intermediate is O(1), so an absolute threshold ("area < 1e-6", "|n.dir| < 1e-6",
// "discr < 1e-9", an absolute near-parallel test) is indistinguishable from the exact comparison it replaces.
#include "c15.hpp"

namespace c15 {
using namespace vf;

template <class T> static Vec3<T> scv (const I3& a, int k) { return Vec3<T> ((T) std::ldexp ((double) a.x, k), (T) std::ldexp ((double) a.y, k), (T) std::ldexp ((double) a.z, k)); }
template <class T> static L3 unsc (const Vec3<T>& g, int k) { return {ldexpl ((LD) g.x, -k), ldexpl ((LD) g.y, -k), ldexpl ((LD) g.z, -k)}; }
static std::string k2 (int k) { return " [all points x 2^" + std::to_string (k) + "]"; }

// a (unscaled, long double) on the line through p0 with stored direction d ?  (same bound as c15.cpp on_line)
static bool on_line_u (const L3& a, const L3& p0, const L3& d, LD e)
{
    if (!std::isfinite ((double) a.x) || !std::isfinite ((double) a.y) || !std::isfinite ((double) a.z)) return false;
    L3 r = a - p0, o = r - d * (dot (r, d) / dot (d, d));
    return linf (o) <= 8 * e * (l1 (a) + l1 (p0));
}

template <class T> static std::vector<int> scales ()
{
    const bool dbl = std::numeric_limits<T>::digits > 30, th = R ().thorough ();
    if (dbl) return th ? std::vector<int>{-250, -100, -30, -1, 1, 30, 100, 250} : std::vector<int>{-250, -100, 100, 250};
    return th ? std::vector<int>{-28, -20, -12, -3, 3, 12, 20, 28} : std::vector<int>{-20, -12, 12, 20};
}

template <class T> static void scale_stage ()
{
    const LD e = ex::eps<T> ();
    std::string st = std::string ("scale.") + tname<T> ();
    if (!R ().stage (st)) return;
    const auto KS = scales<T> ();
    const auto D = directions ();
    const auto DS = directions_small ();
    const std::string tn = std::string ("T=") + tname<T> ();
    bool ok = true;
    std::atomic<ll> c_up (0), c_down (0);

    // ---------------- A: line / line
    {
        const I3 P1[] = {{0, 0, 0}, {1, 2, -1}};
        const auto P2 = lattice (1);
        std::atomic<ll> c_np (0), c_par (0);
        const uint64_t n1 = 2 * DS.size ();
        ok &= parallel_chunks (n1, 1, [&] (uint64_t lo, uint64_t hi, unsigned) {
            ll k_np = 0, k_par = 0, k_up = 0, k_down = 0;
            for (uint64_t i = lo; i < hi; ++i)
            {
                I3 p1 = P1[i / DS.size ()], v1 = DS[i % DS.size ()];
                for (const I3& p2 : P2) for (const I3& v2 : D)
                {
                    I3 c = cross (v1, v2), w = p2 - p1;
                    ll cc = dot (c, c), a1 = dot (v1, v1), a2 = dot (v2, v2);
                    LD S = (LD) (l1 (p1) + l1 (p2) + 1);
                    for (int k : KS)
                    {
                        (k > 0 ? k_up : k_down)++;
                        Line3<T> A (scv<T> (p1, k), scv<T> (p1 + v1, k)), B (scv<T> (p2, k), scv<T> (p2 + v2, k));
                        auto in = [&] () { return tn + " line1=Line3(" + s (p1) + ", +" + s (v1) + ") line2=Line3(" + s (p2) + ", +" + s (v2) + ")" + k2 (k); };
                        Vec3<T> g1 = A.closestPointTo (B), q1 ((T) 77), q2 ((T) 77);
                        bool r = closestPoints (A, B, q1, q2);
                        LD gd = ldexpl ((LD) A.distanceTo (B), -k);
                        if (cc != 0)
                        {
                            ++k_np;
                            LD sin2 = (LD) cc / ((LD) a1 * a2), sn = sqrtl (sin2), tol = 32 * e * S / (sin2 * sn);
                            LD Dd = fabsl ((LD) dot (c, w)) / sqrtl ((LD) cc);
                            ll ns = dot (cross (w, v2), c), nt = dot (cross (w, v1), c);
                            L3 C1 = {(LD) (p1.x * cc + ns * v1.x) / cc, (LD) (p1.y * cc + ns * v1.y) / cc, (LD) (p1.z * cc + ns * v1.z) / cc};
                            L3 C2 = {(LD) (p2.x * cc + nt * v2.x) / cc, (LD) (p2.y * cc + nt * v2.y) / cc, (LD) (p2.z * cc + nt * v2.z) / cc};
                            if (!(linf (unsc (g1, k) - C1) <= tol)) R ().fail ("Line3::closestPointTo(Line3).scaled", in (), s (C1) + " x 2^k", s (g1));
                            if (!r) R ().fail ("closestPoints.scaled.false-on-non-parallel", in (), "true", "false");
                            else
                            {
                                if (!(linf (unsc (q1, k) - C1) <= tol)) R ().fail ("closestPoints.scaled.point1", in (), s (C1) + " x 2^k", s (q1));
                                if (!(linf (unsc (q2, k) - C2) <= tol)) R ().fail ("closestPoints.scaled.point2", in (), s (C2) + " x 2^k", s (q2));
                            }
                            if (!(std::isfinite ((double) gd) && fabsl (gd - Dd) <= tol)) R ().fail ("Line3::distanceTo(Line3).scaled", in (), s (Dd) + " x 2^k", s (gd) + " x 2^k");
                        }
                        else
                        {
                            ++k_par;
                            I3 wx = cross (w, v1);
                            LD Dd = sqrtl ((LD) dot (wx, wx) / a1);
                            L3 a0 = toL (p1), b0 = toL (p2);
                            if (!on_line_u (unsc (g1, k), a0, toL (A.dir), e)) R ().fail ("Line3::closestPointTo(Line3).scaled.parallel", in (), "a finite point of line1", s (g1));
                            if (r)
                            {
                                L3 u1 = unsc (q1, k), u2 = unsc (q2, k);
                                if (!on_line_u (u1, a0, toL (A.dir), e) || !on_line_u (u2, b0, toL (B.dir), e)) R ().fail ("closestPoints.scaled.parallel-not-on-lines", in (), "finite points on the lines", s (q1) + " " + s (q2));
                                else if (!(len (u1 - u2) >= Dd - 8 * e * (l1 (u1) + l1 (u2) + 1))) R ().fail ("closestPoints.scaled.parallel-separation", in (), ">= " + s (Dd) + " x 2^k", s (len (u1 - u2)) + " x 2^k");
                            }
                            if (!(std::isfinite ((double) gd) && fabsl (gd - Dd) <= 32 * e * S)) R ().fail ("Line3::distanceTo(Line3).scaled.parallel", in (), s (Dd) + " x 2^k", s (gd) + " x 2^k");
                        }
                    }
                }
            }
            c_np += k_np; c_par += k_par; c_up += k_up; c_down += k_down;
        });
        ll n = c_np + c_par;
        R ().add ("states", n); R ().add ("evaluations", n); R ().add ("transitions", n * 3);
        R ().cls ("scaled.line-line.non-parallel", c_np); R ().cls ("scaled.line-line.parallel", c_par);
    }

    // ---------------- B: line / plane
    {
        const I3 PP[] = {{0, 0, 0}, {1, -2, 2}, {-1, 0, 2}};
        const auto P0 = lattice (1);
        std::atomic<ll> c_hit (0), c_par (0);
        ok &= parallel_chunks (3 * D.size (), 4, [&] (uint64_t lo, uint64_t hi, unsigned) {
            ll k_hit = 0, k_par = 0, k_up = 0, k_down = 0;
            for (uint64_t i = lo; i < hi; ++i)
            {
                I3 pp = PP[i / D.size ()], nn = D[i % D.size ()];
                for (int k : KS)
                {
                    Plane3<T> pl (scv<T> (pp, k), toV<T> (nn));
                    for (const I3& p0 : P0) for (const I3& v : DS)
                    {
                        ll nv = dot (nn, v), num = dot (nn, pp - p0);
                        if (nv == 0) { ++k_par; continue; }
                        ++k_hit; (k > 0 ? k_up : k_down)++;
                        Line3<T> l (scv<T> (p0, k), scv<T> (p0 + v, k));
                        Vec3<T> X ((T) 77); T t = 77;
                        bool r1 = pl.intersect (l, X), r2 = pl.intersectT (l, t);
                        auto in = [&] () { return tn + " Plane3(point=" + s (pp) + ", normal=" + s (nn) + ") Line3(" + s (p0) + ", +" + s (v) + ")" + k2 (k); };
                        LD vl = sqrtl ((LD) dot (v, v)), kk = (LD) dot (nn, nn) * dot (v, v) / ((LD) nv * nv);
                        LD tol = 32 * e * (LD) (l1 (pp) + l1 (p0) + 1) * kk;
                        L3 wX = {(LD) (p0.x * nv + num * v.x) / nv, (LD) (p0.y * nv + num * v.y) / nv, (LD) (p0.z * nv + num * v.z) / nv};
                        if (!r1) R ().fail ("Plane3::intersect.scaled.false-on-crossing-line", in (), "true", "false");
                        else if (!(linf (unsc (X, k) - wX) <= tol)) R ().fail ("Plane3::intersect.scaled.point", in (), s (wX) + " x 2^k", s (X));
                        if (!r2) R ().fail ("Plane3::intersectT.scaled.false-on-crossing-line", in (), "true", "false");
                        else if (!(fabsl (ldexpl ((LD) t, -k) - (LD) num / nv * vl) <= tol)) R ().fail ("Plane3::intersectT.scaled.parameter", in (), s ((LD) num / nv * vl) + " x 2^k", fmt (t));
                    }
                }
            }
            c_hit += k_hit; c_par += k_par; c_up += k_up; c_down += k_down;
        });
        R ().add ("states", c_hit); R ().add ("evaluations", c_hit); R ().add ("transitions", c_hit.load () * 2);
        R ().cls ("scaled.plane-line.crossing", c_hit);
    }

    // ---------------- C: sphere (same case analysis and tolerance as c15_c.cpp sphere_stage)
    {
        const I3 CC[] = {{0, 0, 0}, {1, -2, 2}};
        std::vector<I3> W = lattice (2);
        for (const I3& d : D) { ll n = dot (d, d); if (n == 9 || n == 25 || n == 49) W.push_back (d); }
        for (ll q : {3, 5, 7, -3, -5, -7}) { W.push_back ({q, 0, 0}); W.push_back ({0, q, 0}); W.push_back ({0, 0, q}); }
        const ll RR[] = {0, 1, 3, 5, 7};
        std::atomic<ll> c_miss (0), c_hit (0), c_tang (0);
        ok &= parallel_chunks (2 * W.size (), 2, [&] (uint64_t lo, uint64_t hi, unsigned) {
            ll k_miss = 0, k_hit = 0, k_tang = 0, k_up = 0, k_down = 0;
            for (uint64_t i = lo; i < hi; ++i)
            {
                I3 c = CC[i / W.size ()], w = W[i % W.size ()];
                for (ll r : RR) for (const I3& v : D)
                {
                    ll a = dot (v, v), b = dot (v, w), C = dot (w, w) - r * r, disc = b * b - a * C;
                    LD vl = sqrtl ((LD) a), S2 = (LD) (dot (w, w) + r * r + 1), S = (LD) (l1 (w) + r + 1);
                    for (int k : KS)
                    {
                        (k > 0 ? k_up : k_down)++;
                        Sphere3<T> sp (scv<T> (c, k), (T) std::ldexp ((double) r, k));
                        Line3<T>   l (scv<T> (c + w, k), scv<T> (c + w + v, k));
                        T tt = 77; Vec3<T> X ((T) 77);
                        bool r1 = sp.intersectT (l, tt), r2 = sp.intersect (l, X);
                        LD t = ldexpl ((LD) tt, -k);
                        auto in = [&] () { return tn + " Sphere3(" + s (c) + ", " + std::to_string (r) + ") Line3(" + s (c + w) + ", +" + s (v) + ")" + k2 (k); };
                        if (r1 != r2) R ().fail ("Sphere3::intersect-vs-intersectT.scaled", in (), fmt (r1), fmt (r2));
                        if (disc < 0) { ++k_miss; if (r1) R ().fail ("Sphere3::intersectT.scaled.true-on-miss", in (), "false", "true t=" + fmt (tt)); continue; }
                        if (disc == 0)
                        {
                            ++k_tang;
                            LD t0 = -(LD) b / vl, tolT = sqrtl (64 * e * S2) + 16 * e * S;
                            if (r1 && !(fabsl (t - t0) <= tolT && t0 >= -tolT)) R ().fail ("Sphere3::intersectT.scaled.tangent", in (), "false, or t near " + s (t0) + " x 2^k if that is >= 0", fmt (tt));
                            continue;
                        }
                        ++k_hit;
                        LD sq = sqrtl ((LD) disc), tm = (-(LD) b - sq) / vl, tp = (-(LD) b + sq) / vl;
                        LD tol = 16 * e * S2 / (sq / vl) + 16 * e * S;
                        bool near0 = fabsl (tm) <= tol || fabsl (tp) <= tol, good;
                        if (!r1) good = tp < -tol || (near0 && tp <= tol);
                        else
                        {
                            bool is_m = fabsl (t - tm) <= tol, is_p = fabsl (t - tp) <= tol;
                            if (tm > tol) good = is_m;
                            else if (tm < -tol) good = is_p && tp >= -tol;
                            else good = is_m || is_p;
                            if (good && r2 && !(fabsl (len (unsc (X, k) - toL (c)) - r) <= 2 * tol + 8 * e * S)) R ().fail ("Sphere3::intersect.scaled.point-on-sphere", in (), std::to_string (r) + " x 2^k", s (len (unsc (X, k) - toL (c))) + " x 2^k");
                        }
                        if (!good) R ().fail (r1 ? "Sphere3::intersectT.scaled.smallest-nonnegative-root" : "Sphere3::intersectT.scaled.false-on-hit", in (), "roots (x 2^k) t-=" + s (tm) + " t+=" + s (tp), r1 ? fmt (tt) : std::string ("false"));
                    }
                }
            }
            c_miss += k_miss; c_hit += k_hit; c_tang += k_tang; c_up += k_up; c_down += k_down;
        });
        ll n = c_miss + c_hit + c_tang;
        R ().add ("states", n); R ().add ("evaluations", n); R ().add ("transitions", n * 2);
        R ().cls ("scaled.sphere.line-misses", c_miss); R ().cls ("scaled.sphere.two-roots", c_hit); R ().cls ("scaled.sphere.tangent", c_tang);
    }

    // ---------------- D: triangle (same targets, verdict rule and tolerances as c15_c.cpp triangle_stage)
    {
        const auto V = lattice (1);
        std::vector<I3> DD;
        for (const I3& d : DS) { DD.push_back (d); DD.push_back (d * -1); }
        static const int IN[][3]  = {{4, 2, 2}, {6, 1, 1}, {1, 6, 1}, {1, 1, 6}};
        static const int OUT[][3] = {{-1, 5, 4}, {4, -1, 5}, {5, 4, -1}, {-8, 8, 8}};
        std::atomic<ll> c_hit (0), c_missc (0), c_deg (0), c_gr (0), c_nb (0);
        ok &= parallel_chunks (V.size () * V.size (), 4, [&] (uint64_t lo, uint64_t hi, unsigned) {
            ll k_hit = 0, k_miss = 0, k_deg = 0, k_gr = 0, k_nb = 0, k_up = 0, k_down = 0;
            for (uint64_t i = lo; i < hi; ++i)
            {
                I3 v0 = V[i / V.size ()], v1 = V[i % V.size ()];
                for (size_t j2 = 0; j2 < V.size (); ++j2)
                {
                    const I3 v2 = V[j2];
                    I3 Nd = cross (v2 - v1, v1 - v0);
                    ll NN = dot (Nd, Nd);
                    std::string tri = tn + " tri=" + s (v0) + s (v1) + s (v2);
                    for (int k : KS)
                    {
                        Vec3<T> a0 = scv<T> (v0, k), a1 = scv<T> (v1, k), a2 = scv<T> (v2, k);
                        if (NN == 0)
                        {
                            I3 v = DD[(i * 27 + j2) % DD.size ()]; I3 o = v0 - v * 2;
                            Line3<T> l (scv<T> (o, k), scv<T> (o + v * 3, k));
                            Vec3<T> pt ((T) 77), bc ((T) 77); bool fr = false;
                            ++k_deg; (k > 0 ? k_up : k_down)++;
                            if (intersect (l, a0, a1, a2, pt, bc, fr)) R ().fail ("intersect(triangle).scaled.true-on-degenerate", tri + " Line3(" + s (o) + ", +" + s (v * 3) + ")" + k2 (k), "false", "true");
                            continue;
                        }
                        ll e2[3] = {dot (v1 - v0, v1 - v0), dot (v2 - v1, v2 - v1), dot (v0 - v2, v0 - v2)};
                        LD L = sqrtl ((LD) std::max (e2[0], std::max (e2[1], e2[2]))), h = sqrtl ((LD) NN) / L;
                        for (int wi = 0; wi < 8; ++wi)
                        {
                            const int* w = wi < 4 ? IN[wi] : OUT[wi - 4];
                            const bool interior = wi < 4;
                            // X = (w0 v0 + w1 v1 + w2 v2) / 8 : times 2^k exactly (k - 3 stays far inside the exponent range)
                            I3 X8 = v0 * w[0] + v1 * w[1] + v2 * w[2];
                            L3 XL = toL (X8) * 0.125L;
                            for (const I3& v : DD)
                            {
                                ll nv = dot (Nd, v);
                                if (nv == 0) continue;
                                I3 o8 = X8 - v * 16; // line origin X - 2 v (eighths)
                                LD kk = (LD) NN * dot (v, v) / ((LD) nv * nv);
                                LD S = l1 (XL) + l1 (toL (o8)) * 0.125L + 4;
                                LD tolp = 32 * e * S * kk, tolb = 64 * e * L / h + 4 * tolp / h;
                                if (!(tolb < 1.0L / 16)) { ++k_gr; continue; }
                                (k > 0 ? k_up : k_down)++;
                                Line3<T> l (scv<T> (o8, k - 3), scv<T> (o8 + v * 24, k - 3));
                                Vec3<T> pt ((T) 77), bc ((T) 77); bool fr = false;
                                bool r = intersect (l, a0, a1, a2, pt, bc, fr);
                                auto in = [&] () { return tri + " weights/8=(" + std::to_string (w[0]) + "," + std::to_string (w[1]) + "," + std::to_string (w[2]) + ") Line3(X-2v, X+v) v=" + s (v) + k2 (k); };
                                if (!interior) { ++k_miss; if (r) R ().fail ("intersect(triangle).scaled.true-outside", in (), "false", "true bary=" + s (bc)); continue; }
                                ++k_hit;
                                if (!r) { R ().fail ("intersect(triangle).scaled.false-inside", in (), "true", "false"); continue; }
                                if (fr != (nv < 0)) R ().fail ("intersect(triangle).scaled.front", in (), fmt (nv < 0), fmt (fr));
                                if (!(linf (unsc (pt, k) - XL) <= tolp)) R ().fail ("intersect(triangle).scaled.point", in (), s (XL) + " x 2^k", s (pt));
                                L3 wb = {w[0] / 8.0L, w[1] / 8.0L, w[2] / 8.0L};
                                if (!(maxdiff (bc, wb) <= tolb)) R ().fail ("intersect(triangle).scaled.barycentric", in (), s (wb), s (bc));
                                // informational: with only + - * / sqrt and no absolute constant the barycentrics are bitwise scale-free
                                if (k == KS[0])
                                {
                                    Line3<T> l1_ (scv<T> (o8, -3), scv<T> (o8 + v * 24, -3));
                                    Vec3<T> p1 ((T) 77), b1 ((T) 77); bool f1 = false;
                                    if (intersect (l1_, toV<T> (v0), toV<T> (v1), toV<T> (v2), p1, b1, f1) && !(ex::same (b1.x, bc.x) && ex::same (b1.y, bc.y) && ex::same (b1.z, bc.z))) ++k_nb;
                                }
                            }
                        }
                    }
                }
            }
            c_hit += k_hit; c_missc += k_miss; c_deg += k_deg; c_gr += k_gr; c_nb += k_nb; c_up += k_up; c_down += k_down;
        });
        ll n = c_hit + c_missc + c_deg;
        R ().add ("states", n); R ().add ("evaluations", n); R ().add ("transitions", c_hit.load () * 4 + c_missc + c_deg);
        R ().add (std::string ("scaled_triangle_grazing_lines_skipped.") + tname<T> (), c_gr);
        R ().add (std::string ("scaled_triangle_barycentrics_not_bitwise_scale_free.") + tname<T> (), c_nb);
        R ().cls ("scaled.triangle.line-through-interior", c_hit); R ().cls ("scaled.triangle.line-misses-closed-triangle", c_missc); R ().cls ("scaled.triangle.degenerate", c_deg);
    }
    R ().cls ("scaled.up(2^+k)", c_up); R ().cls ("scaled.down(2^-k)", c_down);
    std::string ks;
    for (int k : KS) ks += (ks.empty () ? "" : ",") + std::to_string (k);
    if (ok) R ().stage_done ("all points x 2^k, k in {" + ks + "}: 26 x 4590 line pairs, 510 planes x 351 lines, 2 x " + std::string ("~170 origins x 5 radii x 170 directions (sphere), 19683 vertex triples x 8 targets x 26 directions (triangle)"));
    else R ().stage_partial ("deadline");
}

void run_scale () { scale_stage<float> (); scale_stage<double> (); }
} // namespace c15
