// C05 — dot and cross products of the integer and half vector instantiations the headers provide typedefs for
// (Vec2/3/4 <short, int, int64_t, half>), in every spelling: dot(), operator^, cross(), operator%, operator%=.
// The float/double stages (c05_exact.hpp) never instantiate these; a float/double temporary, or a specialisation for
// one element type, in Vec::dot / Vec::cross is invisible there.
//
// Oracle: the textbook sum of products in __int128, on operands chosen so that every product and every partial sum
// in any order is representable in T (and, for short, in short: the result type of dot/cross is T):
//   short:   |entries| <= 90 (4 * 90^2 = 32400 <= 32767)
//   int:     |entries| <= 23000 (4 * 23000^2 < 2^31)
//   int64_t: |entries| <= 2^30 + small (4 * 2^60 + ... < 2^63), including entries and products far above 2^53, which no
//            float or double intermediate can hold
//   half:    integers with sum |products| <= 2048 (exact in half; half arithmetic is float arithmetic rounded to half)
// The precondition is checked per case (site "oracle.precondition.intvec-operands-exact").
#include "c05.hpp"
#include <half.h>

namespace c05 {
namespace {

template <class T> struct IV
{
    static const char* name ();
    static T    from (i64 v) { return (T) v; }
    static i128 val (T v) { return (i128) v; }
    static i128 limit () { return (i128) std::numeric_limits<T>::max (); }
    static bool same (T a, T b) { return a == b; }
};
template <> const char* IV<short>::name () { return "short"; }
template <> const char* IV<int>::name () { return "int"; }
template <> const char* IV<int64_t>::name () { return "int64_t"; }
template <> struct IV<half>
{
    static const char* name () { return "half"; }
    static half from (i64 v) { return half ((float) v); }
    static i128 val (half v) { return (i128) (i64) (float) v; }
    static i128 limit () { return 2048; }
    static bool same (half a, half b) { return a.bits () == b.bits () || ((float) a == 0 && (float) b == 0); }
};

struct Counts { long long st = 0, tr = 0, big = 0, above53 = 0; };

inline std::string i64s (const i64* a, int n)
{
    std::string s = "[";
    for (int i = 0; i < n; ++i) { if (i) s += ","; s += std::to_string ((long long) a[i]); }
    return s + "]";
}
template <class T> inline std::string tin (const i64* a, const i64* b, int n)
{
    return std::string ("T=") + IV<T>::name () + " a=" + i64s (a, n) + " b=" + i64s (b, n);
}
inline i128 iabs (i128 v) { return v < 0 ? -v : v; }
template <class T> inline bool fits (i128 abs_sum, const std::string& in)
{
    if (abs_sum <= IV<T>::limit ()) return true;
    R ().fail ("oracle.precondition.intvec-operands-exact", in, "sum |products| <= " + ex::to_string (IV<T>::limit ()), ex::to_string (abs_sum));
    return false;
}
template <class T> inline std::string show (T v) { return ex::to_string (IV<T>::val (v)); }

template <class T, int N> void dot_case (const i64* a, const i64* b, Counts& c)
{
    typedef typename MT<T, N>::V V;
    i128 s = 0, S = 0;
    bool big = false;
    for (int i = 0; i < N; ++i)
    {
        i128 p = (i128) a[i] * b[i];
        s += p; S += iabs (p);
        if (iabs (p) > ((i128) 1 << 53)) big = true;
    }
    if (!fits<T> (S, tin<T> (a, b, N))) return;
    V x, y;
    for (int i = 0; i < N; ++i) { x[i] = IV<T>::from (a[i]); y[i] = IV<T>::from (b[i]); }
    T d = x.dot (y), e = x ^ y;
    std::string vn = "Vec" + std::to_string (N) + "<" + IV<T>::name () + ">";
    if (IV<T>::val (d) != s) R ().fail (vn + "::dot", tin<T> (a, b, N), ex::to_string (s), show (d));
    if (!IV<T>::same (d, e)) R ().fail (vn + "::operator^.vs-dot", tin<T> (a, b, N), show (d), show (e));
    c.st += 1; c.tr += 2; c.above53 += big;
}
template <class T> void cross2_case (const i64* a, const i64* b, Counts& c)
{
    i128 p1 = (i128) a[0] * b[1], p2 = (i128) a[1] * b[0];
    if (!fits<T> (iabs (p1) + iabs (p2), tin<T> (a, b, 2))) return;
    Vec2<T> x (IV<T>::from (a[0]), IV<T>::from (a[1])), y (IV<T>::from (b[0]), IV<T>::from (b[1]));
    T cr = x.cross (y), pm = x % y;
    std::string vn = std::string ("Vec2<") + IV<T>::name () + ">";
    if (IV<T>::val (cr) != p1 - p2) R ().fail (vn + "::cross", tin<T> (a, b, 2), ex::to_string (p1 - p2), show (cr));
    if (!IV<T>::same (cr, pm)) R ().fail (vn + "::operator%.vs-cross", tin<T> (a, b, 2), show (cr), show (pm));
    c.st += 1; c.tr += 2;
    if (iabs (p1) > ((i128) 1 << 53) || iabs (p2) > ((i128) 1 << 53)) ++c.above53;
}
template <class T> void cross3_case (const i64* a, const i64* b, Counts& c)
{
    i128 ref[3], S = 0;
    bool big = false;
    for (int i = 0; i < 3; ++i)
    {   // right-handed: (a x b)_i = a_{i+1} b_{i+2} - a_{i+2} b_{i+1}
        i128 p1 = (i128) a[(i + 1) % 3] * b[(i + 2) % 3], p2 = (i128) a[(i + 2) % 3] * b[(i + 1) % 3];
        ref[i] = p1 - p2;
        S = std::max (S, iabs (p1) + iabs (p2));
        if (iabs (p1) > ((i128) 1 << 53) || iabs (p2) > ((i128) 1 << 53)) big = true;
    }
    if (!fits<T> (S, tin<T> (a, b, 3))) return;
    Vec3<T> x (IV<T>::from (a[0]), IV<T>::from (a[1]), IV<T>::from (a[2])), y (IV<T>::from (b[0]), IV<T>::from (b[1]), IV<T>::from (b[2]));
    Vec3<T> cr = x.cross (y), pm = x % y, q = x;
    const Vec3<T>& rr = (q %= y);
    std::string vn = std::string ("Vec3<") + IV<T>::name () + ">";
    std::string want = "[" + ex::to_string (ref[0]) + "," + ex::to_string (ref[1]) + "," + ex::to_string (ref[2]) + "]";
    auto sv = [] (const Vec3<T>& v) { return "[" + show (v[0]) + "," + show (v[1]) + "," + show (v[2]) + "]"; };
    bool bad = false, s1 = true, s2 = &rr == &q;
    for (int i = 0; i < 3; ++i)
    {
        if (IV<T>::val (cr[i]) != ref[i]) bad = true;
        if (!IV<T>::same (cr[i], pm[i])) s1 = false;
        if (!IV<T>::same (cr[i], q[i])) s2 = false;
    }
    if (bad) R ().fail (vn + "::cross", tin<T> (a, b, 3), want, sv (cr));
    if (!s1) R ().fail (vn + "::operator%.vs-cross", tin<T> (a, b, 3), sv (cr), sv (pm));
    if (!s2) R ().fail (vn + "::operator%=.vs-cross", tin<T> (a, b, 3), sv (cr), sv (q));
    c.st += 1; c.tr += 3; c.above53 += big;
}

template <class F> void all_pairs64 (unsigned base, unsigned dim, int off, i64 scale, F&& f)
{
    uint64_t n = ex::ipow (base, dim);
    int      a[4], b[4];
    i64      A[4], B[4];
    for (uint64_t i = 0; i < n; ++i)
    {
        ex::decode (i, base, dim, a, off);
        for (uint64_t j = 0; j < n; ++j)
        {
            ex::decode (j, base, dim, b, off);
            for (unsigned k = 0; k < dim; ++k) { A[k] = a[k] * scale; B[k] = b[k] * scale; }
            f (A, B);
        }
    }
}

// `unit`: multiplier that lifts the small lattices / primes to the top of the exact range of T
template <class T> void run_type (i64 unit, i64 big, int npr, Counts& c)
{
    // basis pairs: every bilinear term and its sign in isolation
    for (int i = 0; i < 4; ++i)
        for (int j = 0; j < 4; ++j)
        {
            i64 a[4] = {0, 0, 0, 0}, b[4] = {0, 0, 0, 0};
            a[i] = ex::PRIMES[i + 1];
            b[j] = -ex::PRIMES[5 + j];
            dot_case<T, 4> (a, b, c);
            if (i < 3 && j < 3) { dot_case<T, 3> (a, b, c); cross3_case<T> (a, b, c); }
            if (i < 2 && j < 2) { dot_case<T, 2> (a, b, c); cross2_case<T> (a, b, c); }
        }
    // lattices (the same as the float/double stages), plain and scaled to the top of T's exact range
    for (int pass = 0; pass < 2; ++pass)
    {
        i64 sc = pass ? unit : 1;
        if (pass && unit == 1) break;
        all_pairs64 (7, 2, -3, sc, [&] (const i64* a, const i64* b) { dot_case<T, 2> (a, b, c); cross2_case<T> (a, b, c); });
        all_pairs64 (5, 3, -2, sc, [&] (const i64* a, const i64* b) { dot_case<T, 3> (a, b, c); cross3_case<T> (a, b, c); });
        all_pairs64 (3, 4, -1, sc, [&] (const i64* a, const i64* b) { dot_case<T, 4> (a, b, c); });
    }
    // dense generic tuples: distinct signed values `big - prime`, i.e. near the top of the exact range, 36 rotations x 4 x 4 sign patterns
    for (int r = 0; r < 36; ++r)
        for (int sa = 0; sa < 4; ++sa)
            for (int sb = 0; sb < 4; ++sb)
            {
                i64 a[4], b[4];
                for (int i = 0; i < 4; ++i)
                {
                    int sgA = (sa >> (i & 1)) & 1 ? -1 : 1, sgB = ((sb + i) & 2) ? -1 : 1;
                    a[i] = sgA * (big - ex::PRIMES[(r + i) % npr]);
                    b[i] = sgB * (big - ex::PRIMES[(r + 7 * i + 5) % npr]);
                }
                dot_case<T, 2> (a, b, c); dot_case<T, 3> (a, b, c); dot_case<T, 4> (a, b, c);
                cross2_case<T> (a, b, c); cross3_case<T> (a, b, c);
                ++c.big;
            }
}

} // namespace

void run_intvec ()
{
    if (!R ().stage ("integer-and-half-vectors")) return;
    Counts c[4];
    vf::parallel_chunks (4, 1, [&] (uint64_t lo, uint64_t hi, unsigned) {
        for (uint64_t i = lo; i < hi; ++i) switch (i)
            {
                case 0: run_type<short> (30, 90, 36, c[0]); break;                   // 3*30 = 90; |90 - p| <= 88, 4*88^2 = 30976
                case 1: run_type<int> (7000, 23000, 36, c[1]); break;                // 3*7000 = 21000
                case 2: run_type<int64_t> ((i64) 1 << 28, ((i64) 1 << 30) + 160, 36, c[2]); break; // 3*2^28 < 2^30
                default: run_type<half> (1, 22, 8, c[3]); break;                      // primes <= 19: entries 3..20, 4*20^2 = 1600 <= 2048
            }
    });
    long long st = 0, tr = 0, big = 0;
    for (int i = 0; i < 4; ++i) { st += c[i].st; tr += c[i].tr; big += c[i].big; }
    R ().add ("states", st); R ().add ("evaluations", st); R ().add ("transitions", tr);
    R ().cls ("intvec.operands-near-top-of-exact-range", big);
    R ().cls ("intvec.int64-product-above-2^53", c[2].above53);
    R ().stage_done ("dot (dot, ^) for Vec2/3/4 and cross (cross, %, %=) for Vec2/3 over short, int, int64_t, half: basis pairs, all L(3)^2 / L(2)^3 / L(1)^4 pairs plain and scaled to the "
                     "top of the type's overflow-free range, 576 dense tuples near that top (int64_t: products above 2^53)");
}

} // namespace c05
