#include "c04.hpp"
namespace c04 {
void register_vec2i (Jobs& jobs) { reg_vec<Vec2<short>> (jobs); reg_vec<Vec2<int>> (jobs); reg_vec<Vec2<int64_t>> (jobs); }
}
