// C16 (part c) — strengthenings after the clause audit (findings/audits/audit4.md, section C16):
//   cameras2.<T>   planes(p, M) and FrustumTest under camera matrices outside the "cube rotation x positive scale" family:
//     kind general  : M = sc . A + t with A an INTEGER matrix with A A^T = s2 I and det A > 0 that is not a signed
//                     permutation: 3 x the rotation (1/3)[[2,-1,2],[2,2,-1],[-1,2,2]], its transpose, and 5 x the 3-4-5
//                     rotations about z, x, y (uniform scale 3 resp. 5, exact in T): every frustum plane gets a world
//                     normal with three (resp. two) non-zero, non-equal components, orthographic planes are no longer
//                     axis aligned.
//     kind cube     : three cube rotations (for zero-extent / flat objects aligned with the frustum planes)
//     kind mirrored : det M < 0 - the 24 improper cube rotations (= uniform scale -1), -A for the first general A, and two
//                     sheared / non-uniform linear parts with negative determinant.
//   Checks for det M > 0 (same oracle as c16_b.cpp: the actual T-valued world input is pulled back to camera space
//   exactly, (x - t) A^T / (sc s2), and the six defining inequalities are evaluated there in long double):
//     planes(M): unit normals, contain the three transformed defining points, outward and ordered;
//     isVisible(point) = membership (outside the margin);
//     zero-extent objects at EVERY grid point p: Sphere3(p, 0), Box(p, p) and the three boxes p +- h that are flat in
//       exactly one world axis: visible when p is inside, not completely contained when p is outside;
//     objects spanned by an inside grid point b and a neighbouring outside grid point a: Box(min(a,b), max(a,b)) and
//       Sphere3(a, |a-b|(1+2^-10)) contain the interior point b -> must be visible; that box and Sphere3(b, |a-b|(1+2^-10))
//       contain the exterior point a -> must not be completely contained.  (For cube cameras a and b often share world
//       coordinates, which gives boxes of zero thickness straddling a frustum plane.)
//   Checks for det M < 0 (mirroring cameras).  C15 promises side preservation of plane x matrix only for orientation-
//   preserving matrices, and C16 says planes(M) "equals those planes transformed by M": so only
//     planes(M) contains the transformed frustum corners of each face, and planes(M) equals planes() * M (same normal,
//     both contain the same three points) are demanded.  Outward normals and FrustumTest membership are NOT demanded for
//     mirrored cameras; what the library does there (all six normals point INWARD, FrustumTest reports the interior
//     invisible) is recorded as an informational counter / note.
// Margins: c16_b.cpp header, with the coordinate bound S_i = sc amax Sdef_i + |t|_1 + 1 (amax = largest absolute row sum
// of A) and a transformed coordinate now carrying up to 4 eps S_i (three products and the translation) instead of 2 eps
// S_i: (a)+(b) <= eps S_i (4 + 15 L) which the margin 16 eps (S_i (1 + L) + |x|_1) still covers.  Objects add
// 16 eps (|a|_1 + |b|_1 + radius) for the rounding of centre / extent / radius arithmetic inside FrustumTest.
#include "c16.hpp"

namespace c16 {
using namespace vf;

namespace {
struct Cam2 { int A[9]; int s2; double sc; int t[3]; int kind; const char* name; }; // kind 0 cube, 1 general, 2 mirrored
const int K_CUBE = 0, K_GEN = 1, K_MIR = 2;

std::vector<Cam2> cameras2 (bool th)
{
    std::vector<Cam2> o;
    const int G[5][9] = {{2, -1, 2, 2, 2, -1, -1, 2, 2}, {2, 2, -1, -1, 2, 2, 2, -1, 2}, {3, -4, 0, 4, 3, 0, 0, 0, 5}, {5, 0, 0, 0, 3, -4, 0, 4, 3}, {3, 0, 4, 0, 5, 0, -4, 0, 3}};
    const int GS2[5] = {9, 9, 25, 25, 25};
    const char* GN[5] = {"3 x (1/3)[[2,-1,2],[2,2,-1],[-1,2,2]]", "3 x (1/3)[[2,2,-1],[-1,2,2],[2,-1,2]]", "5 x (3-4-5 rotation about z)", "5 x (3-4-5 rotation about x)", "5 x (3-4-5 rotation about y)"};
    const int TT[3][3] = {{0, 0, 0}, {1, -2, 2}, {-2, 1, 0}};
    const double SCS[3] = {1.0, 0.25, 2.0};
    auto add = [&] (const int* A, int s2, double sc, const int* t, int kind, const char* nm) { Cam2 c; memcpy (c.A, A, sizeof c.A); c.s2 = s2; c.sc = sc; memcpy (c.t, t, sizeof c.t); c.kind = kind; c.name = nm; o.push_back (c); };
    for (int g = 0; g < 5; ++g)
        for (int si = 0; si < (th ? 2 : 1); ++si) add (G[g], GS2[g], SCS[(g + si) % 2], TT[(g + si + 1) % 3], K_GEN, GN[g]);
    const auto RT = ex::cube_rotations ();
    static char names[64][48];
    int nn = 0;
    for (int r : {0, 7, 13})
    {
        int A[9]; for (int q = 0; q < 9; ++q) A[q] = RT[r][q];
        snprintf (names[nn], sizeof names[nn], "cube rotation #%d", r);
        add (A, 1, SCS[(r / 3) % 3], TT[r % 3], K_CUBE, names[nn++]);
    }
    for (int r = 0; r < 24; ++r)
    {
        int A[9]; for (int q = 0; q < 9; ++q) A[q] = -RT[r][q];
        snprintf (names[nn], sizeof names[nn], "-1 x cube rotation #%d (improper)", r);
        add (A, 1, SCS[(r / 3) % 3], TT[r % 3], K_MIR, names[nn++]);
    }
    { int A[9]; for (int q = 0; q < 9; ++q) A[q] = -G[0][q]; add (A, 9, 1.0, TT[1], K_MIR, "-3 x (1/3)[[2,-1,2],[2,2,-1],[-1,2,2]] (improper)"); }
    return o;
}
} // namespace

template <class T> static void cameras2_stage ()
{
    const LD   e  = ex::eps<T> ();
    const bool th = R ().thorough ();
    const auto FS = frusta ();
    std::string st = std::string ("cameras2.") + tname<T> ();
    if (!R ().stage (st)) return;
    const auto cams = cameras2 (th);
    const std::string tn = std::string ("T=") + tname<T> ();
    std::atomic<ll> n_pl (0), n_cam (0), n_gen (0), n_cube (0), n_mir (0), n_mirlin (0), n_in (0), n_out (0), n_mg (0);
    std::atomic<ll> n_z_in (0), n_z_out (0), n_flat_in (0), n_flat_out (0), n_pair (0), n_pair_flat (0), n_pair_skip (0), n_zskip (0), n_cun (0), n_inward (0), n_mir_centre_invisible (0), n_mir_outward (0), done (0);
    std::mutex mm; double w_pl = 0;
    static const int ON[6][4] = {{1, 2, 5, 6}, {2, 3, 6, 7}, {0, 3, 4, 7}, {0, 1, 4, 5}, {0, 1, 2, 3}, {4, 5, 6, 7}};
    bool ok = parallel_chunks (FS.size (), 1, [&] (uint64_t lo, uint64_t hi, unsigned) {
        for (uint64_t fi = lo; fi < hi; ++fi)
        {
            const FSpec& F = FS[fi];
            Frustum<T>   fr = F.make<T> ();
            const Ideal  I  = ideal (F);
            const auto   G  = grid (F);
            ll k_pl = 0, k_cam = 0, k_gen = 0, k_cube = 0, k_mir = 0, k_mirlin = 0, k_in = 0, k_out = 0, k_mg = 0, k_zi = 0, k_zo = 0, k_fi = 0, k_fo = 0, k_pair = 0, k_pflat = 0, k_pskip = 0, k_zskip = 0, k_cun = 0, k_inward = 0, k_mci = 0, k_mout = 0;
            double lw = 0;
            LD Sdef[6], hmin[6]; L3 X0[6];
            for (int i = 0; i < 6; ++i)
            {
                L3 a = I.pt (I.def[i][0]), b = I.pt (I.def[i][1]), c = I.pt (I.def[i][2]); X0[i] = a;
                Sdef[i] = std::max (l1 (a), std::max (l1 (b), l1 (c)));
                LD ar2 = len (cross (b - a, c - a));
                hmin[i] = ar2 / std::max (len (b - a), std::max (len (c - b), len (a - c)));
            }
            const LD emin = std::min (F.r - F.l, std::min (F.t - F.b, F.f - F.n));
            Plane3<T> P0[6];
            fr.planes (P0);
            std::vector<char> gin (G.size ()), gout (G.size ());
            std::vector<L3>   gw (G.size ());
            std::vector<Vec3<T>> gv (G.size ());
            std::vector<LD>   gsl (G.size ());

            // ---------------- mirrored sheared / non-uniform linear parts: planes(M) vs planes() * M only
            {
                static const double LINM[2][9] = {{-1, 0, 0, 0, 2, 0, 0, 0, 4}, {1, 0.5, 0, 0, -1, 0, 0.25, 0, 1}};
                for (int li = 0; li < 2; ++li)
                {
                    const double* A = LINM[li];
                    const L3 tr = {1, -2, 3};
                    Matrix44<T> M;
                    for (int r = 0; r < 3; ++r) for (int c = 0; c < 3; ++c) M[r][c] = (T) A[r * 3 + c];
                    M[3][0] = (T) tr.x; M[3][1] = (T) tr.y; M[3][2] = (T) tr.z;
                    auto fwdA = [&] (const L3& p) { return L3{p.x * A[0] + p.y * A[3] + p.z * A[6] + tr.x, p.x * A[1] + p.y * A[4] + p.z * A[7] + tr.y, p.x * A[2] + p.y * A[5] + p.z * A[8] + tr.z}; };
                    Plane3<T> PM[6];
                    fr.planes (PM, M);
                    ++k_mirlin;
                    for (int i = 0; i < 6; ++i)
                    {
                        Plane3<T> Q = P0[i] * M;
                        ++k_pl;
                        LD S = 1;
                        for (int k = 0; k < 3; ++k) S = std::max (S, l1 (fwdA (I.pt (I.def[i][k]))) + 1);
                        const LD tolA = 16 * e * 16 * S * (1 + S / hmin[i]); // as c16_b.cpp: anisotropy 4 and shear, kappa^2 = 16
                        char bf[200]; snprintf (bf, sizeof bf, " M: linear part #%d with NEGATIVE determinant (mirror x non-uniform scale / shear), translation (1,-2,3), plane %d", li, i);
                        for (int k = 0; k < 3; ++k)
                        {
                            L3 X = fwdA (I.pt (I.def[i][k]));
                            LD d1 = dot (toL (PM[i].normal), X) - (LD) PM[i].distance, d2 = dot (toL (Q.normal), X) - (LD) Q.distance;
                            if (!(fabsl (d1) <= tolA)) R ().fail ("Frustum::planes(M).contains-transformed-points.orientation-reversing-non-uniform-M", tn + " " + F.str () + bf, "0", s (d1));
                            if (!(fabsl (d2) <= tolA)) R ().fail ("Frustum::planes()*M.contains-transformed-points.orientation-reversing-non-uniform-M", tn + " " + F.str () + bf, "0", s (d2));
                        }
                        L3 dn = toL (PM[i].normal) - toL (Q.normal);
                        if (!(linf (dn) <= tolA)) R ().fail ("Frustum::planes(M)=planes()*M.orientation-reversing-non-uniform-M", tn + " " + F.str () + bf, s (toL (Q.normal)), s (toL (PM[i].normal)));
                    }
                }
            }

            int ord[3] = {0, 0, 0}; // running index within each camera kind
            for (const Cam2& cm : cams)
            {
                // quick tier: every frustum meets a rotating subset of the cameras - 1 of the 5 general ones, 1 of the 3 cube ones and
                // 5 of the 25 mirrored ones (each camera still meets > 1000 frusta); thorough: the full product
                const int oi = ord[cm.kind]++;
                if (!th && ((cm.kind == K_GEN && oi != (int) (fi % 5)) || (cm.kind == K_CUBE && oi != (int) (fi % 3)) || (cm.kind == K_MIR && oi % 5 != (int) (fi % 5)))) continue;
                const int* A = cm.A;
                const LD sc = cm.sc, sg = sc * sqrtl ((LD) cm.s2); // sg: the uniform scale of M
                const L3 tr = {(LD) cm.t[0], (LD) cm.t[1], (LD) cm.t[2]};
                LD amax = 0; for (int r = 0; r < 3; ++r) amax = std::max (amax, (LD) (std::abs (A[r * 3]) + std::abs (A[r * 3 + 1]) + std::abs (A[r * 3 + 2])));
                Matrix44<T> M;
                for (int r = 0; r < 3; ++r) for (int c = 0; c < 3; ++c) M[r][c] = (T) (sc * A[r * 3 + c]);
                M[3][0] = (T) tr.x; M[3][1] = (T) tr.y; M[3][2] = (T) tr.z;
                auto fwd  = [&] (const L3& p) { return L3{sc * (p.x * A[0] + p.y * A[3] + p.z * A[6]) + tr.x, sc * (p.x * A[1] + p.y * A[4] + p.z * A[7]) + tr.y, sc * (p.x * A[2] + p.y * A[5] + p.z * A[8]) + tr.z}; };
                auto dirw = [&] (const L3& p) { LD q = 1 / sqrtl ((LD) cm.s2); return L3{(p.x * A[0] + p.y * A[3] + p.z * A[6]) * q, (p.x * A[1] + p.y * A[4] + p.z * A[7]) * q, (p.x * A[2] + p.y * A[5] + p.z * A[8]) * q}; };
                auto back = [&] (const L3& w) { L3 q = w - tr; LD k = 1 / (sc * cm.s2); return L3{(q.x * A[0] + q.y * A[1] + q.z * A[2]) * k, (q.x * A[3] + q.y * A[4] + q.z * A[5]) * k, (q.x * A[6] + q.y * A[7] + q.z * A[8]) * k}; };
                auto in = [&] () {
                    char bf[240]; snprintf (bf, sizeof bf, " camera: M = %g x [%s] (rows %d %d %d / %d %d %d / %d %d %d), translation (%d,%d,%d)", cm.sc, cm.name, A[0], A[1], A[2], A[3], A[4], A[5], A[6], A[7], A[8], cm.t[0], cm.t[1], cm.t[2]);
                    return tn + " " + F.str () + bf;
                };
                ++k_cam; (cm.kind == K_GEN ? k_gen : cm.kind == K_CUBE ? k_cube : k_mir)++;
                Plane3<T> P[6];
                fr.planes (P, M);
                LD Sw[6];
                int inward = 0, outward = 0;
                for (int i = 0; i < 6; ++i)
                {
                    ++k_pl;
                    Sw[i] = sc * amax * Sdef[i] + l1 (tr) + 1;
                    const L3 pn = toL (P[i].normal); const LD pd = (LD) P[i].distance;
                    const std::string pin = " plane " + std::to_string (i);
                    if (!(fabsl (dot (pn, pn) - 1) <= 8 * e)) R ().fail (cm.kind == K_MIR ? "Frustum::planes(M).unit-normal.orientation-reversing" : "Frustum::planes(M).unit-normal.general-rotation", in () + pin, "1", s (dot (pn, pn)));
                    // the three defining points
                    for (int k = 0; k < 3; ++k)
                    {
                        L3 X = fwd (I.pt (I.def[i][k]));
                        // margin with the lever term also at the defining points themselves: for a general rotation the cross product of the
                        // two edge vectors no longer has exactly vanishing terms, and for a sliver triangle (near corner + two far corners,
                        // far/near = 2^20) its rounding tilts the normal by 3.5 eps / sin(angle) - term (b) of the c16_b.cpp analysis
                        const LD mgk = 16 * e * (Sw[i] * (1 + l1 (I.pt (I.def[i][k]) - X0[i]) / hmin[i]) + l1 (X));
                        LD d = dot (pn, X) - pd;
                        lw = std::max (lw, (double) (fabsl (d) / mgk));
                        if (!(fabsl (d) <= mgk)) R ().fail (cm.kind == K_MIR ? "Frustum::planes(M).contains-transformed-points.orientation-reversing" : "Frustum::planes(M).contains-transformed-points.general-rotation", in () + pin + " point " + s (X), "0", s (d));
                    }
                    // all four corners of the face (lever margin)
                    for (int c : ON[i])
                    {
                        L3 X = fwd (I.cor[c]);
                        LD d = dot (pn, X) - pd, mg = 16 * e * (Sw[i] * (1 + l1 (I.cor[c] - X0[i]) / hmin[i]) + l1 (X));
                        if (!(fabsl (d) <= mg)) R ().fail (cm.kind == K_MIR ? "Frustum::planes(M).contains-frustum-corners.orientation-reversing" : "Frustum::planes(M).contains-frustum-corners.general-rotation", in () + pin + " corner " + s (X), "0", s (d));
                    }
                    const LD dc = dot (pn, fwd (I.centre)) - pd, wc = sg * (dot (I.nrm[i], I.centre) - I.off[i]);
                    const LD mgr = 16 * e * (Sw[i] * (1 + l1 (I.centre - X0[i]) / hmin[i]) + l1 (fwd (I.centre))), mgc = 1e-3L * fabsl (wc) + mgr;
                    if (cm.kind != K_MIR)
                    {
                        if (!(fabsl (wc) > 2 * mgr)) ++k_cun; // the centre's distance is inside the rounding margin of this plane (float, far/near = 2^20): not decisive
                        else if (!(dc < 0) || !(fabsl (dc - wc) <= mgc)) R ().fail ("Frustum::planes(M).outward-and-ordered.general-rotation", in () + pin, "centre at signed distance " + s (wc), s (dc));
                        // the ideal transformed normal (three non-zero components for the general cameras)
                        L3 wn = dirw (I.nrm[i]);
                        LD tn_ = 16 * e * Sw[i] * (1 + Sw[i] / (sg * hmin[i])); // angular error of a plane through three points known to 4 eps Sw, smallest altitude sg hmin
                        if (!(linf (pn - wn) <= tn_)) R ().fail ("Frustum::planes(M).normal.general-rotation", in () + pin, s (wn), s (pn));
                    }
                    else
                    {
                        // planes(M) equals planes() * M: same normal, and Q contains the same three points
                        Plane3<T> Q = P0[i] * M;
                        // Q is rebuilt from three points around the anchor d n (|anchor image|_1 <= Sa) spanning an orthogonal frame of size >= 0.8 sg;
                        // at the defining points of the face (distance <= 2 Sw from the anchor image) the lever is 2 Sw / (0.8 sg)
                        // (its smallest altitude is >= 0.8 sg / sqrt2 > sg / 2); a defining point of the face is at most Sw + Sa from the anchor image
                        const LD Sa = sc * amax * (2 * fabsl ((LD) P0[i].distance) + 3) + l1 (tr) + 1;
                        const LD tolQ = 16 * e * (Sa * (1 + 2 * (Sw[i] + Sa) / sg) + Sw[i]);
                        for (int k = 0; k < 3; ++k)
                        {
                            L3 X = fwd (I.pt (I.def[i][k]));
                            LD d2 = dot (toL (Q.normal), X) - (LD) Q.distance;
                            if (!(fabsl (d2) <= tolQ)) R ().fail ("Frustum::planes()*M.contains-transformed-points.orientation-reversing", in () + pin + " point " + s (X), "0", s (d2));
                        }
                        const LD tolN = 16 * e * (Sw[i] * (1 + Sw[i] / (sg * hmin[i])) + 2 * Sa / sg + 1); // angular errors of both constructions (+ 8 eps for planes() itself)
                        L3 dn = pn - toL (Q.normal);
                        if (!(linf (dn) <= tolN)) R ().fail ("Frustum::planes(M)=planes()*M.orientation-reversing", in () + pin, s (toL (Q.normal)), s (pn));
                        // informational only: which way does the normal point?
                        if (dc > 0) ++inward; else if (dc < 0) ++outward;
                    }
                }
                if (cm.kind == K_MIR)
                {
                    if (inward == 6) ++k_inward;
                    if (outward == 6) ++k_mout;
                    FrustumTest<T> ft (fr, M);
                    if (!ft.isVisible (toV<T> (fwd (I.centre)))) ++k_mci;
                    continue;
                }
                // ---------------- FrustumTest (det M > 0)
                FrustumTest<T> ft (fr, M);
                for (size_t g = 0; g < G.size (); ++g)
                {
                    Vec3<T> wv = toV<T> (fwd (G[g]));
                    L3 wp = toL (wv), cp = back (wp);
                    gw[g] = wp; gv[g] = wv;
                    bool inside = true, outside = false; LD slin = 1e4900L, slout = -1e4900L;
                    for (int i = 0; i < 6; ++i)
                    {
                        LD mg = 16 * e * (Sw[i] * (1 + l1 (cp - X0[i]) / hmin[i]) + l1 (wp));
                        LD d = sg * (dot (I.nrm[i], cp) - I.off[i]);
                        if (!(d < -mg)) inside = false;
                        if (d > mg) outside = true;
                        slin = std::min (slin, -d - mg); slout = std::max (slout, d - mg); // room left beyond the margin on the decisive side
                    }
                    gin[g] = inside; gout[g] = outside; gsl[g] = inside ? slin : (outside ? slout : 0);
                    bool v = ft.isVisible (wv);
                    if (inside) { ++k_in; if (!v) R ().fail ("FrustumTest::isVisible(point).inside-reported-invisible.general-rotation", in () + " world point " + s (wv), "true", "false"); }
                    else if (outside) { ++k_out; if (v) R ().fail ("FrustumTest::isVisible(point).outside-reported-visible.general-rotation", in () + " world point " + s (wv), "false", "true"); }
                    else { ++k_mg; continue; }
                    // ---- zero-extent objects at this point.  The decisive inequality is that of the point itself; the centre / extent
                    // arithmetic of FrustumTest (and, for the flat boxes p +- h, the rounding of |n|.h, which itself only helps) adds at most
                    // 16 eps (|p|_1 + 3 eta): demanded when the point clears its margin by that much
                    const T eta = (T) (sc * emin / 8);
                    if (!(gsl[g] > 16 * e * (l1 (wp) + 3 * (LD) eta))) { ++k_zskip; continue; }
                    const bool room = true;
                    Sphere3<T> s0 (wv, (T) 0);
                    Box<Vec3<T>> b0 (wv, wv);
                    if (inside)
                    {
                        ++k_zi;
                        if (!ft.isVisible (s0)) R ().fail ("FrustumTest::isVisible(sphere).zero-radius-inside-culled", in () + " Sphere3(" + s (wv) + ", 0)", "true", "false");
                        if (!ft.isVisible (b0)) R ().fail ("FrustumTest::isVisible(box).point-box-inside-culled", in () + " Box(" + s (wv) + ", " + s (wv) + ")", "true", "false");
                    }
                    else
                    {
                        ++k_zo;
                        if (ft.completelyContains (s0)) R ().fail ("FrustumTest::completelyContains(sphere).zero-radius-outside-contained", in () + " Sphere3(" + s (wv) + ", 0)", "false", "true");
                        if (ft.completelyContains (b0)) R ().fail ("FrustumTest::completelyContains(box).point-box-outside-contained", in () + " Box(" + s (wv) + ", " + s (wv) + ")", "false", "true");
                    }
                    if (room)
                        for (int ax = 0; ax < 3; ++ax)
                        {
                            Vec3<T> h (eta, eta, eta); h[ax] = 0;
                            Box<Vec3<T>> bf (wv - h, wv + h);
                            std::string bs = " Box(" + s (bf.min) + ", " + s (bf.max) + ") [flat in world axis " + std::to_string (ax) + ", contains " + s (wv) + "]";
                            if (inside) { ++k_fi; if (!ft.isVisible (bf)) R ().fail ("FrustumTest::isVisible(box).flat-box-inside-culled", in () + bs, "true", "false"); }
                            else { ++k_fo; if (ft.completelyContains (bf)) R ().fail ("FrustumTest::completelyContains(box).flat-box-outside-contained", in () + bs, "false", "true"); }
                        }
                }
                // ---- objects spanned by an inside point b and an outside neighbour a (7 x 7 x 7 grid: index = (iz*7 + ix)*7 + iy)
                for (int bz = 0; bz < 7; ++bz) for (int bx = 0; bx < 7; ++bx) for (int by = 0; by < 7; ++by)
                {
                    const int gb = (bz * 7 + bx) * 7 + by;
                    if (!gin[gb]) continue;
                    for (int dz = -1; dz <= 1; ++dz) for (int dx = -1; dx <= 1; ++dx) for (int dy = -1; dy <= 1; ++dy)
                    {
                        const int az = bz + 2 * dz, ax_ = bx + 2 * dx, ay = by + 2 * dy; // two grid steps: from an interior station to the one beyond the face
                        if ((!dz && !dx && !dy) || az < 0 || az > 6 || ax_ < 0 || ax_ > 6 || ay < 0 || ay > 6) continue;
                        const int ga = (az * 7 + ax_) * 7 + ay;
                        if (!gout[ga]) continue;
                        const L3 a = gw[ga], b = gw[gb];
                        const LD dist = len (a - b);
                        const T  rad = (T) (dist * (1 + 1.0L / 1024));
                        if (!(16 * e * (l1 (a) + l1 (b) + (LD) rad) < std::min (gsl[ga], gsl[gb]))) { ++k_pskip; continue; }
                        ++k_pair;
                        Vec3<T> mn (std::min (gv[ga].x, gv[gb].x), std::min (gv[ga].y, gv[gb].y), std::min (gv[ga].z, gv[gb].z)), mx (std::max (gv[ga].x, gv[gb].x), std::max (gv[ga].y, gv[gb].y), std::max (gv[ga].z, gv[gb].z));
                        if (mn.x == mx.x || mn.y == mx.y || mn.z == mx.z) ++k_pflat;
                        Box<Vec3<T>> bx2 (mn, mx);
                        Sphere3<T> sa (gv[ga], rad), sb (gv[gb], rad);
                        std::string os = " inside point b=" + s (gv[gb]) + " outside point a=" + s (gv[ga]);
                        if (!ft.isVisible (bx2)) R ().fail ("FrustumTest::isVisible(box).box-containing-interior-point-culled", in () + os + " Box(min(a,b), max(a,b))", "true", "false");
                        if (ft.completelyContains (bx2)) R ().fail ("FrustumTest::completelyContains(box).box-containing-exterior-point-contained", in () + os + " Box(min(a,b), max(a,b))", "false", "true");
                        if (!ft.isVisible (sa)) R ().fail ("FrustumTest::isVisible(sphere).sphere-containing-interior-point-culled", in () + os + " Sphere3(a, " + fmt (rad) + ")", "true", "false");
                        if (ft.completelyContains (sb)) R ().fail ("FrustumTest::completelyContains(sphere).sphere-containing-exterior-point-contained", in () + os + " Sphere3(b, " + fmt (rad) + ")", "false", "true");
                    }
                }
            }
            n_pl += k_pl; n_cam += k_cam; n_gen += k_gen; n_cube += k_cube; n_mir += k_mir; n_mirlin += k_mirlin; n_in += k_in; n_out += k_out; n_mg += k_mg;
            n_z_in += k_zi; n_z_out += k_zo; n_flat_in += k_fi; n_flat_out += k_fo; n_pair += k_pair; n_pair_flat += k_pflat; n_pair_skip += k_pskip; n_zskip += k_zskip; n_cun += k_cun;
            n_inward += k_inward; n_mir_centre_invisible += k_mci; n_mir_outward += k_mout;
            ++done;
            std::lock_guard<std::mutex> g (mm); w_pl = std::max (w_pl, lw);
        }
    });
    const ll pts = n_in + n_out + n_mg, objs = 2 * (n_z_in + n_z_out) + n_flat_in + n_flat_out + 4 * n_pair;
    R ().add ("states", n_cam + n_mirlin + pts + objs); R ().add ("evaluations", n_cam + n_mirlin + pts + objs); R ().add ("transitions", n_pl.load () * 3 + pts + objs);
    R ().add (std::string ("cameras2_points_inside_margin_unconstrained.") + tname<T> (), n_mg);
    R ().add (std::string ("cameras2_pair_objects_skipped_for_margin.") + tname<T> (), n_pair_skip);
    R ().add (std::string ("cameras2_planes_whose_outwardness_is_inside_the_rounding_margin_unjudged.") + tname<T> (), n_cun);
    R ().add (std::string ("cameras2_zero_extent_objects_skipped_for_margin.") + tname<T> (), n_zskip);
    R ().add (std::string ("mirrored_camera_pairs_with_all_six_normals_INWARD(informational).") + tname<T> (), n_inward);
    R ().add (std::string ("mirrored_camera_pairs_with_all_six_normals_outward(informational).") + tname<T> (), n_mir_outward);
    R ().add (std::string ("mirrored_camera_pairs_where_FrustumTest_reports_the_frustum_centre_invisible(informational).") + tname<T> (), n_mir_centre_invisible);
    R ().note (std::string ("mirrored cameras (det M < 0), ") + tname<T> (),
               std::to_string (n_inward.load ()) + " of " + std::to_string (n_mir.load ()) + " (frustum, camera) pairs: planes(M) returns all six normals pointing INWARD and FrustumTest::isVisible(centre) is false for " + std::to_string (n_mir_centre_invisible.load ()) +
                   "; Plane3 * M flips the same way, so planes(M) = planes() * M holds. Not a violation: C15 promises side preservation for orientation-preserving matrices only.");
    R ().cls ("planes(M).orientation-reversing", n_mir); R ().cls ("planes(M).orientation-reversing-non-uniform-or-sheared", n_mirlin);
    R ().cls ("planes(M).general-rotation(three-component normals)", n_gen); R ().cls ("cameras2.cube-rotation", n_cube);
    R ().cls ("cameras2.point-inside", n_in); R ().cls ("cameras2.point-outside", n_out);
    R ().cls ("frustumtest.zero-extent-object-inside", n_z_in); R ().cls ("frustumtest.zero-extent-object-outside", n_z_out);
    R ().cls ("frustumtest.flat-box-inside", n_flat_in); R ().cls ("frustumtest.flat-box-outside", n_flat_out);
    R ().cls ("frustumtest.object-spanning-inside-and-outside-point", n_pair); R ().cls ("frustumtest.zero-thickness-box-straddling-a-plane", n_pair_flat);
    R ().note_max (std::string ("worst planes(M) defining-point residual / margin, general and mirrored cameras, ") + tname<T> (), w_pl);
    if (ok) R ().stage_done (std::to_string (done.load ()) + " frusta x " + (th ? std::string ("all ") : std::string ("a rotating 7-camera subset of ")) + std::to_string (cams.size ()) + " cameras (general integer rotations x scale, cube rotations, mirrored) + 2 mirrored sheared linear parts: planes(M); FrustumTest on the det > 0 cameras x (343 points, 5 zero-extent objects per point, inside/outside pair objects)");
    else R ().stage_partial (std::to_string (done.load ()) + " of " + std::to_string (FS.size ()) + " frusta");
}

void run_cameras2 () { cameras2_stage<float> (); cameras2_stage<double> (); }
} // namespace c16
