// C04: conversions between element types for Color4, Shear6, Quat, Matrix22/33/44 and the
// cross-class constructors (Color3(Vec3<S>), Vec4(Vec3<S>), Shear6(Vec3<S>), Shear6(T,T,T), Quat(T,Vec3), Matrix44(Matrix33,Vec3))
#include "c04.hpp"
namespace c04 {

template <class T, class S> static void color4_pair (Jobs& jobs)
{
    C04_JOB (ST_LAYOUT, (convert_ctor<Color4<T>, Color4<S>> (t)); (convert_setget<Color4<T>, Color4<S>> (t)));
    C04_JOB (ST_EQ, (eq_hetero<Color4<T>, Color4<S>> (t)));
}
// Color3<T> == Color3<S>: inherited Vec3<T>::operator==<S>, instantiated for the colour element types (unsigned char / half promotions)
template <class T, class S> static void color3_eq_pair (Jobs& jobs)
{
    C04_JOB (ST_EQ, (eq_hetero<Color3<T>, Color3<S>> (t)));
}
template <class T, class S> static void shear_pair (Jobs& jobs)
{
    C04_JOB (ST_LAYOUT, (convert_ctor<Shear6<T>, Shear6<S>> (t)); (convert_setget<Shear6<T>, Shear6<S>> (t)));
    C04_JOB (ST_EQ, (eq_hetero<Shear6<T>, Shear6<S>> (t)));
}
template <class T, class S> static void quat_pair (Jobs& jobs)
{
    C04_JOB (ST_LAYOUT, (convert_ctor<Quat<T>, Quat<S>> (t)));
    C04_JOB (ST_EQ, (eq_hetero<Quat<T>, Quat<S>> (t)));
}
template <class T, class S> static void matrix_pair (Jobs& jobs)
{
    C04_JOB (ST_LAYOUT, (convert_matrix<Matrix22<T>, Matrix22<S>> (t)); (convert_matrix<Matrix33<T>, Matrix33<S>> (t)); (convert_matrix<Matrix44<T>, Matrix44<S>> (t)));
}

// Color3<T>(Vec3<S>): component-wise cast (S == T included: plain Vec3 -> Color3)
template <class T, class S> static void color3_from_vec3 (Tally& t)
{
    ++t.instances;
    conv_tuples<S, T, 3> (t, [&] (const S* v) {
        T want[3] = {T (v[0]), T (v[1]), T (v[2])};
        ++t.transitions; ++t.states;
        Color3<T> c (make<Vec3<S>> (v));
        expect_tuple ("Color3::Color3(const Vec3<S>&)", c, want, std::string ("S=") + ElName<S>::s () + " src=" + show_tuple (v, 3));
    });
}
// Vec4<T>(Vec3<S>): (T(x), T(y), T(z), 1)
template <class T, class S> static void vec4_from_vec3 (Tally& t)
{
    ++t.instances;
    conv_tuples<S, T, 3> (t, [&] (const S* v) {
        T want[4] = {T (v[0]), T (v[1]), T (v[2]), T (1)};
        ++t.transitions; ++t.states;
        Vec4<T> c (make<Vec3<S>> (v));
        expect_tuple ("Vec4::Vec4(const Vec3<S>&)", c, want, std::string ("S=") + ElName<S>::s () + " src=" + show_tuple (v, 3));
    });
}
// Shear6<T>(Vec3<S>), Shear6<T>(Vec3<T>), operator=(Vec3<S>), Shear6(T,T,T): (xy, xz, yz, 0, 0, 0)
template <class T, class S> static void shear_from_vec3 (Tally& t)
{
    t.instances += 3;
    T g0[6], g1[6];
    generic_tuple<T> (0, 6, g0, g1);
    conv_tuples<S, T, 3> (t, [&] (const S* v) {
        T want[6] = {T (v[0]), T (v[1]), T (v[2]), T (0), T (0), T (0)};
        std::string in = std::string ("S=") + ElName<S>::s () + " src=" + show_tuple (v, 3);
        t.transitions += 3; ++t.states;
        Shear6<T> a (make<Vec3<S>> (v));
        expect_tuple ("Shear6::Shear6(const Vec3<S>&)", a, want, in);
        Shear6<T> b = make<Shear6<T>> (g0);
        const Shear6<T>& ret = (b = make<Vec3<S>> (v));
        expect_tuple ("Shear6::operator=(const Vec3<S>&)", b, want, in);
        if (&ret != &b) R ().fail ("Shear6::operator=(const Vec3<S>&).returns-this", in);
        Shear6<T> c (want[0], want[1], want[2]);
        expect_tuple ("Shear6::Shear6(T,T,T)", c, want, in);
    });
}
template <class T> static void quat_from_parts (Tally& t)
{
    ++t.instances;
    layout_tuples<T, 4> ([&] (const T* v) {
        ++t.transitions; ++t.states;
        Quat<T> q (v[0], make<Vec3<T>> (v + 1));
        expect_tuple ("Quat::Quat(T,Vec3)", q, v, "v=" + show_tuple (v, 4));
    });
}
template <class T> static void m44_from_parts (Tally& t)
{
    ++t.instances;
    layout_tuples<T, 16> ([&] (const T* v) {
        T r[9] = {v[0], v[1], v[2], v[4], v[5], v[6], v[8], v[9], v[10]};
        T want[16] = {v[0], v[1], v[2], T (0), v[4], v[5], v[6], T (0), v[8], v[9], v[10], T (0), v[12], v[13], v[14], T (1)};
        ++t.transitions; ++t.states;
        Matrix44<T> m (make<Matrix33<T>> (r), make<Vec3<T>> (v + 12));
        expect_tuple ("Matrix44::Matrix44(Matrix33,Vec3)", m, want, "v=" + show_tuple (v, 16));
    });
}

void register_conv_misc (Jobs& jobs)
{
    color4_pair<half, float> (jobs); color4_pair<half, uchar> (jobs); color4_pair<float, half> (jobs);
    color4_pair<float, uchar> (jobs); color4_pair<uchar, half> (jobs); color4_pair<uchar, float> (jobs);
    color3_eq_pair<half, float> (jobs); color3_eq_pair<half, uchar> (jobs); color3_eq_pair<float, half> (jobs);
    color3_eq_pair<float, uchar> (jobs); color3_eq_pair<uchar, half> (jobs); color3_eq_pair<uchar, float> (jobs);
    shear_pair<float, double> (jobs); shear_pair<double, float> (jobs);
    quat_pair<float, double> (jobs); quat_pair<double, float> (jobs);
    matrix_pair<float, double> (jobs); matrix_pair<double, float> (jobs);
    C04_JOB (ST_LAYOUT,
             (color3_from_vec3<half, half> (t)); (color3_from_vec3<half, float> (t)); (color3_from_vec3<half, uchar> (t));
             (color3_from_vec3<float, float> (t)); (color3_from_vec3<float, half> (t)); (color3_from_vec3<float, uchar> (t)); (color3_from_vec3<float, double> (t));
             (color3_from_vec3<uchar, uchar> (t)); (color3_from_vec3<uchar, half> (t)); (color3_from_vec3<uchar, float> (t)); (color3_from_vec3<uchar, int> (t)));
    C04_JOB (ST_LAYOUT,
             (vec4_from_vec3<float, float> (t)); (vec4_from_vec3<float, double> (t)); (vec4_from_vec3<double, float> (t)); (vec4_from_vec3<int, float> (t));
             (vec4_from_vec3<half, float> (t)); (vec4_from_vec3<short, int> (t)); (vec4_from_vec3<int64_t, int> (t)); (vec4_from_vec3<float, int> (t));
             (vec4_from_vec3<int, int> (t)); (vec4_from_vec3<double, double> (t)); (vec4_from_vec3<half, half> (t)); (vec4_from_vec3<short, short> (t)); (vec4_from_vec3<int64_t, int64_t> (t)));
    C04_JOB (ST_LAYOUT,
             (shear_from_vec3<float, float> (t)); (shear_from_vec3<float, double> (t)); (shear_from_vec3<double, float> (t)); (shear_from_vec3<double, double> (t));
             (shear_from_vec3<float, int> (t)); (shear_from_vec3<double, half> (t)));
    C04_JOB (ST_LAYOUT, quat_from_parts<float> (t); quat_from_parts<double> (t); m44_from_parts<float> (t); m44_from_parts<double> (t));
}
}
