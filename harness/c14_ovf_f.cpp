// C14 float instantiation of the overflow-fallback stage
#include "c14_ovf.hpp"
namespace c14 { template bool run_ovf<float> (bool); }
