// C10, stage "reused-objects" (seed C10-v2).
//
// "setAxisAngle on Quat and on Matrix44 describe the same rotation": both are set* members -- they are called ON an object that
// already exists and, in general, already holds something (m.setTranslation(t); ...; m.setAxisAngle(axis, a)). The statement
// names the rotation described by the ARGUMENTS, so whatever the object held before the call must not survive in the result.
// Every other stage of this harness calls the builders on default-constructed objects (identity matrix / identity quaternion),
// where a builder that leaves part of the object untouched (the translation row, the projective column, the real part) is
// indistinguishable from a correct one.
//
// Here Matrix44::setAxisAngle, Quat::setAxisAngle and Quat::setRotation are called on
//     * a fresh object,
//     * an object holding a distinct prime (100 + p_k) in EVERY slot,
//     * an object holding sign-flipped primes with the slots in reverse / transposed order,
//     * an object holding a quiet NaN in EVERY slot,
// over all axes (26 lattice directions, three generic non-unit ones) x 124 angles (k*pi/12, |k| <= 24; +-(pi - 10^-j),
// 2pi - 10^-j, +-10^-j) resp. all ordered pairs of lattice directions (angles 0 .. exactly pi: every branch of setRotation:
// <= 90 degrees, two-step, exactly opposite) and the nearly opposite family to = -from + 10^-j perp.
// Oracles (nothing numeric is new):
//   (a) result-depends-on-previous-contents: the re-used objects end BITWISE equal to the fresh one (all 16 slots / 4 components).
//       The result is documented as a function of the arguments only; the same call is the same deterministic sequence of IEEE
//       operations, so one differing bit is a dependence on the previous contents. No tolerance.
//   (b) the statement's relation itself on re-used objects: all 16 entries of the re-used Matrix44 after setAxisAngle within
//       48 eps of toMatrix44() of the re-used Quat after setAxisAngle -- the a-priori bound of stage unit-lattice (c10_unit.cpp
//       header: 16.5 + 16 + 16 eps), unchanged; and p * M = q.rotateVector(p) on 8 lattice points to (32 |p|_2 + 48 |p|_1) eps:
//       M's entries are within 16.5 eps of the axis-angle rotation (same header), the three products and sums of p * M add
//       <= 2 eps |p|_1 and the homogeneous divisor is exactly 1 (<= 19 eps |p|_1 together); rotateVector is within 32 eps |p|_2
//       of the rotation of q/|q| (same header), q within 4 eps per component of (cos(a/2), axis^ sin(a/2)), which moves the
//       rotated vector by <= 16 eps |p|_2; 19 |p|_1 + 48 |p|_2 <= 48 |p|_1 + 32 |p|_2 because |p|_2 <= |p|_1. The fourth
//       row enters p * M with weight 1, so a surviving translation (>= 101 here) is far outside.
// Sites: "Matrix44<T>::setAxisAngle.result-depends-on-previous-contents", "Quat<T>::setAxisAngle.result-...",
// "Quat<T>::setRotation.result-...", "Quat<T>::setAxisAngle.toMatrix44=Matrix44::setAxisAngle.reused-objects",
// "Quat<T>::setAxisAngle.rotateVector=p*Matrix44::setAxisAngle.reused-objects".
#include "c10_common.hpp"
#include <array>

namespace c10 {
namespace {
using vf::R;

struct Tally
{
    long long states = 0, trans = 0, fill[3] = {0, 0, 0}, m44 = 0, quat_aa = 0, rot_le90 = 0, rot_two_step = 0, rot_opposite = 0, rot_near_opposite = 0;
};
static const char* FILLN[3] = {"every slot a distinct prime 100+p_k", "every slot -+(100+p_k), order reversed", "every slot NaN"};

template <class T> inline Matrix44<T> filled44 (int kind)
{
    Matrix44<T> m;
    for (int i = 0; i < 4; ++i)
        for (int j = 0; j < 4; ++j)
            m.x[i][j] = kind == 0 ? (T) (100 + ex::PRIMES[i * 4 + j]) : kind == 1 ? (T) ((((i + j) & 1) ? 1 : -1) * (100 + ex::PRIMES[j * 4 + i])) : std::numeric_limits<T>::quiet_NaN ();
    return m;
}
template <class T> inline Quat<T> filledQ (int kind)
{
    if (kind == 0) return Quat<T> ((T) 103, (T) 107, (T) 109, (T) 113);
    if (kind == 1) return Quat<T> ((T) -113, (T) 109, (T) -107, (T) 103);
    const T n = std::numeric_limits<T>::quiet_NaN ();
    return Quat<T> (n, n, n, n);
}
template <class T> inline bool same44 (const Matrix44<T>& a, const Matrix44<T>& b)
{
    for (int i = 0; i < 4; ++i)
        for (int j = 0; j < 4; ++j)
            if (!ex::same (a.x[i][j], b.x[i][j])) return false;
    return true;
}
template <class T> inline bool sameQ (const Quat<T>& a, const Quat<T>& b)
{
    return ex::same (a.r, b.r) && ex::same (a.v.x, b.v.x) && ex::same (a.v.y, b.v.y) && ex::same (a.v.z, b.v.z);
}

template <class T> void axis_angle_reused (Tally& tl)
{
    const LD e  = EPS<T> ();
    const LD PI = acosl (-1.0L);
    struct A { T a; std::string name; };
    std::vector<A> angs;
    for (int k = -24; k <= 24; ++k) angs.push_back ({(T) (k * PI / 12), std::to_string (k) + "*pi/12"});
    for (int j = 1; j <= 15; ++j)
    {
        LD d = powl (10.0L, -j);
        angs.push_back ({(T) (PI - d), "pi-1e-" + std::to_string (j)});
        angs.push_back ({(T) - (PI - d), "-(pi-1e-" + std::to_string (j) + ")"});
        angs.push_back ({(T) (2 * PI - d), "2pi-1e-" + std::to_string (j)});
        angs.push_back ({(T) d, "1e-" + std::to_string (j)});
        angs.push_back ({(T) -d, "-1e-" + std::to_string (j)});
    }
    std::vector<std::array<int, 3>> axes;
    for (int i = 0; i < 27; ++i)
    {
        int a[3];
        ex::decode ((uint64_t) i, 3, 3, a, -1);
        if (a[0] || a[1] || a[2]) axes.push_back ({{a[0], a[1], a[2]}});
    }
    axes.push_back ({{2, 3, 5}});
    axes.push_back ({{-7, 11, -13}});
    axes.push_back ({{3, 0, -4}});
    static const int P8[8][3] = {{1, 2, -2}, {-1, 0, 2}, {2, -1, 1}, {0, 0, 1}, {0, 1, 0}, {1, 0, 0}, {-2, -2, -2}, {1, 1, 1}};
    const std::string sM = site<T> ("Matrix44", "setAxisAngle.result-depends-on-previous-contents"), sQ = site<T> ("Quat", "setAxisAngle.result-depends-on-previous-contents"),
                      sRel = site<T> ("Quat", "setAxisAngle.toMatrix44=Matrix44::setAxisAngle.reused-objects"), sAct = site<T> ("Quat", "setAxisAngle.rotateVector=p*Matrix44::setAxisAngle.reused-objects");
    for (auto& ax : axes)
        for (auto& g : angs)
        {
            ++tl.states;
            const Vec3<T> av ((T) ax[0], (T) ax[1], (T) ax[2]);
            auto in = [&] (int kind) { return "axis=(" + std::to_string (ax[0]) + "," + std::to_string (ax[1]) + "," + std::to_string (ax[2]) + ") angle=" + g.name + "=" + vf::fmt (g.a) + "; previous contents: " + FILLN[kind]; };
            Matrix44<T> MF;
            MF.setAxisAngle (av, g.a);
            Quat<T> QF;
            QF.setAxisAngle (av, g.a);
            tl.trans += 2;
            for (int kind = 0; kind < 3; ++kind)
            {
                ++tl.fill[kind]; ++tl.m44; ++tl.quat_aa;
                Matrix44<T> MD = filled44<T> (kind);
                MD.setAxisAngle (av, g.a);
                Quat<T> QD = filledQ<T> (kind);
                QD.setAxisAngle (av, g.a);
                tl.trans += 2;
                if (!same44 (MD, MF)) R ().fail (sM, in (kind), "the matrix the same call leaves in a fresh Matrix44: " + mat_str (MF.x), mat_str (MD.x));
                if (!sameQ (QD, QF)) R ().fail (sQ, in (kind), "the quaternion the same call leaves in a fresh Quat: " + qs (QF), qs (QD));
                // the relation of the statement, on the re-used objects (all 16 entries; 48 eps as in stage unit-lattice)
                Matrix44<T> MQ = QD.toMatrix44 ();
                LD w = 0;
                for (int i = 0; i < 4; ++i)
                    for (int j = 0; j < 4; ++j) w = std::max (w, fabsl ((LD) MD.x[i][j] - (LD) MQ.x[i][j]));
                if (!(w == w)) w = 1e30L;
                if (!(w <= 48 * e)) R ().fail (sRel, in (kind), "Quat::setAxisAngle(...).toMatrix44() = " + mat_str (MQ.x) + " to 48 eps", mat_str (MD.x));
                for (auto& p : P8)
                {
                    Vec3<T> pv ((T) p[0], (T) p[1], (T) p[2]);
                    Vec3<T> a = pv * MD, b = QD.rotateVector (pv);
                    ++tl.trans;
                    LD n1 = fabsl ((LD) p[0]) + fabsl ((LD) p[1]) + fabsl ((LD) p[2]), n2 = sqrtl ((LD) (p[0] * p[0] + p[1] * p[1] + p[2] * p[2]));
                    LD d  = std::max (fabsl ((LD) a.x - (LD) b.x), std::max (fabsl ((LD) a.y - (LD) b.y), fabsl ((LD) a.z - (LD) b.z)));
                    if (!(d == d)) d = 1e30L;
                    if (!(d <= (32 * n2 + 48 * n1) * e)) R ().fail (sAct, in (kind) + " p=" + i3 (p), "q.rotateVector(p) = " + v3 (b) + " to (32|p|_2 + 48|p|_1) eps", v3 (a));
                }
            }
        }
}

template <class T> void set_rotation_reused (Tally& tl)
{
    const std::string sR = site<T> ("Quat", "setRotation.result-depends-on-previous-contents");
    auto one = [&] (const Vec3<T>& f, const Vec3<T>& t, const std::string& in) {
        ++tl.states;
        Quat<T> QF;
        QF.setRotation (f, t);
        ++tl.trans;
        for (int kind = 0; kind < 3; ++kind)
        {
            ++tl.fill[kind];
            Quat<T> QD = filledQ<T> (kind);
            QD.setRotation (f, t);
            ++tl.trans;
            if (!sameQ (QD, QF)) R ().fail (sR, in + "; previous contents: " + FILLN[kind], "the quaternion the same call leaves in a fresh Quat: " + qs (QF), qs (QD));
        }
    };
    for (int fi = 0; fi < 27; ++fi)
        for (int ti = 0; ti < 27; ++ti)
        {
            int f[3], t[3];
            ex::decode ((uint64_t) fi, 3, 3, f, -1);
            ex::decode ((uint64_t) ti, 3, 3, t, -1);
            if (!(f[0] || f[1] || f[2]) || !(t[0] || t[1] || t[2])) continue;
            const int dot = f[0] * t[0] + f[1] * t[1] + f[2] * t[2];
            const int cx = f[1] * t[2] - f[2] * t[1], cy = f[2] * t[0] - f[0] * t[2], cz = f[0] * t[1] - f[1] * t[0];
            const bool par = !(cx || cy || cz);
            (dot >= 0 ? tl.rot_le90 : par ? tl.rot_opposite : tl.rot_two_step)++;
            one (Vec3<T> ((T) f[0], (T) f[1], (T) f[2]), Vec3<T> ((T) t[0], (T) t[1], (T) t[2]), "from=" + i3 (f) + " to=" + i3 (t));
        }
    // nearly opposite: to = -from + 10^-j perp (on both sides of the antipodal switch of setRotation)
    const int F[3][3] = {{1, 0, 0}, {1, 1, 0}, {1, -2, 2}}, Pp[3][3] = {{0, 1, 0}, {1, -1, 0}, {2, 2, 1}};
    for (int k = 0; k < 3; ++k)
        for (int j = 1; j <= 16; ++j)
        {
            LD d = powl (10.0L, -j);
            ++tl.rot_near_opposite;
            one (Vec3<T> ((T) F[k][0], (T) F[k][1], (T) F[k][2]), Vec3<T> ((T) (-F[k][0] + d * Pp[k][0]), (T) (-F[k][1] + d * Pp[k][1]), (T) (-F[k][2] + d * Pp[k][2])),
                 "from=" + i3 (F[k]) + " to=-from+1e-" + std::to_string (j) + "*" + i3 (Pp[k]));
        }
}

} // namespace

void run_reused ()
{
    if (!R ().stage ("reused-objects")) return;
    Tally tl;
    axis_angle_reused<float> (tl);  axis_angle_reused<double> (tl);
    set_rotation_reused<float> (tl);  set_rotation_reused<double> (tl);
    R ().add ("states", tl.states); R ().add ("transitions", tl.trans); R ().add ("evaluations", tl.states);
    R ().cls ("reused-object.previous-contents-distinct-primes", tl.fill[0]);
    R ().cls ("reused-object.previous-contents-sign-flipped-reordered-primes", tl.fill[1]);
    R ().cls ("reused-object.previous-contents-NaN", tl.fill[2]);
    R ().cls ("reused-object.Matrix44::setAxisAngle", tl.m44);
    R ().cls ("reused-object.Quat::setAxisAngle", tl.quat_aa);
    R ().cls ("reused-object.Quat::setRotation.angle<=90", tl.rot_le90);
    R ().cls ("reused-object.Quat::setRotation.two-step(angle>90)", tl.rot_two_step);
    R ().cls ("reused-object.Quat::setRotation.exactly-opposite", tl.rot_opposite);
    R ().cls ("reused-object.Quat::setRotation.nearly-opposite", tl.rot_near_opposite);
    R ().sample ("Matrix44 m = [every slot a distinct prime]; m.setAxisAngle((1,-1,0), 5*pi/12) must be bitwise Matrix44().setAxisAngle(...) and equal Quat::setAxisAngle(...).toMatrix44() in all 16 entries");
    R ().stage_done ("Matrix44::setAxisAngle and Quat::setAxisAngle on 29 axes x 124 angles, Quat::setRotation on all ordered pairs of the 26 lattice directions + 48 nearly opposite pairs, each on a fresh object and on "
                     "objects pre-filled with primes / sign-flipped primes / NaN in every slot: bitwise equal results; Quat-vs-Matrix44 (16 entries, 48 eps) and p*M = q.rotateVector(p) (8 points) on the re-used objects; float and double");
}

} // namespace c10
