// C13, stage "dirty-box-objects".
//
// makeEmpty(), makeInfinite(), assignment from Box(point) / Box(min,max), and the out-parameter of transform(box,m,result) /
// affineTransform(box,m,result) REPLACE the contents of a box: what they leave is documented as a function of their arguments alone
// ("Set the box to be empty", "the transformed box is returned in result"); extendBy after makeEmpty() must behave as on a fresh box.
// Boxes are long-lived, re-used objects (a bound accumulated per frame and reset with makeEmpty()). The other stages call these on
// freshly constructed boxes and on three tame pre-fills. Here every such operation is run on a default-constructed box and on boxes
// whose previous contents are
//     * an arbitrary regular box (min = 100+p_k, max = 200+p_k, distinct primes in every slot),
//     * an INVERTED arbitrary box (min = 200+p_k, max = -(100+p_k)),
//     * the infinite box (min = lowest, max = max in every slot),
//     * floating element types: a quiet NaN in every slot; integer element types: the point box at the top of the range,
// and the four re-used boxes must end equal to the fresh one in EVERY slot (bitwise for floating types). No tolerance: the same
// deterministic operation on the same arguments; a difference is a dependence on the previous contents (a slot not written, an
// extendBy into the old result, `if (empty) return` without writing).
//
// Sites: "<Box type>::<operation>.result-depends-on-previous-contents".
#include "../engine/exact.hpp"
#include "../engine/report.hpp"
#include <ImathBox.h>
#include <ImathBoxAlgo.h>
#include <ImathInterval.h>
#include <ImathMatrix.h>
#include <ImathVec.h>
#include <limits>
#include <type_traits>

using namespace IMATH_NAMESPACE;
using vf::R;

namespace {
struct Tally { long long st = 0, tr = 0, kind[4] = {0, 0, 0, 0}, reset = 0, assign = 0, extend = 0, xform = 0, xform_empty_or_inf = 0, xform_proj = 0, intbox = 0; };
template <class S> struct SN;
template <> struct SN<float>   { static const char* n () { return "float"; } };
template <> struct SN<double>  { static const char* n () { return "double"; } };
template <> struct SN<int>     { static const char* n () { return "int"; } };
template <> struct SN<short>   { static const char* n () { return "short"; } };
template <> struct SN<int64_t> { static const char* n () { return "int64"; } };

const char* KN[4] = {"regular box of distinct primes", "inverted box of distinct primes", "infinite box", "NaN in every slot (floating) / point box at the top of the range (integer)"};

template <class E> typename std::enable_if<std::is_floating_point<E>::value, bool>::type sameE (E a, E b) { return ex::same (a, b); }
template <class E> typename std::enable_if<!std::is_floating_point<E>::value, bool>::type sameE (E a, E b) { return a == b; }
template <class E> typename std::enable_if<std::is_floating_point<E>::value, E>::type fill3 () { return std::numeric_limits<E>::quiet_NaN (); }
template <class E> typename std::enable_if<!std::is_floating_point<E>::value, E>::type fill3 () { return std::numeric_limits<E>::max (); }

// B: Box<Vec<E>> or Interval<E>: two blocks (min, max) of D elements each
template <class B, class E> void dirty (B& b, int kind)
{
    E*        p = reinterpret_cast<E*> (&b);
    const int D = (int) (sizeof (B) / sizeof (E)) / 2;
    for (int i = 0; i < D; ++i)
    {
        E& mn = p[i]; E& mx = p[D + i];
        if (kind == 0) { mn = (E) (100 + ex::PRIMES[i]); mx = (E) (200 + ex::PRIMES[i + 4]); }
        else if (kind == 1) { mn = (E) (200 + ex::PRIMES[i + 4]); mx = (E) -(100 + ex::PRIMES[i]); }
        else if (kind == 2) { mn = std::numeric_limits<E>::lowest (); mx = std::numeric_limits<E>::max (); }
        else { mn = fill3<E> (); mx = fill3<E> (); }
    }
}
template <class B, class E> int diff (const B& a, const B& b)
{
    const E * p = reinterpret_cast<const E*> (&a), *q = reinterpret_cast<const E*> (&b);
    const int N = (int) (sizeof (B) / sizeof (E));
    for (int i = 0; i < N; ++i) if (!sameE (p[i], q[i])) return i;
    return -1;
}
template <class B, class E> std::string show (const B& a)
{
    const E*  p = reinterpret_cast<const E*> (&a);
    const int N = (int) (sizeof (B) / sizeof (E));
    std::string s = "min=(";
    for (int i = 0; i < N; ++i) s += (i == N / 2 ? ") max=(" : i ? "," : "") + vf::fmt (p[i]);
    return s + ")";
}

template <class B, class E, class Apply, class Desc> void run (Tally& tl, const std::string& site, Apply apply, Desc desc)
{
    B ref; // default-constructed = empty
    apply (ref);
    ++tl.st; ++tl.tr;
    for (int k = 0; k < 4; ++k)
    {
        B d;
        dirty<B, E> (d, k);
        apply (d);
        ++tl.tr; ++tl.kind[k];
        int at = diff<B, E> (d, ref);
        if (at >= 0)
            R ().fail (site + ".result-depends-on-previous-contents", desc () + "; box previously: " + KN[k] + "; first differing slot " + std::to_string (at) + " (min slots, then max slots)",
                       "what the same operation leaves in a default-constructed box: " + show<B, E> (ref), show<B, E> (d));
    }
}

template <class V, class E, int D> V pt (int idx)
{
    int c[4];
    ex::decode ((uint64_t) idx, 3, D, c, -1);
    V v;
    for (int i = 0; i < D; ++i) v[i] = (E) (c[i] == 1 ? 2 : c[i]); // {-1,0,2}
    return v;
}
template <class V, int D> std::string vs (const V& v) { std::string s = "("; for (int i = 0; i < D; ++i) s += (i ? "," : "") + vf::fmt (v[i]); return s + ")"; }

template <class V, class E, int D> void box_ops (Tally& tl, const char* bname)
{
    typedef Box<V> B;
    const std::string bn = std::string (bname) + "<" + SN<E>::n () + ">";
    const int NP = (int) ex::ipow (3, D);
    tl.reset += 2;
    run<B, E> (tl, bn + "::makeEmpty", [] (B& b) { b.makeEmpty (); }, [] () { return std::string ("makeEmpty()"); });
    run<B, E> (tl, bn + "::makeInfinite", [] (B& b) { b.makeInfinite (); }, [] () { return std::string ("makeInfinite()"); });
    for (int i = 0; i < NP; ++i)
    {
        const V p = pt<V, E, D> (i);
        ++tl.assign;
        run<B, E> (tl, bn + "::operator=(Box(point))", [&] (B& b) { b = B (p); }, [=] () { return "b = Box(" + vs<V, D> (p) + ")"; });
        run<B, E> (tl, bn + "::makeEmpty-extendBy(point)", [&] (B& b) { b.makeEmpty (); b.extendBy (p); }, [=] () { return "makeEmpty(); extendBy(" + vs<V, D> (p) + ")"; });
        for (int j = 0; j < NP; ++j)
        {
            const V q = pt<V, E, D> (j);
            ++tl.assign; tl.extend += 2;
            run<B, E> (tl, bn + "::operator=(Box(min,max))", [&] (B& b) { b = B (p, q); }, [=] () { return "b = Box(" + vs<V, D> (p) + "," + vs<V, D> (q) + ")"; });
            run<B, E> (tl, bn + "::makeEmpty-extendBy(point)-extendBy(point)", [&] (B& b) { b.makeEmpty (); b.extendBy (p); b.extendBy (q); }, [=] () { return "makeEmpty(); extendBy(" + vs<V, D> (p) + "); extendBy(" + vs<V, D> (q) + ")"; });
            run<B, E> (tl, bn + "::makeEmpty-extendBy(box)", [&] (B& b) { b.makeEmpty (); b.extendBy (B (p, q)); }, [=] () { return "makeEmpty(); extendBy(Box(" + vs<V, D> (p) + "," + vs<V, D> (q) + "))"; });
        }
    }
}

template <class E> void interval_ops (Tally& tl)
{
    typedef Interval<E> B;
    const std::string bn = std::string ("Interval<") + SN<E>::n () + ">";
    tl.reset += 2;
    run<B, E> (tl, bn + "::makeEmpty", [] (B& b) { b.makeEmpty (); }, [] () { return std::string ("makeEmpty()"); });
    run<B, E> (tl, bn + "::makeInfinite", [] (B& b) { b.makeInfinite (); }, [] () { return std::string ("makeInfinite()"); });
    const E a[3] = {(E) -1, (E) 0, (E) 2};
    for (int i = 0; i < 3; ++i)
        for (int j = 0; j < 3; ++j)
        {
            const E p = a[i], q = a[j];
            ++tl.assign; ++tl.extend;
            run<B, E> (tl, bn + "::operator=(Interval(min,max))", [&] (B& b) { b = B (p, q); }, [=] () { return "b = Interval(" + vf::fmt (p) + "," + vf::fmt (q) + ")"; });
            run<B, E> (tl, bn + "::makeEmpty-extendBy(point)-extendBy(point)", [&] (B& b) { b.makeEmpty (); b.extendBy (p); b.extendBy (q); }, [=] () { return "makeEmpty(); extendBy(" + vf::fmt (p) + "); extendBy(" + vf::fmt (q) + ")"; });
        }
}

// matrices: 0 identity, 1 integer affine with negative entries and translation, 2 integer affine singular block, 3 fractional affine, 4/5 projective with w > 0 on the
// lattice boxes (m33 = 8, perspective entries +-1/2, 1/4: w in [8 - 2*1.25, 8 + 2*1.25])
template <class T> Matrix44<T> xmat (int g)
{
    Matrix44<T> m;
    if (g == 0) return m;
    const int A[3][3] = {{2, -3, 0}, {1, 0, -5}, {0, 7, 1}};
    for (int i = 0; i < 3; ++i) for (int j = 0; j < 3; ++j) m.x[i][j] = (T) (g == 2 && i == 2 ? A[0][j] : A[i][j]) / (T) (g == 3 || g == 5 ? 4 : 1);
    m.x[3][0] = 3; m.x[3][1] = -11; m.x[3][2] = (T) (g == 3 ? 0.5 : 13);
    if (g >= 4) { m.x[0][3] = (T) 0.5; m.x[1][3] = (T) -0.5; m.x[2][3] = (T) 0.25; m.x[3][3] = 8; }
    return m;
}

template <class S, class T> void xform_ops (Tally& tl)
{
    typedef Vec3<S>  V;
    typedef Box<V>   B;
    const bool intbox = !std::is_floating_point<S>::value;
    const std::string sfx = std::string ("[Box3<") + SN<S>::n () + ">,M44<" + SN<T>::n () + ">]";
    const int NM = intbox ? 3 : 6; // integer boxes: integer-valued affine matrices only (the statement does not cover the others)
    for (int g = 0; g < NM; ++g)
    {
        const Matrix44<T> m = xmat<T> (g);
        for (int i = -2; i < 27 * 27; ++i)
        {
            B bx; // i == -2: empty
            if (i == -1) bx.makeInfinite ();
            else if (i >= 0) bx = B (pt<V, S, 3> (i / 27), pt<V, S, 3> (i % 27)); // inverted pairs = empty boxes, kept
            ++tl.xform;
            if (intbox) ++tl.intbox;
            if (bx.isEmpty () || bx.isInfinite ()) ++tl.xform_empty_or_inf;
            if (g >= 4) ++tl.xform_proj;
            auto D = [&] (const char* f) { return [=] () { return std::string (f) + " box = " + show<B, S> (bx) + ", matrix alphabet member " + std::to_string (g); }; };
            run<B, S> (tl, "transform(box,m,result)" + sfx, [&] (B& r) { transform (bx, m, r); }, D ("transform(box, m, result)"));
            if (g < 4) run<B, S> (tl, "affineTransform(box,m,result)" + sfx, [&] (B& r) { affineTransform (bx, m, r); }, D ("affineTransform(box, m, result)"));
        }
    }
}
} // namespace

bool c13_dirty_stage ()
{
    Tally tl;
    box_ops<Vec2<short>, short, 2> (tl, "Box2");    box_ops<Vec2<int>, int, 2> (tl, "Box2");       box_ops<Vec2<float>, float, 2> (tl, "Box2");  box_ops<Vec2<double>, double, 2> (tl, "Box2");
    box_ops<Vec3<short>, short, 3> (tl, "Box3");    box_ops<Vec3<int>, int, 3> (tl, "Box3");       box_ops<Vec3<int64_t>, int64_t, 3> (tl, "Box3");
    box_ops<Vec3<float>, float, 3> (tl, "Box3");    box_ops<Vec3<double>, double, 3> (tl, "Box3");
    box_ops<Vec4<int>, int, 4> (tl, "Box4");        box_ops<Vec4<float>, float, 4> (tl, "Box4");
    interval_ops<int> (tl); interval_ops<short> (tl); interval_ops<float> (tl); interval_ops<double> (tl);
    xform_ops<float, float> (tl); xform_ops<double, double> (tl); xform_ops<float, double> (tl); xform_ops<double, float> (tl);
    xform_ops<int, float> (tl); xform_ops<short, double> (tl);
    R ().add ("states", tl.st); R ().add ("transitions", tl.tr); R ().add ("evaluations", tl.st);
    R ().cls ("dirty-box.previously-regular-box-of-primes", tl.kind[0]);
    R ().cls ("dirty-box.previously-inverted-box", tl.kind[1]);
    R ().cls ("dirty-box.previously-infinite-box", tl.kind[2]);
    R ().cls ("dirty-box.previously-NaN-or-top-of-range", tl.kind[3]);
    R ().cls ("dirty-box.makeEmpty/makeInfinite", tl.reset);
    R ().cls ("dirty-box.assignment-from-Box(point)/Box(min,max)", tl.assign);
    R ().cls ("dirty-box.extendBy-after-makeEmpty", tl.extend);
    R ().cls ("dirty-box.transform-result-argument", tl.xform);
    R ().cls ("dirty-box.transform-of-empty-or-infinite-input", tl.xform_empty_or_inf);
    R ().cls ("dirty-box.transform-projective-matrix", tl.xform_proj);
    R ().cls ("dirty-box.transform-integer-box", tl.intbox);
    return true;
}
