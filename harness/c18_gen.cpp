// C18 — Rand32 / Rand48 / sphere and Gauss samplers.
//
//  rand32-mantissa-all : ALL 2^23 mantissa patterns of Rand32::nextf, by writing _state directly (this TU is
//                        compiled with -fno-access-control): the low 23 bits of the LCG step are a bijection of the
//                        low 23 bits of the state, so _state = 0..2^23-1 produces every mantissa exactly once
//                        (verified with a bitmap); value == m * 2^-23 in [0,1); repeated with all higher state
//                        bits set (the mask must hide them).
//  generators-seeds    : seeds B(unsigned long) u {0..4096}; 64 draws each; a constructed generator, a
//                        default-constructed one re-initialised with init(seed) and the reference sequences
//                        (documented LCG 1664525 x + 1013904223 mod 2^32 for Rand32; glibc nrand48/erand48 on a
//                        copy of the state for Rand48) agree draw by draw while unrelated generators and the
//                        static drand48() are drawn in between (no hidden shared state); ranges of nextf(),
//                        nextf(a,b), nexti, nextb.
//                        nextf(a,b) = a(1-f) + b f with f in [0,1): three roundings, each <= 1/2 ulp of a quantity
//                        bounded by max(|a|,|b|): result within [min(a,b), max(a,b)] widened by 2 ulp(max(|a|,|b|)).
//  samplers            : solid/hollow/gaussSphereRand and gaussRand for V2f V3f V2d V3d x {Rand32, Rand48}:
//                        finite; |v|^2 <= 1 + 4 eps; ||v| - 1| <= 4 eps (length: n+1 roundings, division: 1 more
//                        per component => < 2 eps; 4 eps as fixed in DESIGN.md).
//  samplers-scripted   : the samplers are templates on the generator: they are driven by a stub whose nextf(-1,1)
//                        replays EVERY tuple over the boundary alphabet {+-1, +-(1-ulp), +-sqrt(1/2), +-denorm_min, +-0,
//                        2^-75 (float: its square underflows to 0) [, 2^-540 for double]} and then a benign value, so
//                        that the rejection loops see length == 0, length2 == 0 by underflow, length exactly 1 and just
//                        above/below 1 — states no seed reaches. Same relations as `samplers`; V2, V3, V4 x float, double
//                        x stub returning float (Rand32-like) or double (Rand48-like).
//  nextf-range-extremes: Rand32: all 2^23 values of f (state written directly) x all 16 ranges; Rand48: every successor
//                        state with a single non-zero word, all-zeros (f = 0), all-ones (f = max) and the boundary
//                        alphabet x all 16 ranges: nextf(a,b) between a and b (same 2-ulp bound as generators-seeds).
//  rand32-all-states   : "every seed and every position" of a 32-bit generator is: every one of the 2^32 states.
//                        thorough: ALL 2^32 states (quick: 2^22 boundary and strided states) x {nextb, nexti,
//                        nextf(a,b) on the range selected by the state}: values vs the documented LCG, ranges.
//  rand32-all-states-samplers : one draw of solid/hollow/gaussSphereRand<V3f> and gaussRand from 2^30 states spread
//                        over the whole state space (thorough; quick: the same 2^22 states): sampler relations.
//  rand32-full-period  : (thorough) the orbit of the 32-bit state returns to its start after exactly 2^32 steps
//                        (documented "period length of 2^32").
#include "c18.hpp"
#include <ImathRandom.h>
#include <ImathVec.h>
#include <ImathVec.h>
#include <atomic>
#include <stdlib.h>

using namespace vf;
using namespace c18;

namespace {

typedef long double LD;

inline uint32_t lcg32 (uint32_t s) { return 1664525u * s + 1013904223u; }
inline uint32_t init32 (unsigned long seed) { return (uint32_t) (seed * 0xa5a573a5ul) ^ 0x5a5a5a5au; }
inline uint64_t init64 (unsigned long seed) { return (seed * 0xa5a573a5ul) ^ 0x5a5a5a5aul; }

std::vector<unsigned long> gen_seeds ()
{
    std::vector<unsigned long> v;
    for (unsigned long s = 0; s <= 4096; ++s) v.push_back (s);
    for (unsigned long s : {0xfffful, 0x10000ul, 0x7ffffffful, 0x80000000ul, 0xfffffffful, 0x100000000ul, 0x100000001ul, 0xffffffffffful, 0x1000000000000ul,
                            0x7ffffffffffffffful, 0x8000000000000000ul, 0xfffffffffffffffeul, 0xfffffffffffffffful, 0x123456789abcdef0ul})
        v.push_back (s);
    return v;
}

struct AB { double a, b; };
const AB RANGES[] = {{0, 1}, {-1, 1}, {1, -1}, {5, 5}, {0, 0}, {-3, -7}, {1e30, 2e30}, {-1e-40, 1e-40}, {0, 1.4e-45}, {-1.5e38, 1.5e38}, {-0.0, 0.0}, {2, 2.0000002384185791},
                     // finite intervals whose WIDTH b-a is not representable: the result must still lie between a and b
                     {-3.4028234663852886e38, 3.4028234663852886e38}, {-3e38, 3e38},
                     {-1.7976931348623157e308, 1.7976931348623157e308}, {-1e308, 1.5e308}};

template <class T> bool in_range (T got, T a, T b)
{
    LD lo = std::min ((LD) a, (LD) b), hi = std::max ((LD) a, (LD) b);
    LD m  = std::max (fabsl ((LD) a), fabsl ((LD) b));
    LD sl = 2 * ex::ulp_at<T> (m);
    return (LD) got >= lo - sl && (LD) got <= hi + sl;
}

template <class V> LD len2 (const V& v)
{
    LD s = 0;
    for (unsigned i = 0; i < V::dimensions (); ++i) s += (LD) v[i] * (LD) v[i];
    return s;
}
template <class V> bool finite_vec (const V& v)
{
    for (unsigned i = 0; i < V::dimensions (); ++i)
        if (!(v[i] - v[i] == 0)) return false;
    return true;
}

template <class V, class Rand> void sampler_checks (unsigned long seed, const std::string& name, long long& n)
{
    typedef typename V::BaseType T;
    const LD    EPS = (LD) std::numeric_limits<T>::epsilon ();
    Rand        r (seed), r2 (seed);
    std::string in = name + " seed=" + std::to_string (seed);
    for (int k = 0; k < 4; ++k)
    {
        V s = IM::solidSphereRand<V> (r);
        V h = IM::hollowSphereRand<V> (r);
        V g = IM::gaussSphereRand<V> (r);
        float f = IM::gaussRand (r);
        n += 4;
        std::string at = in + " draw " + std::to_string (k);
        if (!finite_vec (s) || !(len2 (s) <= 1 + 4 * EPS)) R ().fail ("solidSphereRand<" + name + ">", at, "|v|^2 <= 1", fmt (len2 (s)));
        if (!finite_vec (h) || !(fabsl (sqrtl (len2 (h)) - 1) <= 4 * EPS)) R ().fail ("hollowSphereRand<" + name + ">", at, "|v| = 1 +- 4 eps", fmt (sqrtl (len2 (h))));
        if (!finite_vec (g)) R ().fail ("gaussSphereRand<" + name + ">", at, "finite", fmt (len2 (g)));
        if (!(f - f == 0)) R ().fail ("gaussRand<" + name + ">", at, "finite", fmt (f));
        R ().note_max ("hollowSphereRand ||v|-1| / eps", (double) (fabsl (sqrtl (len2 (h)) - 1) / EPS));
        // purity: an independently constructed generator reproduces the same samples
        V s2 = IM::solidSphereRand<V> (r2);
        V h2 = IM::hollowSphereRand<V> (r2);
        V g2 = IM::gaussSphereRand<V> (r2);
        float f2 = IM::gaussRand (r2);
        bool same = ex::same (f, f2);
        for (unsigned i = 0; i < V::dimensions (); ++i) same = same && ex::same (s[i], s2[i]) && ex::same (h[i], h2[i]) && ex::same (g[i], g2[i]);
        if (!same) R ().fail ("samplers.pure-function-of-seed<" + name + ">", at);
    }
}

// ---- scripted generator --------------------------------------------------------------------------------
// A conforming generator as far as the samplers can tell: nextf(lo, hi) returns a value in [lo, hi] (all scripted
// values lie in [-1, 1]; the samplers only ever ask for nextf(-1, 1)).
template <class F> struct ScriptRand
{
    const F* script;
    int      len, pos;
    F        benign;
    ScriptRand (const F* s, int n, F b) : script (s), len (n), pos (0), benign (b) {}
    F nextf (F, F) { F v = pos < len ? script[pos] : benign; ++pos; return v; }
};

template <class F> std::vector<F> script_alphabet ()
{
    typedef std::numeric_limits<F> L;
    const F one = F (1), h = std::sqrt (F (0.5));
    std::vector<F> v = {-one, std::nextafter (-one, F (0)), -h, -L::denorm_min (), -F (0), F (0), L::denorm_min (), (F) std::ldexp (1.0, -75), h, std::nextafter (one, F (0)), one};
    if (sizeof (F) == 8) v.push_back ((F) std::ldexp (1.0, -540)); // square underflows in double
    return v;
}

struct ScriptTally { long long scripts = 0, calls = 0, zero_tuple = 0, underflow_tuple = 0, unit_component = 0, subnormal_component = 0, rejected_first = 0; };

// all scripts of length n over A, for one sampler (which: 0 solid, 1 hollow, 2 gauss, 3 gaussSphere)
template <class V, class F> void scripted (int which, const std::string& name, ScriptTally& t)
{
    typedef typename V::BaseType T;
    const LD       EPS = (LD) std::numeric_limits<T>::epsilon ();
    const int      dim = (int) V::dimensions ();
    const int      n   = which == 0 || which == 1 ? dim : (which == 2 ? 2 : dim + 2);
    std::vector<F> A   = script_alphabet<F> ();
    const uint64_t K = A.size ();
    uint64_t       total = 1;
    for (int i = 0; i < n; ++i) total *= K;
    const char* WN[4] = {"solidSphereRand", "hollowSphereRand", "gaussRand", "gaussSphereRand"};
    for (uint64_t code = 0; code < total; ++code)
    {
        F        sc[8];
        uint64_t c = code;
        bool     all_zero = true, sub = false, unit = false, tiny = false;
        for (int i = 0; i < n; ++i)
        {
            sc[i] = A[c % K]; c /= K;
            T v = (T) sc[i]; // what the sampler stores (gaussRand stores float)
            float vf = (float) sc[i];
            if (i < (which == 2 ? 2 : dim) && v != 0) all_zero = false;
            if ((v != 0 && std::fabs (v) < std::numeric_limits<T>::min ()) || (vf != 0 && std::fabs (vf) < std::numeric_limits<float>::min ())) sub = true;
            if (std::fabs (v) == 1) unit = true;
            if (v != 0 && v * v == 0) tiny = true;
        }
        ++t.scripts;
        if (all_zero) ++t.zero_tuple;
        if (tiny) ++t.underflow_tuple;
        if (unit) ++t.unit_component;
        if (sub) ++t.subnormal_component;
        ScriptRand<F> r (sc, n, F (0.25));
        std::string   site = std::string (WN[which]) + "<" + name + ">.scripted-generator";
        auto in = [&] () { std::string o = name + " nextf(-1,1) script:"; for (int i = 0; i < n; ++i) o += " " + std::string (Msg () << sc[i]); return o + " then 0.25 ..."; };
        ++t.calls;
        switch (which)
        {
            case 0:
            {
                V v = IM::solidSphereRand<V> (r);
                if (!finite_vec (v) || !(len2 (v) <= 1 + 4 * EPS)) R ().fail (site, in (), "finite, |v|^2 <= 1", fmt (len2 (v)));
                break;
            }
            case 1:
            {
                V v = IM::hollowSphereRand<V> (r);
                // a non-zero subnormal component has no relative accuracy to speak of (and no generator of the library
                // returns one): only finiteness is demanded for such scripts
                if (!finite_vec (v)) R ().fail (site, in (), "finite", fmt (len2 (v)));
                else if (!sub && !(fabsl (sqrtl (len2 (v)) - 1) <= 4 * EPS)) R ().fail (site, in (), "|v| = 1 +- 4 eps", fmt (sqrtl (len2 (v))));
                break;
            }
            case 2:
            {
                float f = IM::gaussRand (r);
                if (!(f - f == 0)) R ().fail (site, in (), "finite", fmt (f));
                break;
            }
            default:
            {
                V v = IM::gaussSphereRand<V> (r);
                if (!finite_vec (v)) R ().fail (site, in (), "finite", fmt (len2 (v)));
                break;
            }
        }
        if (r.pos > n) ++t.rejected_first; // the loop went past the script: at least one tuple was rejected
    }
}

template <class V, class F> void scripted_all (const std::string& name, ScriptTally& t)
{
    for (int which = 0; which < 4; ++which) scripted<V, F> (which, name, t);
}

// nextf(a,b) bound with the slack precomputed (same bound as in_range)
template <class T> struct RangeBox
{
    LD lo, hi;
    RangeBox (T a, T b)
    {
        LD m  = std::max (fabsl ((LD) a), fabsl ((LD) b));
        LD sl = 2 * ex::ulp_at<T> (m);
        lo = std::min ((LD) a, (LD) b) - sl; hi = std::max ((LD) a, (LD) b) + sl;
    }
    bool ok (T got) const { return (LD) got >= lo && (LD) got <= hi; }
};
inline float clampf (double v) { const double FM = 3.4028234663852886e38; return (float) std::max (-FM, std::min (FM, v)); }

} // namespace

void c18_generator_stages ()
{
    // ---------- all 2^23 mantissa patterns of Rand32::nextf
    if (R ().stage ("rand32-mantissa-all"))
    {
        const uint32_t       N = 1u << 23;
        std::vector<uint8_t> seen (N, 0);
        long long            n = 0, zero = 0, top = 0;
        for (int bg = 0; bg < 2; ++bg)
            for (uint32_t s = 0; s < N; ++s)
            {
                IM::Rand32 r (0);
                r._state = bg ? (0xffffffffff800000ul | s) : (unsigned long) s;
                float    f = r.nextf ();
                uint32_t m = lcg32 (s) & 0x7fffffu; // low 23 bits of the successor depend on the low 23 bits only
                float    w = (float) m * 1.1920928955078125e-07f; // m * 2^-23, exact
                ++n;
                if (!ex::same (f, w) || !(f >= 0.0f && f < 1.0f))
                    R ().fail ("Rand32::nextf.mantissa", "_state=" + c18::st (r._state) + " before the call: " + std::to_string (bg ? (0xffffffffff800000ul | s) : (unsigned long) s), fmt (w), fmt (f));
                if (!bg) seen[m] = 1;
                if (m == 0) ++zero;
                if (m == N - 1) ++top;
                // the state itself advanced by the documented LCG (low 32 bits)
                if ((uint32_t) r._state != lcg32 (bg ? (0xff800000u | s) : s)) R ().fail ("Rand32.state-successor", std::to_string (s), fmt (lcg32 (s)), fmt ((unsigned) r._state));
            }
        long long distinct = 0;
        for (uint8_t b : seen) distinct += b;
        if (distinct != (long long) N) R ().fail ("Rand32::nextf.all-mantissas-reached", "all 2^23 low-state patterns", std::to_string (N), std::to_string (distinct));
        R ().add ("states", n); R ().add ("evaluations", n); R ().add ("transitions", n);
        R ().add ("rand32_distinct_mantissas", distinct);
        R ().cls ("rand32.nextf.mantissa-all-zeros(value 0)", zero);
        R ().cls ("rand32.nextf.mantissa-all-ones(value 1-2^-23)", top);
        R ().cls ("rand32.nextf.high-state-bits-set", (long long) N);
        R ().stage_done ("all 2^23 mantissa patterns of Rand32::nextf x {upper state bits clear, set}: value == m*2^-23 in [0,1), every mantissa reached once");
    }

    // ---------- purity, reference sequences and ranges over the seed alphabet
    if (R ().stage ("generators-seeds"))
    {
        std::vector<unsigned long> S = gen_seeds ();
        long long n = 0, tr = 0, wide = 0, c_agtb = 0, c_aeqb = 0;
        const size_t NR = sizeof (RANGES) / sizeof (RANGES[0]);
        for (unsigned long seed : S)
        {
            ++n;
            if (seed > 0xfffffffful) ++wide;
            std::string sd = "seed=" + std::to_string (seed);
            // ---- Rand32
            {
                IM::Rand32 g1 (seed), g2, other (seed ^ 0x5555);
                g2.init (seed);
                uint32_t m = init32 (seed);
                if ((uint32_t) g1._state != m) R ().fail ("Rand32::init.state-vs-pinned-formula", sd, fmt (m), fmt ((unsigned) g1._state));
                for (int k = 0; k < 64; ++k)
                {
                    (void) other.nexti ();
                    (void) IM::drand48 ();
                    std::string at = sd + " draw " + std::to_string (k);
                    m = lcg32 (m);
                    ++tr;
                    switch (k % 4)
                    {
                        case 0:
                        {
                            bool a = g1.nextb (), b = g2.nextb ();
                            if (a != b) R ().fail ("Rand32.pure-function-of-seed", at + " nextb");
                            if (a != ((m >> 31) != 0)) R ().fail ("Rand32.sequence-vs-documented-lcg", at + " nextb", fmt ((m >> 31) != 0), fmt (a));
                            break;
                        }
                        case 1:
                        {
                            unsigned long a = g1.nexti (), b = g2.nexti ();
                            if (a != b) R ().fail ("Rand32.pure-function-of-seed", at + " nexti");
                            if (a > 0xfffffffful) R ().fail ("Rand32::nexti.range", at, "<= 0xffffffff", fmt (a));
                            if (a != m) R ().fail ("Rand32.sequence-vs-documented-lcg", at + " nexti", fmt (m), fmt (a));
                            break;
                        }
                        case 2:
                        {
                            float a = g1.nextf (), b = g2.nextf ();
                            if (!ex::same (a, b)) R ().fail ("Rand32.pure-function-of-seed", at + " nextf");
                            if (!(a >= 0.0f && a < 1.0f)) R ().fail ("Rand32::nextf.range", at, "[0,1)", fmt (a));
                            if (a != (float) (m & 0x7fffffu) * 1.1920928955078125e-07f) R ().fail ("Rand32.sequence-vs-documented-lcg", at + " nextf", fmt ((float) (m & 0x7fffffu) * 1.1920928955078125e-07f), fmt (a));
                            break;
                        }
                        default:
                        {
                            const AB& ab = RANGES[(k / 4) % NR];
                            const double FM = 3.4028234663852886e38; // double-only ranges are clamped to +-FLT_MAX
                            float     lo = (float) std::max (-FM, std::min (FM, ab.a)), hi = (float) std::max (-FM, std::min (FM, ab.b));
                            float     a = g1.nextf (lo, hi), b = g2.nextf (lo, hi);
                            if (lo > hi) ++c_agtb;
                            if (lo == hi) ++c_aeqb;
                            if (!ex::same (a, b)) R ().fail ("Rand32.pure-function-of-seed", at + " nextf(a,b)");
                            if (!in_range<float> (a, lo, hi)) R ().fail ("Rand32::nextf(a,b).range", at + " a=" + fmt (lo) + " b=" + fmt (hi), "between a and b (2 ulp)", fmt (a));
                            break;
                        }
                    }
                }
            }
            // ---- Rand48
            {
                IM::Rand48 g1 (seed), g2, other (seed ^ 0x5555);
                g2.init (seed);
                uint64_t       w = init64 (seed);
                unsigned short ref[3] = {(unsigned short) (w & 0xffff), (unsigned short) ((w >> 16) & 0xffff), (unsigned short) (w & 0xffff)};
                if (pack (g1._state) != pack (ref)) R ().fail ("Rand48::init.state-vs-pinned-formula", sd, st (pack (ref)), st (pack (g1._state)));
                unsigned short gl[3] = {g1._state[0], g1._state[1], g1._state[2]}; // glibc runs on a copy of the *actual* initial state
                for (int k = 0; k < 64; ++k)
                {
                    (void) other.nexti ();
                    (void) IM::lrand48 ();
                    std::string at = sd + " draw " + std::to_string (k);
                    ++tr;
                    switch (k % 4)
                    {
                        case 0:
                        {
                            bool a = g1.nextb (), b = g2.nextb ();
                            long r = ::nrand48 (gl);
                            if (a != b) R ().fail ("Rand48.pure-function-of-seed", at + " nextb");
                            if (a != (bool) (r & 1)) R ().fail ("Rand48.sequence-vs-posix-rand48", at + " nextb", fmt ((bool) (r & 1)), fmt (a));
                            break;
                        }
                        case 1:
                        {
                            long a = g1.nexti (), b = g2.nexti (), r = ::nrand48 (gl);
                            if (a != b) R ().fail ("Rand48.pure-function-of-seed", at + " nexti");
                            if (a < 0 || a > 0x7fffffffl) R ().fail ("Rand48::nexti.range", at, "[0,0x7fffffff]", fmt (a));
                            if (a != r) R ().fail ("Rand48.sequence-vs-posix-rand48", at + " nexti", fmt (r), fmt (a));
                            break;
                        }
                        case 2:
                        {
                            double a = g1.nextf (), b = g2.nextf (), r = ::erand48 (gl);
                            if (!ex::same (a, b)) R ().fail ("Rand48.pure-function-of-seed", at + " nextf");
                            if (!(a >= 0.0 && a < 1.0)) R ().fail ("Rand48::nextf.range", at, "[0,1)", fmt (a));
                            if (!(std::fabs (a - r) < 3.5527136788005009e-15)) R ().fail ("Rand48.sequence-vs-posix-rand48", at + " nextf", fmt (r), fmt (a));
                            break;
                        }
                        default:
                        {
                            const AB& ab = RANGES[(k / 4) % NR];
                            double    a = g1.nextf (ab.a, ab.b), b = g2.nextf (ab.a, ab.b);
                            (void) ::erand48 (gl);
                            if (!ex::same (a, b)) R ().fail ("Rand48.pure-function-of-seed", at + " nextf(a,b)");
                            if (!in_range<double> (a, ab.a, ab.b)) R ().fail ("Rand48::nextf(a,b).range", at + " a=" + fmt (ab.a) + " b=" + fmt (ab.b), "between a and b (2 ulp)", fmt (a));
                            break;
                        }
                    }
                    if (pack (g1._state) != pack (gl) || pack (g1._state) != pack (g2._state)) R ().fail ("Rand48.state-successor", at, st (pack (gl)), st (pack (g1._state)));
                }
            }
        }
        R ().add ("states", n); R ().add ("evaluations", n * 128); R ().add ("transitions", tr * 2);
        R ().cls ("generators.seed-wider-than-32-bits", wide);
        R ().cls ("generators.nextf(a,b).a>b", c_agtb); R ().cls ("generators.nextf(a,b).a==b", c_aeqb);
        R ().stage_done (std::to_string (S.size ()) + " seeds (0..4096 + 14 boundary values) x 64 draws x {Rand32, Rand48}: two independently initialised generators, reference sequence, ranges; foreign draws interleaved");
    }

    // ---------- samplers
    if (R ().stage ("samplers"))
    {
        std::vector<unsigned long> S = gen_seeds ();
        long long n = 0;
        for (unsigned long seed : S)
        {
            sampler_checks<IM::V2f, IM::Rand32> (seed, "V2f,Rand32", n);
            sampler_checks<IM::V3f, IM::Rand32> (seed, "V3f,Rand32", n);
            sampler_checks<IM::V2d, IM::Rand32> (seed, "V2d,Rand32", n);
            sampler_checks<IM::V3d, IM::Rand32> (seed, "V3d,Rand32", n);
            sampler_checks<IM::V2f, IM::Rand48> (seed, "V2f,Rand48", n);
            sampler_checks<IM::V3f, IM::Rand48> (seed, "V3f,Rand48", n);
            sampler_checks<IM::V2d, IM::Rand48> (seed, "V2d,Rand48", n);
            sampler_checks<IM::V3d, IM::Rand48> (seed, "V3d,Rand48", n);
            sampler_checks<IM::V4f, IM::Rand32> (seed, "V4f,Rand32", n);
            sampler_checks<IM::V4d, IM::Rand32> (seed, "V4d,Rand32", n);
            sampler_checks<IM::V4f, IM::Rand48> (seed, "V4f,Rand48", n);
            sampler_checks<IM::V4d, IM::Rand48> (seed, "V4d,Rand48", n);
        }
        R ().cls ("samplers.dimension-4", (long long) S.size () * 4);
        R ().add ("states", (long long) S.size () * 12); R ().add ("evaluations", n); R ().add ("transitions", n);
        R ().add ("sampler_draws", n);
        R ().stage_done (std::to_string (S.size ()) + " seeds x {V2f,V3f,V4f,V2d,V3d,V4d} x {Rand32,Rand48} x 4 draws of solid/hollow/gaussSphereRand and gaussRand");
    }

    // ---------- samplers driven by the scripted generator
    if (R ().stage ("samplers-scripted"))
    {
        ScriptTally t;
        scripted_all<IM::V2f, float> ("V2f,float-script", t);
        scripted_all<IM::V3f, float> ("V3f,float-script", t);
        scripted_all<IM::V4f, float> ("V4f,float-script", t);
        scripted_all<IM::V2d, float> ("V2d,float-script", t);
        scripted_all<IM::V3d, float> ("V3d,float-script", t);
        scripted_all<IM::V2f, double> ("V2f,double-script", t);
        scripted_all<IM::V3f, double> ("V3f,double-script", t);
        scripted_all<IM::V2d, double> ("V2d,double-script", t);
        scripted_all<IM::V3d, double> ("V3d,double-script", t);
        scripted_all<IM::V4d, double> ("V4d,double-script", t);
        R ().cls ("samplers.scripted.first-tuple-all-zeros(length==0)", t.zero_tuple);
        R ().cls ("samplers.scripted.square-underflows-to-zero", t.underflow_tuple);
        R ().cls ("samplers.scripted.component-exactly-+-1", t.unit_component);
        R ().cls ("samplers.scripted.subnormal-component", t.subnormal_component);
        R ().cls ("samplers.scripted.rejection-loop-repeated", t.rejected_first);
        R ().add ("states", t.scripts); R ().add ("evaluations", t.calls); R ().add ("transitions", t.calls);
        R ().stage_done ("every nextf(-1,1) script of length dim (solid, hollow), 2 (gauss), dim+2 (gaussSphere) over the 11-value (double: 12) boundary alphabet, then 0.25: V2/V3/V4 x float/double x float-/double-returning stub");
    }

    // ---------- nextf(a,b) at the extremes of f
    if (R ().stage ("nextf-range-extremes"))
    {
        const size_t NR = sizeof (RANGES) / sizeof (RANGES[0]);
        const uint32_t N = 1u << 23;
        std::atomic<long long> n32 (0), f0 (0), fmax (0);
        std::vector<RangeBox<float>> B32;
        std::vector<std::pair<float, float>> R32;
        for (size_t k = 0; k < NR; ++k) { float lo = clampf (RANGES[k].a), hi = clampf (RANGES[k].b); R32.push_back ({lo, hi}); B32.push_back (RangeBox<float> (lo, hi)); }
        bool complete = parallel_chunks (N, 1u << 16, [&] (uint64_t lo, uint64_t hi, unsigned) {
            long long z = 0, mx = 0;
            for (uint64_t s = lo; s < hi; ++s)
            {
                uint32_t m = lcg32 ((uint32_t) s) & 0x7fffffu;
                if (m == 0) ++z;
                if (m == N - 1) ++mx;
                for (size_t k = 0; k < NR; ++k)
                {
                    IM::Rand32 r (0);
                    r._state = (unsigned long) s;
                    float got = r.nextf (R32[k].first, R32[k].second);
                    if (!B32[k].ok (got))
                        R ().fail (m == 0 ? "Rand32::nextf(a,b).range.f=0" : (m == N - 1 ? "Rand32::nextf(a,b).range.f=max" : "Rand32::nextf(a,b).range.all-f"),
                                   "_state=" + std::to_string (s) + " a=" + fmt (R32[k].first) + " b=" + fmt (R32[k].second), "between a and b (2 ulp)", fmt (got));
                }
            }
            n32 += (long long) (hi - lo) * (long long) NR; f0 += z; fmax += mx;
        });
        // Rand48: successor states X' (f is a function of X' alone)
        std::vector<uint64_t> X = {0, M48};
        for (int w = 0; w < 3; ++w)
            for (uint64_t v = 1; v < 65536; ++v) X.push_back (v << (16 * w));
        for (uint64_t u : state_boundary_alphabet ()) X.push_back (u);
        long long n48 = 0, z48 = 0, m48 = 0;
        for (uint64_t x : X)
        {
            uint64_t pre = lcg_prev (x);
            if (x == 0) ++z48;
            if (x == M48) ++m48;
            // self-check of the HARNESS's inverse against the harness's own forward recurrence (never against the library:
            // a library whose generator deviates must produce a violation of the library site below, not a machinery error)
            if (lcg (pre) != x) R ().fail ("oracle.selfcheck.lcg-inverse", st (pre), st (x), st (lcg (pre)));
            for (size_t k = 0; k < NR; ++k)
            {
                IM::Rand48 r (0);
                unpack (pre, r._state);
                double got = r.nextf (RANGES[k].a, RANGES[k].b);
                ++n48;
                // one draw advances the state by exactly one step of the POSIX recurrence (statement: Rand48 is rand48-compatible)
                if (pack (r._state) != x)
                    R ().fail ("Rand48::nextf(a,b).successor-state", "state " + st (pre) + " a=" + fmt (RANGES[k].a) + " b=" + fmt (RANGES[k].b), st (x), st (pack (r._state)));
                if (!in_range<double> (got, RANGES[k].a, RANGES[k].b))
                    R ().fail (x == 0 ? "Rand48::nextf(a,b).range.f=0" : (x == M48 ? "Rand48::nextf(a,b).range.f=max" : "Rand48::nextf(a,b).range.boundary-states"),
                               "successor state " + st (x) + " a=" + fmt (RANGES[k].a) + " b=" + fmt (RANGES[k].b), "between a and b (2 ulp)", fmt (got));
            }
        }
        R ().cls ("nextf(a,b).rand32.f=0", f0.load ()); R ().cls ("nextf(a,b).rand32.f=1-2^-23", fmax.load ());
        R ().cls ("nextf(a,b).rand48.f=0", z48); R ().cls ("nextf(a,b).rand48.f=max", m48);
        R ().add ("states", (long long) N + (long long) X.size ()); R ().add ("evaluations", n32.load () + n48); R ().add ("transitions", n32.load () + n48);
        if (complete) R ().stage_done ("Rand32: all 2^23 values of f x 16 ranges; Rand48: " + std::to_string (X.size ()) + " successor states (all-zeros, all-ones, single non-zero word, boundary alphabet) x 16 ranges: nextf(a,b) between a and b");
        else R ().stage_partial ("cut short by the deadline");
    }

    // ---------- full period of Rand32 (thorough)
    if (R ().thorough () && R ().stage ("rand32-full-period"))
    {
        IM::Rand32 r (0);
        r._state = 0;
        uint64_t i = 0, first_return = 0;
        bool     cut = false;
        for (; i < (1ull << 32); ++i)
        {
            if ((i & 0xfffffff) == 0 && R ().out_of_time ()) { cut = true; break; }
            unsigned long v = r.nexti ();
            if (v == 0 && !first_return) first_return = i + 1;
        }
        R ().add ("states", (long long) i); R ().add ("evaluations", (long long) i); R ().add ("transitions", (long long) i);
        if (!cut && first_return != (1ull << 32)) R ().fail ("Rand32.period", "orbit of state 0", "first return after 2^32 steps", std::to_string (first_return));
        R ().add ("rand32_orbit_steps", (long long) i);
        if (!cut) R ().stage_done ("orbit of the 32-bit state from 0: first return after exactly 2^32 steps (all 2^32 states visited once)");
        else R ().stage_partial (std::to_string (i) + " of 2^32 steps");
    }

    // ---------- every state of Rand32 (two stages: the cheap generator calls first, then the samplers)
    for (int part = 0; part < 2; ++part)
    {
        if (!R ().stage (part == 0 ? "rand32-all-states" : "rand32-all-states-samplers")) continue;
        const size_t NR = sizeof (RANGES) / sizeof (RANGES[0]);
        std::vector<RangeBox<float>> B32;
        std::vector<std::pair<float, float>> R32;
        for (size_t k = 0; k < NR; ++k) { float lo = clampf (RANGES[k].a), hi = clampf (RANGES[k].b); R32.push_back ({lo, hi}); B32.push_back (RangeBox<float> (lo, hi)); }
        const bool     all = R ().thorough ();
        // quick: 2^20 lowest, 2^20 highest, 2^20 around 2^31, 2^20 strided by the prime 4093 => 2^22 states
        // thorough: the generator calls on ALL 2^32 states; the samplers (250 ns per state) on every fourth state, the
        // residue mod 4 rotating with bits 10..11 of the index => 2^30 states spread over the whole state space
        const uint64_t NQ = 1ull << 20, TOTAL = all ? (part == 0 ? (1ull << 32) : (1ull << 30)) : 4 * NQ;
        auto state_of = [&] (uint64_t i) -> uint32_t {
            if (all) return part == 0 ? (uint32_t) i : (uint32_t) (4 * i + ((i >> 10) & 3));
            switch (i / NQ)
            {
                case 0: return (uint32_t) i;
                case 1: return (uint32_t) (0xffffffffull - (i - NQ));
                case 2: return (uint32_t) (0x80000000ull - NQ / 2 + (i - 2 * NQ));
                default: return (uint32_t) ((i - 3 * NQ) * 4093ull + 0x00100000ull);
            }
        };
        const LD EPS = (LD) std::numeric_limits<float>::epsilon ();
        std::atomic<long long> done (0), c_hi (0), c_top (0), c_rej (0);
        bool complete = parallel_chunks (TOTAL, 1ull << 18, [&] (uint64_t lo, uint64_t hi, unsigned) {
            long long nhi = 0, top = 0, rej = 0;
            for (uint64_t i = lo; i < hi; ++i)
            {
                const uint32_t s = state_of (i), m = lcg32 (s);
                // the bits of _state above 32 are not part of the generator's state: set for odd s, clear for even s
                const unsigned long s64 = (s & 1u) ? (0xffffffff00000000ul | s) : (unsigned long) s;
                if (s & 1u) ++nhi;
                if (m >> 31) ++top;
                IM::Rand32 r (0);
                if (part == 0)
                {
                    r._state = s64;
                    bool b = r.nextb ();
                    if (b != ((m >> 31) != 0)) R ().fail ("Rand32::nextb.all-states", "_state=" + std::to_string (s64), fmt ((m >> 31) != 0), fmt (b));
                    r._state = s64;
                    unsigned long v = r.nexti ();
                    if (v != m) R ().fail ("Rand32::nexti.all-states", "_state=" + std::to_string (s64), fmt (m), fmt (v));
                    r._state = s64;
                    const size_t k = (s >> 25) % NR; // the range is selected by state bits that do not enter f's 23 mantissa bits
                    float got = r.nextf (R32[k].first, R32[k].second);
                    if (!B32[k].ok (got)) R ().fail ("Rand32::nextf(a,b).range.all-states", "_state=" + std::to_string (s64) + " a=" + fmt (R32[k].first) + " b=" + fmt (R32[k].second), "between a and b (2 ulp)", fmt (got));
                }
                else
                {
                    // one draw of each V3f sampler from this state
                    r._state = s64;
                    IM::V3f sv = IM::solidSphereRand<IM::V3f> (r);
                    {
                        // class predicate on the INPUT (never on the library's state after the call): the first tuple
                        // (2 f_i - 1), f_i = (low 23 bits of the i-th successor) * 2^-23 taken exactly, lies clearly outside the
                        // unit ball (|v|^2 > 1 + 2^-16, far beyond any float rounding of the components), so the rejection loop
                        // has to draw a second tuple
                        LD       l2 = 0;
                        uint32_t q  = s;
                        for (int c = 0; c < 3; ++c) { q = lcg32 (q); LD v = 2 * ((LD) (q & 0x7fffffu) / 8388608.0L) - 1; l2 += v * v; }
                        if (l2 > 1 + 1.0L / 65536) ++rej;
                    }
                    IM::V3f hv = IM::hollowSphereRand<IM::V3f> (r);
                    IM::V3f gv = IM::gaussSphereRand<IM::V3f> (r);
                    float   gf = IM::gaussRand (r);
                    if (!finite_vec (sv) || !(len2 (sv) <= 1 + 4 * EPS)) R ().fail ("solidSphereRand<V3f,Rand32>.all-states", "_state=" + std::to_string (s64), "|v|^2 <= 1", fmt (len2 (sv)));
                    if (!finite_vec (hv) || !(fabsl (sqrtl (len2 (hv)) - 1) <= 4 * EPS)) R ().fail ("hollowSphereRand<V3f,Rand32>.all-states", "_state=" + std::to_string (s64), "|v| = 1 +- 4 eps", fmt (sqrtl (len2 (hv))));
                    if (!finite_vec (gv)) R ().fail ("gaussSphereRand<V3f,Rand32>.all-states", "_state=" + std::to_string (s64), "finite", fmt (len2 (gv)));
                    if (!(gf - gf == 0)) R ().fail ("gaussRand<Rand32>.all-states", "_state=" + std::to_string (s64), "finite", fmt (gf));
                }
            }
            done += (long long) (hi - lo); c_hi += nhi; c_top += top; c_rej += rej;
        });
        const std::string what = all ? (part == 0 ? "ALL 2^32 states" : "2^30 states (every fourth state, residue rotating)") : "2^22 states (2^20 lowest, 2^20 highest, 2^20 around 2^31, 2^20 strided by 4093)";
        if (part == 0)
        {
            R ().cls ("rand32.all-states.upper-state-bits-set", c_hi.load ());
            R ().cls ("rand32.all-states.successor-top-bit-set", c_top.load ());
            R ().add ("rand32_states_swept", done.load ());
        }
        else
        {
            R ().cls ("rand32.all-states.samplers.first-tuple-rejected", c_rej.load ());
            R ().add ("rand32_states_swept_with_samplers", done.load ());
        }
        const long long per = part == 0 ? 3 : 4;
        R ().add ("states", done.load ()); R ().add ("evaluations", done.load () * per); R ().add ("transitions", done.load () * per);
        if (complete) R ().stage_done (what + " of Rand32 x " + (part == 0 ? "{nextb, nexti, nextf(a,b) on the range selected by the top state bits}: documented LCG values, ranges" : "one draw of solid/hollow/gaussSphereRand<V3f> and gaussRand: finite, in the ball, on the sphere"));
        else R ().stage_partial (std::to_string (done.load ()) + " of " + std::to_string (TOTAL) + " states");
    }
}
