// C18 — Rand32 / Rand48 / sphere and Gauss samplers.
//
//  rand32-mantissa-all : ALL 2^23 mantissa patterns of Rand32::nextf, by writing _state directly (this TU is
//                        compiled with -fno-access-control): the low 23 bits of the LCG step are a bijection of the
//                        low 23 bits of the state, so _state = 0..2^23-1 produces every mantissa exactly once
//                        (verified with a bitmap); value == m * 2^-23 in [0,1); repeated with all higher state
//                        bits set (the mask must hide them).
//  generators-seeds    : seeds B(unsigned long) u {0..4096}; 64 draws each; a constructed generator, a
//                        default-constructed one re-initialised with init(seed) and the reference sequences
//                        (documented LCG 1664525 x + 1013904223 mod 2^32 for Rand32; glibc nrand48/erand48 on a
//                        copy of the state for Rand48) agree draw by draw while unrelated generators and the
//                        static drand48() are drawn in between (no hidden shared state); ranges of nextf(),
//                        nextf(a,b), nexti, nextb.
//                        nextf(a,b) = a(1-f) + b f with f in [0,1): three roundings, each <= 1/2 ulp of a quantity
//                        bounded by max(|a|,|b|): result within [min(a,b), max(a,b)] widened by 2 ulp(max(|a|,|b|)).
//  samplers            : solid/hollow/gaussSphereRand and gaussRand for V2f V3f V2d V3d x {Rand32, Rand48}:
//                        finite; |v|^2 <= 1 + 4 eps; ||v| - 1| <= 4 eps (length: n+1 roundings, division: 1 more
//                        per component => < 2 eps; 4 eps as fixed in DESIGN.md).
//  rand32-full-period  : (thorough) the orbit of the 32-bit state returns to its start after exactly 2^32 steps
//                        (documented "period length of 2^32").
#include "c18.hpp"
#include <ImathRandom.h>
#include <ImathVec.h>
#include <stdlib.h>

using namespace vf;
using namespace c18;

namespace {

typedef long double LD;

inline uint32_t lcg32 (uint32_t s) { return 1664525u * s + 1013904223u; }
inline uint32_t init32 (unsigned long seed) { return (uint32_t) (seed * 0xa5a573a5ul) ^ 0x5a5a5a5au; }
inline uint64_t init64 (unsigned long seed) { return (seed * 0xa5a573a5ul) ^ 0x5a5a5a5aul; }

std::vector<unsigned long> gen_seeds ()
{
    std::vector<unsigned long> v;
    for (unsigned long s = 0; s <= 4096; ++s) v.push_back (s);
    for (unsigned long s : {0xfffful, 0x10000ul, 0x7ffffffful, 0x80000000ul, 0xfffffffful, 0x100000000ul, 0x100000001ul, 0xffffffffffful, 0x1000000000000ul,
                            0x7ffffffffffffffful, 0x8000000000000000ul, 0xfffffffffffffffeul, 0xfffffffffffffffful, 0x123456789abcdef0ul})
        v.push_back (s);
    return v;
}

struct AB { double a, b; };
const AB RANGES[] = {{0, 1}, {-1, 1}, {1, -1}, {5, 5}, {0, 0}, {-3, -7}, {1e30, 2e30}, {-1e-40, 1e-40}, {0, 1.4e-45}, {-1.5e38, 1.5e38}, {-0.0, 0.0}, {2, 2.0000002384185791},
                     // finite intervals whose WIDTH b-a is not representable: the result must still lie between a and b
                     {-3.4028234663852886e38, 3.4028234663852886e38}, {-3e38, 3e38},
                     {-1.7976931348623157e308, 1.7976931348623157e308}, {-1e308, 1.5e308}};

template <class T> bool in_range (T got, T a, T b)
{
    LD lo = std::min ((LD) a, (LD) b), hi = std::max ((LD) a, (LD) b);
    LD m  = std::max (fabsl ((LD) a), fabsl ((LD) b));
    LD sl = 2 * ex::ulp_at<T> (m);
    return (LD) got >= lo - sl && (LD) got <= hi + sl;
}

template <class V> LD len2 (const V& v)
{
    LD s = 0;
    for (unsigned i = 0; i < V::dimensions (); ++i) s += (LD) v[i] * (LD) v[i];
    return s;
}
template <class V> bool finite_vec (const V& v)
{
    for (unsigned i = 0; i < V::dimensions (); ++i)
        if (!(v[i] - v[i] == 0)) return false;
    return true;
}

template <class V, class Rand> void sampler_checks (unsigned long seed, const std::string& name, long long& n)
{
    typedef typename V::BaseType T;
    const LD    EPS = (LD) std::numeric_limits<T>::epsilon ();
    Rand        r (seed), r2 (seed);
    std::string in = name + " seed=" + std::to_string (seed);
    for (int k = 0; k < 4; ++k)
    {
        V s = IM::solidSphereRand<V> (r);
        V h = IM::hollowSphereRand<V> (r);
        V g = IM::gaussSphereRand<V> (r);
        float f = IM::gaussRand (r);
        n += 4;
        std::string at = in + " draw " + std::to_string (k);
        if (!finite_vec (s) || !(len2 (s) <= 1 + 4 * EPS)) R ().fail ("solidSphereRand<" + name + ">", at, "|v|^2 <= 1", fmt (len2 (s)));
        if (!finite_vec (h) || !(fabsl (sqrtl (len2 (h)) - 1) <= 4 * EPS)) R ().fail ("hollowSphereRand<" + name + ">", at, "|v| = 1 +- 4 eps", fmt (sqrtl (len2 (h))));
        if (!finite_vec (g)) R ().fail ("gaussSphereRand<" + name + ">", at, "finite", fmt (len2 (g)));
        if (!(f - f == 0)) R ().fail ("gaussRand<" + name + ">", at, "finite", fmt (f));
        R ().note_max ("hollowSphereRand ||v|-1| / eps", (double) (fabsl (sqrtl (len2 (h)) - 1) / EPS));
        // purity: an independently constructed generator reproduces the same samples
        V s2 = IM::solidSphereRand<V> (r2);
        V h2 = IM::hollowSphereRand<V> (r2);
        V g2 = IM::gaussSphereRand<V> (r2);
        float f2 = IM::gaussRand (r2);
        bool same = ex::same (f, f2);
        for (unsigned i = 0; i < V::dimensions (); ++i) same = same && ex::same (s[i], s2[i]) && ex::same (h[i], h2[i]) && ex::same (g[i], g2[i]);
        if (!same) R ().fail ("samplers.pure-function-of-seed<" + name + ">", at);
    }
}

} // namespace

void c18_generator_stages ()
{
    // ---------- all 2^23 mantissa patterns of Rand32::nextf
    if (R ().stage ("rand32-mantissa-all"))
    {
        const uint32_t       N = 1u << 23;
        std::vector<uint8_t> seen (N, 0);
        long long            n = 0, zero = 0, top = 0;
        for (int bg = 0; bg < 2; ++bg)
            for (uint32_t s = 0; s < N; ++s)
            {
                IM::Rand32 r (0);
                r._state = bg ? (0xffffffffff800000ul | s) : (unsigned long) s;
                float    f = r.nextf ();
                uint32_t m = lcg32 (s) & 0x7fffffu; // low 23 bits of the successor depend on the low 23 bits only
                float    w = (float) m * 1.1920928955078125e-07f; // m * 2^-23, exact
                ++n;
                if (!ex::same (f, w) || !(f >= 0.0f && f < 1.0f))
                    R ().fail ("Rand32::nextf.mantissa", "_state=" + c18::st (r._state) + " before the call: " + std::to_string (bg ? (0xffffffffff800000ul | s) : (unsigned long) s), fmt (w), fmt (f));
                if (!bg) seen[m] = 1;
                if (m == 0) ++zero;
                if (m == N - 1) ++top;
                // the state itself advanced by the documented LCG (low 32 bits)
                if ((uint32_t) r._state != lcg32 (bg ? (0xff800000u | s) : s)) R ().fail ("Rand32.state-successor", std::to_string (s), fmt (lcg32 (s)), fmt ((unsigned) r._state));
            }
        long long distinct = 0;
        for (uint8_t b : seen) distinct += b;
        if (distinct != (long long) N) R ().fail ("Rand32::nextf.all-mantissas-reached", "all 2^23 low-state patterns", std::to_string (N), std::to_string (distinct));
        R ().add ("states", n); R ().add ("evaluations", n); R ().add ("transitions", n);
        R ().add ("rand32_distinct_mantissas", distinct);
        R ().cls ("rand32.nextf.mantissa-all-zeros(value 0)", zero);
        R ().cls ("rand32.nextf.mantissa-all-ones(value 1-2^-23)", top);
        R ().cls ("rand32.nextf.high-state-bits-set", (long long) N);
        R ().stage_done ("all 2^23 mantissa patterns of Rand32::nextf x {upper state bits clear, set}: value == m*2^-23 in [0,1), every mantissa reached once");
    }

    // ---------- purity, reference sequences and ranges over the seed alphabet
    if (R ().stage ("generators-seeds"))
    {
        std::vector<unsigned long> S = gen_seeds ();
        long long n = 0, tr = 0, wide = 0, c_agtb = 0, c_aeqb = 0;
        const size_t NR = sizeof (RANGES) / sizeof (RANGES[0]);
        for (unsigned long seed : S)
        {
            ++n;
            if (seed > 0xfffffffful) ++wide;
            std::string sd = "seed=" + std::to_string (seed);
            // ---- Rand32
            {
                IM::Rand32 g1 (seed), g2, other (seed ^ 0x5555);
                g2.init (seed);
                uint32_t m = init32 (seed);
                if ((uint32_t) g1._state != m) R ().fail ("Rand32::init.state-vs-pinned-formula", sd, fmt (m), fmt ((unsigned) g1._state));
                for (int k = 0; k < 64; ++k)
                {
                    (void) other.nexti ();
                    (void) IM::drand48 ();
                    std::string at = sd + " draw " + std::to_string (k);
                    m = lcg32 (m);
                    ++tr;
                    switch (k % 4)
                    {
                        case 0:
                        {
                            bool a = g1.nextb (), b = g2.nextb ();
                            if (a != b) R ().fail ("Rand32.pure-function-of-seed", at + " nextb");
                            if (a != ((m >> 31) != 0)) R ().fail ("Rand32.sequence-vs-documented-lcg", at + " nextb", fmt ((m >> 31) != 0), fmt (a));
                            break;
                        }
                        case 1:
                        {
                            unsigned long a = g1.nexti (), b = g2.nexti ();
                            if (a != b) R ().fail ("Rand32.pure-function-of-seed", at + " nexti");
                            if (a > 0xfffffffful) R ().fail ("Rand32::nexti.range", at, "<= 0xffffffff", fmt (a));
                            if (a != m) R ().fail ("Rand32.sequence-vs-documented-lcg", at + " nexti", fmt (m), fmt (a));
                            break;
                        }
                        case 2:
                        {
                            float a = g1.nextf (), b = g2.nextf ();
                            if (!ex::same (a, b)) R ().fail ("Rand32.pure-function-of-seed", at + " nextf");
                            if (!(a >= 0.0f && a < 1.0f)) R ().fail ("Rand32::nextf.range", at, "[0,1)", fmt (a));
                            if (a != (float) (m & 0x7fffffu) * 1.1920928955078125e-07f) R ().fail ("Rand32.sequence-vs-documented-lcg", at + " nextf", fmt ((float) (m & 0x7fffffu) * 1.1920928955078125e-07f), fmt (a));
                            break;
                        }
                        default:
                        {
                            const AB& ab = RANGES[(k / 4) % NR];
                            const double FM = 3.4028234663852886e38; // double-only ranges are clamped to +-FLT_MAX
                            float     lo = (float) std::max (-FM, std::min (FM, ab.a)), hi = (float) std::max (-FM, std::min (FM, ab.b));
                            float     a = g1.nextf (lo, hi), b = g2.nextf (lo, hi);
                            if (lo > hi) ++c_agtb;
                            if (lo == hi) ++c_aeqb;
                            if (!ex::same (a, b)) R ().fail ("Rand32.pure-function-of-seed", at + " nextf(a,b)");
                            if (!in_range<float> (a, lo, hi)) R ().fail ("Rand32::nextf(a,b).range", at + " a=" + fmt (lo) + " b=" + fmt (hi), "between a and b (2 ulp)", fmt (a));
                            break;
                        }
                    }
                }
            }
            // ---- Rand48
            {
                IM::Rand48 g1 (seed), g2, other (seed ^ 0x5555);
                g2.init (seed);
                uint64_t       w = init64 (seed);
                unsigned short ref[3] = {(unsigned short) (w & 0xffff), (unsigned short) ((w >> 16) & 0xffff), (unsigned short) (w & 0xffff)};
                if (pack (g1._state) != pack (ref)) R ().fail ("Rand48::init.state-vs-pinned-formula", sd, st (pack (ref)), st (pack (g1._state)));
                unsigned short gl[3] = {g1._state[0], g1._state[1], g1._state[2]}; // glibc runs on a copy of the *actual* initial state
                for (int k = 0; k < 64; ++k)
                {
                    (void) other.nexti ();
                    (void) IM::lrand48 ();
                    std::string at = sd + " draw " + std::to_string (k);
                    ++tr;
                    switch (k % 4)
                    {
                        case 0:
                        {
                            bool a = g1.nextb (), b = g2.nextb ();
                            long r = ::nrand48 (gl);
                            if (a != b) R ().fail ("Rand48.pure-function-of-seed", at + " nextb");
                            if (a != (bool) (r & 1)) R ().fail ("Rand48.sequence-vs-posix-rand48", at + " nextb", fmt ((bool) (r & 1)), fmt (a));
                            break;
                        }
                        case 1:
                        {
                            long a = g1.nexti (), b = g2.nexti (), r = ::nrand48 (gl);
                            if (a != b) R ().fail ("Rand48.pure-function-of-seed", at + " nexti");
                            if (a < 0 || a > 0x7fffffffl) R ().fail ("Rand48::nexti.range", at, "[0,0x7fffffff]", fmt (a));
                            if (a != r) R ().fail ("Rand48.sequence-vs-posix-rand48", at + " nexti", fmt (r), fmt (a));
                            break;
                        }
                        case 2:
                        {
                            double a = g1.nextf (), b = g2.nextf (), r = ::erand48 (gl);
                            if (!ex::same (a, b)) R ().fail ("Rand48.pure-function-of-seed", at + " nextf");
                            if (!(a >= 0.0 && a < 1.0)) R ().fail ("Rand48::nextf.range", at, "[0,1)", fmt (a));
                            if (!(std::fabs (a - r) < 3.5527136788005009e-15)) R ().fail ("Rand48.sequence-vs-posix-rand48", at + " nextf", fmt (r), fmt (a));
                            break;
                        }
                        default:
                        {
                            const AB& ab = RANGES[(k / 4) % NR];
                            double    a = g1.nextf (ab.a, ab.b), b = g2.nextf (ab.a, ab.b);
                            (void) ::erand48 (gl);
                            if (!ex::same (a, b)) R ().fail ("Rand48.pure-function-of-seed", at + " nextf(a,b)");
                            if (!in_range<double> (a, ab.a, ab.b)) R ().fail ("Rand48::nextf(a,b).range", at + " a=" + fmt (ab.a) + " b=" + fmt (ab.b), "between a and b (2 ulp)", fmt (a));
                            break;
                        }
                    }
                    if (pack (g1._state) != pack (gl) || pack (g1._state) != pack (g2._state)) R ().fail ("Rand48.state-successor", at, st (pack (gl)), st (pack (g1._state)));
                }
            }
        }
        R ().add ("states", n); R ().add ("evaluations", n * 128); R ().add ("transitions", tr * 2);
        R ().cls ("generators.seed-wider-than-32-bits", wide);
        R ().cls ("generators.nextf(a,b).a>b", c_agtb); R ().cls ("generators.nextf(a,b).a==b", c_aeqb);
        R ().stage_done (std::to_string (S.size ()) + " seeds (0..4096 + 14 boundary values) x 64 draws x {Rand32, Rand48}: two independently initialised generators, reference sequence, ranges; foreign draws interleaved");
    }

    // ---------- samplers
    if (R ().stage ("samplers"))
    {
        std::vector<unsigned long> S = gen_seeds ();
        long long n = 0;
        for (unsigned long seed : S)
        {
            sampler_checks<IM::V2f, IM::Rand32> (seed, "V2f,Rand32", n);
            sampler_checks<IM::V3f, IM::Rand32> (seed, "V3f,Rand32", n);
            sampler_checks<IM::V2d, IM::Rand32> (seed, "V2d,Rand32", n);
            sampler_checks<IM::V3d, IM::Rand32> (seed, "V3d,Rand32", n);
            sampler_checks<IM::V2f, IM::Rand48> (seed, "V2f,Rand48", n);
            sampler_checks<IM::V3f, IM::Rand48> (seed, "V3f,Rand48", n);
            sampler_checks<IM::V2d, IM::Rand48> (seed, "V2d,Rand48", n);
            sampler_checks<IM::V3d, IM::Rand48> (seed, "V3d,Rand48", n);
        }
        R ().add ("states", (long long) S.size () * 8); R ().add ("evaluations", n); R ().add ("transitions", n);
        R ().add ("sampler_draws", n);
        R ().stage_done (std::to_string (S.size ()) + " seeds x {V2f,V3f,V2d,V3d} x {Rand32,Rand48} x 4 draws of solid/hollow/gaussSphereRand and gaussRand");
    }

    // ---------- full period of Rand32 (thorough)
    if (R ().thorough () && R ().stage ("rand32-full-period"))
    {
        IM::Rand32 r (0);
        r._state = 0;
        uint64_t i = 0, first_return = 0;
        bool     cut = false;
        for (; i < (1ull << 32); ++i)
        {
            if ((i & 0xfffffff) == 0 && R ().out_of_time ()) { cut = true; break; }
            unsigned long v = r.nexti ();
            if (v == 0 && !first_return) first_return = i + 1;
        }
        R ().add ("states", (long long) i); R ().add ("evaluations", (long long) i); R ().add ("transitions", (long long) i);
        if (!cut && first_return != (1ull << 32)) R ().fail ("Rand32.period", "orbit of state 0", "first return after 2^32 steps", std::to_string (first_return));
        R ().add ("rand32_orbit_steps", (long long) i);
        if (!cut) R ().stage_done ("orbit of the 32-bit state from 0: first return after exactly 2^32 steps (all 2^32 states visited once)");
        else R ().stage_partial (std::to_string (i) + " of 2^32 steps");
    }
}
