// C10, stage "unit-lattice": the tolerance-based relations on normalised integer quaternions L(2)^4 \ 0 (624)
// and on axis-angle pairs (26 lattice axes + generic ones) x (k*pi/12, k in [-24,24]; +-(pi - 10^-j), 2pi - 10^-j,
// +-10^-j, j = 1..15).
//
// Reference: long double Hamilton algebra written from the definition (c10_common.hpp). The library inputs are
// T-valued and only unit up to rounding (|q|^2 - 1 <= 4.5 eps after Quat::normalized: each component 2.25 eps
// relative); the reference rotation is that of q/|q|. Tolerances, fixed a priori (eps = epsilon of T):
//   normalized()                      components within 4 eps of the long double quotient
//   rotateVector, v*q, v*M33, v*M44   32 eps |v|_2 : non-unit deviation (|q|^2-1)*|Rv - v| <= 9 eps |v|, two
//                                     quaternion products / cross products <= 8..13 eps |v| of rounding
//   toMatrix33/44 entries             32 eps : <= 6 eps rounding on Sum|terms| <= 3, plus 9 eps non-unit deviation
//   M(q1 q2) = M(q2) M(q1)            128 eps per entry : q1 q2 is not re-normalised (|q1 q2|^2 - 1 <= 14 eps ->
//                                     34 eps on the left), each factor on the right within 16 eps of a rotation
//   q * inverse(q) = 1                8 eps
//   exp(log q) = q                    8 eps (1 + cond), cond = (theta - sin theta cos theta)/sin^2 theta, theta = acos(w):
//                                     log uses acos(w) but scales v, so a norm defect eta = |q|^2-1 moves the angle
//                                     by eta*cond/2; cond -> 0 for theta -> 0 and grows like pi/sin^2 theta near
//                                     theta = pi, which is why the property excludes w close to -1 (skipped for
//                                     w < -1 + 1e-3 as the statement says)
//   setAxisAngle(axis(),angle()) = +-q  16 eps : atan2, length, normalise, sin/cos of a half angle <= pi with
//                                     d(angle)/2 <= eps*pi -> ~8 eps, plus the norm defect of q
//   Quat::setAxisAngle vs definition  4 eps ; Quat vs Matrix44 setAxisAngle 48 eps per entry (16.5 + 16 + 16 eps)
// Added (audit2 S3): axes scaled by 2^k (float k = -70, -100, +60; double -540, -600, +500: squared length subnormal,
// underflowing to zero, huge) in both setAxisAngle relations -- the rotation does not depend on the magnitude of the axis,
// same tolerances (the scaling is exact). Added (audit2 S6): the axis-angle and near-axis families (angles up to pi-1e-15,
// 2pi-1e-15) also rotate six vectors of magnitudes 1, 2^20, 2^-20 through the four entry points (32 eps |v|).
#include "c10_common.hpp"
#include <array>

namespace c10 {
namespace {
using vf::R;

struct Tally
{
    long long scaled_vec = 0, axis_scaled = 0;
    long long states = 0, trans = 0, w_neg = 0, w_zero = 0, w_pos = 0, near_minus1_skipped = 0, tiny_angle = 0, near_pi = 0, near_2pi = 0, log_theta0 = 0,
              generic_angle = 0;
    double w_rot = 0, w_mat = 0, w_prod = 0, w_explog = 0, w_aa = 0, w_qm = 0;
    void   merge (const Tally& o)
    {
        states += o.states; trans += o.trans; w_neg += o.w_neg; w_zero += o.w_zero; w_pos += o.w_pos; near_minus1_skipped += o.near_minus1_skipped;
        scaled_vec += o.scaled_vec; axis_scaled += o.axis_scaled;
        tiny_angle += o.tiny_angle; near_pi += o.near_pi; near_2pi += o.near_2pi; log_theta0 += o.log_theta0; generic_angle += o.generic_angle;
        w_rot = std::max (w_rot, o.w_rot); w_mat = std::max (w_mat, o.w_mat); w_prod = std::max (w_prod, o.w_prod);
        w_explog = std::max (w_explog, o.w_explog); w_aa = std::max (w_aa, o.w_aa); w_qm = std::max (w_qm, o.w_qm);
    }
};
inline void mx (double& a, LD v) { if ((double) v > a) a = (double) v; }

// relations that take one (nearly) unit quaternion
// `explog_sfx` narrows the sites of the log/exp relations to the input class of the calling family
template <class T> void single (Tally& tl, const Quat<T>& q, const std::string& in, bool with_vectors, const char* explog_sfx = "")
{
    const LD e  = EPS<T> ();
    const Q  qr = toQ (q);
    ++tl.states;
    // q * inverse(q) = 1
    {
        Quat<T> one = q * q.inverse ();
        ++tl.trans;
        LD d = qmaxdiff (toQ (one), Q{1, 0, 0, 0});
        if (!(d <= 8 * e)) R ().fail (site<T> ("Quat", "q*inverse=1"), in, "(1 0 0 0) to 8 eps", qs (one));
        Quat<T> c = ~q;
        if (!(c.r == q.r && c.v.x == -q.v.x && c.v.y == -q.v.y && c.v.z == -q.v.z)) R ().fail (site<T> ("Quat", "operator~=conjugate"), in, "(w,-v)", qs (c));
    }
    // compound product with itself: q *= q must be q * q (the argument aliases the object), and q /= q == q / q
    {
        Quat<T> a = q, b = q, w = q * q, d = q / q;
        a *= a;
        b /= b;
        tl.trans += 2;
        if (!(ex::same (a.r, w.r) && ex::same (a.v.x, w.v.x) && ex::same (a.v.y, w.v.y) && ex::same (a.v.z, w.v.z))) R ().fail (site<T> ("Quat", "operator*=.rhs-aliases-self"), in, qs (w), qs (a));
        if (!(ex::same (b.r, d.r) && ex::same (b.v.x, d.v.x) && ex::same (b.v.y, d.v.y) && ex::same (b.v.z, d.v.z))) R ().fail (site<T> ("Quat", "operator/=.rhs-aliases-self"), in, qs (d), qs (b));
    }
    // matrices against the rotation of q/|q|
    LD m[3][3];
    qmat (qr, m);
    Matrix33<T> M3 = q.toMatrix33 ();
    Matrix44<T> M4 = q.toMatrix44 ();
    tl.trans += 2;
    {
        LD w = 0, w34 = 0;
        for (int i = 0; i < 3; ++i)
            for (int j = 0; j < 3; ++j)
            {
                w   = std::max (w, std::max (fabsl ((LD) M3.x[i][j] - m[i][j]), fabsl ((LD) M4.x[i][j] - m[i][j])));
                w34 = std::max (w34, fabsl ((LD) M3.x[i][j] - (LD) M4.x[i][j]));
            }
        mx (tl.w_mat, w / e);
        if (!(w <= 32 * e)) R ().fail (site<T> ("Quat", "toMatrix33/44=rotation-of-q"), in, "rows = q e_i q*/|q|^2 to 32 eps", mat_str (M4.x));
        if (!(w34 <= 4 * e)) R ().fail (site<T> ("Quat", "toMatrix33=toMatrix44-upper-left"), in, mat_str (M3.x), mat_str (M4.x));
        if (!(M4.x[0][3] == 0 && M4.x[1][3] == 0 && M4.x[2][3] == 0 && M4.x[3][0] == 0 && M4.x[3][1] == 0 && M4.x[3][2] == 0 && M4.x[3][3] == 1))
            R ().fail (site<T> ("Quat", "toMatrix44.affine-part"), in, "(0,0,0,1)", mat_str (M4.x));
    }
    // extractQuat(toMatrix44) = +-q   (64 eps: matrix entries within 16 eps of the rotation of q/|q|; the radicand
    // 1 +- diagonal sums equals 4 c^2 for the largest component c, c^2 >= 1/4, so s >= 1: d(s/2) <= 3*16/4 = 12 eps,
    // the other components (difference of two entries) * 0.5/s : 16 eps + 12 eps relative)
    {
        Quat<T> x = extractQuat (M4);
        ++tl.trans;
        Q  xr = toQ (x), qn = qunit (qr);
        LD d  = std::min (qmaxdiff (xr, qn), qmaxdiff (xr, qscale (qn, -1)));
        if (!(d <= 64 * e)) R ().fail (site<T> ("extractQuat", "extractQuat(toMatrix44(q))=+-q"), in, "+-" + qs (qn) + " to 64 eps", qs (x));
    }
    if (!with_vectors)
    {
        static const LD VS[6][3] = {{1, 2, -2}, {-3, 0, 4}, {1048576.0L, -2097152.0L, 1048576.0L}, {0, 0, 3145728.0L}, {1 / 1048576.0L, 3 / 1048576.0L, -2 / 1048576.0L}, {-5 / 1048576.0L, 0, 0}};
        for (auto& v : VS)
        {
            LD ev[3];
            qrot (qr, v, ev);
            LD      t = 32 * e * sqrtl (v[0] * v[0] + v[1] * v[1] + v[2] * v[2]);
            Vec3<T> vv ((T) v[0], (T) v[1], (T) v[2]);
            Vec3<T> r[4] = {q.rotateVector (vv), vv * q, vv * M3, vv * M4};
            static const char* nm[4] = {"rotateVector=rotation-of-q.scaled-vector", "v*q=rotation-of-q.scaled-vector", "v*toMatrix33=rotation-of-q.scaled-vector", "v*toMatrix44=rotation-of-q.scaled-vector"};
            tl.trans += 4; ++tl.scaled_vec;
            for (int k = 0; k < 4; ++k)
            {
                LD d = std::max (fabsl ((LD) r[k].x - ev[0]), std::max (fabsl ((LD) r[k].y - ev[1]), fabsl ((LD) r[k].z - ev[2])));
                if (!(d == d)) d = 1e30L;
                mx (tl.w_rot, 32 * d / t);
                if (!(d <= t)) R ().fail (site<T> ("Quat", nm[k]), in + " v=" + ld3 (v), ld3 (ev) + " to 32 eps|v|", v3 (r[k]));
            }
        }
    }
    if (with_vectors)
        for (int pi = 0; pi < 125; ++pi)
        {
            int p[3];
            ex::decode ((uint64_t) pi, 5, 3, p, -2);
            LD v[3] = {(LD) p[0], (LD) p[1], (LD) p[2]}, ev[3];
            qrot (qr, v, ev);
            LD      t = 32 * e * sqrtl (v[0] * v[0] + v[1] * v[1] + v[2] * v[2]);
            Vec3<T> vv ((T) p[0], (T) p[1], (T) p[2]);
            Vec3<T> r[4] = {q.rotateVector (vv), vv * q, vv * M3, vv * M4};
            static const char* nm[4] = {"rotateVector=rotation-of-q", "v*q=rotation-of-q", "v*toMatrix33=rotation-of-q", "v*toMatrix44=rotation-of-q"};
            tl.trans += 4;
            for (int k = 0; k < 4; ++k)
            {
                LD d = std::max (fabsl ((LD) r[k].x - ev[0]), std::max (fabsl ((LD) r[k].y - ev[1]), fabsl ((LD) r[k].z - ev[2])));
                if (t > 0) mx (tl.w_rot, 32 * d / t);
                if (!(d <= t)) R ().fail (site<T> ("Quat", nm[k]), in + " v=" + i3 (p), ld3 (ev) + " to 32 eps|v|", v3 (r[k]));
            }
        }
    // exp(log q) = q unless w is within 1e-3 of -1
    if (qr.w < -1 + 1e-3L) ++tl.near_minus1_skipped;
    else
    {
        LD theta = acosl (std::min (qr.w / qnorm (qr), 1.0L));
        LD s2    = sinl (theta) * sinl (theta);
        LD cond  = s2 > 0 ? (theta - sinl (theta) * cosl (theta)) / s2 : 0;
        if ((LD) q.r >= 1) ++tl.log_theta0;
        Quat<T> lg = q.log (), back = lg.exp ();
        tl.trans += 2;
        LD d = qmaxdiff (toQ (back), qr), t = 8 * e * (1 + cond);
        mx (tl.w_explog, 8 * d / t);
        if (!qfinite (toQ (back)) || !(d == d)) d = 1e30L;
        if (!(lg.r == 0)) R ().fail (site<T> ("Quat", std::string ("log.is-pure") + explog_sfx), in, "real part 0", qs (lg));
        if (!(d <= t)) R ().fail (site<T> ("Quat", std::string ("exp(log(q))=q") + explog_sfx), in, qs (q) + " to 8 eps (1+cond), cond=" + vf::fmt (cond), qs (back));
    }
    // setAxisAngle(axis(), angle()) = +-q
    {
        Quat<T> b;
        Quat<T>& ret = b.setAxisAngle (q.axis (), q.angle ());
        ++tl.trans;
        Q  br = toQ (b), qn = qunit (qr);
        LD d  = std::min (qmaxdiff (br, qn), qmaxdiff (br, qscale (qn, -1)));
        mx (tl.w_aa, d / e);
        if (&ret != &b) R ().fail (site<T> ("Quat", "setAxisAngle.returns-this"), in);
        if (!(d <= 16 * e)) R ().fail (site<T> ("Quat", "setAxisAngle(axis(),angle())=+-q"), in, "+-" + qs (qn) + " to 16 eps", qs (b));
    }
}

template <class T> void lattice_quats (Tally& total, bool thorough)
{
    const auto L = lattice4 (2);
    const LD   e = EPS<T> ();
    std::vector<Quat<T>> qs_;
    Tally                t0;
    for (auto& g : L)
    {
        Quat<T> raw ((T) g.c[0], (T) g.c[1], (T) g.c[2], (T) g.c[3]);
        Quat<T> q = raw.normalized ();
        LD      n = sqrtl ((LD) (g.c[0] * g.c[0] + g.c[1] * g.c[1] + g.c[2] * g.c[2] + g.c[3] * g.c[3]));
        Q       er{g.c[0] / n, g.c[1] / n, g.c[2] / n, g.c[3] / n};
        ++t0.trans;
        if (!(qmaxdiff (toQ (q), er) <= 4 * e)) R ().fail (site<T> ("Quat", "normalized"), "q=" + i4 (g.c), qs (er) + " to 4 eps", qs (q));
        Quat<T> q2 = raw;
        q2.normalize ();
        if (!(q2 == q)) R ().fail (site<T> ("Quat", "normalize=normalized"), "q=" + i4 (g.c), qs (q), qs (q2));
        if (g.c[0] < 0) ++t0.w_neg; else if (g.c[0] == 0) ++t0.w_zero; else ++t0.w_pos;
        qs_.push_back (q);
        single<T> (t0, q, "q=normalized" + i4 (g.c), true);
    }
    total.merge (t0);
    // products: M(q1 q2) = M(q2) M(q1); quick: q2 over every 5th member, thorough: all pairs
    const size_t n = qs_.size ();
    std::mutex   mu;
    vf::parallel_chunks (n, 8, [&] (uint64_t lo, uint64_t hi, unsigned) {
        Tally tl;
        for (uint64_t a = lo; a < hi; ++a)
        {
            Matrix33<T> A3 = qs_[a].toMatrix33 ();
            Matrix44<T> A4 = qs_[a].toMatrix44 ();
            for (size_t b = 0; b < n; ++b)
            {
                if (!thorough && (a + b) % 5) continue;
                ++tl.states;
                Quat<T>     p  = qs_[a] * qs_[b];
                // the product against the definition (each component 4 products, 3 additions: 2.5 eps Sum|terms| <= 2.5 eps * 2)
                Q pr = qmul (toQ (qs_[a]), toQ (qs_[b]));
                ++tl.trans;
                if (!(qmaxdiff (toQ (p), pr) <= 8 * e))
                    R ().fail (site<T> ("Quat", "operator*(Quat,Quat)=Hamilton-product"), "q1=normalized" + i4 (L[a].c) + " q2=normalized" + i4 (L[b].c), qs (pr) + " to 8 eps", qs (p));
                Matrix33<T> P3 = p.toMatrix33 (), R3 = qs_[b].toMatrix33 () * A3;
                Matrix44<T> P4 = p.toMatrix44 (), R4 = qs_[b].toMatrix44 () * A4;
                tl.trans += 2;
                LD w = 0;
                for (int i = 0; i < 3; ++i)
                    for (int j = 0; j < 3; ++j)
                        w = std::max (w, std::max (fabsl ((LD) P3.x[i][j] - (LD) R3.x[i][j]), fabsl ((LD) P4.x[i][j] - (LD) R4.x[i][j])));
                mx (tl.w_prod, w / e);
                if (!(w <= 128 * e))
                    R ().fail (site<T> ("Quat", "toMatrix(q1*q2)=toMatrix(q2)*toMatrix(q1)"), "q1=normalized" + i4 (L[a].c) + " q2=normalized" + i4 (L[b].c), mat_str (R4.x) + " to 128 eps", mat_str (P4.x));
            }
        }
        std::lock_guard<std::mutex> g (mu);
        total.merge (tl);
    });
}

template <class T> void axis_angle_pairs (Tally& tl)
{
    const LD e  = EPS<T> ();
    const LD PI = acosl (-1.0L);
    struct A { T a; std::string name; int cls; };
    std::vector<A> angs;
    for (int k = -24; k <= 24; ++k) angs.push_back ({(T) (k * PI / 12), std::to_string (k) + "*pi/12", 0});
    for (int j = 1; j <= 15; ++j)
    {
        LD d = powl (10.0L, -j);
        angs.push_back ({(T) (PI - d), "pi-1e-" + std::to_string (j), 2});
        angs.push_back ({(T) - (PI - d), "-(pi-1e-" + std::to_string (j) + ")", 2});
        angs.push_back ({(T) (2 * PI - d), "2pi-1e-" + std::to_string (j), 3});
        angs.push_back ({(T) d, "1e-" + std::to_string (j), 1});
        angs.push_back ({(T) -d, "-1e-" + std::to_string (j), 1});
    }
    // axis = integer direction times 2^k (k = 0 for the unscaled alphabet)
    std::vector<std::array<int, 4>> axes;
    for (int i = 0; i < 27; ++i)
    {
        int a[3];
        ex::decode ((uint64_t) i, 3, 3, a, -1);
        if (a[0] || a[1] || a[2]) axes.push_back ({{a[0], a[1], a[2], 0}});
    }
    axes.push_back ({{2, 3, 5, 0}});
    axes.push_back ({{-7, 11, -13, 0}});
    axes.push_back ({{3, 0, -4, 0}});
    {
        const bool dbl = std::numeric_limits<T>::digits > 30;
        for (int k : {dbl ? -540 : -70, dbl ? -600 : -100, dbl ? 500 : 60})
        {
            axes.push_back ({{1, -3, 2, k}});
            axes.push_back ({{0, 1, 0, k}});
            axes.push_back ({{-2, 0, 1, k}});
        }
    }
    for (auto& ax : axes)
        for (auto& g : angs)
        {
            (g.cls == 0 ? tl.generic_angle : g.cls == 1 ? tl.tiny_angle : g.cls == 2 ? tl.near_pi : tl.near_2pi)++;
            if (ax[3]) ++tl.axis_scaled;
            const std::string in = "axis=(" + std::to_string (ax[0]) + "," + std::to_string (ax[1]) + "," + std::to_string (ax[2]) + ")" + (ax[3] ? "*2^" + std::to_string (ax[3]) : std::string ()) + " angle=" + g.name + "=" + vf::fmt (g.a);
            Vec3<T> av ((T) ldexpl ((LD) ax[0], ax[3]), (T) ldexpl ((LD) ax[1], ax[3]), (T) ldexpl ((LD) ax[2], ax[3]));
            const char* asx = ax[3] ? ".axis-scaled-2^k" : "";
            Quat<T> q;
            q.setAxisAngle (av, g.a);
            ++tl.trans;
            // definition: (cos(a/2), axis^ sin(a/2))
            LD n = sqrtl ((LD) (ax[0] * ax[0] + ax[1] * ax[1] + ax[2] * ax[2])), h = (LD) g.a / 2;
            Q  er{cosl (h), ax[0] / n * sinl (h), ax[1] / n * sinl (h), ax[2] / n * sinl (h)};
            LD d = qmaxdiff (toQ (q), er);
            if (!qfinite (toQ (q))) d = 1e30L;
            if (!(d <= 4 * e)) R ().fail (site<T> ("Quat", std::string ("setAxisAngle=(cos(a/2),axis^*sin(a/2))") + asx), in, qs (er) + " to 4 eps", qs (q));
            // Quat and Matrix44 describe the same rotation
            Matrix44<T> MA;
            MA.setAxisAngle (av, g.a);
            Matrix44<T> MQ = q.toMatrix44 ();
            ++tl.trans;
            LD w = 0;
            for (int i = 0; i < 4; ++i)
                for (int j = 0; j < 4; ++j) w = std::max (w, fabsl ((LD) MA.x[i][j] - (LD) MQ.x[i][j]));
            mx (tl.w_qm, w / e);
            if (!(w == w)) w = 1e30L;
            if (!(w <= 48 * e)) R ().fail (site<T> ("Quat", std::string ("setAxisAngle.toMatrix44=Matrix44::setAxisAngle") + asx), in, mat_str (MA.x) + " to 48 eps", mat_str (MQ.x));
            if (qfinite (toQ (q))) single<T> (tl, q, "q=setAxisAngle(" + in + ")", false);
        }
}

// Near-axis rotations: one vector component dominant (+-1), the other two from {0, +-10^-j}, real part from
// {0, +-0.005, +-0.25, +-0.5} (all in the trace <= 0 region of extractQuat, where the pivot must be the LARGEST
// diagonal entry: a pivot on a tiny component divides by it and loses eps/c^2). Every (dominant axis, which small
// component is smaller) pattern occurs, so each comparison of the three-way diagonal maximum is decisive.
template <class T> void near_axis_quats (Tally& tl, long long cnt[3])
{
    const int  jmax = std::numeric_limits<T>::digits > 30 ? 8 : 4;
    const LD   r0s[7] = {0, 0.005L, -0.005L, 0.25L, -0.25L, 0.5L, -0.5L};
    std::vector<LD> small;
    small.push_back (0);
    for (int j = 1; j <= jmax; ++j) { small.push_back (powl (10.0L, -j)); small.push_back (-powl (10.0L, -j)); }
    for (LD r0 : r0s)
        for (int d = 0; d < 3; ++d)
            for (int sg = -1; sg <= 1; sg += 2)
                for (LD a : small)
                    for (LD b : small)
                    {
                        LD v[3];
                        v[d] = sg; v[(d + 1) % 3] = a; v[(d + 2) % 3] = b;
                        Quat<T> q ((T) r0, (T) v[0], (T) v[1], (T) v[2]);
                        q.normalize ();
                        ++cnt[d];
                        single<T> (tl, q, "near-axis q=normalized(" + vf::fmt ((double) r0) + "," + vf::fmt ((double) v[0]) + "," + vf::fmt ((double) v[1]) + "," + vf::fmt ((double) v[2]) + ")", false);
                    }
}


// ---- stage "unit-within-rounding" (seed C10-u2) ---------------------------------------------------------------------------
// Quaternions that are unit only to rounding can have a real part one ulp ABOVE 1 (|q|^2 = 1 + 2 eps): Quat(1+eps,0,0,0),
// products inverse(q)*q, normalised near-identity quaternions. The property quantifies over "all unit quaternions (including
// w ... near +-1)", and a T-valued quaternion is unit exactly in this sense, so the whole class is in the domain:
//   family A: r in {+-(1 - eps/2), +-1, +-(1 + eps)} (1 - ulp, 1, 1 + ulp), v = s * d, d in {-1,0,1}^3 (the zero vector
//             included), s in {denorm_min, min, eps, 2^k around sqrt(eps)}, every combination whose norm defect
//             | r^2 + |v|^2 - 1 | is at most 4.5 eps -- the same defect bound the other families of this file have after
//             Quat::normalized(), so every relation of single() applies with its stated a-priori tolerance
//             (exp(log q) = q to 8 eps (1 + cond) is skipped for r < 0, i.e. near -1, as the statement says);
//   family B: p = inverse(q) * q, q * inverse(q), q * ~q for the 624 normalised lattice quaternions: "q*inverse(q) is the
//             identity" (8 eps per component, checked in single()) makes p a unit quaternion within rounding whose real part
//             is 1 - k ulp, 1 or 1 + ulp. exp(log p) is (cos, sin)-valued, hence unit to 2 eps, and must be p up to p's own
//             distance from the unit sphere (<= 8 eps, the bound of q*inverse(q)=1) plus the rounding of log/exp near the
//             identity (theta/sin theta and sin theta/theta are 1 + O(eps) there: <= 4 eps): bound 12 eps, log p pure and finite.
struct RoundCnt
{
    long long r_above1 = 0, r_eq1 = 0, r_below1 = 0, r_neg = 0, v_zero = 0, v_tiny = 0, v_sqrt_eps = 0, skipped_defect = 0;
    long long p_above1 = 0, p_eq1 = 0, p_below1 = 0;
};

template <class T> void check_explog_near_identity (Tally& tl, const Quat<T>& p, const std::string& in, const char* sfx)
{
    const LD e = EPS<T> ();
    Quat<T>  lg = p.log (), back = lg.exp ();
    tl.trans += 2;
    if (!qfinite (toQ (lg)) || !(lg.r == 0)) R ().fail (site<T> ("Quat", std::string ("log.is-pure-and-finite") + sfx), in, "(0, finite vector)", qs (lg));
    LD d = qmaxdiff (toQ (back), toQ (p));
    if (!qfinite (toQ (back)) || !(d == d)) d = 1e30L;
    mx (tl.w_explog, 8 * d / (12 * e));
    if (!(d <= 12 * e)) R ().fail (site<T> ("Quat", std::string ("exp(log(q))=q") + sfx), in, qs (p) + " to 12 eps", qs (back));
}

template <class T> void rounding_family (Tally& tl, RoundCnt& rc)
{
    const LD   e   = EPS<T> ();
    const bool dbl = std::numeric_limits<T>::digits > 30;
    const T    one = 1, eps = std::numeric_limits<T>::epsilon ();
    const T    RS[6] = {(T) (one - eps / 2), one, (T) (one + eps), (T) - (one - eps / 2), (T) -one, (T) - (one + eps)};
    const char* RN[6] = {"1-ulp", "1", "1+ulp", "-(1-ulp)", "-1", "-(1+ulp)"};
    struct S { T s; std::string name; int cls; };
    std::vector<S> ss;
    ss.push_back ({std::numeric_limits<T>::denorm_min (), "denorm_min", 1});
    ss.push_back ({std::numeric_limits<T>::min (), "min", 1});
    ss.push_back ({eps, "eps", 1});
    for (int k : {dbl ? -28 : -14, dbl ? -27 : -13, dbl ? -26 : -12, dbl ? -25 : -11}) ss.push_back ({(T) ldexpl (1.0L, k), "2^" + std::to_string (k), 2});
    for (int ri = 0; ri < 6; ++ri)
        for (int di = 0; di < 27; ++di)
        {
            int d[3];
            ex::decode ((uint64_t) di, 3, 3, d, -1);
            const bool dz = !(d[0] || d[1] || d[2]);
            for (size_t si = 0; si < (dz ? 1 : ss.size ()); ++si)
            {
                const T s = dz ? (T) 0 : ss[si].s;
                Quat<T> q (RS[ri], (T) (s * d[0]), (T) (s * d[1]), (T) (s * d[2])); // s * {-1,0,1}: exact
                Q       qr = toQ (q);
                LD      defect = fabsl (qdot (qr, qr) - 1);
                if (defect > 4.5L * e) { ++rc.skipped_defect; continue; }
                (ri >= 3 ? rc.r_neg : ri == 0 ? rc.r_below1 : ri == 1 ? rc.r_eq1 : rc.r_above1)++;
                (dz ? rc.v_zero : ss[si].cls == 1 ? rc.v_tiny : rc.v_sqrt_eps)++;
                const std::string in = "unit-within-rounding q=(r=" + std::string (RN[ri]) + ", v=" + (dz ? std::string ("0") : ss[si].name + "*" + i3 (d)) + ")=" + qs (q);
                single<T> (tl, q, in, false, ".unit-within-rounding");
            }
        }
    // family B
    for (auto& g : lattice4 (2))
    {
        Quat<T> q = Quat<T> ((T) g.c[0], (T) g.c[1], (T) g.c[2], (T) g.c[3]).normalized ();
        Quat<T> ps[3] = {q.inverse () * q, q * q.inverse (), q * ~q};
        static const char* pn[3] = {"inverse(q)*q", "q*inverse(q)", "q*~q"};
        for (int k = 0; k < 3; ++k)
        {
            ++tl.states;
            const Quat<T>& p = ps[k];
            LD d1 = qmaxdiff (toQ (p), Q{1, 0, 0, 0});
            if (!(d1 <= 8 * e)) continue; // not a unit quaternion within rounding: reported by Quat::q*inverse=1 in stage unit-lattice
            (p.r > 1 ? rc.p_above1 : p.r == 1 ? rc.p_eq1 : rc.p_below1)++;
            check_explog_near_identity<T> (tl, p, std::string ("p=") + pn[k] + "=" + qs (p) + " q=normalized" + i4 (g.c), ".of-product-q*inverse(q)");
        }
    }
}

} // namespace

void run_unit ()
{
    if (!R ().stage ("unit-lattice")) return;
    const bool th = R ().thorough ();
    Tally      tl;
    lattice_quats<float> (tl, th);
    lattice_quats<double> (tl, th);
    axis_angle_pairs<float> (tl);
    axis_angle_pairs<double> (tl);
    long long na[3] = {0, 0, 0};
    near_axis_quats<float> (tl, na);
    near_axis_quats<double> (tl, na);
    R ().cls ("near-axis.dominant-x", na[0]); R ().cls ("near-axis.dominant-y", na[1]); R ().cls ("near-axis.dominant-z", na[2]);
    R ().add ("states", tl.states); R ().add ("transitions", tl.trans); R ().add ("evaluations", tl.states);
    R ().cls ("unit.w<0", tl.w_neg);
    R ().cls ("unit.w=0", tl.w_zero);
    R ().cls ("unit.w>0.generic", tl.w_pos);
    R ().cls ("explog.skipped-w-within-1e-3-of--1", tl.near_minus1_skipped);
    R ().cls ("log.theta=0-branch(w>=1)", tl.log_theta0);
    R ().cls ("axis-angle.axis-scaled-2^k", tl.axis_scaled);
    R ().cls ("rotate.scaled-vectors-on-axis-angle-and-near-axis-families", tl.scaled_vec);
    R ().cls ("axis-angle.tiny-angle", tl.tiny_angle);
    R ().cls ("axis-angle.near-pi", tl.near_pi);
    R ().cls ("axis-angle.near-2pi", tl.near_2pi);
    R ().cls ("axis-angle.grid.generic", tl.generic_angle);
    R ().note_max ("rotate: worst error in eps|v| (bound 32)", tl.w_rot);
    R ().note_max ("toMatrix: worst entry error in eps (bound 32)", tl.w_mat);
    R ().note_max ("M(q1q2)-M(q2)M(q1): worst entry in eps (bound 128)", tl.w_prod);
    R ().note_max ("exp(log q): worst error in eps(1+cond) (bound 8)", tl.w_explog);
    R ().note_max ("setAxisAngle(axis(),angle()): worst in eps (bound 16)", tl.w_aa);
    R ().note_max ("Quat vs Matrix44 setAxisAngle: worst entry in eps (bound 48)", tl.w_qm);
    R ().sample ("q=normalized(1,-2,0,2): exp(log q) == q to 8 eps(1+cond); setAxisAngle(axis(),angle()) == q");
    R ().stage_done (std::string ("624 normalised integer quaternions x {normalize, inverse, matrices, extractQuat, exp/log, axis/angle, 125 vectors x 4 rotation entry points}; products ") +
                     (th ? "all 624^2" : "every 5th of 624^2") + "; 29 + 9 scaled (2^k) axes x 124 angles axis-angle pairs (+ 6 scaled vectors each); near-axis family 7 real parts x 3 dominant axes x 2 signs x {0,+-10^-j}^2; float and double");
}

void run_rounding ()
{
    if (!R ().stage ("unit-within-rounding")) return;
    Tally    tl;
    RoundCnt rc;
    rounding_family<float> (tl, rc);
    rounding_family<double> (tl, rc);
    R ().add ("states", tl.states); R ().add ("transitions", tl.trans); R ().add ("evaluations", tl.states);
    R ().add ("rounding_family_combinations_with_norm_defect_above_4.5eps_not_unit", rc.skipped_defect);
    R ().cls ("unit-within-rounding.r=1+ulp", rc.r_above1);
    R ().cls ("unit-within-rounding.r=1", rc.r_eq1);
    R ().cls ("unit-within-rounding.r=1-ulp", rc.r_below1);
    R ().cls ("unit-within-rounding.r<0(explog-skipped)", rc.r_neg);
    R ().cls ("unit-within-rounding.v=0", rc.v_zero);
    R ().cls ("unit-within-rounding.v-tiny(denorm,min,eps)", rc.v_tiny);
    R ().cls ("unit-within-rounding.v~sqrt-eps", rc.v_sqrt_eps);
    R ().cls ("product-q*inverse(q).r>1", rc.p_above1);
    R ().cls ("product-q*inverse(q).r=1", rc.p_eq1);
    R ().cls ("product-q*inverse(q).r<1", rc.p_below1);
    R ().note_max ("unit-within-rounding exp(log q): worst error in eps(1+cond) resp. 12 eps, scaled to bound 8", tl.w_explog);
    R ().sample ("q=(1+eps,0,0,0): log q == (0,0,0,0), exp(log q) == (1,0,0,0), within eps of q");
    R ().stage_done ("r in {+-(1-ulp), +-1, +-(1+ulp)} x v = s*d, d in {-1,0,1}^3, s in {denorm_min, min, eps, four powers of two around sqrt(eps)} with norm defect <= 4.5 eps x all single-quaternion relations; "
                     "exp(log p) = p for p = inverse(q)*q, q*inverse(q), q*~q over 624 normalised lattice quaternions; float and double");
}

} // namespace c10
