#include "c04.hpp"
namespace c04 {
void register_vec3i (Jobs& jobs) { reg_vec<Vec3<short>> (jobs); reg_vec<Vec3<int>> (jobs); reg_vec<Vec3<int64_t>> (jobs); }
}
