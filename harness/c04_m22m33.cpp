#include "c04.hpp"
namespace c04 {
void register_m22m33 (Jobs& jobs)
{
    reg_matrix<Matrix22<float>, 2> (jobs); reg_matrix<Matrix22<double>, 2> (jobs);
    reg_matrix<Matrix33<float>, 3> (jobs); reg_matrix<Matrix33<double>, 3> (jobs);
}
}
