// C05 — products, transposes, minors, determinants equal their algebraic definitions.
//
// Shared template code; instantiated for float in c05_f.cpp and for double in c05_d.cpp, driven by
// c05.cpp.  Every stage enumerates a finite stated space completely on the real library code.
//
// Oracles
//  * exact stages: operands are small integers (lattices, scaled basis elements, 0/+-1 patterns,
//    distinct small primes), chosen so that every product and every partial sum that any
//    evaluation order can form is an integer below 2^24 — float and double arithmetic is then
//    exact, and the result must EQUAL (as a value: -0 == +0) the textbook sum of products evaluated
//    in int64 / __int128 by the straightforward definitions written below (not the library's
//    unrolled expressions);
//  * homogeneous divide: numerators and w are exact integers; the reference is the IEEE quotient of
//    those two exactly represented integers, i.e. the exact rational rounded once;
//  * spellings: operator / compound assignment / static / member forms must be bitwise identical;
//  * rounding stage (non-lattice operands prime * 2^-k): against long double, with the a-priori
//    bound (R+1) * eps * sum|terms|, R = the largest number of rounded operations any single term of
//    the textbook sum passes through (R = n for an n-term inner product evaluated in any order:
//    one multiplication and at most n-1 additions; standard gamma_R <= R*eps/2 analysis, Higham
//    "Accuracy and Stability" section 3.1, so (R+1)*eps leaves more than a factor 2 of margin;
//    the long-double reference itself is accurate to 2^-63 * sum|terms|, which that margin absorbs).
#pragma once
#include "../engine/exact.hpp"
#include "../engine/report.hpp"
#include <ImathMatrix.h>
#include <ImathMatrixAlgo.h>
#include <ImathQuat.h>
#include <ImathVec.h>
#include <algorithm>
#include <atomic>

namespace c05 {
using namespace IMATH_NAMESPACE;
using ex::i128;
using vf::R;
typedef long long   i64;
typedef long double ld;

template <class T> struct TN;
template <> struct TN<float>  { static const char* s () { return "f"; } static const char* l () { return "float"; } };
template <> struct TN<double> { static const char* s () { return "d"; } static const char* l () { return "double"; } };

template <class T, int N> struct MT;
template <class T> struct MT<T, 2> { typedef Matrix22<T> M; typedef Vec2<T> V; };
template <class T> struct MT<T, 3> { typedef Matrix33<T> M; typedef Vec3<T> V; };
template <class T> struct MT<T, 4> { typedef Matrix44<T> M; typedef Vec4<T> V; };

struct Tally
{
    long long st = 0, tr = 0;
    void flush () { R ().add ("states", st); R ().add ("evaluations", st); R ().add ("transitions", tr); st = tr = 0; }
};

// ---- formatting (only used on failure) ------------------------------------------------------
template <class I> inline std::string ints (const I* a, int n)
{
    std::string s = "[";
    for (int i = 0; i < n; ++i) { if (i) s += ","; s += std::to_string ((long long) a[i]); }
    return s + "]";
}
template <class T> inline std::string vals (const T* a, int n)
{
    std::string s = "[";
    for (int i = 0; i < n; ++i) { if (i) s += ","; s += vf::fmt (a[i]); }
    return s + "]";
}
template <class M> inline std::string mstr (const M& m, int N)
{
    std::string s = "[";
    for (int i = 0; i < N; ++i) for (int j = 0; j < N; ++j) { if (i || j) s += ","; s += vf::fmt (m[i][j]); }
    return s + "]";
}
template <class V> inline std::string vstr (const V& v, int N)
{
    std::string s = "[";
    for (int i = 0; i < N; ++i) { if (i) s += ","; s += vf::fmt (v[i]); }
    return s + "]";
}
template <class T> inline std::string mname (int N, const char* rest)
{
    char b[128]; snprintf (b, sizeof b, "Matrix%d%d%s%s", N, N, TN<T>::s (), rest); return b;
}
template <class T> inline std::string vname (int N, const char* rest)
{
    char b[128]; snprintf (b, sizeof b, "Vec%d%s%s", N, TN<T>::s (), rest); return b;
}
template <class T> inline std::string fname (const char* fn, int N, const char* rest)
{   // free function taking VecN: "outerProduct(Vec4f)..."
    char b[128]; snprintf (b, sizeof b, "%s(Vec%d%s)%s", fn, N, TN<T>::s (), rest); return b;
}

template <class T, int N> inline typename MT<T, N>::M mk (const int* a)
{
    typename MT<T, N>::M m;
    for (int i = 0; i < N; ++i) for (int j = 0; j < N; ++j) m[i][j] = (T) a[i * N + j];
    return m;
}
template <class T, int N> inline typename MT<T, N>::M mkv (const T* a)
{
    typename MT<T, N>::M m;
    for (int i = 0; i < N; ++i) for (int j = 0; j < N; ++j) m[i][j] = a[i * N + j];
    return m;
}
template <class T, int N> inline typename MT<T, N>::V mkvec (const int* a)
{
    typename MT<T, N>::V v;
    for (int i = 0; i < N; ++i) v[i] = (T) a[i];
    return v;
}
template <class T, int N> inline typename MT<T, N>::V mkvecv (const T* a)
{
    typename MT<T, N>::V v;
    for (int i = 0; i < N; ++i) v[i] = a[i];
    return v;
}
template <class M> inline bool bitsame (const M& a, const M& b, int N)
{
    for (int i = 0; i < N; ++i) for (int j = 0; j < N; ++j) if (!ex::same (a[i][j], b[i][j])) return false;
    return true;
}
template <class V> inline bool vbitsame (const V& a, const V& b, int N)
{
    for (int i = 0; i < N; ++i) if (!ex::same (a[i], b[i])) return false;
    return true;
}

// ============================================================================================
// exact checks on integer operands
// ============================================================================================

// --- matrix x matrix; all spellings --------------------------------------------------------
template <class T>
inline void extra_mul (const Matrix44<T>& A, const Matrix44<T>& B, const Matrix44<T>& C, Tally& t)
{
    Matrix44<T> E = Matrix44<T>::multiply (A, B);
    if (!bitsame (E, C, 4))
        R ().fail (mname<T> (4, "::multiply(a,b).vs-operator*"), "a=" + mstr (A, 4) + " b=" + mstr (B, 4), mstr (C, 4), mstr (E, 4));
    Matrix44<T> F ((T) 7);
    Matrix44<T>::multiply (A, B, F);
    if (!bitsame (F, C, 4))
        R ().fail (mname<T> (4, "::multiply(a,b,c).vs-operator*"), "a=" + mstr (A, 4) + " b=" + mstr (B, 4), mstr (C, 4), mstr (F, 4));
    t.tr += 2;
}
template <class T> inline void extra_mul (const Matrix33<T>&, const Matrix33<T>&, const Matrix33<T>&, Tally&) {}
template <class T> inline void extra_mul (const Matrix22<T>&, const Matrix22<T>&, const Matrix22<T>&, Tally&) {}

// operator*= and the static forms must be bitwise equal to operator*
template <class T, int N>
inline void check_mul_spellings (const typename MT<T, N>::M& A, const typename MT<T, N>::M& B, const typename MT<T, N>::M& C, Tally& t)
{
    typedef typename MT<T, N>::M M;
    M        D  = A;
    const M& rr = (D *= B);
    if (!bitsame (D, C, N) || &rr != &D)
        R ().fail (mname<T> (N, "::operator*=.vs-operator*"), "a=" + mstr (A, N) + " b=" + mstr (B, N), mstr (C, N), mstr (D, N));
    extra_mul (A, B, C, t);
    t.tr += 1;
}

template <class T, int N> inline void check_matmul (const int* a, const int* b, Tally& t)
{
    typedef typename MT<T, N>::M M;
    M    A = mk<T, N> (a), B = mk<T, N> (b);
    M    C = A * B;
    i64  ref[N * N];
    bool bad = false;
    for (int i = 0; i < N; ++i)
        for (int j = 0; j < N; ++j)
        {
            i64 s = 0;
            for (int k = 0; k < N; ++k) s += (i64) a[i * N + k] * b[k * N + j];
            ref[i * N + j] = s;
            if (!(C[i][j] == (T) s)) bad = true;
        }
    if (bad) R ().fail (mname<T> (N, "::operator*"), "a=" + ints (a, N * N) + " b=" + ints (b, N * N), ints (ref, N * N), mstr (C, N));
    check_mul_spellings<T, N> (A, B, C, t);
    t.st += 1;
    t.tr += 1;
}

// --- plain row-vector x matrix (VecN x MatrixNN) ---------------------------------------------
template <class T> inline void extra_dir22 (const Matrix22<T>& M, const Vec2<T>& v, const i64* ref, const int* vi, const int* mi, Tally& t)
{
    Vec2<T> d ((T) 9, (T) 9);
    M.multDirMatrix (v, d);
    if (!(d[0] == (T) ref[0] && d[1] == (T) ref[1]))
        R ().fail (mname<T> (2, "::multDirMatrix"), "v=" + ints (vi, 2) + " m=" + ints (mi, 4), ints (ref, 2), vstr (d, 2));
    t.tr += 1;
}
template <class T> inline void extra_dir22 (const Matrix33<T>&, const Vec3<T>&, const i64*, const int*, const int*, Tally&) {}
template <class T> inline void extra_dir22 (const Matrix44<T>&, const Vec4<T>&, const i64*, const int*, const int*, Tally&) {}

template <class T, int N> inline void check_vecmat (const int* v, const int* m, Tally& t)
{
    typedef typename MT<T, N>::M M;
    typedef typename MT<T, N>::V V;
    M    A = mk<T, N> (m);
    V    x = mkvec<T, N> (v);
    V    y = x * A;
    i64  ref[N];
    bool bad = false;
    for (int j = 0; j < N; ++j)
    {
        i64 s = 0;
        for (int k = 0; k < N; ++k) s += (i64) v[k] * m[k * N + j];
        ref[j] = s;
        if (!(y[j] == (T) s)) bad = true;
    }
    if (bad) R ().fail ("operator*(" + vname<T> (N, ",") + mname<T> (N, ")"), "v=" + ints (v, N) + " m=" + ints (m, N * N), ints (ref, N), vstr (y, N));
    V        z  = x;
    const V& rr = (z *= A);
    if (!vbitsame (z, y, N) || &rr != &z)
        R ().fail ("operator*=(" + vname<T> (N, ",") + mname<T> (N, ").vs-operator*"), "v=" + ints (v, N) + " m=" + ints (m, N * N), vstr (y, N), vstr (z, N));
    extra_dir22 (A, x, ref, v, m, t);
    t.st += 1;
    t.tr += 2;
}

// --- multDirMatrix on the (N-1)-vector with an NxN matrix: upper-left block only --------------
template <class T, int N> inline void check_dir (const int* v, const int* m, Tally& t)
{
    typedef typename MT<T, N>::M     M;
    typedef typename MT<T, N - 1>::V V;
    M A = mk<T, N> (m);
    V x = mkvec<T, N - 1> (v);
    V d;
    for (int i = 0; i < N - 1; ++i) d[i] = (T) 9;
    A.multDirMatrix (x, d);
    i64  ref[N - 1];
    bool bad = false;
    for (int j = 0; j < N - 1; ++j)
    {
        i64 s = 0;
        for (int k = 0; k < N - 1; ++k) s += (i64) v[k] * m[k * N + j];
        ref[j] = s;
        if (!(d[j] == (T) s)) bad = true;
    }
    if (bad) R ().fail (mname<T> (N, "::multDirMatrix"), "v=" + ints (v, N - 1) + " m=" + ints (m, N * N), ints (ref, N - 1), vstr (d, N - 1));
    t.st += 1;
    t.tr += 1;
}

// --- homogeneous forms: Vec(N-1) x MatrixNN, append 1, divide by the last coordinate ----------
struct HomogClasses { long long affine = 0, projective = 0, inexact = 0, wzero = 0, npot = 0; }; // npot: |w| is not a power of two and some quotient is not exact

template <class T, int N> inline void check_homog (const int* v, const int* m, Tally& t, HomogClasses& hc)
{
    typedef typename MT<T, N>::M     M;
    typedef typename MT<T, N - 1>::V V;
    i64 num[N];
    for (int j = 0; j < N; ++j)
    {
        i64 s = m[(N - 1) * N + j];
        for (int k = 0; k < N - 1; ++k) s += (i64) v[k] * m[k * N + j];
        num[j] = s;
    }
    i64 w = num[N - 1];
    if (w == 0) { ++hc.wzero; return; } // division by zero: outside the statement
    bool aff = true;
    for (int k = 0; k < N - 1; ++k) if (m[k * N + N - 1] != 0) aff = false;
    if (m[N * N - 1] != 1) aff = false;
    (aff ? hc.affine : hc.projective)++;
    M A = mk<T, N> (m);
    V x = mkvec<T, N - 1> (v);
    V ref;
    bool inexact = false;
    for (int j = 0; j < N - 1; ++j)
    {
        ref[j] = (T) num[j] / (T) w; // exact integers, one IEEE division = the rational rounded once
        if (num[j] % w) inexact = true;
    }
    if (inexact) ++hc.inexact;
    { i64 aw = w < 0 ? -w : w; if (inexact && (aw & (aw - 1))) ++hc.npot; } // the quotient is really rounded: x/w != x*(1/w) in general
    V y = x * A;
    bool bad = false;
    for (int j = 0; j < N - 1; ++j) if (!(y[j] == ref[j])) bad = true;
    std::string in;
    if (bad)
    {
        in = "v=" + ints (v, N - 1) + " m=" + ints (m, N * N) + " (exact numerators/w: " + ints (num, N) + ")";
        R ().fail ("operator*(" + vname<T> (N - 1, ",") + mname<T> (N, ")") + (aff ? "" : ".projective"), in, vstr (ref, N - 1), vstr (y, N - 1));
    }
    V        z  = x;
    const V& rr = (z *= A);
    if (!vbitsame (z, y, N - 1) || &rr != &z)
        R ().fail ("operator*=(" + vname<T> (N - 1, ",") + mname<T> (N, ").vs-operator*"), "v=" + ints (v, N - 1) + " m=" + ints (m, N * N), vstr (y, N - 1), vstr (z, N - 1));
    V d;
    for (int i = 0; i < N - 1; ++i) d[i] = (T) 9;
    A.multVecMatrix (x, d);
    if (!vbitsame (d, y, N - 1))
    {
        // decide which of the two disagrees with the definition
        bool dbad = false;
        for (int j = 0; j < N - 1; ++j) if (!(d[j] == ref[j])) dbad = true;
        in = "v=" + ints (v, N - 1) + " m=" + ints (m, N * N) + " (exact numerators/w: " + ints (num, N) + ")";
        if (dbad) R ().fail (mname<T> (N, "::multVecMatrix") + (aff ? "" : ".projective"), in, vstr (ref, N - 1), vstr (d, N - 1));
        else R ().fail (mname<T> (N, "::multVecMatrix.vs-operator*"), in, vstr (y, N - 1), vstr (d, N - 1));
    }
    t.st += 1;
    t.tr += 3;
}

// --- dot / cross, all spellings -----------------------------------------------------------------
template <class T, int N> inline void check_dot (const int* a, const int* b, Tally& t)
{
    typedef typename MT<T, N>::V V;
    V   x = mkvec<T, N> (a), y = mkvec<T, N> (b);
    i64 s = 0;
    for (int i = 0; i < N; ++i) s += (i64) a[i] * b[i];
    T d = x.dot (y), e = x ^ y;
    if (!(d == (T) s)) R ().fail (vname<T> (N, "::dot"), "a=" + ints (a, N) + " b=" + ints (b, N), std::to_string (s), vf::fmt (d));
    if (!ex::same (d, e)) R ().fail (vname<T> (N, "::operator^.vs-dot"), "a=" + ints (a, N) + " b=" + ints (b, N), vf::fmt (d), vf::fmt (e));
    t.st += 1;
    t.tr += 2;
}
template <class T> inline void check_cross2 (const int* a, const int* b, Tally& t)
{
    Vec2<T> x ((T) a[0], (T) a[1]), y ((T) b[0], (T) b[1]);
    i64     s = (i64) a[0] * b[1] - (i64) a[1] * b[0];
    T       c = x.cross (y), p = x % y;
    if (!(c == (T) s)) R ().fail (vname<T> (2, "::cross"), "a=" + ints (a, 2) + " b=" + ints (b, 2), std::to_string (s), vf::fmt (c));
    if (!ex::same (c, p)) R ().fail (vname<T> (2, "::operator%.vs-cross"), "a=" + ints (a, 2) + " b=" + ints (b, 2), vf::fmt (c), vf::fmt (p));
    t.st += 1;
    t.tr += 2;
}
template <class T> inline void check_cross3 (const int* a, const int* b, Tally& t)
{
    Vec3<T> x ((T) a[0], (T) a[1], (T) a[2]), y ((T) b[0], (T) b[1], (T) b[2]);
    // right-handed: (a x b)_i = a_{i+1} b_{i+2} - a_{i+2} b_{i+1}
    i64 ref[3];
    for (int i = 0; i < 3; ++i) ref[i] = (i64) a[(i + 1) % 3] * b[(i + 2) % 3] - (i64) a[(i + 2) % 3] * b[(i + 1) % 3];
    Vec3<T> c = x.cross (y), p = x % y, q = x;
    const Vec3<T>& rr = (q %= y);
    bool bad = false;
    for (int i = 0; i < 3; ++i) if (!(c[i] == (T) ref[i])) bad = true;
    if (bad) R ().fail (vname<T> (3, "::cross"), "a=" + ints (a, 3) + " b=" + ints (b, 3), ints (ref, 3), vstr (c, 3));
    if (!vbitsame (c, p, 3)) R ().fail (vname<T> (3, "::operator%.vs-cross"), "a=" + ints (a, 3) + " b=" + ints (b, 3), vstr (c, 3), vstr (p, 3));
    if (!vbitsame (c, q, 3) || &rr != &q) R ().fail (vname<T> (3, "::operator%=.vs-cross"), "a=" + ints (a, 3) + " b=" + ints (b, 3), vstr (c, 3), vstr (q, 3));
    t.st += 1;
    t.tr += 3;
}

// --- outer product ---------------------------------------------------------------------------
// The 4x4 overload of the current tree computes cells [1][3] and [2][3] as a.x*b.w (reading
// a.x where a.y / a.z is meant).  A failure with exactly that signature gets its own site; any
// other wrong cell, or a different wrong value in those cells, goes to the general site.
template <class T, int N> inline void check_outer (const int* a, const int* b, Tally& t)
{
    typedef typename MT<T, N>::V V;
    typedef typename MT<T, N>::M M;
    V   x = mkvec<T, N> (a), y = mkvec<T, N> (b);
    M   o = outerProduct (x, y);
    i64 ref[N * N];
    bool bad = false, sig = false;
    for (int i = 0; i < N; ++i)
        for (int j = 0; j < N; ++j)
        {
            ref[i * N + j] = (i64) a[i] * b[j];
            if (!(o[i][j] == (T) ref[i * N + j]))
            {
                if (N == 4 && j == 3 && (i == 1 || i == 2) && o[i][j] == (T) ((i64) a[0] * b[3])) sig = true;
                else bad = true;
            }
        }
    if (bad) R ().fail (fname<T> ("outerProduct", N, ""), "a=" + ints (a, N) + " b=" + ints (b, N), ints (ref, N * N), mstr (o, N));
    if (sig) R ().fail (fname<T> ("outerProduct", N, ".cells[1][3],[2][3]-read-a.x"), "a=" + ints (a, N) + " b=" + ints (b, N), ints (ref, N * N), mstr (o, N));
    t.st += 1;
    t.tr += 1;
}

inline std::atomic<long long>& quatdot_count () { static std::atomic<long long> n (0); return n; }

// --- quaternion product (Hamilton): (r1 r2 - v1.v2, r1 v2 + r2 v1 + v1 x v2) --------------------
template <class T> inline void check_quat (const int* a, const int* b, Tally& t)
{
    Quat<T> p ((T) a[0], (T) a[1], (T) a[2], (T) a[3]), q ((T) b[0], (T) b[1], (T) b[2], (T) b[3]);
    i64     ref[4];
    ref[0] = (i64) a[0] * b[0] - (i64) a[1] * b[1] - (i64) a[2] * b[2] - (i64) a[3] * b[3];
    for (int i = 0; i < 3; ++i)
        ref[1 + i] = (i64) a[0] * b[1 + i] + (i64) b[0] * a[1 + i] + (i64) a[1 + (i + 1) % 3] * b[1 + (i + 2) % 3] -
                     (i64) a[1 + (i + 2) % 3] * b[1 + (i + 1) % 3];
    Quat<T> c = p * q;
    T       cv[4] = {c.r, c.v.x, c.v.y, c.v.z};
    bool    bad = false;
    for (int i = 0; i < 4; ++i) if (!(cv[i] == (T) ref[i])) bad = true;
    if (bad) R ().fail (std::string ("operator*(Quat") + TN<T>::s () + ",Quat" + TN<T>::s () + ")", "a=" + ints (a, 4) + " b=" + ints (b, 4), ints (ref, 4), vals (cv, 4));
    Quat<T>        d  = p;
    const Quat<T>& rr = (d *= q);
    T              dv[4] = {d.r, d.v.x, d.v.y, d.v.z};
    bool           same = true;
    for (int i = 0; i < 4; ++i) if (!ex::same (dv[i], cv[i])) same = false;
    if (!same || &rr != &d)
        R ().fail (std::string ("Quat") + TN<T>::s () + "::operator*=.vs-operator*", "a=" + ints (a, 4) + " b=" + ints (b, 4), vals (cv, 4), vals (dv, 4));
    // 4-D dot product of two quaternions: operator^ and euclideanInnerProduct
    i64 dref = 0;
    for (int i = 0; i < 4; ++i) dref += (i64) a[i] * b[i];
    T dq = p ^ q, ei = p.euclideanInnerProduct (q);
    if (!(dq == (T) dref)) R ().fail (std::string ("operator^(Quat") + TN<T>::s () + ",Quat" + TN<T>::s () + ")", "a=" + ints (a, 4) + " b=" + ints (b, 4), std::to_string (dref), vf::fmt (dq));
    quatdot_count ().fetch_add (1, std::memory_order_relaxed);
    if (!(ei == (T) dref)) R ().fail (std::string ("Quat") + TN<T>::s () + "::euclideanInnerProduct", "a=" + ints (a, 4) + " b=" + ints (b, 4), std::to_string (dref), vf::fmt (ei));
    t.st += 1;
    t.tr += 4;
}

// --- transpose / trace -------------------------------------------------------------------------
template <class T, int N> inline void check_transpose_trace (const int* a, const typename MT<T, N>::M& A, Tally& t)
{
    typedef typename MT<T, N>::M M;
    M    At  = A.transposed ();
    bool bad = false;
    for (int i = 0; i < N; ++i) for (int j = 0; j < N; ++j) if (!ex::same (At[i][j], A[j][i])) bad = true;
    if (bad) R ().fail (mname<T> (N, "::transposed"), "a=" + ints (a, N * N), "a[j][i]", mstr (At, N));
    M        B  = A;
    const M& rr = B.transpose ();
    if (!bitsame (B, At, N) || &rr != &B) R ().fail (mname<T> (N, "::transpose.vs-transposed"), "a=" + ints (a, N * N), mstr (At, N), mstr (B, N));
    i64 tr = 0;
    for (int i = 0; i < N; ++i) tr += a[i * N + i];
    T g = A.trace ();
    if (!(g == (T) tr)) R ().fail (mname<T> (N, "::trace"), "a=" + ints (a, N * N), std::to_string (tr), vf::fmt (g));
    t.tr += 3;
}

// --- determinants, minors, cofactor expansion ----------------------------------------------
struct DetClasses { long long singular = 0, nonsingular = 0, lc_allzero = 0, lc_mixed = 0, lc_nozero = 0; unsigned lc_patterns = 0; };

template <int N> inline void exact_minors (const int* a, i64* minor, i64& det)
{
    i128 A[N * N], adj[N * N];
    for (int i = 0; i < N * N; ++i) A[i] = a[i];
    ex::adj_exact (A, N, adj);
    for (int r = 0; r < N; ++r)
        for (int c = 0; c < N; ++c)
        {
            i128 cof = adj[c * N + r];
            minor[r * N + c] = (i64) (((r + c) & 1) ? -cof : cof);
        }
    i128 d = 0;
    for (int j = 0; j < N; ++j) d += A[j] * adj[j * N + 0];
    det = (i64) d;
}

template <class T> inline T fast_minor_inc (const Matrix33<T>& A, int r, int c)
{
    int rr[2], cc[2], k = 0, l = 0;
    for (int i = 0; i < 3; ++i) { if (i != r) rr[k++] = i; if (i != c) cc[l++] = i; }
    return A.fastMinor (rr[0], rr[1], cc[0], cc[1]);
}
template <class T> inline T fast_minor_inc (const Matrix44<T>& A, int r, int c)
{
    int rr[3], cc[3], k = 0, l = 0;
    for (int i = 0; i < 4; ++i) { if (i != r) rr[k++] = i; if (i != c) cc[l++] = i; }
    return A.fastMinor (rr[0], rr[1], rr[2], cc[0], cc[1], cc[2]);
}

// N = 3, 4
template <class T, int N> inline void check_det (const int* a, Tally& t, DetClasses& dc)
{
    typedef typename MT<T, N>::M M;
    M   A = mk<T, N> (a);
    i64 minor[N * N], det;
    exact_minors<N> (a, minor, det);
    (det == 0 ? dc.singular : dc.nonsingular)++;
    if (N == 4)
    {
        unsigned pat = 0;
        for (int i = 0; i < 4; ++i) if (a[i * 4 + 3] != 0) pat |= 1u << i;
        dc.lc_patterns |= 1u << pat;
        if (pat == 0) ++dc.lc_allzero; else if (pat == 15) ++dc.lc_nozero; else ++dc.lc_mixed;
    }
    T d = A.determinant ();
    if (!(d == (T) det)) R ().fail (mname<T> (N, "::determinant"), "a=" + ints (a, N * N), std::to_string (det), vf::fmt (d));
    T mo[N * N];
    for (int r = 0; r < N; ++r)
        for (int c = 0; c < N; ++c)
        {
            T m = mo[r * N + c] = A.minorOf (r, c);
            if (!(m == (T) minor[r * N + c]))
                R ().fail (mname<T> (N, "::minorOf"), "a=" + ints (a, N * N) + " r=" + std::to_string (r) + " c=" + std::to_string (c), std::to_string (minor[r * N + c]), vf::fmt (m));
            T f = fast_minor_inc (A, r, c);
            if (!(f == (T) minor[r * N + c]))
                R ().fail (mname<T> (N, "::fastMinor"), "a=" + ints (a, N * N) + " complement-of r=" + std::to_string (r) + " c=" + std::to_string (c), std::to_string (minor[r * N + c]), vf::fmt (f));
        }
    // cofactor expansion by the library's own minorOf, evaluated in T (exact on these operands),
    // along every row and every column, reproduces the determinant
    for (int i = 0; i < N; ++i)
    {
        T rs = 0, cs = 0;
        for (int j = 0; j < N; ++j)
        {
            T sg = ((i + j) & 1) ? (T) -1 : (T) 1;
            rs += sg * A[i][j] * mo[i * N + j];
            cs += sg * A[j][i] * mo[j * N + i];
        }
        if (!(rs == (T) det)) R ().fail (mname<T> (N, "::minorOf.cofactor-expansion-row"), "a=" + ints (a, N * N) + " row=" + std::to_string (i), std::to_string (det), vf::fmt (rs));
        if (!(cs == (T) det)) R ().fail (mname<T> (N, "::minorOf.cofactor-expansion-column"), "a=" + ints (a, N * N) + " col=" + std::to_string (i), std::to_string (det), vf::fmt (cs));
    }
    T dt = A.transposed ().determinant ();
    if (!(dt == (T) det)) R ().fail (mname<T> (N, "::determinant.of-transpose"), "a=" + ints (a, N * N), std::to_string (det), vf::fmt (dt));
    check_transpose_trace<T, N> (a, A, t);
    t.st += 1;
    t.tr += 2 + 2 * N * N + 2 * N;
}

template <class T> inline void check_det2 (const int* a, Tally& t, DetClasses& dc)
{
    Matrix22<T> A   = mk<T, 2> (a);
    i64         det = (i64) a[0] * a[3] - (i64) a[1] * a[2];
    (det == 0 ? dc.singular : dc.nonsingular)++;
    T d = A.determinant ();
    if (!(d == (T) det)) R ().fail (mname<T> (2, "::determinant"), "a=" + ints (a, 4), std::to_string (det), vf::fmt (d));
    T dt = A.transposed ().determinant ();
    if (!(dt == (T) det)) R ().fail (mname<T> (2, "::determinant.of-transpose"), "a=" + ints (a, 4), std::to_string (det), vf::fmt (dt));
    check_transpose_trace<T, 2> (a, A, t);
    t.st += 1;
    t.tr += 2;
}

// every index tuple of fastMinor (repeated and permuted indices included) against the exact
// determinant of the selected rows/columns
template <class T> inline void check_fastminor_tuples (const int* a, const Matrix33<T>& A, Tally& t)
{
    for (int idx = 0; idx < 81; ++idx)
    {
        int d[4];
        ex::decode ((uint64_t) idx, 3, 4, d);
        i64 ref = (i64) a[d[0] * 3 + d[2]] * a[d[1] * 3 + d[3]] - (i64) a[d[0] * 3 + d[3]] * a[d[1] * 3 + d[2]];
        T   f   = A.fastMinor (d[0], d[1], d[2], d[3]);
        if (!(f == (T) ref)) R ().fail (mname<T> (3, "::fastMinor.index-tuple"), "a=" + ints (a, 9) + " (r0,r1,c0,c1)=" + ints (d, 4), std::to_string (ref), vf::fmt (f));
    }
    t.tr += 81;
}
template <class T> inline void check_fastminor_tuples (const int* a, const Matrix44<T>& A, Tally& t)
{
    for (int idx = 0; idx < 4096; ++idx)
    {
        int d[6];
        ex::decode ((uint64_t) idx, 4, 6, d);
        i128 sub[9];
        for (int i = 0; i < 3; ++i) for (int j = 0; j < 3; ++j) sub[i * 3 + j] = a[d[i] * 4 + d[3 + j]];
        i64 ref = (i64) ex::det_exact (sub, 3);
        T   f   = A.fastMinor (d[0], d[1], d[2], d[3], d[4], d[5]);
        if (!(f == (T) ref)) R ().fail (mname<T> (4, "::fastMinor.index-tuple"), "a=" + ints (a, 16) + " (r0,r1,r2,c0,c1,c2)=" + ints (d, 6), std::to_string (ref), vf::fmt (f));
    }
    t.tr += 4096;
}

// det(AB) = det A det B (all three evaluated by the library, exactly, and equal to the exact value)
template <class T, int N> inline void check_detprod (const int* a, const int* b, Tally& t)
{
    typedef typename MT<T, N>::M M;
    M    A = mk<T, N> (a), B = mk<T, N> (b);
    i128 IA[N * N], IB[N * N];
    for (int i = 0; i < N * N; ++i) { IA[i] = a[i]; IB[i] = b[i]; }
    i64 want = (i64) (ex::det_exact (IA, N) * ex::det_exact (IB, N));
    T   dab  = (A * B).determinant ();
    T   dd   = A.determinant () * B.determinant ();
    if (!(dab == (T) want) || !(dd == (T) want))
        R ().fail (mname<T> (N, "::determinant.of-product"), "a=" + ints (a, N * N) + " b=" + ints (b, N * N),
                   std::to_string (want), "det(a*b)=" + vf::fmt (dab) + " det(a)*det(b)=" + vf::fmt (dd));
    t.st += 1;
    t.tr += 3;
}

// ============================================================================================
// rounding-bound checks on non-lattice operands (T values), reference in long double
// ============================================================================================
template <class T> inline bool within (T got, ld ref, ld bound) { return fabsl ((ld) got - ref) <= bound; } // false for NaN

template <class T, int N> inline void rnd_matmul (const T* a, const T* b, Tally& t, double& worst)
{
    typedef typename MT<T, N>::M M;
    M A = mkv<T, N> (a), B = mkv<T, N> (b), C = A * B;
    for (int i = 0; i < N; ++i)
        for (int j = 0; j < N; ++j)
        {
            ld s = 0, S = 0;
            for (int k = 0; k < N; ++k) { ld p = (ld) a[i * N + k] * (ld) b[k * N + j]; s += p; S += fabsl (p); }
            ld bound = (N + 1) * ex::eps<T> () * S;
            if (!within (C[i][j], s, bound))
                R ().fail (mname<T> (N, "::operator*.rounding"), "a=" + vals (a, N * N) + " b=" + vals (b, N * N) + " cell=" + std::to_string (i) + "," + std::to_string (j),
                           vf::fmt (s) + " +- " + vf::fmt (bound), vf::fmt (C[i][j]));
            else if (S > 0) worst = std::max (worst, (double) (fabsl ((ld) C[i][j] - s) / bound));
        }
    check_mul_spellings<T, N> (A, B, C, t);
    t.st += 1;
    t.tr += 1;
}

template <class T, int N> inline void rnd_vecmat (const T* v, const T* m, Tally& t, double& worst)
{
    typedef typename MT<T, N>::M M;
    typedef typename MT<T, N>::V V;
    M A = mkv<T, N> (m);
    V x = mkvecv<T, N> (v), y = x * A, z = x;
    z *= A;
    for (int j = 0; j < N; ++j)
    {
        ld s = 0, S = 0;
        for (int k = 0; k < N; ++k) { ld p = (ld) v[k] * (ld) m[k * N + j]; s += p; S += fabsl (p); }
        ld bound = (N + 1) * ex::eps<T> () * S;
        if (!within (y[j], s, bound))
            R ().fail ("operator*(" + vname<T> (N, ",") + mname<T> (N, ").rounding"), "v=" + vals (v, N) + " m=" + vals (m, N * N), vf::fmt (s) + " +- " + vf::fmt (bound), vf::fmt (y[j]));
        else if (S > 0) worst = std::max (worst, (double) (fabsl ((ld) y[j] - s) / bound));
    }
    if (!vbitsame (z, y, N)) R ().fail ("operator*=(" + vname<T> (N, ",") + mname<T> (N, ").vs-operator*"), "v=" + vals (v, N) + " m=" + vals (m, N * N), vstr (y, N), vstr (z, N));
    t.st += 1;
    t.tr += 2;
}

// homogeneous: numerator a_j and w are N-term sums (N-1 products and the translation entry), so
// |a^ - a| <= g*Sa, |w^ - w| <= g*Sw with g = gamma_N <= (N+1)/2*eps; the quotient is rounded once.
// Provided (N+1)*eps*Sw <= 1e-3*|w| (predicate on the input; otherwise the case is skipped and
// counted) |w^| >= 0.999|w| and
//   |fl(a^/w^) - a/w| <= 1.002*[ g*(Sa + |a/w|*Sw)/|w| + eps/2*|a/w| ]
//                     <= (N+1)*eps*(Sa + |a/w|*Sw)/|w| + eps*|a/w|            =: bound
template <class T, int N> inline void rnd_homog (const T* v, const T* m, Tally& t, double& worst, long long& skipped)
{
    typedef typename MT<T, N>::M     M;
    typedef typename MT<T, N - 1>::V V;
    ld num[N], S[N];
    for (int j = 0; j < N; ++j)
    {
        ld s = (ld) m[(N - 1) * N + j], a = fabsl (s);
        for (int k = 0; k < N - 1; ++k) { ld p = (ld) v[k] * (ld) m[k * N + j]; s += p; a += fabsl (p); }
        num[j] = s; S[j] = a;
    }
    ld w = num[N - 1], Sw = S[N - 1];
    if (!((N + 1) * ex::eps<T> () * Sw <= 1e-3L * fabsl (w))) { ++skipped; return; }
    M A = mkv<T, N> (m);
    V x = mkvecv<T, N - 1> (v), y = x * A, z = x, d;
    z *= A;
    A.multVecMatrix (x, d);
    for (int j = 0; j < N - 1; ++j)
    {
        ld q     = num[j] / w;
        ld bound = (N + 1) * ex::eps<T> () * (S[j] + fabsl (q) * Sw) / fabsl (w) + ex::eps<T> () * fabsl (q);
        if (!within (y[j], q, bound))
            R ().fail ("operator*(" + vname<T> (N - 1, ",") + mname<T> (N, ").rounding"), "v=" + vals (v, N - 1) + " m=" + vals (m, N * N), vf::fmt (q) + " +- " + vf::fmt (bound), vf::fmt (y[j]));
        else worst = std::max (worst, (double) (fabsl ((ld) y[j] - q) / bound));
    }
    if (!vbitsame (z, y, N - 1)) R ().fail ("operator*=(" + vname<T> (N - 1, ",") + mname<T> (N, ").vs-operator*"), "v=" + vals (v, N - 1) + " m=" + vals (m, N * N), vstr (y, N - 1), vstr (z, N - 1));
    if (!vbitsame (d, y, N - 1)) R ().fail (mname<T> (N, "::multVecMatrix.vs-operator*"), "v=" + vals (v, N - 1) + " m=" + vals (m, N * N), vstr (y, N - 1), vstr (d, N - 1));
    // multDirMatrix: (N-1)-term sums
    V dd;
    A.multDirMatrix (x, dd);
    for (int j = 0; j < N - 1; ++j)
    {
        ld s = 0, a = 0;
        for (int k = 0; k < N - 1; ++k) { ld p = (ld) v[k] * (ld) m[k * N + j]; s += p; a += fabsl (p); }
        ld bound = N * ex::eps<T> () * a;
        if (!within (dd[j], s, bound))
            R ().fail (mname<T> (N, "::multDirMatrix.rounding"), "v=" + vals (v, N - 1) + " m=" + vals (m, N * N), vf::fmt (s) + " +- " + vf::fmt (bound), vf::fmt (dd[j]));
    }
    t.st += 1;
    t.tr += 4;
}

template <class T, int N> inline void rnd_dot (const T* a, const T* b, Tally& t, double& worst)
{
    typedef typename MT<T, N>::V V;
    V  x = mkvecv<T, N> (a), y = mkvecv<T, N> (b);
    ld s = 0, S = 0;
    for (int i = 0; i < N; ++i) { ld p = (ld) a[i] * (ld) b[i]; s += p; S += fabsl (p); }
    ld bound = (N + 1) * ex::eps<T> () * S;
    T  d     = x.dot (y), e = x ^ y;
    if (!within (d, s, bound)) R ().fail (vname<T> (N, "::dot.rounding"), "a=" + vals (a, N) + " b=" + vals (b, N), vf::fmt (s) + " +- " + vf::fmt (bound), vf::fmt (d));
    else worst = std::max (worst, (double) (fabsl ((ld) d - s) / bound));
    if (!ex::same (d, e)) R ().fail (vname<T> (N, "::operator^.vs-dot"), "a=" + vals (a, N) + " b=" + vals (b, N), vf::fmt (d), vf::fmt (e));
    t.st += 1;
    t.tr += 2;
}

template <class T> inline void rnd_cross (const T* a, const T* b, Tally& t, double& worst)
{
    Vec3<T> x (a[0], a[1], a[2]), y (b[0], b[1], b[2]), c = x.cross (y), p = x % y, q = x;
    q %= y;
    for (int i = 0; i < 3; ++i)
    {
        ld p1 = (ld) a[(i + 1) % 3] * (ld) b[(i + 2) % 3], p2 = (ld) a[(i + 2) % 3] * (ld) b[(i + 1) % 3];
        ld bound = 3 * ex::eps<T> () * (fabsl (p1) + fabsl (p2));
        if (!within (c[i], p1 - p2, bound)) R ().fail (vname<T> (3, "::cross.rounding"), "a=" + vals (a, 3) + " b=" + vals (b, 3), vf::fmt (p1 - p2) + " +- " + vf::fmt (bound), vf::fmt (c[i]));
        else worst = std::max (worst, (double) (fabsl ((ld) c[i] - (p1 - p2)) / bound));
    }
    if (!vbitsame (c, p, 3)) R ().fail (vname<T> (3, "::operator%.vs-cross"), "a=" + vals (a, 3) + " b=" + vals (b, 3), vstr (c, 3), vstr (p, 3));
    if (!vbitsame (c, q, 3)) R ().fail (vname<T> (3, "::operator%=.vs-cross"), "a=" + vals (a, 3) + " b=" + vals (b, 3), vstr (c, 3), vstr (q, 3));
    Vec2<T> x2 (a[0], a[1]), y2 (b[0], b[1]);
    ld      p1 = (ld) a[0] * (ld) b[1], p2 = (ld) a[1] * (ld) b[0], bound = 3 * ex::eps<T> () * (fabsl (p1) + fabsl (p2));
    T       c2 = x2.cross (y2), m2 = x2 % y2;
    if (!within (c2, p1 - p2, bound)) R ().fail (vname<T> (2, "::cross.rounding"), "a=" + vals (a, 2) + " b=" + vals (b, 2), vf::fmt (p1 - p2) + " +- " + vf::fmt (bound), vf::fmt (c2));
    if (!ex::same (c2, m2)) R ().fail (vname<T> (2, "::operator%.vs-cross"), "a=" + vals (a, 2) + " b=" + vals (b, 2), vf::fmt (c2), vf::fmt (m2));
    t.st += 1;
    t.tr += 5;
}

template <class T, int N> inline void rnd_outer (const T* a, const T* b, Tally& t)
{
    typedef typename MT<T, N>::V V;
    typedef typename MT<T, N>::M M;
    V    x = mkvecv<T, N> (a), y = mkvecv<T, N> (b);
    M    o = outerProduct (x, y);
    bool bad = false, sig = false;
    for (int i = 0; i < N; ++i)
        for (int j = 0; j < N; ++j)
        {
            ld p = (ld) a[i] * (ld) b[j];
            if (!within (o[i][j], p, 2 * ex::eps<T> () * fabsl (p)))
            {
                if (N == 4 && j == 3 && (i == 1 || i == 2) && o[i][j] == a[0] * b[3]) sig = true;
                else bad = true;
            }
        }
    if (bad) R ().fail (fname<T> ("outerProduct", N, ".rounding"), "a=" + vals (a, N) + " b=" + vals (b, N), "a[i]*b[j] within 2 eps", mstr (o, N));
    if (sig) R ().fail (fname<T> ("outerProduct", N, ".cells[1][3],[2][3]-read-a.x"), "a=" + vals (a, N) + " b=" + vals (b, N), "a[i]*b[j] within 2 eps", mstr (o, N));
    t.st += 1;
    t.tr += 1;
}

// each component is a sum of four products; a term passes through one multiplication and at most
// three additions/subtractions whatever the grouping, so R = 4
template <class T> inline void rnd_quat (const T* a, const T* b, Tally& t, double& worst)
{
    Quat<T> p (a[0], a[1], a[2], a[3]), q (b[0], b[1], b[2], b[3]), c = p * q, d = p;
    d *= q;
    T  cv[4] = {c.r, c.v.x, c.v.y, c.v.z}, dv[4] = {d.r, d.v.x, d.v.y, d.v.z};
    ld tm[4][4];
    tm[0][0] = (ld) a[0] * b[0]; tm[0][1] = -(ld) a[1] * b[1]; tm[0][2] = -(ld) a[2] * b[2]; tm[0][3] = -(ld) a[3] * b[3];
    for (int i = 0; i < 3; ++i)
    {
        tm[1 + i][0] = (ld) a[0] * b[1 + i];
        tm[1 + i][1] = (ld) b[0] * a[1 + i];
        tm[1 + i][2] = (ld) a[1 + (i + 1) % 3] * b[1 + (i + 2) % 3];
        tm[1 + i][3] = -(ld) a[1 + (i + 2) % 3] * b[1 + (i + 1) % 3];
    }
    for (int i = 0; i < 4; ++i)
    {
        ld s = 0, S = 0;
        for (int k = 0; k < 4; ++k) { s += tm[i][k]; S += fabsl (tm[i][k]); }
        ld bound = 5 * ex::eps<T> () * S;
        if (!within (cv[i], s, bound))
            R ().fail (std::string ("operator*(Quat") + TN<T>::s () + ",Quat" + TN<T>::s () + ").rounding", "a=" + vals (a, 4) + " b=" + vals (b, 4), vf::fmt (s) + " +- " + vf::fmt (bound), vf::fmt (cv[i]));
        else worst = std::max (worst, (double) (fabsl ((ld) cv[i] - s) / bound));
        if (!ex::same (cv[i], dv[i]))
            R ().fail (std::string ("Quat") + TN<T>::s () + "::operator*=.vs-operator*", "a=" + vals (a, 4) + " b=" + vals (b, 4), vals (cv, 4), vals (dv, 4));
    }
    {   // 4-D dot: a 4-term inner product, R = 4
        ld s = 0, S = 0;
        for (int i = 0; i < 4; ++i) { ld pr = (ld) a[i] * (ld) b[i]; s += pr; S += fabsl (pr); }
        ld bound = 5 * ex::eps<T> () * S;
        T  dq = p ^ q, ei = p.euclideanInnerProduct (q);
        if (!within (dq, s, bound)) R ().fail (std::string ("operator^(Quat") + TN<T>::s () + ",Quat" + TN<T>::s () + ").rounding", "a=" + vals (a, 4) + " b=" + vals (b, 4), vf::fmt (s) + " +- " + vf::fmt (bound), vf::fmt (dq));
        else worst = std::max (worst, (double) (fabsl ((ld) dq - s) / bound));
        if (!within (ei, s, bound)) R ().fail (std::string ("Quat") + TN<T>::s () + "::euclideanInnerProduct.rounding", "a=" + vals (a, 4) + " b=" + vals (b, 4), vf::fmt (s) + " +- " + vf::fmt (bound), vf::fmt (ei));
    }
    t.st += 1;
    t.tr += 4;
}

// determinant by the Leibniz sum over permutations: value and sum of |terms|
template <int N> inline void leibniz (const ld* a, const int* rows, const int* cols, ld& s, ld& S)
{
    int p[N];
    for (int i = 0; i < N; ++i) p[i] = i;
    s = S = 0;
    do
    {
        int inv = 0;
        for (int i = 0; i < N; ++i) for (int j = i + 1; j < N; ++j) if (p[i] > p[j]) ++inv;
        ld term = 1;
        for (int i = 0; i < N; ++i) term *= a[rows[i] * 4 + cols[p[i]]]; // a is stored with stride 4
        s += (inv & 1) ? -term : term;
        S += fabsl (term);
    } while (std::next_permutation (p, p + N));
}

// Roundings any single Leibniz term can pass through in a cofactor-style evaluation:
//   2x2: product, subtraction                                          R = 2
//   3x3: product, subtraction, product with the row entry, 2 additions R = 5
//   4x4: a 3x3 minor (5), product with the column entry, 4 additions   R = 10
template <class T> inline void rnd_det_minors (const Matrix22<T>&, const ld*, const std::string&, Tally&, double&) {}
template <class T> inline void rnd_det_minors (const Matrix33<T>& A, const ld* a, const std::string& in, Tally& t, double& worst)
{
    for (int r = 0; r < 3; ++r)
        for (int c = 0; c < 3; ++c)
        {
            int rr[2], cc[2], k = 0, l = 0;
            for (int i = 0; i < 3; ++i) { if (i != r) rr[k++] = i; if (i != c) cc[l++] = i; }
            ld s, S;
            leibniz<2> (a, rr, cc, s, S);
            ld bound = 3 * ex::eps<T> () * S;
            T  m = A.minorOf (r, c), f = A.fastMinor (rr[0], rr[1], cc[0], cc[1]);
            if (!within (m, s, bound)) R ().fail (mname<T> (3, "::minorOf.rounding"), in + " r=" + std::to_string (r) + " c=" + std::to_string (c), vf::fmt (s) + " +- " + vf::fmt (bound), vf::fmt (m));
            else worst = std::max (worst, (double) (fabsl ((ld) m - s) / bound));
            if (!within (f, s, bound)) R ().fail (mname<T> (3, "::fastMinor.rounding"), in + " r=" + std::to_string (r) + " c=" + std::to_string (c), vf::fmt (s) + " +- " + vf::fmt (bound), vf::fmt (f));
        }
    t.tr += 18;
}
template <class T> inline void rnd_det_minors (const Matrix44<T>& A, const ld* a, const std::string& in, Tally& t, double& worst)
{
    for (int r = 0; r < 4; ++r)
        for (int c = 0; c < 4; ++c)
        {
            int rr[3], cc[3], k = 0, l = 0;
            for (int i = 0; i < 4; ++i) { if (i != r) rr[k++] = i; if (i != c) cc[l++] = i; }
            ld s, S;
            leibniz<3> (a, rr, cc, s, S);
            ld bound = 6 * ex::eps<T> () * S;
            T  m = A.minorOf (r, c), f = A.fastMinor (rr[0], rr[1], rr[2], cc[0], cc[1], cc[2]);
            if (!within (m, s, bound)) R ().fail (mname<T> (4, "::minorOf.rounding"), in + " r=" + std::to_string (r) + " c=" + std::to_string (c), vf::fmt (s) + " +- " + vf::fmt (bound), vf::fmt (m));
            else worst = std::max (worst, (double) (fabsl ((ld) m - s) / bound));
            if (!within (f, s, bound)) R ().fail (mname<T> (4, "::fastMinor.rounding"), in + " r=" + std::to_string (r) + " c=" + std::to_string (c), vf::fmt (s) + " +- " + vf::fmt (bound), vf::fmt (f));
        }
    t.tr += 32;
}

template <class T, int N> inline void rnd_det (const T* m, Tally& t, double& worst)
{
    typedef typename MT<T, N>::M M;
    M  A = mkv<T, N> (m);
    ld a[16];
    for (int i = 0; i < N; ++i) for (int j = 0; j < N; ++j) a[i * 4 + j] = (ld) m[i * N + j];
    int id[4] = {0, 1, 2, 3};
    ld  s, S;
    leibniz<N> (a, id, id, s, S);
    const int Rn    = N == 2 ? 2 : (N == 3 ? 5 : 10);
    ld        bound = (Rn + 1) * ex::eps<T> () * S;
    T         d = A.determinant (), dt = A.transposed ().determinant ();
    std::string in;
    if (!within (d, s, bound)) { in = "a=" + vals (m, N * N); R ().fail (mname<T> (N, "::determinant.rounding"), in, vf::fmt (s) + " +- " + vf::fmt (bound), vf::fmt (d)); }
    else worst = std::max (worst, (double) (fabsl ((ld) d - s) / bound));
    if (!within (dt, s, bound)) { in = "a=" + vals (m, N * N); R ().fail (mname<T> (N, "::determinant.of-transpose.rounding"), in, vf::fmt (s) + " +- " + vf::fmt (bound), vf::fmt (dt)); }
    in = "a=" + vals (m, N * N);
    rnd_det_minors (A, a, in, t, worst);
    t.st += 1;
    t.tr += 2;
}

// ---- entry points (one explicit instantiation per scalar type, in its own TU) ------------------
template <class T> void run_exact ();      // basis, lattice, primes, sparsity, homogeneous
template <class T> void run_det ();        // determinants / minors / transposes / det of products
template <class T> void run_rounding ();   // graded non-lattice operands vs long double
template <class T> void run_mixed ();      // Vec<S> x Matrix<T>, S != T (c05_mixed.hpp)
void run_intvec ();                        // dot / cross of the integer and half vector instantiations (c05_intvec.cpp)

} // namespace c05
